(* Lifecycle.v — mirror model of the start / evaluate / stop lifecycle of a TREE of graphs
   (property C14):
     src/hgraph/runtime/graph.cpp     start_impl (loop, node_start_failed guard, rollback guard,
                                      graph_start_failed guard), stop_impl (reverse loop under a
                                      FirstExceptionRecorder, started:=false regardless),
                                      evaluate_impl (before/after notifications on every path),
                                      rethrow_with_node_identity (root boundary only)
     src/hgraph/runtime/node.cpp      start_impl (started:=true after the user hook; activation
                                      rollback), stop_impl (mark_stopped always), evaluate_impl
                                      (a node that is not started is skipped)
     src/hgraph/runtime/nested_graph_node.cpp  single_nested_graph_start / _stop / _evaluate
     src/hgraph/runtime/executor.cpp  run_storage (start; UnwindCleanupGuard stop_graph with
                                      cleanup_on_error; complete()), ~SimulationExecutorStorage
     include/hgraph/util/scope.h      UnwindCleanupGuard (swallows on unwind), FirstExceptionRecorder
   A node is plain (user hooks that may throw) or owns a child graph.  Faults come from an
   arbitrary plan  path -> phase -> occurrence -> bool.  Every function returns the list of
   LifecycleObserver notifications (and user-hook invocations) it causes, in order.
   The second half is the executable acceptor [lifecycle_ok] over an event log.
   Executable definitions only; the theorems are in LifecycleFacts.v. *)
Require Import Base.

Definition path := list nat.

Inductive phase := PStart | PEval | PStop.

Definition plan := path -> phase -> nat -> bool.       (* node, phase, k-th invocation of that hook *)
Definition stopplan := path -> nat -> bool.            (* node requests stop in its k-th evaluation *)

(* notifications of runtime/lifecycle_observer.h, plus the user hooks of plain nodes *)
Inductive ekind :=
| BSG | ASG | SGF            (* before / after start graph, start graph failed *)
| BSN | ASN | SNF            (* before / after start node, start node failed *)
| BGE | AGE | BEN | AEN      (* before / after graph evaluation, node evaluation *)
| BPN | APN | PNF            (* before / after stop node, stop node failed *)
| BPG | APG | PGF            (* before / after stop graph, stop graph failed *)
| HS | HE | HP.              (* user start / evaluate / stop hook entered (k-th time) *)

Record event := Ev { e_kind : ekind; e_time : Z; e_path : path; e_k : nat }.

Inductive exn :=
| XFault (p : path) (ph : phase) (k : nat)    (* the user hook of node p threw *)
| XLogic                                       (* "Graph must be started before evaluation" *)
| XTimes.                                      (* validate_times: end_time <= start_time *)

(* an exception in flight; [f_note] is the prefix added by rethrow_with_node_identity at the
   root boundary: (root node index, phase word) *)
Record failure := Fail { f_exn : exn; f_note : option (nat * phase) }.

Definition annotate (root : bool) (i : nat) (ph : phase) (f : failure) : failure :=
  if root then Fail (f_exn f) (Some (i, ph)) else f.

Definition is_some {A} (o : option A) : bool := match o with Some _ => true | None => false end.
Definition first_of {A} (a b : option A) : option A := match a with Some _ => a | None => b end.
Definition opt_ev {A} (o : option A) (e : event) : list event := match o with Some _ => [e] | None => [] end.

(* ---- state: the tree of graphs with the flags the code keeps ---- *)
Inductive node :=
| Plain (period : Z) (started : bool) (next : Z) (cs ce cp : nat)
    (* NodeRuntimeStorage.started, the node's graph-schedule slot, hook invocation counters *)
| Nest (started : bool) (gstarted : bool) (gtime : Z) (children : list node).
    (* the nested node's own started flag; the child graph's started flag and evaluation_time *)

Definition node_started (n : node) : bool :=
  match n with Plain _ s _ _ _ _ => s | Nest s _ _ _ => s end.

Definition nres := (node * list event * option failure)%type.

(* ================= graph-level loops, generic in the per-node operation ================= *)

(* graph.cpp stop_impl: for index = n .. 1: capture { before; node.stop; (failed); after }.
   Written as recursion that handles the tail first, so nodes are visited in reverse order. *)
Section Loops.
(* the per-node operations are section variables so that the loops are [fun f => fix ...]:
   the tree recursions below pass themselves in (the way [map] is used over rose trees) *)
Variables start1 stop1 eval1 : path -> Z -> node -> nres.
Variable due1 : Z -> node -> bool.
Variable root : bool.
Variable gp : path.
Variable t : Z.

Fixpoint stop_loop (i : nat) (l : list node) : list node * list event * option failure :=
  match l with
  | [] => ([], [], None)
  | c :: r =>
      let '(r', ev1, f1) := stop_loop (S i) r in
      let p := gp ++ [i] in
      let '(c', ev2, f2) := stop1 p t c in
      (c' :: r',
       ev1 ++ [Ev BPN t p 0] ++ ev2 ++ opt_ev f2 (Ev PNF t p 0) ++ [Ev APN t p 0],
       first_of f1 (option_map (annotate root i PStop) f2))
  end.


(* graph.cpp start_impl.  The rollback guard (stop the started prefix in reverse; the loop is
   inside an UnwindCleanupGuard, so the first stop that throws ends the rollback and is
   swallowed) is written as the unwinding of the recursion: the result carries the failure in
   flight and whether the rollback has been aborted. *)
Fixpoint start_loop (i : nat) (l : list node) : list node * list event * option (failure * bool) :=
  match l with
  | [] => ([], [], None)
  | c :: r =>
      let p := gp ++ [i] in
      let '(c1, ev1, f1) := start1 p t c in
      match f1 with
      | Some f => (c1 :: r, [Ev BSN t p 0] ++ ev1 ++ [Ev SNF t p 0], Some (annotate root i PStart f, false))
      | None =>
          let '(r', ev2, f2) := start_loop (S i) r in
          match f2 with
          | None => (c1 :: r', [Ev BSN t p 0] ++ ev1 ++ [Ev ASN t p 0] ++ ev2, None)
          | Some (f, true) => (c1 :: r', [Ev BSN t p 0] ++ ev1 ++ [Ev ASN t p 0] ++ ev2, Some (f, true))
          | Some (f, false) =>
              let '(c2, ev3, f3) := stop1 p t c1 in
              (c2 :: r',
               [Ev BSN t p 0] ++ ev1 ++ [Ev ASN t p 0] ++ ev2 ++
               [Ev BPN t p 0] ++ ev3 ++ opt_ev f3 (Ev PNF t p 0) ++ [Ev APN t p 0],
               Some (f, is_some f3))
          end
      end
  end.

(* graph.cpp evaluate_impl: nodes whose schedule slot equals the evaluation time, in order;
   "after node evaluation" and "after graph evaluation" fire on the throwing path too *)
Fixpoint eval_loop (i : nat) (l : list node) : list node * list event * option failure :=
  match l with
  | [] => ([], [], None)
  | c :: r =>
      let p := gp ++ [i] in
      if due1 t c then
        let '(c1, ev1, f1) := eval1 p t c in
        match f1 with
        | Some f => (c1 :: r, [Ev BEN t p 0] ++ ev1 ++ [Ev AEN t p 0], Some (annotate root i PEval f))
        | None =>
            let '(r', ev2, f2) := eval_loop (S i) r in
            (c1 :: r', [Ev BEN t p 0] ++ ev1 ++ [Ev AEN t p 0] ++ ev2, f2)
        end
      else
        let '(r', ev2, f2) := eval_loop (S i) r in
        (c :: r', ev2, f2)
  end.

End Loops.

Definition gres := (bool * Z * list node * list event * option failure)%type.

Definition stop_graph_with (stop1 : path -> Z -> node -> nres) (root : bool) (gp : path)
           (gs : bool) (gt : Z) (ch : list node) : gres :=
  if gs then
    let '(ch', ev, f) := stop_loop stop1 root gp gt 0 ch in
    (false, gt, ch', [Ev BPG gt gp 0] ++ ev ++ opt_ev f (Ev PGF gt gp 0) ++ [Ev APG gt gp 0], f)
  else (gs, gt, ch, [], None).

Definition start_graph_with (start1 stop1 : path -> Z -> node -> nres) (root : bool) (gp : path)
           (gs : bool) (gt : Z) (ch : list node) (t : Z) : gres :=
  if gs then (gs, gt, ch, [], None)
  else
    let '(ch', ev, f) := start_loop start1 stop1 root gp t 0 ch in
    match f with
    | None => (true, t, ch', [Ev BSG gt gp 0] ++ ev ++ [Ev ASG t gp 0], None)
    | Some (f, _) => (false, t, ch', [Ev BSG gt gp 0] ++ ev ++ [Ev SGF t gp 0], Some f)
    end.

Definition eval_graph_with (eval1 : path -> Z -> node -> nres) (due1 : Z -> node -> bool)
           (root : bool) (gp : path) (gs : bool) (gt : Z) (ch : list node) (t : Z) : gres :=
  if gs then
    let '(ch', ev, f) := eval_loop eval1 due1 root gp t 0 ch in
    (gs, t, ch', [Ev BGE t gp 0] ++ ev ++ [Ev AGE t gp 0], f)
  else (gs, gt, ch, [], Some (Fail XLogic None)).

(* ================= node-level operations (recursion over the tree) ================= *)

Definition fault (p : path) (ph : phase) (k : nat) : failure := Fail (XFault p ph k) None.

(* node.cpp stop_impl + (for a nested node) single_nested_graph_stop = child.stop() at the
   child's own evaluation time.  started := false whether or not the hook throws. *)
Fixpoint stop_node (pl : plan) (p : path) (t : Z) (n : node) {struct n} : nres :=
  match n with
  | Plain per st nx cs ce cp =>
      if st then
        (Plain per false nx cs ce (S cp), [Ev HP t p cp],
         if pl p PStop cp then Some (fault p PStop cp) else None)
      else (n, [], None)
  | Nest st gs gt ch =>
      if st then
        let '(gs', gt', ch', ev, f) := stop_graph_with (fun q u c => stop_node pl q u c) false p gs gt ch in
        (Nest false gs' gt' ch', ev, f)
      else (n, [], None)
  end.

(* node.cpp start_impl: user hook, then started := true, then schedule_on_start;
   nested: the hook is single_nested_graph_start = child.start(t) *)
Fixpoint start_node (pl : plan) (p : path) (t : Z) (n : node) : nres :=
  match n with
  | Plain per st nx cs ce cp =>
      if st then (n, [], None)
      else if pl p PStart cs then
        (Plain per false nx (S cs) ce cp, [Ev HS t p cs], Some (fault p PStart cs))
      else
        (Plain per true (if 0 <? per then t else nx) (S cs) ce cp, [Ev HS t p cs], None)
  | Nest st gs gt ch =>
      if st then (n, [], None)
      else
        let '(gs', gt', ch', ev, f) :=
          start_graph_with (fun q u c => start_node pl q u c) (stop_node pl) false p gs gt ch t in
        (Nest (negb (is_some f)) gs' gt' ch', ev, f)
  end.

(* is the node's schedule slot equal to t?  A nested node's slot is the minimum of its child
   graph's slots (propagate_nested_parent_schedule), hence due iff some descendant is. *)
Fixpoint due (t : Z) (n : node) : bool :=
  match n with
  | Plain per st nx _ _ _ => (0 <? per) && (nx =? t)
  | Nest _ _ _ ch => existsb (due t) ch
  end.

(* node.cpp evaluate_impl: skipped unless started; re-arms its slot after the hook *)
Fixpoint eval_node (pl : plan) (p : path) (t : Z) (n : node) : nres :=
  match n with
  | Plain per st nx cs ce cp =>
      if st then
        if pl p PEval ce then (Plain per st nx cs (S ce) cp, [Ev HE t p ce], Some (fault p PEval ce))
        else (Plain per st (t + per) cs (S ce) cp, [Ev HE t p ce], None)
      else (n, [], None)
  | Nest st gs gt ch =>
      if st then
        let '(gs', gt', ch', ev, f) := eval_graph_with (fun q u c => eval_node pl q u c) due false p gs gt ch t in
        (Nest st gs' gt' ch', ev, f)
      else (n, [], None)
  end.

(* ================= the executor ================= *)

Record world := W { w_gs : bool; w_gt : Z; w_nodes : list node }.

Record config := Cfg { c_start : Z; c_end : Z; c_cleanup : bool; c_fuel : nat }.

Definition omin (a b : option Z) : option Z :=
  match a, b with
  | Some x, Some y => Some (Z.min x y)
  | Some x, None => Some x
  | None, b => b
  end.

(* graph next_scheduled_time: the least slot >= lo *)
Fixpoint min_next (lo : Z) (n : node) : option Z :=
  match n with
  | Plain per st nx _ _ _ => if (0 <? per) && (lo <=? nx) then Some nx else None
  | Nest _ _ _ ch => fold_right (fun c acc => omin (min_next lo c) acc) None ch
  end.

Definition min_next_list (lo : Z) (l : list node) : option Z :=
  fold_right (fun c acc => omin (min_next lo c) acc) None l.

Definition stop_world (pl : plan) (w : world) : world * list event * option failure :=
  let '(gs, gt, ch, ev, f) := stop_graph_with (stop_node pl) true [] (w_gs w) (w_gt w) (w_nodes w) in
  (W gs gt ch, ev, f).

Definition stop_requested (sp : stopplan) (ev : list event) : bool :=
  existsb (fun e => match e_kind e with HE => sp (e_path e) (e_k e) | _ => false end) ev.

(* executor.cpp run_storage, the while loop.  Running out of fuel leaves the loop exactly as
   request_stop does, so every theorem holds for every fuel. *)
Fixpoint cycles (pl : plan) (sp : stopplan) (e : Z) (fuel : nat) (lo : Z) (w : world)
  : world * list event * option failure :=
  match fuel with
  | O => (w, [], None)
  | S fuel' =>
      match min_next_list lo (w_nodes w) with
      | None => (w, [], None)
      | Some nx =>
          if e <=? nx then (w, [], None)
          else
            let '(gs, gt, ch, ev, f) :=
              eval_graph_with (eval_node pl) due true [] (w_gs w) (w_gt w) (w_nodes w) nx in
            match f with
            | Some x => (W gs gt ch, ev, Some x)
            | None =>
                if stop_requested sp ev then (W gs gt ch, ev, None)
                else
                  let '(w2, ev2, f2) := cycles pl sp e fuel' (nx + 1) (W gs gt ch) in
                  (w2, ev ++ ev2, f2)
            end
      end
  end.

(* executor.cpp run_storage *)
Definition run (pl : plan) (sp : stopplan) (cfg : config) (w : world)
  : world * list event * option failure :=
  if c_end cfg <=? c_start cfg then (w, [], Some (Fail XTimes None))
  else
    let '(gs, gt, ch, ev0, f0) :=
      start_graph_with (start_node pl) (stop_node pl) true [] (w_gs w) (w_gt w) (w_nodes w) (c_start cfg) in
    match f0 with
    | Some f => (W gs gt ch, ev0, Some f)            (* the stop_graph guard does not exist yet *)
    | None =>
        let '(w1, ev1, f1) := cycles pl sp (c_end cfg) (c_fuel cfg) (c_start cfg) (W gs gt ch) in
        match f1 with
        | Some f =>
            if c_cleanup cfg then
              let '(w2, ev2, _) := stop_world pl w1 in     (* guard destructor: stop, swallow *)
              (w2, ev0 ++ ev1 ++ ev2, Some f)
            else (w1, ev0 ++ ev1, Some f)
        | None =>
            let '(w2, ev2, f2) := stop_world pl w1 in       (* stop_graph.complete(): propagates *)
            (w2, ev0 ++ ev1 ++ ev2, f2)
        end
    end.

(* Disposal.  GraphValue::reset() (graph.cpp) stops a graph that is still started when its
   storage is destroyed, best effort; node storage is destroyed in reverse index order.  A graph
   that is started has everything below it started, so its stop pass leaves nothing below to
   dispose of; a graph that is not started may still own nested nodes whose child graphs were
   left started by an aborted rollback: those are reached here. *)
Section Dispose.
Variable dispose1 : path -> node -> node * list event.
Variable gp : path.
Fixpoint dispose_loop (i : nat) (l : list node) : list node * list event :=
  match l with
  | [] => ([], [])
  | c :: r =>
      let '(r', ev1) := dispose_loop (S i) r in
      let '(c', ev2) := dispose1 (gp ++ [i]) c in
      (c' :: r', ev1 ++ ev2)
  end.
End Dispose.

Fixpoint dispose_node (pl : plan) (p : path) (n : node) : node * list event :=
  match n with
  | Plain _ _ _ _ _ _ => (n, [])
  | Nest st gs gt ch =>
      if gs then
        let '(gs', gt', ch', ev, _) := stop_graph_with (stop_node pl) false p gs gt ch in
        (Nest st gs' gt' ch', ev)
      else
        let '(ch', ev) := dispose_loop (fun q c => dispose_node pl q c) p 0 ch in
        (Nest st gs gt ch', ev)
  end.

(* ~SimulationExecutorStorage: a still-started root graph is stopped, failures swallowed;
   then the storage is destroyed *)
Definition release (pl : plan) (w : world) : world * list event :=
  let '(w1, ev, _) := stop_world pl w in
  let '(ch, ev2) := dispose_loop (dispose_node pl) [] 0 (w_nodes w1) in
  (W (w_gs w1) (w_gt w1) ch, ev ++ ev2).

(* the whole life of an executor: (log up to the return of run, what run threw, the world then,
   log of the release, the world at the end) *)
Definition life (pl : plan) (sp : stopplan) (cfg : config) (w : world) :=
  let '(w1, ev1, f) := run pl sp cfg w in
  let '(w2, ev2) := release pl w1 in
  (ev1, f, w1, ev2, w2).

Definition full_log (pl : plan) (sp : stopplan) (cfg : config) (w : world) : list event :=
  let '(ev1, _, _, ev2, _) := life pl sp cfg w in ev1 ++ ev2.

(* ======================= the acceptor over event logs ======================= *)

Definition is_graph_kind (k : ekind) : bool :=
  match k with BSG | ASG | SGF | BGE | AGE | BPG | APG | PGF => true | _ => false end.

(* the graph an event belongs to, and (for node-level events) the node's index in it *)
Definition owner (e : event) : path :=
  if is_graph_kind (e_kind e) then e_path e else removelast (e_path e).
Definition index_of (e : event) : nat := last (e_path e) 0%nat.

Fixpoint path_eqb (a b : path) : bool :=
  match a, b with
  | [], [] => true
  | x :: a', y :: b' => Nat.eqb x y && path_eqb a' b'
  | _, _ => false
  end.

(* a node-level event with an empty path belongs to no graph *)
Definition well_addressed (e : event) : bool :=
  is_graph_kind (e_kind e) || negb (path_eqb (e_path e) []).

(* letters of one graph's word *)
Inductive sym := SG (k : ekind) | SN (k : ekind) (i : nat).

Definition sym_of (e : event) : sym :=
  if is_graph_kind (e_kind e) then SG (e_kind e) else SN (e_kind e) (index_of e).

Definition graph_word (gp : path) (l : list event) : list sym :=
  map sym_of (filter (fun e => well_addressed e && path_eqb (owner e) gp) l).

(* the lifecycle automaton of ONE graph.
   m = number of nodes whose start completed; c = nodes not yet stopped (next to stop is c-1);
   h = the user hook already ran inside the open bracket; x = a stop failed *)
Inductive ast :=
| AFresh
| AStarting (m : nat)                      (* between nodes in the start loop *)
| AInStart (m : nat) (h : bool)            (* inside the start bracket of node m *)
| ARoll (m c : nat)                        (* rolling back; nodes c.. are stopped again *)
| ARollIn (m c : nat) (h x : bool)         (* inside the stop bracket of node c-1 (rollback) *)
| ARollAborted (m c : nat)                 (* the stop of node c failed: the rollback is over *)
| AStarted (m : nat)
| ACycle (m pos : nat)                     (* in an evaluation; next node index >= pos *)
| AInEval (m i : nat) (h : bool)
| AStopping (m c : nat) (x : bool)
| AStopIn (m c : nat) (h x1 x : bool)      (* x1: this node's stop failed; x: some stop failed *)
| AStopFailed (m : nat)                    (* after "stop graph failed", awaiting "after stop graph" *)
| ADone (m : nat)                          (* stopped, or start failed and fully rolled back *)
| ALeaked (m c : nat)                      (* start failed, rollback aborted: nodes < c still started *)
| ABad.

Definition astep (a : ast) (s : sym) : ast :=
  match a, s with
  | AFresh, SG BSG => AStarting 0
  | AStarting m, SN BSN i => if Nat.eqb i m then AInStart m false else ABad
  | AStarting m, SG ASG => AStarted m
  | AInStart m false, SN HS i => if Nat.eqb i m then AInStart m true else ABad
  | AInStart m _, SN ASN i => if Nat.eqb i m then AStarting (S m) else ABad
  | AInStart m _, SN SNF i => if Nat.eqb i m then ARoll m m else ABad
  | ARoll m (S c), SN BPN i => if Nat.eqb i c then ARollIn m (S c) false false else ABad
  | ARoll m O, SG SGF => ADone m
  | ARollIn m (S c) false false, SN HP i => if Nat.eqb i c then ARollIn m (S c) true false else ABad
  | ARollIn m (S c) h false, SN PNF i => if Nat.eqb i c then ARollIn m (S c) h true else ABad
  | ARollIn m (S c) _ false, SN APN i => if Nat.eqb i c then ARoll m c else ABad
  | ARollIn m (S c) _ true, SN APN i => if Nat.eqb i c then ARollAborted m c else ABad
  | ARollAborted m O, SG SGF => ADone m
  | ARollAborted m (S c), SG SGF => ALeaked m (S c)
  | AStarted m, SG BGE => ACycle m 0
  | AStarted m, SG BPG => AStopping m m false
  | ACycle m pos, SN BEN i => if Nat.leb pos i && Nat.ltb i m then AInEval m i false else ABad
  | ACycle m _, SG AGE => AStarted m
  | AInEval m i false, SN HE j => if Nat.eqb j i then AInEval m i true else ABad
  | AInEval m i _, SN AEN j => if Nat.eqb j i then ACycle m (S i) else ABad
  | AStopping m (S c) x, SN BPN i => if Nat.eqb i c then AStopIn m (S c) false false x else ABad
  | AStopping m O false, SG APG => ADone m
  | AStopping m O true, SG PGF => AStopFailed m
  | AStopFailed m, SG APG => ADone m
  | AStopIn m (S c) false false x, SN HP i => if Nat.eqb i c then AStopIn m (S c) true false x else ABad
  | AStopIn m (S c) h false x, SN PNF i => if Nat.eqb i c then AStopIn m (S c) h true true else ABad
  | AStopIn m (S c) _ _ x, SN APN i => if Nat.eqb i c then AStopping m c x else ABad
  | _, _ => ABad
  end.

Definition arun (a : ast) (w : list sym) : ast := fold_left astep w a.

Definition ast_bad (a : ast) : bool := match a with ABad => true | _ => false end.
(* states a graph may rest in when everything is over *)
Definition ast_final (a : ast) : bool := match a with AFresh | ADone _ => true | _ => false end.
Definition ast_leaked (a : ast) : bool := match a with ALeaked _ _ => true | _ => false end.
Definition ast_done (a : ast) : bool := match a with ADone _ => true | _ => false end.

Fixpoint nodup_paths (l : list path) : list path :=
  match l with
  | [] => []
  | p :: r => if existsb (path_eqb p) r then nodup_paths r else p :: nodup_paths r
  end.

Definition owners (l : list event) : list path := nodup_paths (map owner l).

(* every graph's word is a (prefix of a) lifecycle: no notification out of place *)
Definition log_wf (l : list event) : bool :=
  forallb well_addressed l &&
  forallb (fun gp => negb (ast_bad (arun AFresh (graph_word gp l)))) (owners l).

(* and every graph has come to rest: whatever started has been stopped *)
Definition log_closed (l : list event) : bool :=
  forallb (fun gp => ast_final (arun AFresh (graph_word gp l))) (owners l).

Definition lifecycle_ok (l : list event) : bool := log_wf l && log_closed l.

(* ======================= wire format ======================= *)

Definition kind_code (k : ekind) : Z :=
  match k with
  | BSG => 1 | ASG => 2 | SGF => 3 | BSN => 4 | ASN => 5 | SNF => 6
  | BGE => 7 | AGE => 8 | BEN => 9 | AEN => 10
  | BPN => 11 | APN => 12 | PNF => 13 | BPG => 14 | APG => 15 | PGF => 16
  | HS => 20 | HE => 21 | HP => 22
  end.

Definition code_kind (z : Z) : option ekind :=
  match z with
  | 1 => Some BSG | 2 => Some ASG | 3 => Some SGF | 4 => Some BSN | 5 => Some ASN | 6 => Some SNF
  | 7 => Some BGE | 8 => Some AGE | 9 => Some BEN | 10 => Some AEN
  | 11 => Some BPN | 12 => Some APN | 13 => Some PNF | 14 => Some BPG | 15 => Some APG | 16 => Some PGF
  | 20 => Some HS | 21 => Some HE | 22 => Some HP
  | _ => None
  end.

Definition is_hook (k : ekind) : bool := match k with HS | HE | HP => true | _ => false end.

Definition zpath (p : path) : list Z := map Z.of_nat p.

Definition event_line (e : event) : line :=
  [kind_code (e_kind e); e_time e; Z.of_nat (length (e_path e))] ++ zpath (e_path e) ++
  (if is_hook (e_kind e) then [Z.of_nat (e_k e)] else []).

Definition phase_code (ph : phase) : Z := match ph with PStart => 0 | PEval => 1 | PStop => 2 end.

(* 5 phase k len path...  — the fault's id is its position among the fault lines *)
Record fspec := FS { fs_phase : Z; fs_k : Z; fs_path : list Z }.

Definition zpath_eqb (a : list Z) (b : path) : bool :=
  (length a =? length b)%nat && forallb (fun xy => fst xy =? Z.of_nat (snd xy)) (combine a b).

Definition fs_matches (f : fspec) (p : path) (ph : phase) (k : nat) : bool :=
  (fs_phase f =? phase_code ph) && (fs_k f =? Z.of_nat k) && zpath_eqb (fs_path f) p.

Definition plan_of (fs : list fspec) : plan := fun p ph k => existsb (fun f => fs_matches f p ph k) fs.

Fixpoint fault_id (fs : list fspec) (p : path) (ph : phase) (k : nat) (i : Z) : Z :=
  match fs with
  | [] => -1
  | f :: r => if fs_matches f p ph k then i else fault_id r p ph k (i + 1)
  end.

Definition stopplan_of (ss : list (Z * list Z)) : stopplan :=
  fun p k => existsb (fun s => (fst s =? Z.of_nat k) && zpath_eqb (snd s) p) ss.

(* the tree: "2 period" plain node, "3" open a nested node, "4" close it *)
Definition close_frame (st : list (list node)) : list (list node) :=
  match st with
  | f :: g :: r => (Nest false false 0 (rev f) :: g) :: r
  | _ => st
  end.

Fixpoint close_all (fuel : nat) (st : list (list node)) : list node :=
  match st with
  | [] => []
  | [f] => rev f
  | _ => match fuel with O => [] | S k => close_all k (close_frame st) end
  end.

Record parsed := P { p_start : Z; p_end : Z; p_cleanup : Z; p_stack : list (list node);
                     p_faults : list fspec; p_stops : list (Z * list Z) }.

Definition parse_line (a : parsed) (l : line) : parsed :=
  match l with
  | 1 :: s :: e :: c :: _ => P s e c (p_stack a) (p_faults a) (p_stops a)
  | 2 :: per :: _ =>
      match p_stack a with
      | f :: r => P (p_start a) (p_end a) (p_cleanup a) ((Plain per false 0 0 0 0 :: f) :: r) (p_faults a) (p_stops a)
      | [] => a
      end
  | 3 :: _ => P (p_start a) (p_end a) (p_cleanup a) ([] :: p_stack a) (p_faults a) (p_stops a)
  | 4 :: _ => P (p_start a) (p_end a) (p_cleanup a) (close_frame (p_stack a)) (p_faults a) (p_stops a)
  | 5 :: ph :: k :: n :: rest =>
      P (p_start a) (p_end a) (p_cleanup a) (p_stack a) (p_faults a ++ [FS ph k (firstn (Z.to_nat n) rest)]) (p_stops a)
  | 6 :: k :: n :: rest =>
      P (p_start a) (p_end a) (p_cleanup a) (p_stack a) (p_faults a) (p_stops a ++ [(k, firstn (Z.to_nat n) rest)])
  | _ => a
  end.

Fixpoint split_at_marker (l : wire) : wire * wire :=
  match l with
  | [] => ([], [])
  | [ -1 ] :: r => ([], r)
  | x :: r => let '(a, b) := split_at_marker r in (x :: a, b)
  end.

Definition parse_event (l : line) : option event :=
  match l with
  | k :: t :: n :: rest =>
      match code_kind k with
      | Some kd =>
          let p := map Z.to_nat (firstn (Z.to_nat n) rest) in
          Some (Ev kd t p (Z.to_nat (nthz 0 (skipn (Z.to_nat n) rest))))
      | None => None
      end
  | _ => None
  end.

Fixpoint parse_events (w : wire) : list event :=
  match w with
  | [] => []
  | l :: r => match parse_event l with Some e => e :: parse_events r | None => parse_events r end
  end.

(* final flags, pre-order: 32 graph started, 31 node started *)
Fixpoint flags_node (p : path) (n : node) : wire :=
  match n with
  | Plain _ st _ _ _ _ => [[31; b2z st; Z.of_nat (length p)] ++ zpath p]
  | Nest st gs _ ch =>
      [[31; b2z st; Z.of_nat (length p)] ++ zpath p; [32; b2z gs; Z.of_nat (length p)] ++ zpath p] ++
      (fix go (i : nat) (l : list node) : wire :=
         match l with [] => [] | c :: r => flags_node (p ++ [i]) c ++ go (S i) r end) 0%nat ch
  end.

Fixpoint flags_list (gp : path) (i : nat) (l : list node) : wire :=
  match l with [] => [] | c :: r => flags_node (gp ++ [i]) c ++ flags_list gp (S i) r end.

Fixpoint counters_node (p : path) (n : node) : wire :=
  match n with
  | Plain _ _ _ cs ce cp => [[30; Z.of_nat cs; Z.of_nat ce; Z.of_nat cp; Z.of_nat (length p)] ++ zpath p]
  | Nest _ _ _ ch =>
      (fix go (i : nat) (l : list node) : wire :=
         match l with [] => [] | c :: r => counters_node (p ++ [i]) c ++ go (S i) r end) 0%nat ch
  end.

Fixpoint counters_list (gp : path) (i : nat) (l : list node) : wire :=
  match l with [] => [] | c :: r => counters_node (gp ++ [i]) c ++ counters_list gp (S i) r end.

Definition failure_line (fs : list fspec) (f : option failure) : line :=
  match f with
  | None => [41]
  | Some (Fail x note) =>
      let id := match x with XFault p ph k => fault_id fs p ph k 0 | _ => -1 end in
      match note with
      | Some (i, ph) => [40; Z.of_nat i; phase_code ph; id]
      | None => [40; -1; -1; id]
      end
  end.

(* case -> observation.  With the implementation's output appended after a line [-1], the
   acceptor's verdict on the implementation's own event log is added as a last line
   [90; log_wf impl; log_closed impl; log_closed of the model's own log]. *)
Definition run_lifecycle (input : wire) : wire :=
  let '(case, impl) := split_at_marker input in
  let a := fold_left parse_line case (P 1 5 1 [[]] [] []) in
  let nodes := close_all (length case) (p_stack a) in
  let pl := plan_of (p_faults a) in
  let sp := stopplan_of (p_stops a) in
  let cfg := Cfg (p_start a) (p_end a) (z2b (p_cleanup a)) (S (Z.to_nat (p_end a - p_start a))) in
  let '(ev1, f, w1, ev2, w2) := life pl sp cfg (W false 0 nodes) in
  map event_line ev1 ++ [failure_line (p_faults a) f] ++
  [[32; b2z (w_gs w1); 0]] ++ flags_list [] 0 (w_nodes w1) ++ [[42]] ++
  map event_line ev2 ++ [[43]] ++ counters_list [] 0 (w_nodes w2) ++
  match impl with
  | [] => []
  | _ => [[90; b2z (log_wf (parse_events impl)); b2z (log_closed (parse_events impl));
            b2z (log_closed (ev1 ++ ev2))]]
  end.
