(* PushQInv.v — the invariant of the push-queue protocol (coq/PushQ.v) and its
   preservation by EVERY atomic step, hence over every interleaving: induction over
   label lists, any number of producers and messages, any capacity, all three
   policies.  The property-level corollaries are in PushQFacts.v. *)
Require Import Base PushQ.
From Coq Require Import ZifyBool.

Local Open Scope nat_scope.

(* ------------------------------------------------------------------ *)
(* lists of producers: counting program counters *)

Fixpoint cnt (f : ppc -> bool) (l : list prod) : nat :=
  match l with
  | [] => 0
  | pr :: r => (if f (pc pr) then 1 else 0) + cnt f r
  end.

Definition b2n (b : bool) : nat := if b then 1 else 0.

Lemma cnt_update f p g l d :
  p < length l ->
  cnt f (update p g l) + b2n (f (pc (nth p l d))) = cnt f l + b2n (f (pc (g (nth p l d)))).
Proof.
  revert p; induction l as [|x r IH]; intros [|p] H; simpl in *; try lia.
  - unfold b2n. destruct (f (pc x)), (f (pc (g x))); lia.
  - specialize (IH p ltac:(lia)). lia.
Qed.

Lemma cnt_pos_ex f l d : cnt f l > 0 -> exists p, p < length l /\ f (pc (nth p l d)) = true.
Proof.
  induction l as [|x r IH]; simpl; intros H; try lia.
  destruct (f (pc x)) eqn:E.
  - exists 0. split; [lia|exact E].
  - destruct IH as [p [Hp Hf]]; [lia|]. exists (S p). split; [lia|exact Hf].
Qed.

Lemma cnt_ex_pos f l d p : p < length l -> f (pc (nth p l d)) = true -> cnt f l > 0.
Proof.
  revert p; induction l as [|x r IH]; intros [|p] H E; simpl in *; try lia.
  - rewrite E. lia.
  - specialize (IH p ltac:(lia) E). lia.
Qed.

Lemma cnt_le f g l : (forall x, f x = true -> g x = true) -> cnt f l <= cnt g l.
Proof.
  intros H; induction l as [|x r IH]; simpl; [lia|].
  destruct (f (pc x)) eqn:E; [rewrite (H _ E)|destruct (g (pc x))]; lia.
Qed.

Lemma cnt_repeat_idle f n : f PIdle = false -> cnt f (repeat idle_prod n) = 0.
Proof. intros H; induction n; simpl; [reflexivity|]. rewrite H. exact IHn. Qed.

Definition is_woken (x : ppc) : bool := match x with PWoken => true | _ => false end.
Definition is_mark (x : ppc) : bool := match x with PMark => true | _ => false end.
Definition is_notify (x : ppc) : bool := match x with PNotify => true | _ => false end.
Definition inside (x : ppc) : bool := match x with PIdle | PEnter => false | _ => true end.
Definition pre_adm (x : ppc) : bool :=
  match x with PEnter | PStopChk | PAdmit | PWaiting | PWoken => true | _ => false end.

(* a counting predicate that does not tell a waiting sender from a woken one *)
Definition wake_blind (f : ppc -> bool) : Prop := f PWaiting = f PWoken.

Lemma cnt_map_wake f l : wake_blind f -> cnt f (map wake l) = cnt f l.
Proof.
  intros H; induction l as [|x r IH]; simpl; [reflexivity|].
  rewrite IH. unfold wake. destruct (pc x) eqn:E; simpl; rewrite ?E; try reflexivity.
  rewrite H. reflexivity.
Qed.

Lemma cnt_waiting_map_wake l : cnt is_waiting (map wake l) = 0.
Proof.
  induction l as [|x r IH]; simpl; [reflexivity|]. rewrite IH.
  unfold wake. destruct (pc x) eqn:E; simpl; rewrite ?E; reflexivity.
Qed.

Lemma cnt_woken_map_wake l : cnt is_woken (map wake l) = cnt is_woken l + cnt is_waiting l.
Proof.
  induction l as [|x r IH]; simpl; [reflexivity|]. rewrite IH.
  unfold wake. destruct (pc x) eqn:E; simpl; rewrite ?E; simpl; lia.
Qed.

Lemma cnt_wake_first f l : wake_blind f -> cnt f (wake_first l) = cnt f l.
Proof.
  intros H; induction l as [|x r IH]; simpl; [reflexivity|].
  destruct (pc x) eqn:E; simpl; rewrite ?E, ?IH; try reflexivity.
  rewrite H. reflexivity.
Qed.

Lemma cnt_waiting_wake_first l :
  cnt is_waiting (wake_first l) = pred (cnt is_waiting l) /\
  cnt is_woken (wake_first l) = cnt is_woken l + (if Nat.eqb (cnt is_waiting l) 0 then 0 else 1).
Proof.
  induction l as [|x r [IH1 IH2]]; simpl; [split; reflexivity|].
  destruct (pc x) eqn:E; simpl; rewrite ?E; simpl; try (split; assumption); split; lia.
Qed.

Lemma length_map_wake l : length (map wake l) = length l.
Proof. apply map_length. Qed.
Lemma length_wake_first l : length (wake_first l) = length l.
Proof. induction l as [|x r IH]; simpl; [reflexivity|]. destruct (is_waiting (pc x)); simpl; congruence. Qed.

(* what a notify does to one producer: nothing, or PWaiting -> PWoken *)
Definition same_or_woken (a b : prod) : Prop :=
  b = a \/ (pc a = PWaiting /\ b = set_pc PWoken a).

Lemma nth_map_wake p l : same_or_woken (nth p l idle_prod) (nth p (map wake l) idle_prod).
Proof.
  revert p; induction l as [|x r IH]; intros [|p]; simpl; try (left; reflexivity).
  - unfold wake. destruct (pc x) eqn:E; simpl; try (left; reflexivity). right. split; [exact E|reflexivity].
  - apply IH.
Qed.

Lemma nth_wake_first p l : same_or_woken (nth p l idle_prod) (nth p (wake_first l) idle_prod).
Proof.
  revert p; induction l as [|x r IH]; intros [|p]; simpl; try (left; reflexivity).
  - destruct (pc x) eqn:E; simpl; try (left; reflexivity). right. split; [exact E|reflexivity].
  - destruct (is_waiting (pc x)); simpl; [left; reflexivity|apply IH].
Qed.

Lemma nth_update_eq {A} p q (f : A -> A) l d :
  nth q (update p f l) d = if Nat.eqb p q && Nat.ltb p (length l) then f (nth q l d) else nth q l d.
Proof.
  revert p q; induction l as [|x r IH]; intros [|p] [|q]; simpl; try reflexivity.
  - destruct (Nat.eqb p q); reflexivity.
  - rewrite IH. destruct (Nat.eqb p q); simpl; [|reflexivity].
    replace (S p <? S (length r)) with (p <? length r); [reflexivity|].
    destruct (Nat.ltb_spec p (length r)), (Nat.ltb_spec (S p) (S (length r))); try reflexivity; lia.
Qed.

(* ------------------------------------------------------------------ *)
(* the acceptance log: per-producer order *)

Definition flatd (d : list (Z * list entry)) : list entry := concat (map snd d).

Lemma flatd_app d1 d2 : flatd (d1 ++ d2) = flatd d1 ++ flatd d2.
Proof. unfold flatd. rewrite map_app, concat_app. reflexivity. Qed.

(* per-producer sorted: every entry has a larger sequence number than the earlier
   entries of the same producer *)
Inductive PPS : list entry -> Prop :=
| PPS_nil : PPS []
| PPS_snoc l e : PPS l -> (forall e', In e' l -> e_pid e' = e_pid e -> e_seq e' < e_seq e) -> PPS (l ++ [e]).

Lemma PPS_prefix l r : PPS (l ++ r) -> PPS l.
Proof.
  induction r as [|e r IH] using rev_ind; intros H.
  - rewrite app_nil_r in H. exact H.
  - rewrite app_assoc in H. inversion H as [E|l' e' Hl Hlt E].
    + destruct (l ++ r); discriminate.
    + apply app_inj_tail in E. destruct E as [E1 E2]. subst. apply IH. exact Hl.
Qed.

Lemma PPS_NoDup l : PPS l -> NoDup l.
Proof.
  induction 1 as [|l e Hl IH Hlt].
  - constructor.
  - apply NoDup_rev in IH. rewrite <- (rev_involutive (l ++ [e])). apply NoDup_rev.
    rewrite rev_app_distr. simpl. constructor; [|exact IH].
    intros Hin. apply in_rev in Hin. specialize (Hlt e Hin eq_refl). lia.
Qed.

(* in index form: what "each producer's own order is preserved" means *)
Lemma PPS_nth l : PPS l -> forall i j e1 e2,
  nth_error l i = Some e1 -> nth_error l j = Some e2 -> i < j -> e_pid e1 = e_pid e2 -> e_seq e1 < e_seq e2.
Proof.
  induction 1 as [|l e Hl IH Hlt]; intros i j e1 e2 H1 H2 Hij Hp.
  - destruct i; discriminate.
  - assert (Hj : j < length (l ++ [e])) by (apply nth_error_Some; congruence).
    rewrite app_length in Hj. simpl in Hj.
    destruct (Nat.eq_dec j (length l)) as [Ej|Ej].
    + subst j. rewrite nth_error_app2 in H2 by lia. rewrite Nat.sub_diag in H2. simpl in H2. inversion H2; subst e2.
      rewrite nth_error_app1 in H1 by lia. apply Hlt; [eapply nth_error_In; eauto|exact Hp].
    + rewrite nth_error_app1 in H1 by lia. rewrite nth_error_app1 in H2 by lia. eapply IH; eauto.
Qed.

Fixpoint increasingZ (l : list Z) : Prop :=
  match l with
  | a :: r => match r with b :: _ => (a < b)%Z | [] => True end /\ increasingZ r
  | [] => True
  end.

Lemma increasingZ_snoc l y : increasingZ l -> (forall x, In x l -> (x < y)%Z) -> increasingZ (l ++ [y]).
Proof.
  induction l as [|a r IH]; simpl; intros H Hy; [auto|].
  destruct H as [H1 H2]. split.
  - destruct r as [|b r']; simpl; [apply Hy; left; reflexivity|exact H1].
  - apply IH; [exact H2|intros x Hx; apply Hy; right; exact Hx].
Qed.

(* ------------------------------------------------------------------ *)
(* THE INVARIANT *)

Definition cons_accepting (c : cpc) : bool := match c with CStopped | CStopB | CStopC => false | _ => true end.
Definition cons_rearming (c : cpc) : bool := match c with CReset true | CPopped true | CRearm true => true | _ => false end.
Definition is_reset (c : cpc) : bool := match c with CReset _ => true | _ => false end.
Definition is_popped (c : cpc) : bool := match c with CPopped _ => true | _ => false end.
Definition bound (pr : prod) : nat := if pre_adm (pc pr) then pred (nsent pr) else nsent pr.
Definition is_queue_pol (p : policy) : bool := match p with Queue => true | _ => false end.

Record Inv (s : state) : Prop := mkInv {
  i_cfg : pol s = Confl -> cap s = 0;
  i_acc : accepting s = cons_accepting (cons s);
  (* the logs: everything accepted is delivered or still queued (or was dropped by stop) *)
  i_log : if accepting s then accepted s = flatd (delivered s) ++ vals s
          else vals s = [] /\ exists rest, accepted s = flatd (delivered s) ++ rest;
  i_cap : cap s <> 0 -> length (vals s) <= cap s;
  i_time : increasingZ (map fst (delivered s)) /\
           forall tb, In tb (delivered s) ->
             (fst tb <= now s)%Z /\ (is_reset (cons s) = true -> (fst tb < now s)%Z) /\
             snd tb <> [] /\ (pol s = Queue -> length (snd tb) = 1);
  (* no lost wake-up: work pending and running => the flag is set, or somebody is about to set it *)
  i_wake : vals s <> [] -> stop_req s = false ->
           flag s = true \/ cnt is_mark (prods s) > 0 \/ cons_rearming (cons s) = true;
  (* no lost notification on the executor condition *)
  i_note : cons s = CBlocked -> flag s || stop_req s = true ->
           cnt is_notify (prods s) > 0 \/ stop_notifies s > 0;
  (* the control block: calls inside are counted; nobody is inside a detached control *)
  i_act : active s = cnt inside (prods s);
  i_det : attached s = false -> active s = 0;
  i_stp : cons s = CStopped -> attached s = false;
  (* no lost notification on capacity_available *)
  i_cvs : cnt is_waiting (prods s) > 0 -> accepting s = false -> cons s = CStopB;
  i_cva : cnt is_waiting (prods s) > 0 -> accepting s = true ->
          cap s <> 0 /\ ((pol s = Burst /\ is_popped (cons s) = true) \/
                         cap s <= length (vals s) + cnt is_woken (prods s) + b2n (is_popped (cons s)));
  (* call identities *)
  i_cur : forall p, p < length (prods s) -> pc (get_prod p s) <> PIdle ->
          e_pid (cur (get_prod p s)) = p /\ nsent (get_prod p s) = S (e_seq (cur (get_prod p s)));
  i_seq : forall e, In e (accepted s) -> e_seq e < bound (get_prod (e_pid e) s);
  i_pps : PPS (accepted s)
}.

(* ------------------------------------------------------------------ *)
(* preservation: producer steps *)

Ltac unf :=
  unfold goto, upd_prod, notify_exec, notify_all, set_vals, set_accepting, set_flag, set_stop_req, set_stop_notifies, set_closing,
    set_attached, set_active, set_epoch, set_cons, set_now, set_prods, set_accepted, set_delivered, get_prod in *;
  cbn [pol cap vals accepting flag stop_req stop_notifies closing attached active epoch cons now prods accepted delivered
       pc cur knd nsent handle lastr set_pc set_handle] in *.

Lemma inv_init pl c n : Inv (init pl c n).
Proof.
  constructor; unfold init; cbn [pol cap vals accepting flag stop_req stop_notifies closing attached active epoch cons now prods accepted delivered cons_accepting];
    try rewrite !cnt_repeat_idle by reflexivity; try (intros; lia); try reflexivity; try discriminate; try congruence.
  - intros ->; reflexivity.
  - split; [reflexivity|exists []; reflexivity].
  - simpl; lia.
  - split; [exact I|intros tb []].
  - intros p Hp Hne. exfalso. apply Hne. unfold get_prod; cbn [prods].
    rewrite repeat_length in Hp. clear Hne. revert p Hp. induction n; intros [|p] Hp; simpl; try lia; try reflexivity. apply IHn. lia.
  - intros e [].
  - constructor.
Qed.

Lemma get_prod_upd p q g s :
  get_prod q (upd_prod p g s) = if Nat.eqb p q && Nat.ltb p (length (prods s)) then g (get_prod q s) else get_prod q s.
Proof. unfold get_prod, upd_prod, set_prods; cbn [prods]. apply nth_update_eq. Qed.

Ltac prod_counts Hp E g :=
  let Cm := fresh "Cm" in pose proof (cnt_update is_mark _ g _ idle_prod Hp) as Cm;
  let Cn := fresh "Cn" in pose proof (cnt_update is_notify _ g _ idle_prod Hp) as Cn;
  let Ci := fresh "Ci" in pose proof (cnt_update inside _ g _ idle_prod Hp) as Ci;
  let Cw := fresh "Cw" in pose proof (cnt_update is_waiting _ g _ idle_prod Hp) as Cw;
  let Ck := fresh "Ck" in pose proof (cnt_update is_woken _ g _ idle_prod Hp) as Ck;
  cbn [pc set_pc] in Cm, Cn, Ci, Cw, Ck; rewrite E in Cm, Cn, Ci, Cw, Ck;
  cbn [is_mark is_notify inside is_waiting is_woken b2n] in Cm, Cn, Ci, Cw, Ck.

(* the per-producer parts of the invariant under an update of producer p that keeps cur and nsent
   and does not lower the bound *)
Lemma cur_seq_frame s p g acc' :
  (forall q, p < length (prods s) -> cur (g q) = cur q /\ nsent (g q) = nsent q) ->
  (pc (g (get_prod p s)) <> PIdle -> pc (get_prod p s) <> PIdle) ->
  (bound (get_prod p s) <= bound (g (get_prod p s))) ->
  (forall p0, p0 < length (prods s) -> pc (get_prod p0 s) <> PIdle ->
     e_pid (cur (get_prod p0 s)) = p0 /\ nsent (get_prod p0 s) = S (e_seq (cur (get_prod p0 s)))) ->
  (forall e, In e acc' -> e_seq e < bound (get_prod (e_pid e) s)) ->
  (forall p0, p0 < length (update p g (prods s)) -> pc (nth p0 (update p g (prods s)) idle_prod) <> PIdle ->
     e_pid (cur (nth p0 (update p g (prods s)) idle_prod)) = p0 /\
     nsent (nth p0 (update p g (prods s)) idle_prod) = S (e_seq (cur (nth p0 (update p g (prods s)) idle_prod)))) /\
  (forall e, In e acc' -> e_seq e < bound (nth (e_pid e) (update p g (prods s)) idle_prod)).
Proof.
  intros Hg Hidle Hb Hcur Hseq. split.
  - intros q Hq. rewrite update_length in Hq. rewrite nth_update_eq.
    destruct (Nat.eqb_spec p q) as [->|Hne]; simpl.
    + destruct (Nat.ltb_spec q (length (prods s))); [|lia].
      intros Hpc. destruct (Hg (nth q (prods s) idle_prod) H) as [-> ->]. apply Hcur; [exact H|]. apply Hidle. exact Hpc.
    + apply Hcur. exact Hq.
  - intros e He. specialize (Hseq e He). rewrite nth_update_eq.
    destruct (Nat.eqb_spec p (e_pid e)) as [Heq|Hne]; simpl; [|exact Hseq].
    rewrite <- Heq in *.
    destruct (Nat.ltb_spec p (length (prods s))); [|exact Hseq]. unfold get_prod in *. lia.
Qed.

Ltac fwd := repeat match goal with
  | H : ?A -> _ |- _ => let h := fresh in assert (h : A) by (first [assumption | lia | congruence]); specialize (H h); clear h
  end.
Ltac fin := intros;
  try match goal with Ec : cons _ = _ |- _ => rewrite Ec in * end;
  cbn [cons_rearming cons_accepting is_popped is_reset b2n] in *;
  try change (@length entry []) with 0 in *;
  fwd; try solve [intuition (first [lia | congruence | discriminate])].
Ltac dI I := destruct I as [i_cfg i_acc i_log i_cap i_time i_wake i_note i_act i_det i_stp i_cvs i_cva i_cur i_seq i_pps].
(* drop the list-valued parts of the invariant before arithmetic *)
Ltac slim := repeat match goal with
  | H : forall _ : nat, _ |- _ => clear H
  | H : forall _ : entry, _ |- _ => clear H
  | H : PPS _ |- _ => clear H
  | H : increasingZ _ /\ _ |- _ => clear H
  | H : if accepting _ then _ else _ |- _ => clear H
  end.

Lemma full_true s : full s = true -> pol s <> Confl /\ cap s <> 0 /\ cap s <= length (vals s).
Proof.
  unfold full. destruct (pol s); try discriminate; intros H; apply andb_prop in H; destruct H as [H1 H2];
    (split; [discriminate|]); apply Nat.leb_le in H2; split; try exact H2;
    intros E; rewrite E in H1; discriminate.
Qed.
Lemma full_false s : full s = false -> pol s = Confl \/ cap s = 0 \/ length (vals s) < cap s.
Proof.
  unfold full. destruct (pol s); auto; intros H; apply andb_false_iff in H; destruct H as [H|H]; right;
    try (left; destruct (cap s); [reflexivity|discriminate]); right; apply Nat.leb_gt; exact H.
Qed.

Ltac slimI I := clear I; repeat match goal with
  | H : forall _ : nat, _ |- _ => clear H
  | H : forall _ : entry, _ |- _ => clear H
  end.
Ltac use1 I X := let W := fresh "W" in pose proof (X _ I) as W; slimI I; fin.
Ltac use2 I X Y := let W := fresh "W" in let W2 := fresh "W" in pose proof (X _ I) as W; pose proof (Y _ I) as W2; slimI I; fin.
Ltac use4 I X Y Z U := let W := fresh "W" in let W2 := fresh "W" in let W3 := fresh "W" in let W4 := fresh "W" in
  pose proof (X _ I) as W; pose proof (Y _ I) as W2; pose proof (Z _ I) as W3; pose proof (U _ I) as W4; slimI I; fin.

(* arithmetic fields of the invariant after a step that leaves fields 1-5 and 15 alone *)
Ltac pfields I F1 F2 :=
  constructor; unf;
  [ exact (i_cfg _ I) | exact (i_acc _ I) | exact (i_log _ I) | exact (i_cap _ I) | exact (i_time _ I)
  | use1 I i_wake | use1 I i_note | use1 I i_act | use2 I i_det i_act | use1 I i_stp
  | use2 I i_cvs i_acc | use4 I i_cva i_cap i_cfg i_acc
  | exact F1 | exact F2 | exact (i_pps _ I) ].

Ltac frame s p g E I F1 F2 :=
  destruct (cur_seq_frame s p g (accepted s)) as [F1 F2];
  [ intros; split; reflexivity
  | unfold get_prod; cbn [pc set_pc]; rewrite E; try discriminate; try (intros HH; exfalso; apply HH; reflexivity)
  | unfold get_prod, bound; cbn [pc set_pc nsent]; rewrite E; cbn [pre_adm]; lia
  | apply (i_cur s I) | apply (i_seq s I) |].

Lemma inv_stopchk s p : Inv s -> p < length (prods s) -> pc (get_prod p s) = PStopChk ->
  Inv (goto p (PLeave 0) s) /\ Inv (goto p PAdmit s).
Proof.
  intros I Hp E. unfold get_prod in E. split.
  - prod_counts Hp E (set_pc (PLeave 0)). frame s p (set_pc (PLeave 0)) E I F1 F2. pfields I F1 F2.
  - prod_counts Hp E (set_pc PAdmit). frame s p (set_pc PAdmit) E I F1 F2. pfields I F1 F2.
Qed.

Lemma inv_enter s p : Inv s -> p < length (prods s) -> pc (get_prod p s) = PEnter ->
  Inv (upd_prod p (fun q => mkProd PIdle (cur q) (knd q) (nsent q) (handle q) 0) s) /\
  (closing s = false -> attached s = true -> Inv (goto p PStopChk (set_active (S (active s)) s))).
Proof.
  intros I Hp E. unfold get_prod in E. split.
  - prod_counts Hp E (fun q => mkProd PIdle (cur q) (knd q) (nsent q) (handle q) 0).
    frame s p (fun q => mkProd PIdle (cur q) (knd q) (nsent q) (handle q) 0) E I F1 F2. pfields I F1 F2.
  - intros Hc Ha. prod_counts Hp E (set_pc PStopChk). frame s p (set_pc PStopChk) E I F1 F2. pfields I F1 F2.
Qed.

Lemma inv_mark s p : Inv s -> p < length (prods s) -> pc (get_prod p s) = PMark ->
  (stop_req s = true -> Inv (goto p (PLeave 1) s)) /\ Inv (goto p PNotify (set_flag true s)).
Proof.
  intros I Hp E. unfold get_prod in E. split.
  - intros Hs. prod_counts Hp E (set_pc (PLeave 1)). frame s p (set_pc (PLeave 1)) E I F1 F2. pfields I F1 F2.
  - prod_counts Hp E (set_pc PNotify). frame s p (set_pc PNotify) E I F1 F2. pfields I F1 F2.
Qed.

Lemma notify_exec_spec s :
  (cons s <> CBlocked /\ notify_exec s = s) \/ (cons s = CBlocked /\ notify_exec s = set_cons CIdle s).
Proof. unfold notify_exec. destruct (cons s); try (left; split; [discriminate|reflexivity]). right; split; reflexivity. Qed.

(* fields that mention cons, when cons goes CBlocked -> CIdle *)
Ltac pfields_c I F1 F2 Ec :=
  constructor; unf;
  [ exact (i_cfg _ I) | rewrite (i_acc _ I), Ec; reflexivity | exact (i_log _ I) | exact (i_cap _ I)
  | let T := fresh in pose proof (i_time _ I) as T; rewrite Ec in T; exact T
  | use1 I i_wake | use1 I i_note | use1 I i_act | use2 I i_det i_act | use1 I i_stp
  | use2 I i_cvs i_acc | use4 I i_cva i_cap i_cfg i_acc
  | exact F1 | exact F2 | exact (i_pps _ I) ].

Lemma inv_notify s p : Inv s -> p < length (prods s) -> pc (get_prod p s) = PNotify ->
  Inv (goto p (PLeave 1) (notify_exec s)).
Proof.
  intros I Hp E. unfold get_prod in E.
  prod_counts Hp E (set_pc (PLeave 1)). frame s p (set_pc (PLeave 1)) E I F1 F2.
  destruct (notify_exec_spec s) as [[Ec ->]|[Ec ->]].
  - pfields I F1 F2.
  - pfields_c I F1 F2 Ec.
Qed.

Lemma inv_leave s p r : Inv s -> p < length (prods s) -> pc (get_prod p s) = PLeave r ->
  Inv (upd_prod p (fun q => mkProd PIdle (cur q) (knd q) (nsent q) (handle q) r) (set_active (pred (active s)) s)).
Proof.
  intros I Hp E. unfold get_prod in E.
  prod_counts Hp E (fun q => mkProd PIdle (cur q) (knd q) (nsent q) (handle q) r).
  frame s p (fun q => mkProd PIdle (cur q) (knd q) (nsent q) (handle q) r) E I F1 F2. pfields I F1 F2.
Qed.

Ltac pfields_push I F1 :=
  constructor; unf;
  [ exact (i_cfg _ I) | exact (i_acc _ I) | | | exact (i_time _ I)
  | use1 I i_wake | use1 I i_note | use1 I i_act | use2 I i_det i_act | use1 I i_stp
  | use2 I i_cvs i_acc | use4 I i_cva i_cap i_cfg i_acc
  | exact F1 | | ].

Lemma inv_push s p x : Inv s -> p < length (prods s) ->
  pc (get_prod p s) = PAdmit \/ pc (get_prod p s) = PWoken ->
  accepting s = true -> full s = false ->
  x = (if is_nil (vals s) then PMark else PLeave 1) ->
  Inv (goto p x (set_accepted (accepted s ++ [cur (get_prod p s)]) (set_vals (vals s ++ [cur (get_prod p s)]) s))).
Proof.
  intros I Hp E Ha Hf Hx.
  assert (Hpre : pre_adm (pc (get_prod p s)) = true) by (destruct E as [E|E]; rewrite E; reflexivity).
  assert (Hne : pc (get_prod p s) <> PIdle) by (destruct E as [E|E]; rewrite E; discriminate).
  destruct (i_cur s I p Hp Hne) as [Hpid Hns].
  assert (Hx' : x = PMark \/ x = PLeave 1) by (destruct (vals s); simpl in Hx; auto).
  assert (Hlen : cap s <> 0 -> length (vals s) < cap s).
  { intros Hc. apply full_false in Hf. destruct Hf as [Hf|[Hf|Hf]]; [|lia|exact Hf].
    pose proof (i_cfg s I Hf). lia. }
  assert (Hold : forall e', In e' (accepted s) -> e_pid e' = p -> e_seq e' < e_seq (cur (get_prod p s))).
  { intros e' He' Hp'. pose proof (i_seq s I e' He') as B. rewrite Hp' in B. unfold bound in B. rewrite Hpre in B. lia. }
  assert (Hbnew : bound (set_pc x (get_prod p s)) = nsent (get_prod p s)).
  { unfold bound. cbn [pc set_pc nsent]. destruct Hx' as [->| ->]; reflexivity. }
  destruct (cur_seq_frame s p (set_pc x) (accepted s)) as [F1 F2];
    [ intros; split; reflexivity
    | intros _; exact Hne
    | rewrite Hbnew; unfold bound; rewrite Hpre; lia
    | apply (i_cur s I) | apply (i_seq s I) |].
  assert (Hwk : vals s = [] -> x = PMark) by (intros Ev; rewrite Ev in Hx; exact Hx).
  assert (Hwk2 : vals s <> [] -> x = PLeave 1) by (intros Ev; destruct (vals s); [congruence|exact Hx]).
  unfold get_prod in *.
  assert (Cs : forall f, cnt f (update p (set_pc x) (prods s)) + b2n (f (pc (nth p (prods s) idle_prod))) = cnt f (prods s) + b2n (f x)).
  { intros f. apply (cnt_update f p (set_pc x) (prods s) idle_prod Hp). }
  pose proof (Cs is_mark) as Cm. pose proof (Cs is_notify) as Cn. pose proof (Cs inside) as Ci.
  pose proof (Cs is_waiting) as Cw. pose proof (Cs is_woken) as Ck. clear Cs.
  pose proof (i_log s I) as L. rewrite Ha in L.
  assert (Hvs : length (vals s ++ [cur (nth p (prods s) idle_prod)]) = S (length (vals s))) by (rewrite app_length; simpl; lia).
  destruct E as [E|E]; rewrite E in *; destruct Hx' as [Ex|Ex]; rewrite Ex in *;
    cbn [is_mark is_notify inside is_waiting is_woken b2n] in Cm, Cn, Ci, Cw, Ck.
  all: pfields_push I F1.
  all: try (rewrite Ha, L, app_assoc; reflexivity).
  all: try (intros Hc; specialize (Hlen Hc); rewrite Hvs; lia).
  all: try (intros e He; apply in_app_or in He; destruct He as [He|[<-|[]]]; [apply F2; exact He|];
            rewrite Hpid, nth_update_same by exact Hp; rewrite Hbnew; lia).
  all: try (apply PPS_snoc; [exact (i_pps _ I)|intros e' He' Hp'; apply Hold; [exact He'|congruence]]).
Qed.

Lemma inv_admit s p : Inv s -> p < length (prods s) ->
  pc (get_prod p s) = PAdmit \/ pc (get_prod p s) = PWoken -> Inv (admission p (get_prod p s) s).
Proof.
  intros I Hp E. unfold admission, push.
  destruct (accepting s) eqn:Ha; cbn [negb].
  2: { destruct E as [E|E]; unfold get_prod in E; prod_counts Hp E (set_pc (PLeave 0));
       frame s p (set_pc (PLeave 0)) E I F1 F2; pfields I F1 F2. }
  destruct (full s) eqn:Hf.
  - apply full_true in Hf. destruct Hf as (Hf1 & Hf2 & Hf3).
    destruct (knd (get_prod p s)); destruct E as [E|E]; unfold get_prod in E.
    + prod_counts Hp E (set_pc (PLeave 0)). frame s p (set_pc (PLeave 0)) E I F1 F2. pfields I F1 F2.
    + prod_counts Hp E (set_pc (PLeave 0)). frame s p (set_pc (PLeave 0)) E I F1 F2. pfields I F1 F2.
    + prod_counts Hp E (set_pc PWaiting). frame s p (set_pc PWaiting) E I F1 F2. pfields I F1 F2.
    + prod_counts Hp E (set_pc PWaiting). frame s p (set_pc PWaiting) E I F1 F2. pfields I F1 F2.
    + prod_counts Hp E (set_pc (PLeave 2)). frame s p (set_pc (PLeave 2)) E I F1 F2. pfields I F1 F2.
    + prod_counts Hp E (set_pc (PLeave 2)). frame s p (set_pc (PLeave 2)) E I F1 F2. pfields I F1 F2.
  - apply inv_push; auto.
Qed.

Lemma inv_bind s p h : Inv s -> p < length (prods s) -> Inv (upd_prod p (set_handle h) s).
Proof.
  intros I Hp.
  assert (Cs : forall f, cnt f (update p (set_handle h) (prods s)) = cnt f (prods s)).
  { intros f. pose proof (cnt_update f p (set_handle h) (prods s) idle_prod Hp) as C. cbn [pc set_handle] in C. lia. }
  pose proof (Cs is_mark) as Cm. pose proof (Cs is_notify) as Cn. pose proof (Cs inside) as Ci.
  pose proof (Cs is_waiting) as Cw. pose proof (Cs is_woken) as Ck. clear Cs.
  destruct (cur_seq_frame s p (set_handle h) (accepted s)) as [F1 F2];
    [ intros; split; reflexivity | cbn [pc set_handle]; auto | unfold bound; cbn [pc set_handle nsent]; lia
    | apply (i_cur s I) | apply (i_seq s I) |].
  pfields I F1 F2.
Qed.

Lemma inv_spur s p : Inv s -> p < length (prods s) -> pc (get_prod p s) = PWaiting -> Inv (goto p PWoken s).
Proof.
  intros I Hp E. unfold get_prod in E.
  prod_counts Hp E (set_pc PWoken). frame s p (set_pc PWoken) E I F1 F2. pfields I F1 F2.
Qed.

Lemma inv_begin s p v k : Inv s -> p < length (prods s) -> pc (get_prod p s) = PIdle ->
  Inv (upd_prod p (fun q => mkProd PEnter (mkEntry p (nsent q) v) k (S (nsent q)) (handle q) (lastr q)) s).
Proof.
  intros I Hp E. unfold get_prod in E.
  set (g := fun q => mkProd PEnter (mkEntry p (nsent q) v) k (S (nsent q)) (handle q) (lastr q)).
  prod_counts Hp E g.
  assert (F1 : forall p0, p0 < length (update p g (prods s)) -> pc (nth p0 (update p g (prods s)) idle_prod) <> PIdle ->
     e_pid (cur (nth p0 (update p g (prods s)) idle_prod)) = p0 /\
     nsent (nth p0 (update p g (prods s)) idle_prod) = S (e_seq (cur (nth p0 (update p g (prods s)) idle_prod)))).
  { intros q Hq. rewrite update_length in Hq. rewrite nth_update_eq.
    destruct (Nat.eqb_spec p q) as [<-|Hne]; simpl.
    - destruct (Nat.ltb_spec p (length (prods s))); [|lia]. intros _. split; reflexivity.
    - apply (i_cur s I). exact Hq. }
  assert (F2 : forall e, In e (accepted s) -> e_seq e < bound (nth (e_pid e) (update p g (prods s)) idle_prod)).
  { intros e He. pose proof (i_seq s I e He) as B. unfold get_prod in B. rewrite nth_update_eq.
    destruct (Nat.eqb_spec p (e_pid e)) as [Heq|Hne]; simpl; [|exact B].
    rewrite <- Heq in *. destruct (Nat.ltb_spec p (length (prods s))); [|exact B].
    unfold bound in *. cbn [g pc nsent pre_adm]. rewrite E in B. cbn [pre_adm] in B. lia. }
  subst g. cbn [pc is_mark is_notify inside is_waiting is_woken b2n] in Cm, Cn, Ci, Cw, Ck. pfields I F1 F2.
Qed.

