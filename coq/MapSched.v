(* MapSched.v — MIRROR model of the parent-side child scheduling of the keyed map node:
     src/hgraph/runtime/map_node.cpp
        MapChildScheduleContext / MapChildSchedule / MapNodeStorage::child_schedule_queue
        push_observed_child_schedule, push_pulled_child_schedule
        remove_entry_at_slot, create_entry_at_slot (schedule part), on_erase
        prepare_map_evaluation_slots (candidate set, queue drain with the stale-entry rules)
        map_evaluate_impl (due check, pull half, end-of-cycle drain, re-arm from the minimum)
     src/hgraph/runtime/graph.cpp
        schedule_node_impl (the owning graph's slot of the map node),
        nested_schedule_node_impl (push half + observer), propagate_nested_parent_schedule
   A child graph is abstracted to what the map node can see of it: started, and its cached
   next_scheduled_time ([e_next], MAX_DT = nothing pending).  What a child does when it is
   started / evaluated (its new next time) is supplied by the environment in the operation, so
   the theorems quantify over all child behaviours.  The binary min-heap is modelled by the list
   of its elements: the code only ever looks at the minimum and pops in increasing
   (when, slot, pulled) order, which [isort] reproduces; equal elements are indistinguishable.
   Executable definitions only; proofs are in MapSchedFacts.v.
   NOT modelled: pause/resume of a child (mesh), key-source replacement (previous_entries bank),
   binding refresh. *)
Require Import Base.

Record entry := mkE {
  e_started : bool;      (* entry->graph.view().started() *)
  e_pulled  : Z;         (* schedule_context.pulled_when; MAX_DT = none *)
  e_next    : Z }.       (* child.next_scheduled_time(); MAX_DT = none *)

Definition hent := (Z * nat * bool)%type.     (* MapChildSchedule: when, slot, pulled *)
Definition h_when (h : hent) : Z := fst (fst h).
Definition h_slot (h : hent) : nat := snd (fst h).
Definition h_pulled (h : hent) : bool := snd h.

Record st := mkS {
  s_now   : Z;                        (* evaluation time of the graph that owns the map node *)
  s_done  : bool;                     (* the map node has already been evaluated in the cycle at s_now *)
  s_pslot : Z;                        (* graph_schedule(map node) in the owning graph *)
  s_cap   : nat;                      (* entries.slot_capacity() *)
  s_ent   : nat -> option entry;      (* entries.entry_at(slot) *)
  s_heap  : list hent }.              (* child_schedule_queue *)

Definition init : st := mkS 0 true 0 0 (fun _ => None) [].

Definition upd {A} (k : nat) (v : A) (f : nat -> A) : nat -> A := fun x => if Nat.eqb x k then v else f x.

Definition set_ent (k : nat) (e : option entry) (s : st) : st :=
  mkS (s_now s) (s_done s) (s_pslot s) (Nat.max (s_cap s) (S k)) (upd k e (s_ent s)) (s_heap s).
Definition set_heap (h : list hent) (s : st) : st :=
  mkS (s_now s) (s_done s) (s_pslot s) (s_cap s) (s_ent s) h.
Definition hpush (x : hent) (s : st) : st := set_heap (x :: s_heap s) s.

(* graph.cpp schedule_node_impl applied to the map node's slot (when >= now always holds here) *)
Definition psched (when : Z) (s : st) : st :=
  if (s_pslot s <=? s_now s) || (when <? s_pslot s)
  then mkS (s_now s) (s_done s) when (s_cap s) (s_ent s) (s_heap s) else s.

(* ---- the heap order: operator> of MapChildSchedule ---- *)
Definition hleb (a b : hent) : bool :=
  if h_when a <? h_when b then true else if h_when b <? h_when a then false
  else if Nat.ltb (h_slot a) (h_slot b) then true else if Nat.ltb (h_slot b) (h_slot a) then false
  else implb (h_pulled a) (h_pulled b).

Fixpoint insert (x : hent) (l : list hent) : list hent :=
  match l with
  | [] => [x]
  | y :: r => if hleb x y then x :: l else y :: insert x r
  end.
Fixpoint isort (l : list hent) : list hent :=
  match l with [] => [] | x :: r => insert x (isort r) end.

Definition is_due (t : Z) (h : hent) : bool := h_when h <=? t.
Definition due_part (t : Z) (h : list hent) : list hent := isort (filter (is_due t) h).
Definition rest_part (t : Z) (h : list hent) : list hent := filter (fun x => negb (is_due t x)) h.

Fixpoint hmin (d : Z) (h : list hent) : Z :=
  match h with [] => d | x :: r => Z.min (h_when x) (hmin d r) end.

(* ---- operations ---- *)
Record addspec := mkAdd {
  a_slot : nat;
  a_next : Z;          (* the child's next_scheduled_time after start (nodes that scheduled themselves in start) *)
  a_sampled : bool }.  (* schedule_sampled_input_consumers scheduled a consumer: an observed push at now *)

Inductive op :=
| Tick (t : Z)                       (* the owning graph begins its cycle at t *)
| Push (slot : nat) (when : Z)       (* a node of an idle child was scheduled (input notification / alarm) *)
| Erase (slot : nat)                 (* key-set on_erase callback: entries.destroy_at(slot) *)
| Eval (removed : list nat) (added : list addspec) (ticked : list nat) (full : bool) (nexts : nat -> Z).
                                     (* map_evaluate_impl at s_now; [nexts k] = child k's next time if it is evaluated *)

(* the time at which the owning graph is bound to evaluate the map node, if any *)
Definition pend (s : st) : option Z :=
  if (s_now s <? s_pslot s) || ((s_pslot s =? s_now s) && negb (s_done s)) then Some (s_pslot s) else None.

Definition tick_ok (t : Z) (s : st) : bool :=
  (s_now s <? t) &&
  match pend s with Some p => (s_now s <? p) && (t <=? p) | None => true end.

Definition do_tick (t : Z) (s : st) : st :=
  if tick_ok t s then mkS t false (s_pslot s) (s_cap s) (s_ent s) (s_heap s) else s.

(* nested_schedule_node_impl on child [k] while it is idle.  Two combinations cannot arise in a ranked
   graph under the simulation executor and are ignored (see notes-map.md):
   - a notification for the current time after the map node was evaluated in this cycle (it would need a
     producer ranked after the map node);
   - a request for a FUTURE time while the map node is due in this cycle and not yet evaluated:
     schedule_node_impl would overwrite the due slot ([push_future_overwrites_due] in MapSchedFacts.v);
     before the map node runs, the only out-of-band schedules are input notifications for the current time. *)
Definition push_ok (w : Z) (s : st) : bool :=
  ((s_now s <? w) || negb (s_done s)) &&
  negb ((s_pslot s =? s_now s) && negb (s_done s) && (s_now s <? w)).

Definition do_push (k : nat) (when : Z) (s : st) : st :=
  let w := Z.max when (s_now s) in
  match s_ent s k with
  | Some e =>
      if e_started e && push_ok w s then
        psched w (hpush (w, k, false) (set_ent k (Some (mkE true (e_pulled e) (Z.min (e_next e) w))) s))
      else s
  | None => s
  end.

Definition do_erase (k : nat) (s : st) : st :=
  mkS (s_now s) (s_done s) (s_pslot s) (s_cap s) (upd k None (s_ent s)) (s_heap s).

(* remove_entry_at_slot: stop the child (stop_impl resets its next_scheduled_time), forget the pull marker;
   the entry stays constructed and its queue entries stay in the heap *)
Definition remove_slot (k : nat) (s : st) : st :=
  match s_ent s k with
  | Some e => set_ent k (Some (mkE false MAX_DT MAX_DT)) s
  | None => s
  end.

Definition clamp_next (now n : Z) : Z := if n <? now then MAX_DT else n.
Definition clamp_after (now n : Z) : Z := if n <=? now then MAX_DT else n.

(* create_entry_at_slot: nothing if a started child is there; otherwise (re)start, reset the schedule
   context, install the observer, then sample *)
Definition create_slot (a : addspec) (s : st) : st :=
  let k := a_slot a in
  match s_ent s k with
  | Some e => if e_started e then s else
      let s1 := set_ent k (Some (mkE true MAX_DT (clamp_next (s_now s) (a_next a)))) s in
      if a_sampled a then do_push k (s_now s) s1 else s1
  | None =>
      let s1 := set_ent k (Some (mkE true MAX_DT (clamp_next (s_now s) (a_next a)))) s in
      if a_sampled a then do_push k (s_now s) s1 else s1
  end.

Definition reconcile (removed : list nat) (added : list addspec) (s : st) : st :=
  fold_left (fun s a => create_slot a s) added (fold_left (fun s k => remove_slot k s) removed s).

(* candidate bitmap *)
Definition cset := nat -> bool.
Definition cadd (ent : nat -> option entry) (k : nat) (c : cset) : cset :=
  match ent k with Some _ => upd k true c | None => c end.

(* the first queue drain (prepare_map_evaluation_slots) *)
Fixpoint drain_due (due : list hent) (ent : nat -> option entry) (c : cset) : (nat -> option entry) * cset :=
  match due with
  | [] => (ent, c)
  | h :: r =>
      match ent (h_slot h) with
      | None => drain_due r ent c
      | Some e =>
          if h_pulled h then
            if e_pulled e =? h_when h
            then drain_due r (upd (h_slot h) (Some (mkE (e_started e) MAX_DT (e_next e))) ent) (upd (h_slot h) true c)
            else drain_due r ent c
          else drain_due r ent (upd (h_slot h) true c)
      end
  end.

Definition all_slots (ent : nat -> option entry) : cset :=
  fun k => match ent k with Some _ => true | None => false end.

Definition prepare (added : list addspec) (ticked : list nat) (full : bool) (s : st) : st * cset :=
  let c0 := fold_left (fun c k => cadd (s_ent s) k c) (map a_slot added ++ ticked) (fun _ => false) in
  let '(ent1, c1) := drain_due (due_part (s_now s) (s_heap s)) (s_ent s) c0 in
  let s1 := mkS (s_now s) (s_done s) (s_pslot s) (s_cap s) ent1 (rest_part (s_now s) (s_heap s)) in
  (s1, if full then all_slots ent1 else c1).

(* one iteration of the evaluation loop, for candidate slot k *)
Definition eval_slot (nexts : nat -> Z) (k : nat) (s : st) : st :=
  match s_ent s k with
  | None => s
  | Some e =>
      if negb (e_started e) then s else
      let t := s_now s in
      (* due: child.evaluate; the nested evaluation block ends with propagate_nested_parent_schedule *)
      let '(e1, s1) :=
        if e_next e <=? t then
          let n := clamp_after t (nexts k) in
          (mkE true (e_pulled e) n, if n <? MAX_DT then psched n s else s)
        else (e, s) in
      let n := e_next e1 in
      if (n <? MAX_DT) && (t <? n) then
        if e_pulled e1 =? n then set_ent k (Some e1) s1
        else hpush (n, k, true) (set_ent k (Some (mkE true n n)) s1)
      else set_ent k (Some (mkE true MAX_DT n)) s1
  end.

Definition eval_loop (nexts : nat -> Z) (c : cset) (s : st) : st :=
  fold_left (fun s k => if c k then eval_slot nexts k s else s) (seq 0 (s_cap s)) s.

(* the second drain: discard what became due during this evaluation, fixing the pull markers *)
Fixpoint drain_end (due : list hent) (ent : nat -> option entry) : nat -> option entry :=
  match due with
  | [] => ent
  | h :: r =>
      if h_pulled h then
        match ent (h_slot h) with
        | Some e => if e_pulled e =? h_when h
                    then drain_end r (upd (h_slot h) (Some (mkE (e_started e) MAX_DT (e_next e))) ent)
                    else drain_end r ent
        | None => drain_end r ent
        end
      else drain_end r ent
  end.

Definition finish (s : st) : st :=
  let ent := drain_end (due_part (s_now s) (s_heap s)) (s_ent s) in
  let h := rest_part (s_now s) (s_heap s) in
  let s1 := mkS (s_now s) true (s_pslot s) (s_cap s) ent h in
  match h with [] => s1 | _ => psched (hmin MAX_DT h) s1 end.

Definition do_eval removed added ticked full nexts (s : st) : st :=
  if s_done s then s else
  let s0 := reconcile removed added s in
  let '(s1, c) := prepare added ticked full s0 in
  finish (eval_loop nexts c s1).

Definition step (s : st) (o : op) : st :=
  match o with
  | Tick t => do_tick t s
  | Push k w => do_push k w s
  | Erase k => do_erase k s
  | Eval rm ad tk fu nx => do_eval rm ad tk fu nx s
  end.

Definition reach (ops : list op) : st := fold_left step ops init.

(* the evaluation set of an Eval performed in state s: the slots whose child is evaluated *)
Definition evaluated_in removed added ticked full (s : st) (k : nat) : bool :=
  let s0 := reconcile removed added s in
  let '(s1, c) := prepare added ticked full s0 in
  c k && match s_ent s1 k with Some e => e_started e && (e_next e <=? s_now s) | None => false end.
