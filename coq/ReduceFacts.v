(* ReduceFacts.v — lemmas about the mirror model of Reduce.v (property C11).

   Part 1  heap positions in coordinates (height j, offset u) and the recursive
           characterisation of resolve_aggregate;
   Part 2  leaf-to-root paths;
   Part 3  what an aggregate is worth: the fold over its live leaves;
   Part 4  the structural and evaluation passes as index-wise updates;
   Part 5  the reconciliation of the dense leaf maps against a coherent delta;
   Part 6  the invariant of a cycle and the theorems of C11. *)
Require Import Base Reduce.
From Coq Require Import PeanoNat Lia List Bool.
Local Open Scope nat_scope.

(* ================================================================== *)
(* Part 1: positions                                                   *)

Lemma pow2_pos n : 1 <= 2 ^ n.
Proof. induction n; simpl; lia. Qed.

Lemma pow2_S n : 2 ^ S n = 2 * 2 ^ n.
Proof. reflexivity. Qed.

Lemma pow2_ge2 n : 1 <= n -> 2 <= 2 ^ n.
Proof. destruct n; [lia|]. intros _. rewrite pow2_S. pose proof (pow2_pos n). lia. Qed.

Lemma pow2_lt_lin n : n < 2 ^ n.
Proof. induction n; simpl; lia. Qed.

Lemma pow2_half j : 1 <= j -> 2 ^ j = 2 * 2 ^ (j - 1).
Proof. destruct j; [lia|]. intros _. replace (S j - 1) with j by lia. reflexivity. Qed.

Lemma pow2_div2 j : 1 <= j -> 2 ^ j / 2 = 2 ^ (j - 1).
Proof. intros H. rewrite (pow2_half j H). rewrite Nat.mul_comm. apply Nat.div_mul. lia. Qed.

Lemma pow2_split k j : j <= k -> 2 ^ k = 2 ^ j * 2 ^ (k - j).
Proof. intros H. rewrite <- Nat.pow_add_r. f_equal. lia. Qed.

Lemma pow2_div k j : j <= k -> 2 ^ k / 2 ^ (k - j) = 2 ^ j.
Proof.
  intros H. rewrite (pow2_split k j H). apply Nat.div_mul.
  pose proof (pow2_pos (k - j)). lia.
Qed.

(* the heap position of the node of height j (its subtree spans 2^j leaves) and
   offset u within its level, in a tree of capacity 2^k *)
Definition pos (k j u : nat) : nat := 2 ^ (k - j) - 1 + u.

Lemma pos_left k j u : 1 <= j -> j <= k -> 2 * pos k j u + 1 = pos k (j - 1) (2 * u).
Proof.
  intros H1 H2. unfold pos. replace (k - (j - 1)) with (S (k - j)) by lia.
  rewrite pow2_S. pose proof (pow2_pos (k - j)). lia.
Qed.

Lemma pos_right k j u : 1 <= j -> j <= k -> 2 * pos k j u + 2 = pos k (j - 1) (2 * u + 1).
Proof.
  intros H1 H2. unfold pos. replace (k - (j - 1)) with (S (k - j)) by lia.
  rewrite pow2_S. pose proof (pow2_pos (k - j)). lia.
Qed.

Lemma pos_log2 k j u : u < 2 ^ (k - j) -> Nat.log2 (pos k j u + 1) = k - j.
Proof.
  intros H. apply Nat.log2_unique; [lia|]. unfold pos. rewrite pow2_S.
  pose proof (pow2_pos (k - j)). lia.
Qed.

Lemma internals_pow2 k : internals (2 ^ k) = 2 ^ k - 1.
Proof.
  unfold internals. destruct (1 <? 2 ^ k) eqn:E; [reflexivity|].
  apply Nat.ltb_ge in E. pose proof (pow2_pos k). lia.
Qed.

Lemma pos_internal k j u : 1 <= j -> j <= k -> u < 2 ^ (k - j) -> pos k j u < internals (2 ^ k).
Proof.
  intros H1 H2 H3. rewrite internals_pow2. unfold pos.
  rewrite (pow2_split k j H2). pose proof (pow2_ge2 j H1). pose proof (pow2_pos (k - j)). nia.
Qed.

Lemma pos_leaf k u : pos k 0 u = internals (2 ^ k) + u.
Proof. rewrite internals_pow2. unfold pos. rewrite Nat.sub_0_r. reflexivity. Qed.

(* every internal position has coordinates *)
Lemma pos_coords k p : p < internals (2 ^ k) ->
  exists j u, 1 <= j /\ j <= k /\ u < 2 ^ (k - j) /\ p = pos k j u.
Proof.
  intros H. rewrite internals_pow2 in H.
  pose proof (Nat.log2_spec (p + 1) ltac:(lia)) as [L1 L2].
  set (d := Nat.log2 (p + 1)) in *.
  assert (Hd : d < k).
  { destruct (Nat.lt_ge_cases d k) as [|G]; [assumption|].
    pose proof (Nat.pow_le_mono_r 2 k d ltac:(lia) G). lia. }
  exists (k - d), (p + 1 - 2 ^ d). replace (k - (k - d)) with d by lia.
  repeat split; try lia.
  - rewrite pow2_S in L2. lia.
  - unfold pos. replace (k - (k - d)) with d by lia. pose proof (pow2_pos d). lia.
Qed.

(* ---- the descent loop ---- *)
Lemma descend_fuel : forall j f1 f2 p lis, j <= f1 -> j <= f2 -> 2 <= lis -> lis <= 2 ^ j ->
  descend f1 p (2 ^ j) lis = descend f2 p (2 ^ j) lis.
Proof.
  induction j as [|j IH]; intros f1 f2 p lis H1 H2 H3 H4.
  - simpl in H4. lia.
  - destruct f1 as [|f1]; [lia|]. destruct f2 as [|f2]; [lia|].
    cbn [descend]. rewrite (pow2_div2 (S j)) by lia. replace (S j - 1) with j by lia.
    destruct (lis <=? 2 ^ j) eqn:E; [|reflexivity].
    apply Nat.leb_le in E. apply IH; lia.
Qed.

Lemma descend_step j f p lis : 1 <= j -> j <= f -> 2 <= lis -> lis <= 2 ^ j ->
  descend f p (2 ^ j) lis = if lis <=? 2 ^ (j - 1) then descend f (2 * p + 1) (2 ^ (j - 1)) lis else p.
Proof.
  intros H1 H2 H3 H4. destruct f as [|f]; [lia|].
  change (descend (S f) p (2 ^ j) lis)
    with (if lis <=? 2 ^ j / 2 then descend f (2 * p + 1) (2 ^ j / 2) lis else p).
  rewrite (pow2_div2 j H1).
  destruct (lis <=? 2 ^ (j - 1)) eqn:E; [|reflexivity].
  apply Nat.leb_le in E. apply descend_fuel with (j := j - 1); lia.
Qed.

(* resolve_aggregate with the bit arithmetic evaluated *)
Lemma resolve_unfold k j u live : 1 <= j -> j <= k -> u < 2 ^ (k - j) ->
  resolve (2 ^ k) live (pos k j u) =
    if live <=? u * 2 ^ j then AEmpty
    else let lis := Nat.min (2 ^ j) (live - u * 2 ^ j) in
         if lis =? 1 then ALeaf (u * 2 ^ j) else ANode (descend (2 ^ k) (pos k j u) (2 ^ j) lis).
Proof.
  intros H1 H2 H3. unfold resolve.
  pose proof (pos_internal k j u H1 H2 H3) as Hi.
  destruct (internals (2 ^ k) <=? pos k j u) eqn:E; [apply Nat.leb_le in E; lia|].
  rewrite (pos_log2 k j u H3). rewrite (pow2_div k j H2).
  replace (pos k j u + 1 - 2 ^ (k - j)) with u by (unfold pos; pose proof (pow2_pos (k - j)); lia).
  reflexivity.
Qed.

Lemma resolve_leaf_level k u live : u < 2 ^ k ->
  resolve (2 ^ k) live (pos k 0 u) = if u <? live then ALeaf u else AEmpty.
Proof.
  intros H. unfold resolve. rewrite pos_leaf.
  destruct (internals (2 ^ k) <=? internals (2 ^ k) + u) eqn:E; [|apply Nat.leb_gt in E; lia].
  replace (internals (2 ^ k) + u - internals (2 ^ k)) with u by lia. reflexivity.
Qed.

(* The recursive reading of resolve_aggregate: empty / one leaf / the alias of
   the left child when the right half is empty / this combine point. *)
Lemma resolve_rec k j u live : 1 <= j -> j <= k -> u < 2 ^ (k - j) ->
  resolve (2 ^ k) live (pos k j u) =
    if live <=? u * 2 ^ j then AEmpty
    else if live =? u * 2 ^ j + 1 then ALeaf (u * 2 ^ j)
    else if live <=? u * 2 ^ j + 2 ^ (j - 1) then resolve (2 ^ k) live (pos k (j - 1) (2 * u))
    else ANode (pos k j u).
Proof.
  intros H1 H2 H3. rewrite (resolve_unfold k j u live H1 H2 H3).
  set (a := u * 2 ^ j).
  destruct (live <=? a) eqn:E1; [reflexivity|]. apply Nat.leb_gt in E1.
  pose proof (pow2_ge2 j H1) as Hj2. pose proof (pow2_half j H1) as Hh.
  cbv zeta.
  destruct (live =? a + 1) eqn:E2.
  - apply Nat.eqb_eq in E2. replace (Nat.min (2 ^ j) (live - a)) with 1 by lia. reflexivity.
  - apply Nat.eqb_neq in E2.
    destruct (Nat.min (2 ^ j) (live - a) =? 1) eqn:E3; [apply Nat.eqb_eq in E3; lia|].
    rewrite descend_step; try lia.
    2:{ pose proof (pow2_lt_lin k). lia. }
    destruct (live <=? a + 2 ^ (j - 1)) eqn:E4.
    + apply Nat.leb_le in E4.
      assert (Hm : Nat.min (2 ^ j) (live - a) = live - a) by lia. rewrite Hm.
      destruct (live - a <=? 2 ^ (j - 1)) eqn:E5; [|apply Nat.leb_gt in E5; lia].
      (* the left child is itself internal, since it holds at least two leaves *)
      assert (Hj1 : 2 <= j).
      { destruct j as [|[|j]]; try lia. simpl in *. lia. }
      rewrite pos_left by lia.
      assert (Hu : 2 * u < 2 ^ (k - (j - 1))).
      { replace (k - (j - 1)) with (S (k - j)) by lia. rewrite pow2_S. lia. }
      rewrite (resolve_unfold k (j - 1) (2 * u) live) by lia.
      assert (Ha : 2 * u * 2 ^ (j - 1) = a) by (unfold a; rewrite Hh; lia).
      rewrite Ha.
      destruct (live <=? a) eqn:E6; [apply Nat.leb_le in E6; lia|].
      cbv zeta.
      assert (Hm' : Nat.min (2 ^ (j - 1)) (live - a) = live - a) by lia. rewrite Hm'.
      destruct (live - a =? 1) eqn:E7; [apply Nat.eqb_eq in E7; lia|].
      reflexivity.
    + apply Nat.leb_gt in E4.
      destruct (Nat.min (2 ^ j) (live - a) <=? 2 ^ (j - 1)) eqn:E5; [apply Nat.leb_le in E5; lia|].
      reflexivity.
Qed.

(* an aggregate is empty exactly when its interval starts beyond the live prefix *)
Lemma resolve_empty_iff : forall j k u live, j <= k -> u < 2 ^ (k - j) ->
  (resolve (2 ^ k) live (pos k j u) = AEmpty <-> live <= u * 2 ^ j).
Proof.
  induction j as [|j IH]; intros k u live H2 H3.
  - rewrite Nat.sub_0_r in H3. rewrite (resolve_leaf_level k u live H3). simpl. rewrite Nat.mul_1_r.
    destruct (u <? live) eqn:E; [apply Nat.ltb_lt in E|apply Nat.ltb_ge in E]; split; intros; try lia; try discriminate; auto.
  - rewrite (resolve_rec k (S j) u live) by lia.
    replace (S j - 1) with j by lia.
    destruct (live <=? u * 2 ^ S j) eqn:E1.
    { apply Nat.leb_le in E1. tauto. }
    apply Nat.leb_gt in E1.
    destruct (live =? u * 2 ^ S j + 1) eqn:E2.
    { split; [discriminate|lia]. }
    destruct (live <=? u * 2 ^ S j + 2 ^ j) eqn:E3.
    + assert (Hu : 2 * u < 2 ^ (k - j)).
      { replace (k - j) with (S (k - S j)) by lia. rewrite pow2_S. lia. }
      rewrite (IH k (2 * u) live ltac:(lia) Hu). rewrite pow2_S. lia.
    + split; [discriminate|lia].
Qed.

(* ================================================================== *)
(* Part 2: leaf-to-root paths                                          *)

Lemma pos_inj k j u j' u' : j <= k -> j' <= k -> u < 2 ^ (k - j) -> u' < 2 ^ (k - j') ->
  pos k j u = pos k j' u' -> j = j' /\ u = u'.
Proof.
  intros H1 H2 H3 H4 E.
  pose proof (pos_log2 k j u H3) as L1. pose proof (pos_log2 k j' u' H4) as L2.
  rewrite E in L1. assert (j = j') by lia. subst j'. split; [reflexivity|].
  unfold pos in E. lia.
Qed.

Lemma pos_parent k j u : j < k -> u < 2 ^ (k - j) ->
  pos k j u <> 0 /\ (pos k j u - 1) / 2 = pos k (S j) (u / 2).
Proof.
  intros H1 H2. unfold pos.
  replace (k - j) with (S (k - S j)) in * by lia. rewrite pow2_S in *.
  pose proof (pow2_pos (k - S j)) as Hp. split; [lia|].
  replace (2 * 2 ^ (k - S j) - 1 + u - 1) with ((2 ^ (k - S j) - 1) * 2 + u) by lia.
  rewrite Nat.div_add_l by lia. reflexivity.
Qed.

Lemma in_path_up : forall d k j u fuel q, j <= k -> k - j = d -> u < 2 ^ (k - j) -> d < fuel ->
  (In q (path_up fuel (pos k j u) (internals (2 ^ k))) <->
   exists t, 1 <= t /\ t <= k - j /\ q = pos k (j + t) (u / 2 ^ t)).
Proof.
  induction d as [|d IH]; intros k j u fuel q H1 H2 H3 H4.
  - assert (j = k) by lia. subst j. rewrite Nat.sub_diag in *. simpl in H3.
    assert (u = 0) by lia. subst u. unfold pos. rewrite Nat.sub_diag. simpl.
    destruct fuel; simpl; split; try tauto; intros [t Ht]; lia.
  - destruct fuel as [|fuel]; [lia|].
    cbn [path_up]. destruct (pos k j u) eqn:Ep.
    { destruct (pos_parent k j u ltac:(lia) H3) as [Hnz _]. lia. }
    rewrite <- Ep. destruct (pos_parent k j u ltac:(lia) H3) as [Hnz Hpar]. rewrite Hpar.
    assert (Hu2 : u / 2 < 2 ^ (k - S j)).
    { apply Nat.div_lt_upper_bound; [lia|]. replace (k - j) with (S (k - S j)) in H3 by lia.
      rewrite pow2_S in H3. lia. }
    assert (Hint : pos k (S j) (u / 2) < internals (2 ^ k)) by (apply pos_internal; lia).
    destruct (pos k (S j) (u / 2) <? internals (2 ^ k)) eqn:E; [|apply Nat.ltb_ge in E; lia].
    cbn [app In].
    rewrite (IH k (S j) (u / 2) fuel q) by lia.
    split.
    + intros [Hq|[t [Ht1 [Ht2 Hq]]]].
      * exists 1. repeat split; try lia. subst q.
        replace (j + 1) with (S j) by lia. replace (2 ^ 1) with 2 by reflexivity. reflexivity.
      * exists (S t). repeat split; try lia. subst q.
        replace (j + S t) with (S j + t) by lia.
        rewrite Nat.div_div by (pose proof (pow2_pos t); lia). rewrite pow2_S. reflexivity.
    + intros [t [Ht1 [Ht2 Hq]]].
      destruct t as [|[|t]]; [lia| |].
      * left. subst q.
        replace (j + 1) with (S j) by lia. replace (2 ^ 1) with 2 by reflexivity. reflexivity.
      * right. exists (S t). repeat split; try lia. subst q.
        replace (j + S (S t)) with (S j + S t) by lia.
        rewrite Nat.div_div by (pose proof (pow2_pos (S t)); lia).
        rewrite (pow2_S (S t)). reflexivity.
Qed.

Lemma div_interval i b u : 0 < b -> (i / b = u <-> u * b <= i /\ i < (u + 1) * b).
Proof.
  intros Hb. split.
  - intros <-. pose proof (Nat.mul_div_le i b ltac:(lia)). pose proof (Nat.mul_succ_div_gt i b ltac:(lia)). lia.
  - intros [H1 H2]. symmetry. apply (Nat.div_unique i b u (i - u * b)); lia.
Qed.

(* the path of leaf i holds exactly the combine points whose interval contains i *)
Lemma leaf_path_iff k i j u : i < 2 ^ k -> 1 <= j -> j <= k -> u < 2 ^ (k - j) ->
  (In (pos k j u) (leaf_path (2 ^ k) (internals (2 ^ k)) i) <-> u * 2 ^ j <= i /\ i < (u + 1) * 2 ^ j).
Proof.
  intros Hi H1 H2 H3. unfold leaf_path. rewrite <- pos_leaf.
  rewrite (in_path_up k k 0 i) ; try lia.
  2:{ rewrite Nat.sub_0_r. exact Hi. }
  2:{ rewrite pos_leaf, internals_pow2. pose proof (pow2_lt_lin k). lia. }
  split.
  - intros [t [Ht1 [Ht2 E]]]. simpl in E.
    assert (Ht3 : i / 2 ^ t < 2 ^ (k - t)).
    { apply Nat.div_lt_upper_bound; [pose proof (pow2_pos t); lia|]. rewrite <- pow2_split by lia. exact Hi. }
    apply pos_inj in E; try lia. destruct E as [-> ->].
    apply div_interval; [pose proof (pow2_pos t); lia|reflexivity].
  - intros Hint. exists j. repeat split; try lia. simpl. f_equal. symmetry.
    apply div_interval; [pose proof (pow2_pos j); lia|exact Hint].
Qed.

Lemma leaf_path_internal k i q : i < 2 ^ k -> In q (leaf_path (2 ^ k) (internals (2 ^ k)) i) -> q < internals (2 ^ k).
Proof.
  intros Hi. unfold leaf_path. rewrite <- pos_leaf.
  rewrite (in_path_up k k 0 i); try lia.
  2:{ rewrite Nat.sub_0_r. exact Hi. }
  2:{ rewrite pos_leaf, internals_pow2. pose proof (pow2_lt_lin k). lia. }
  intros [t [Ht1 [Ht2 E]]]. subst q. simpl. apply pos_internal; try lia.
  apply Nat.div_lt_upper_bound; [pose proof (pow2_pos t); lia|]. rewrite <- pow2_split by lia. exact Hi.
Qed.

(* ================================================================== *)
(* Part 3: what an aggregate is worth                                  *)

Lemma nth_opt_length {A} (l : list A) i : i < length l <-> nth_opt i l <> None.
Proof.
  revert i. induction l as [|x r IH]; intros i; simpl.
  - split; [lia|]. intros H; exfalso; apply H; destruct i; reflexivity.
  - destruct i; simpl. { split; [congruence|lia]. } rewrite <- IH. lia.
Qed.

Lemma nth_opt_none {A} (l : list A) i : length l <= i <-> nth_opt i l = None.
Proof.
  revert i. induction l as [|x r IH]; intros i; simpl.
  - split; [|lia]. destruct i; reflexivity.
  - destruct i; simpl. { split; [lia|congruence]. } rewrite <- IH. lia.
Qed.

Lemma nth_opt_app_l {A} (l r : list A) i : i < length l -> nth_opt i (l ++ r) = nth_opt i l.
Proof. revert i. induction l as [|x l IH]; intros i H; simpl in *; [lia|]. destruct i; [reflexivity|]. apply IH. lia. Qed.

Lemma nth_opt_app_r {A} (l r : list A) i : length l <= i -> nth_opt i (l ++ r) = nth_opt (i - length l) r.
Proof. revert i. induction l as [|x l IH]; intros i H; simpl in *. { f_equal. lia. } destruct i; [lia|]. apply IH. lia. Qed.

Lemma nth_opt_set_nth_same {A} (l : list A) i v : i < length l -> nth_opt i (set_nth i v l) = Some v.
Proof. revert i. induction l as [|x l IH]; intros i H; simpl in *; [lia|]. destruct i; [reflexivity|]. apply IH. lia. Qed.

Lemma nth_opt_set_nth_other {A} (l : list A) i j v : i <> j -> nth_opt j (set_nth i v l) = nth_opt j l.
Proof. revert i j. induction l as [|x l IH]; intros i j H; simpl. { destruct i; reflexivity. }
  destruct i, j; simpl; try reflexivity; try lia. apply IH. lia. Qed.

Lemma set_nth_length {A} (l : list A) i v : length (set_nth i v l) = length l.
Proof. apply update_length. Qed.

Lemma skipn_skipn' {A} (l : list A) a b : skipn b (skipn a l) = skipn (a + b) l.
Proof. revert l. induction a as [|a IH]; intros l; simpl; [reflexivity|]. destruct l; [destruct b; reflexivity|]. apply IH. Qed.

Lemma firstn_add {A} (l : list A) m1 m2 : firstn (m1 + m2) l = firstn m1 l ++ firstn m2 (skipn m1 l).
Proof. revert l. induction m1 as [|m IH]; intros l; simpl; [reflexivity|]. destruct l; simpl; [destruct m2; reflexivity|]. f_equal. apply IH. Qed.

Definition seg {A} (l : list A) (a m : nat) : list A := firstn m (skipn a l).

Lemma seg_split {A} (l : list A) a m1 m2 : seg l a (m1 + m2) = seg l a m1 ++ seg l (a + m1) m2.
Proof. unfold seg. rewrite firstn_add. rewrite skipn_skipn'. reflexivity. Qed.

Lemma seg_one {A} (l : list A) a v : nth_opt a l = Some v -> seg l a 1 = [v].
Proof. unfold seg. revert a. induction l as [|x r IH]; intros a H; simpl in *. { destruct a; discriminate. }
  destruct a; simpl in *. { congruence. } apply IH. exact H. Qed.

Section Values.
Variable f : Z -> Z -> Z.
Variable cf : cfg.
Hypothesis f_assoc : forall a b c, f (f a b) c = f a (f b c).

Definition fold1 (l : list Z) : option Z :=
  match l with [] => None | x :: r => Some (fold_left f r x) end.

Lemma fold_left_assoc r a y : fold_left f r (f a y) = f a (fold_left f r y).
Proof. revert y. induction r as [|z r IH]; intros y; simpl; [reflexivity|]. rewrite f_assoc. apply IH. Qed.

Lemma fold1_app l1 l2 x y : fold1 l1 = Some x -> fold1 l2 = Some y -> fold1 (l1 ++ l2) = Some (f x y).
Proof.
  destruct l1 as [|a r1]; [discriminate|]. destruct l2 as [|b r2]; [discriminate|].
  simpl. intros [= <-] [= <-]. f_equal. rewrite fold_left_app. simpl. apply fold_left_assoc.
Qed.

(* the value of the output an aggregate aliases *)
Definition aval (st : store) (L : list leaf) (combs : list (option comb)) (a : agg) : option Z :=
  src_value cf st combs (agg_src cf L combs a).

(* every dense leaf has a value: [vals] lists them in dense order *)
Definition leaf_vals (st : store) (L : list leaf) (vals : list Z) : Prop :=
  length vals = length L /\
  forall i lf, nth_opt i L = Some lf -> exists v, nth_opt i vals = Some v /\ slot_value st (lf_slot lf) = Some v.

(* local consistency of the combine points: present exactly where both halves are
   non-empty (right half non-empty), and then worth f of its two child aggregates *)
Definition comb_ok (st : store) (L : list leaf) (combs : list (option comb)) (k : nat) (p : nat) : Prop :=
  exists c x y, nth_opt p combs = Some (Some c) /\ cb_out c = Some (f x y) /\
                aval st L combs (resolve (2 ^ k) (length L) (2 * p + 1)) = Some x /\
                aval st L combs (resolve (2 ^ k) (length L) (2 * p + 2)) = Some y.

Definition tree_ok (st : store) (L : list leaf) (combs : list (option comb)) (k : nat) : Prop :=
  forall j u, 1 <= j -> j <= k -> u < 2 ^ (k - j) -> u * 2 ^ j + 2 ^ (j - 1) < length L ->
              comb_ok st L combs k (pos k j u).

Lemma aval_leaf st L combs vals i : leaf_vals st L vals -> i < length L ->
  exists v, nth_opt i vals = Some v /\ aval st L combs (ALeaf i) = Some v.
Proof.
  intros [Hlen Hv] Hi. destruct (nth_opt i L) as [lf|] eqn:E.
  - destruct (Hv i lf E) as [v [H1 H2]]. exists v. split; [exact H1|].
    unfold aval, agg_src. rewrite E. exact H2.
  - apply nth_opt_none in E. lia.
Qed.

(* The aggregate of the subtree (j, u) is the fold of f over its live leaves. *)
Lemma aval_resolve st L combs vals k : leaf_vals st L vals -> tree_ok st L combs k ->
  forall j u, j <= k -> u < 2 ^ (k - j) -> u * 2 ^ j < length L ->
    aval st L combs (resolve (2 ^ k) (length L) (pos k j u)) =
    fold1 (seg vals (u * 2 ^ j) (Nat.min (2 ^ j) (length L - u * 2 ^ j))).
Proof.
  intros Hvals Htree. induction j as [|j IH]; intros u H2 H3 H4.
  - rewrite Nat.sub_0_r in H3. rewrite (resolve_leaf_level k u _ H3).
    change (2 ^ 0) with 1 in *. rewrite Nat.mul_1_r in *.
    destruct (u <? length L) eqn:E; [|apply Nat.ltb_ge in E; lia].
    destruct (aval_leaf st L combs vals u Hvals H4) as [v [H5 H6]]. rewrite H6.
    replace (Nat.min 1 (length L - u)) with 1 by lia. rewrite (seg_one vals u v H5). reflexivity.
  - rewrite (resolve_rec k (S j) u (length L)) by lia.
    replace (S j - 1) with j by lia.
    set (a := u * 2 ^ S j) in *. set (n := length L) in *.
    assert (Hu0 : 2 * u < 2 ^ (k - j)).
    { replace (k - j) with (S (k - S j)) by lia. rewrite pow2_S. lia. }
    assert (Ha0 : 2 * u * 2 ^ j = a) by (unfold a; rewrite pow2_S; lia).
    assert (Ha1 : (2 * u + 1) * 2 ^ j = a + 2 ^ j) by (unfold a; rewrite pow2_S; lia).
    pose proof (pow2_pos j) as Hpj.
    destruct (n <=? a) eqn:E1; [apply Nat.leb_le in E1; lia|]. clear E1.
    destruct (n =? a + 1) eqn:E2.
    + apply Nat.eqb_eq in E2.
      destruct (aval_leaf st L combs vals a Hvals ltac:(fold n; lia)) as [v [H5 H6]]. rewrite H6.
      replace (Nat.min (2 ^ S j) (n - a)) with 1 by (rewrite pow2_S; lia).
      rewrite (seg_one vals a v H5). reflexivity.
    + apply Nat.eqb_neq in E2.
      destruct (n <=? a + 2 ^ j) eqn:E3.
      * apply Nat.leb_le in E3.
        rewrite (IH (2 * u)) by lia. rewrite Ha0. fold n.
        f_equal. f_equal. rewrite pow2_S. lia.
      * apply Nat.leb_gt in E3.
        destruct (Htree (S j) u ltac:(lia) H2 H3) as [c [x [y [Hc [Hout [Hx Hy]]]]]].
        { replace (S j - 1) with j by lia. fold a. fold n. lia. }
        unfold aval at 1. unfold agg_src. rewrite Hc. cbn [src_value]. rewrite Hc. rewrite Hout.
        rewrite (pos_left k (S j) u) in Hx by lia. rewrite (pos_right k (S j) u) in Hy by lia.
        replace (S j - 1) with j in * by lia. fold n in Hx, Hy.
        rewrite (IH (2 * u)) in Hx by lia.
        assert (Hu1 : 2 * u + 1 < 2 ^ (k - j)).
        { replace (k - j) with (S (k - S j)) by lia. rewrite pow2_S. lia. }
        rewrite (IH (2 * u + 1)) in Hy by (fold n; lia).
        rewrite Ha0 in Hx. rewrite Ha1 in Hy. fold n in Hx, Hy.
        replace (Nat.min (2 ^ j) (n - a)) with (2 ^ j) in Hx by lia.
        replace (Nat.min (2 ^ S j) (n - a)) with (2 ^ j + Nat.min (2 ^ j) (n - (a + 2 ^ j))) by (rewrite pow2_S; lia).
        rewrite seg_split. symmetry. apply fold1_app; assumption.
Qed.

End Values.

(* ================================================================== *)
(* Part 4: what resolve returns, sorting, the structural pass           *)

Lemma resolve_node_spec : forall j k u live q, j <= k -> u < 2 ^ (k - j) ->
  resolve (2 ^ k) live (pos k j u) = ANode q ->
  exists j' u', 1 <= j' /\ j' <= j /\ u' < 2 ^ (k - j') /\ q = pos k j' u' /\
                u' * 2 ^ j' = u * 2 ^ j /\ u' * 2 ^ j' + 2 ^ (j' - 1) < live /\
                (j' = j \/ live <= u * 2 ^ j + 2 ^ j').
Proof.
  induction j as [|j IH]; intros k u live q H2 H3 E.
  - rewrite Nat.sub_0_r in H3. rewrite (resolve_leaf_level k u live H3) in E.
    destruct (u <? live); discriminate.
  - rewrite (resolve_rec k (S j) u live) in E by lia. replace (S j - 1) with j in E by lia.
    destruct (live <=? u * 2 ^ S j) eqn:E1; [discriminate|]. apply Nat.leb_gt in E1.
    destruct (live =? u * 2 ^ S j + 1) eqn:E2; [discriminate|].
    destruct (live <=? u * 2 ^ S j + 2 ^ j) eqn:E3.
    + apply Nat.leb_le in E3.
      assert (Hu : 2 * u < 2 ^ (k - j)).
      { replace (k - j) with (S (k - S j)) by lia. rewrite pow2_S. lia. }
      destruct (IH k (2 * u) live q ltac:(lia) Hu E) as [j' [u' [A1 [A2 [A3 [A4 [A5 [A6 A7]]]]]]]].
      assert (Ha : 2 * u * 2 ^ j = u * 2 ^ S j) by (rewrite pow2_S; lia).
      exists j', u'. repeat split; try lia. right.
      pose proof (Nat.pow_le_mono_r 2 j' j ltac:(lia) A2). destruct A7 as [->|A7]; lia.
    + apply Nat.leb_gt in E3. injection E as <-.
      exists (S j), u. replace (S j - 1) with j by lia. repeat split; try lia.
Qed.

Lemma resolve_leaf_spec : forall j k u live i, j <= k -> u < 2 ^ (k - j) ->
  resolve (2 ^ k) live (pos k j u) = ALeaf i ->
  i = u * 2 ^ j /\ i < live /\ Nat.min (2 ^ j) (live - i) = 1.
Proof.
  induction j as [|j IH]; intros k u live i H2 H3 E.
  - rewrite Nat.sub_0_r in H3. rewrite (resolve_leaf_level k u live H3) in E.
    destruct (u <? live) eqn:E1; [|discriminate]. apply Nat.ltb_lt in E1. injection E as <-.
    change (2 ^ 0) with 1. lia.
  - rewrite (resolve_rec k (S j) u live) in E by lia. replace (S j - 1) with j in E by lia.
    destruct (live <=? u * 2 ^ S j) eqn:E1; [discriminate|]. apply Nat.leb_gt in E1.
    destruct (live =? u * 2 ^ S j + 1) eqn:E2.
    { apply Nat.eqb_eq in E2. assert (Hi : i = u * 2 ^ S j) by congruence. subst i.
      pose proof (pow2_ge2 (S j) ltac:(lia)) as Hp. repeat split; lia. }
    destruct (live <=? u * 2 ^ S j + 2 ^ j) eqn:E3; [|discriminate].
    apply Nat.leb_le in E3.
    assert (Hu : 2 * u < 2 ^ (k - j)).
    { replace (k - j) with (S (k - S j)) by lia. rewrite pow2_S. lia. }
    destruct (IH k (2 * u) live i ltac:(lia) Hu E) as [A1 [A2 A3]].
    assert (Ha : 2 * u * 2 ^ j = u * 2 ^ S j) by (rewrite pow2_S; lia).
    split; [lia|]. split; [lia|]. rewrite pow2_S. pose proof (pow2_pos j). lia.
Qed.

(* deeper nodes have larger heap positions *)
Lemma pos_deeper k j u j' u' : j' < j -> j <= k -> u < 2 ^ (k - j) -> pos k j u < pos k j' u'.
Proof.
  intros H1 H2 H3. unfold pos.
  pose proof (Nat.pow_le_mono_r 2 (S (k - j)) (k - j') ltac:(lia) ltac:(lia)) as Hm.
  rewrite pow2_S in Hm. pose proof (pow2_pos (k - j)). lia.
Qed.

(* ---- sort_desc_unique ---- *)
Lemma insert_desc_in x l y : In y (insert_desc x l) <-> y = x \/ In y l.
Proof.
  induction l as [|z r IH]; simpl; [intuition|].
  destruct (z <? x) eqn:E1; simpl; [intuition|].
  destruct (z =? x) eqn:E2; simpl.
  - apply Nat.eqb_eq in E2. subst. intuition.
  - rewrite IH. intuition.
Qed.

Inductive desc_sorted : list nat -> Prop :=
| ds_nil : desc_sorted []
| ds_cons : forall x l, (forall y, In y l -> y < x) -> desc_sorted l -> desc_sorted (x :: l).

Lemma insert_desc_sorted x l : desc_sorted l -> desc_sorted (insert_desc x l).
Proof.
  induction 1 as [|z r Hz Hr IH]; simpl.
  - constructor; [intros y []|constructor].
  - destruct (z <? x) eqn:E1.
    + apply Nat.ltb_lt in E1. constructor; [|constructor; assumption].
      intros y [->|Hy]; [assumption|]. specialize (Hz y Hy). lia.
    + apply Nat.ltb_ge in E1. destruct (z =? x) eqn:E2.
      * constructor; assumption.
      * apply Nat.eqb_neq in E2. constructor; [|assumption].
        intros y Hy. apply insert_desc_in in Hy. destruct Hy as [->|Hy]; [lia|auto].
Qed.

Lemma sort_desc_unique_in l y : In y (sort_desc_unique l) <-> In y l.
Proof.
  unfold sort_desc_unique. induction l as [|x r IH]; simpl; [tauto|].
  rewrite insert_desc_in, IH. intuition.
Qed.

Lemma sort_desc_unique_sorted l : desc_sorted (sort_desc_unique l).
Proof. unfold sort_desc_unique. induction l; simpl; [constructor|apply insert_desc_sorted; assumption]. Qed.

Lemma down_from_in n y : In y (down_from n) <-> y < n.
Proof. induction n; simpl; [lia|]. rewrite IHn. lia. Qed.

Lemma down_from_sorted n : desc_sorted (down_from n).
Proof. induction n; simpl; constructor; [|assumption]. intros y Hy. apply down_from_in in Hy. exact Hy. Qed.

Lemma desc_sorted_filter g l : desc_sorted l -> desc_sorted (filter g l).
Proof.
  induction 1 as [|x r Hx Hr IH]; simpl; [constructor|].
  destruct (g x); [|assumption]. constructor; [|assumption].
  intros y Hy. apply filter_In in Hy. apply Hx. tauto.
Qed.

(* ---- Phase 1 of rebuild_structure, index-wise ---- *)
Section Phase1.
Variable cf : cfg.

Definition fresh_comb : comb := mkComb SNone SNone None false.

Lemma phase1_spec C live : forall positions combs cr rt combs1 cr1 rt1,
  fold_left (phase1_at cf C live) positions (combs, cr, rt) = (combs1, cr1, rt1) ->
  length combs1 = length combs /\
  (forall p, ~ In p positions -> nth_opt p combs1 = nth_opt p combs) /\
  (forall p, In p positions -> p < length combs -> present combs1 p = needed cf C live p) /\
  (forall p c, nth_opt p combs1 = Some (Some c) -> nth_opt p combs = Some (Some c) \/ (c = fresh_comb /\ In p positions)).
Proof.
  induction positions as [|q r IH]; intros combs cr rt combs1 cr1 rt1 E.
  - simpl in E. injection E as <- <- <-. repeat split; auto. intros p [].
  - cbn [fold_left] in E.
    assert (Hstep : exists combs' cr' rt', phase1_at cf C live (combs, cr, rt) q = (combs', cr', rt') /\
              length combs' = length combs /\
              (forall p, p <> q -> nth_opt p combs' = nth_opt p combs) /\
              (q < length combs -> present combs' q = needed cf C live q) /\
              (forall c, nth_opt q combs' = Some (Some c) -> nth_opt q combs = Some (Some c) \/ c = fresh_comb)).
    { unfold phase1_at. destruct (nth_opt q combs) as [[c|]|] eqn:Eq.
      - destruct (needed cf C live q) eqn:En.
        + exists combs, cr, rt. repeat split; auto.
          * intros _. unfold present. rewrite Eq. reflexivity.
          * intros c0 Hc. left. rewrite Eq in Hc. exact Hc.
        + assert (Hq : q < length combs) by (apply nth_opt_length; congruence).
          exists (set_nth q None combs), cr, (rt ++ [q]). repeat split.
          * apply set_nth_length.
          * intros p Hp. apply nth_opt_set_nth_other. lia.
          * intros _. unfold present. rewrite nth_opt_set_nth_same by assumption. reflexivity.
          * intros c0 Hc. rewrite nth_opt_set_nth_same in Hc by assumption. discriminate.
      - assert (Hq : q < length combs) by (apply nth_opt_length; congruence).
        destruct (needed cf C live q) eqn:En.
        + exists (set_nth q (Some fresh_comb) combs), (cr ++ [q]), rt. repeat split.
          * apply set_nth_length.
          * intros p Hp. apply nth_opt_set_nth_other. lia.
          * intros _. unfold present. rewrite nth_opt_set_nth_same by assumption. reflexivity.
          * intros c0 Hc. rewrite nth_opt_set_nth_same in Hc by assumption. right. congruence.
        + exists combs, cr, rt. repeat split; auto.
          * intros _. unfold present. rewrite Eq. reflexivity.
          * intros c0 Hc. rewrite Eq in Hc. discriminate.
      - exists combs, cr, rt. repeat split; auto.
        + intros Hq. apply nth_opt_none in Eq. lia.
        + intros c0 Hc. rewrite Eq in Hc. discriminate. }
    destruct Hstep as [combs' [cr' [rt' [Es [Hl [Ho [Hq Hc]]]]]]].
    rewrite Es in E. destruct (IH combs' cr' rt' combs1 cr1 rt1 E) as [I1 [I2 [I3 I4]]].
    split; [lia|]. split; [|split].
    + intros p Hp. simpl in Hp. rewrite I2 by tauto. apply Ho. intros ->. tauto.
    + intros p Hp Hlen. destruct (in_dec Nat.eq_dec p r) as [Hin|Hnin].
      * apply I3; [assumption|lia].
      * destruct Hp as [->|Hp]; [|contradiction].
        unfold present. rewrite I2 by assumption. apply Hq. exact Hlen.
    + intros p c Hpc. destruct (I4 p c Hpc) as [Hc1|[Hc1 Hc2]].
      * destruct (Nat.eq_dec p q) as [->|Hne].
        { destruct (Hc c Hc1) as [Hc3|Hc3]; [left; exact Hc3|right; split; [exact Hc3|left; reflexivity]]. }
        { left. rewrite <- Ho by assumption. exact Hc1. }
      * right. split; [assumption|right; assumption].
Qed.

End Phase1.

(* ================================================================== *)
(* Part 5: the evaluation pass (lifted kernel)                          *)

Section Eval.
Variable f : Z -> Z -> Z.
Variable cf : cfg.
Hypothesis f_assoc : forall a b c, f (f a b) c = f a (f b c).
Hypothesis Hlift : c_lifted cf = true.
Hypothesis Hzv : c_has_zero cf = true -> c_zero_valid cf = true.

Variable st : store.
Variable L : list leaf.
Variable vals : list Z.
Variable k : nat.
Hypothesis Hvals : leaf_vals st L vals.
Hypothesis Hcap : length L <= 2 ^ k.

Let live := length L.

Definition sem_at (combs : list (option comb)) (j u : nat) : Prop :=
  exists c, nth_opt (pos k j u) combs = Some (Some c) /\
            cb_out c = fold1 f (seg vals (u * 2 ^ j) (Nat.min (2 ^ j) (live - u * 2 ^ j))).

Definition zero_root (combs : list (option comb)) : Prop :=
  exists c v, nth_opt 0 combs = Some (Some c) /\ nth_opt 0 vals = Some v /\ cb_out c = Some (f v (c_zero cf)).

(* the combine point p holds what the property says it should *)
Definition good (combs : list (option comb)) (p : nat) : Prop :=
  forall j u, 1 <= j -> j <= k -> u < 2 ^ (k - j) -> p = pos k j u ->
    (u * 2 ^ j + 2 ^ (j - 1) < live -> sem_at combs j u) /\
    (c_has_zero cf = true -> live = 1 -> j = k -> zero_root combs).

Lemma needed_iff j u : 1 <= j -> j <= k -> u < 2 ^ (k - j) ->
  (needed cf (2 ^ k) live (pos k j u) = true <->
   (pos k j u = 0 /\ c_has_zero cf = true /\ live = 1) \/ u * 2 ^ j + 2 ^ (j - 1) < live).
Proof.
  clear Hzv.
  intros H1 H2 H3. unfold needed.
  rewrite (pos_left k j u H1 H2), (pos_right k j u H1 H2).
  assert (Hu0 : 2 * u < 2 ^ (k - (j - 1))).
  { replace (k - (j - 1)) with (S (k - j)) by lia. rewrite pow2_S. lia. }
  assert (Hu1 : 2 * u + 1 < 2 ^ (k - (j - 1))).
  { replace (k - (j - 1)) with (S (k - j)) by lia. rewrite pow2_S. lia. }
  pose proof (resolve_empty_iff (j - 1) k (2 * u) live ltac:(lia) Hu0) as E0.
  pose proof (resolve_empty_iff (j - 1) k (2 * u + 1) live ltac:(lia) Hu1) as E1.
  pose proof (pow2_half j H1) as Hh.
  assert (Ha0 : 2 * u * 2 ^ (j - 1) = u * 2 ^ j) by (rewrite Hh; lia).
  assert (Ha1 : (2 * u + 1) * 2 ^ (j - 1) = u * 2 ^ j + 2 ^ (j - 1)) by (rewrite Hh; lia).
  rewrite Ha0 in E0. rewrite Ha1 in E1.
  rewrite orb_true_iff, !andb_true_iff, !negb_true_iff, !Nat.eqb_eq.
  destruct (resolve (2 ^ k) live (pos k (j - 1) (2 * u))) eqn:R0;
  destruct (resolve (2 ^ k) live (pos k (j - 1) (2 * u + 1))) eqn:R1; simpl;
  split; intros H; try (destruct H as [H|H]; [left; tauto|]); try tauto.
  all: try (right; split; reflexivity).
  all: try (destruct H as [_ H]; discriminate).
  all: try (destruct H as [H _]; discriminate).
  all: try (assert (live <= u * 2 ^ j + 2 ^ (j - 1)) by (apply E1; reflexivity); lia).
  all: try (assert (live <= u * 2 ^ j) by (apply E0; reflexivity); lia).
  all: try (right; assert (~ live <= u * 2 ^ j + 2 ^ (j - 1)) by (intros Hc; apply E1 in Hc; discriminate); lia).
Qed.

(* following aliases down to combine points that are already right *)
Lemma aval_sem combs : forall j u, j <= k -> u < 2 ^ (k - j) -> u * 2 ^ j < live ->
  (forall j' u', 1 <= j' -> j' <= j -> u' < 2 ^ (k - j') -> u' * 2 ^ j' = u * 2 ^ j ->
                 u' * 2 ^ j' + 2 ^ (j' - 1) < live -> sem_at combs j' u') ->
  aval cf st L combs (resolve (2 ^ k) live (pos k j u)) =
  fold1 f (seg vals (u * 2 ^ j) (Nat.min (2 ^ j) (live - u * 2 ^ j))).
Proof.
  intros j u H2 H3 H4 Hsem.
  destruct (resolve (2 ^ k) live (pos k j u)) as [|i|q] eqn:E.
  - apply resolve_empty_iff in E; try assumption. lia.
  - destruct (resolve_leaf_spec j k u live i H2 H3 E) as [-> [A2 A3]].
    destruct (aval_leaf cf st L combs vals (u * 2 ^ j) Hvals A2) as [v [B1 B2]].
    rewrite B2, A3. rewrite (seg_one vals _ v B1). reflexivity.
  - destruct (resolve_node_spec j k u live q H2 H3 E) as [j' [u' [A1 [A2 [A3 [-> [A5 [A6 A7]]]]]]]].
    destruct (Hsem j' u' A1 A2 A3 A5 A6) as [c [C1 C2]].
    unfold aval, agg_src. rewrite C1. cbn [src_value]. rewrite C1, C2. rewrite A5.
    f_equal. f_equal.
    destruct A7 as [->|A7]; [reflexivity|].
    pose proof (Nat.pow_le_mono_r 2 j' j ltac:(lia) A2). lia.
Qed.

Definition ev_combs (e : ev) : list (option comb) := fst (fst e).

Lemma eval_at_absent combs log w r : present combs r = false -> eval_at f cf st L (2 ^ k) (combs, log, w) r = (combs, log, w).
Proof. unfold present, eval_at. destruct (nth_opt r combs) as [[c|]|]; try reflexivity. discriminate. Qed.

Lemma eval_at_lifted combs log w r c x y :
  nth_opt r combs = Some (Some c) ->
  aval cf st L combs (resolve (2 ^ k) live (2 * r + 1)) = Some x ->
  aval cf st L combs (resolve (2 ^ k) live (2 * r + 2)) = Some y ->
  eval_at f cf st L (2 ^ k) (combs, log, w) r =
  (set_nth r (Some (mkComb (cb_l c) (cb_r c) (Some (f x y)) false)) combs, log ++ [(x, y)], r :: w).
Proof.
  intros Hc Hx Hy. unfold eval_at. rewrite Hc, Hlift. unfold aval in Hx, Hy. fold live.
  rewrite Hx, Hy. reflexivity.
Qed.

Definition wf_presence (combs : list (option comb)) : Prop :=
  length combs = internals (2 ^ k) /\
  forall p, p < internals (2 ^ k) -> present combs p = needed cf (2 ^ k) live p.

Lemma present_set_nth combs r c0 c1 p : nth_opt r combs = Some (Some c0) ->
  present (set_nth r (Some c1) combs) p = present combs p.
Proof.
  intros H. unfold present. destruct (Nat.eq_dec r p) as [->|Hne].
  - rewrite nth_opt_set_nth_same, H; [reflexivity|]. apply nth_opt_length. congruence.
  - rewrite nth_opt_set_nth_other by assumption. reflexivity.
Qed.

(* One evaluation, at a present combine point whose deeper neighbours are right, makes it right. *)
Lemma eval_step combs log w r : wf_presence combs -> r < internals (2 ^ k) -> present combs r = true ->
  (forall q, r < q -> q < internals (2 ^ k) -> present combs q = true -> good combs q) ->
  exists c1 x y, nth_opt r combs <> None /\
    eval_at f cf st L (2 ^ k) (combs, log, w) r = (set_nth r (Some c1) combs, log ++ [(x, y)], r :: w) /\
    good (set_nth r (Some c1) combs) r.
Proof.
  intros [Hlen Hpres] Hr Hp Hdeep.
  destruct (pos_coords k r Hr) as [j [u [H1 [H2 [H3 ->]]]]].
  unfold present in Hp. destruct (nth_opt (pos k j u) combs) as [[c|]|] eqn:Ec; try discriminate.
  pose proof (Hpres _ Hr) as Hn. unfold present in Hn. rewrite Ec in Hn. symmetry in Hn.
  apply needed_iff in Hn; try assumption.
  assert (Hu0 : 2 * u < 2 ^ (k - (j - 1))).
  { replace (k - (j - 1)) with (S (k - j)) by lia. rewrite pow2_S. lia. }
  assert (Hu1 : 2 * u + 1 < 2 ^ (k - (j - 1))).
  { replace (k - (j - 1)) with (S (k - j)) by lia. rewrite pow2_S. lia. }
  pose proof (pow2_half j H1) as Hh. pose proof (pow2_pos (j - 1)) as Hp1.
  assert (Ha0 : 2 * u * 2 ^ (j - 1) = u * 2 ^ j) by (rewrite Hh; lia).
  assert (Ha1 : (2 * u + 1) * 2 ^ (j - 1) = u * 2 ^ j + 2 ^ (j - 1)) by (rewrite Hh; lia).
  (* the sem_at facts available for every needed point strictly deeper than (j, u) *)
  assert (Hsub : forall j' u', 1 <= j' -> j' <= j - 1 -> u' < 2 ^ (k - j') ->
                   u' * 2 ^ j' + 2 ^ (j' - 1) < live -> sem_at combs j' u').
  { intros j' u' B1 B2 B3 B4.
    assert (Hq : pos k j' u' < internals (2 ^ k)) by (apply pos_internal; lia).
    assert (Hgt : pos k j u < pos k j' u') by (apply pos_deeper; lia).
    assert (Hpq : present combs (pos k j' u') = true).
    { rewrite (Hpres _ Hq). apply (proj2 (needed_iff j' u' B1 ltac:(lia) B3)). right. exact B4. }
    destruct (Hdeep _ Hgt Hq Hpq j' u' B1 ltac:(lia) B3 eq_refl) as [G _]. apply G. exact B4. }
  destruct Hn as [[Hz0 [Hz1 Hz2]]|Hn].
  - (* the root of a singleton with a zero: f value zero *)
    assert (Hjk : j = k /\ u = 0).
    { unfold pos in Hz0. pose proof (pow2_pos (k - j)).
      assert (2 ^ (k - j) = 1) by lia. assert (u = 0) by lia.
      destruct (Nat.eq_dec j k) as [|Hne]; [tauto|].
      pose proof (pow2_ge2 (k - j) ltac:(lia)). lia. }
    destruct Hjk as [-> ->].
    assert (Hx : exists v, nth_opt 0 vals = Some v /\
                 aval cf st L combs (resolve (2 ^ k) live (2 * pos k k 0 + 1)) = Some v).
    { rewrite (pos_left k k 0 H1 H2).
      rewrite (aval_sem combs (k - 1) (2 * 0)); try lia.
      - simpl (2 * 0 * _). replace (Nat.min (2 ^ (k - 1)) (live - 0)) with 1 by lia.
        destruct (aval_leaf cf st L combs vals 0 Hvals ltac:(fold live; lia)) as [v [B1 _]].
        exists v. split; [exact B1|]. rewrite (seg_one vals 0 v B1). reflexivity.
      - intros j' u' B1 B2 B3 B4 B5. pose proof (pow2_pos (j' - 1)). lia. }
    destruct Hx as [v [Hv Hx]].
    assert (Hy : aval cf st L combs (resolve (2 ^ k) live (2 * pos k k 0 + 2)) = Some (c_zero cf)).
    { rewrite (pos_right k k 0 H1 H2).
      assert (E : resolve (2 ^ k) live (pos k (k - 1) (2 * 0 + 1)) = AEmpty).
      { apply resolve_empty_iff; try lia. }
      rewrite E. unfold aval, agg_src. rewrite Hz1. cbn [src_value]. rewrite Hz1, (Hzv Hz1). reflexivity. }
    exists (mkComb (cb_l c) (cb_r c) (Some (f v (c_zero cf))) false), v, (c_zero cf).
    split; [congruence|]. split; [apply eval_at_lifted; assumption|].
    intros j' u' B1 B2 B3 B4. apply pos_inj in B4; try lia. destruct B4 as [<- <-].
    split.
    + intros Hc. pose proof (pow2_pos (k - 1)). lia.
    + intros _ _ _. exists (mkComb (cb_l c) (cb_r c) (Some (f v (c_zero cf))) false), v.
      rewrite Hz0 in *. rewrite nth_opt_set_nth_same by (rewrite Hlen; exact Hr). auto.
  - (* both halves non-empty: f (fold left half) (fold right half) *)
    assert (Hx : aval cf st L combs (resolve (2 ^ k) live (2 * pos k j u + 1)) =
                 fold1 f (seg vals (u * 2 ^ j) (2 ^ (j - 1)))).
    { rewrite (pos_left k j u H1 H2). rewrite (aval_sem combs (j - 1) (2 * u)); try lia.
      - rewrite Ha0. f_equal. f_equal. lia.
      - intros j' u' B1 B2 B3 B4 B5. apply Hsub; assumption. }
    assert (Hy : aval cf st L combs (resolve (2 ^ k) live (2 * pos k j u + 2)) =
                 fold1 f (seg vals (u * 2 ^ j + 2 ^ (j - 1))
                               (Nat.min (2 ^ (j - 1)) (live - (u * 2 ^ j + 2 ^ (j - 1)))))).
    { rewrite (pos_right k j u H1 H2). rewrite (aval_sem combs (j - 1) (2 * u + 1)); try lia.
      - rewrite Ha1. reflexivity.
      - intros j' u' B1 B2 B3 B4 B5. apply Hsub; assumption. }
    set (a := u * 2 ^ j) in *. set (h := 2 ^ (j - 1)) in *.
    assert (Hlv : length vals = live) by (destruct Hvals as [Hl _]; exact Hl).
    destruct (fold1 f (seg vals a h)) as [x|] eqn:Ex.
    2:{ exfalso. unfold fold1 in Ex. destruct (seg vals a h) eqn:Es; [|discriminate].
        assert (length (seg vals a h) = h).
        { unfold seg. rewrite firstn_length, skipn_length. lia. }
        rewrite Es in H. simpl in H. lia. }
    destruct (fold1 f (seg vals (a + h) (Nat.min h (live - (a + h))))) as [y|] eqn:Ey.
    2:{ exfalso. unfold fold1 in Ey. destruct (seg vals (a + h) (Nat.min h (live - (a + h)))) eqn:Es; [|discriminate].
        assert (length (seg vals (a + h) (Nat.min h (live - (a + h)))) = Nat.min h (live - (a + h))).
        { unfold seg. rewrite firstn_length, skipn_length. lia. }
        rewrite Es in H. simpl in H. lia. }
    exists (mkComb (cb_l c) (cb_r c) (Some (f x y)) false), x, y.
    split; [congruence|]. split; [apply eval_at_lifted; assumption|].
    intros j' u' B1 B2 B3 B4. apply pos_inj in B4; try lia. destruct B4 as [<- <-].
    split.
    + intros _. exists (mkComb (cb_l c) (cb_r c) (Some (f x y)) false).
      rewrite nth_opt_set_nth_same by (rewrite Hlen; exact Hr). split; [reflexivity|].
      cbn [cb_out]. fold a.
      replace (Nat.min (2 ^ j) (live - a)) with (h + Nat.min h (live - (a + h))) by (rewrite Hh; fold h; lia).
      rewrite seg_split. symmetry. apply fold1_app; assumption.
    + intros _ Hl1 _. fold h in Hn. lia.
Qed.

Lemma good_other combs r c1 p : p <> r -> good combs p -> good (set_nth r (Some c1) combs) p.
Proof.
  intros Hne G j u H1 H2 H3 E. destruct (G j u H1 H2 H3 E) as [G1 G2]. split.
  - intros Hn. destruct (G1 Hn) as [c [C1 C2]]. exists c. split; [|exact C2].
    rewrite nth_opt_set_nth_other by (subst p; lia). exact C1.
  - intros Z1 Z2 Z3. destruct (G2 Z1 Z2 Z3) as [c [v [C1 [C2 C3]]]]. exists c, v. repeat split; try assumption.
    assert (p = 0). { subst p j. unfold pos. rewrite Nat.sub_diag in *. simpl in *. lia. }
    rewrite nth_opt_set_nth_other by lia. exact C1.
Qed.

(* The descending pass: every present combine point that was not already right is visited after
   all deeper ones, so afterwards every present combine point is right. *)
Lemma eval_loop : forall R combs log w, desc_sorted R -> wf_presence combs ->
  (forall p, p < internals (2 ^ k) -> ~ In p R -> present combs p = true -> good combs p) ->
  exists combs' log' w', fold_left (eval_at f cf st L (2 ^ k)) R (combs, log, w) = (combs', log', w') /\
    wf_presence combs' /\
    (forall p, p < internals (2 ^ k) -> present combs' p = true -> good combs' p).
Proof.
  induction R as [|r R IH]; intros combs log w Hs Hwf Hgood.
  - exists combs, log, w. split; [reflexivity|]. split; [exact Hwf|]. intros p Hp Hpr. apply Hgood; auto.
  - inversion Hs as [|? ? Hlt Hs']; subst. cbn [fold_left].
    destruct (present combs r) eqn:Epr.
    2:{ rewrite eval_at_absent by assumption. apply IH; try assumption.
        intros p Hp Hnin Hpp. apply Hgood; try assumption. intros [->|Hin]; [congruence|contradiction]. }
    destruct (Nat.lt_ge_cases r (internals (2 ^ k))) as [Hr|Hr].
    2:{ exfalso. destruct Hwf as [Hlen _]. unfold present in Epr.
        assert (nth_opt r combs = None) by (apply nth_opt_none; lia). rewrite H in Epr. discriminate. }
    destruct (eval_step combs log w r Hwf Hr Epr) as [c1 [x [y [Hnn [Hev Hg]]]]].
    { intros q Hq1 Hq2 Hq3. apply Hgood; try assumption.
      intros [->|Hin]; [lia|]. specialize (Hlt q Hin). lia. }
    rewrite Hev.
    destruct (nth_opt r combs) as [[c0|]|] eqn:Ec; try (unfold present in Epr; rewrite Ec in Epr; discriminate).
    apply IH; try assumption.
    + destruct Hwf as [Hlen Hpres]. split; [rewrite set_nth_length; exact Hlen|].
      intros p Hp. rewrite (present_set_nth combs r c0 c1 p Ec). apply Hpres. exact Hp.
    + intros p Hp Hnin Hpp. destruct (Nat.eq_dec p r) as [->|Hne]; [exact Hg|].
      apply good_other; [exact Hne|]. apply Hgood; try assumption.
      * intros [->|Hin]; [congruence|contradiction].
      * rewrite <- (present_set_nth combs r c0 c1 p Ec). exact Hpp.
Qed.

End Eval.

(* ================================================================== *)
(* Part 6: one cycle                                                   *)

Lemma seg_S {A} (l : list A) a s :
  seg l a (S s) = match nth_opt a l with Some x => x :: seg l (S a) s | None => [] end.
Proof.
  unfold seg. revert a. induction l as [|x r IH]; intros a; simpl.
  - destruct a; reflexivity.
  - destruct a; simpl; [reflexivity|]. apply IH.
Qed.

Lemma seg_ext {A} (l l' : list A) : forall s a,
  (forall i, a <= i -> i < a + s -> nth_opt i l = nth_opt i l') -> seg l a s = seg l' a s.
Proof.
  induction s as [|s IH]; intros a H; [reflexivity|].
  rewrite !seg_S. rewrite <- (H a) by lia. destruct (nth_opt a l); [|reflexivity].
  f_equal. apply IH. intros i H1 H2. apply H; lia.
Qed.

Lemma seg_min {A} (l : list A) a s : seg l a (Nat.min s (length l - a)) = seg l a s.
Proof.
  unfold seg. rewrite <- (firstn_skipn 0 (skipn a l)) at 1. simpl.
  destruct (Nat.le_ge_cases s (length l - a)).
  - rewrite Nat.min_l by assumption. reflexivity.
  - rewrite Nat.min_r by assumption. rewrite !firstn_all2; try reflexivity; rewrite skipn_length; lia.
Qed.

Section Cycle.
Variable f : Z -> Z -> Z.
Variable cf : cfg.
Hypothesis f_assoc : forall a b c, f (f a b) c = f a (f b c).
Hypothesis Hlift : c_lifted cf = true.
Hypothesis Hzv : c_has_zero cf = true -> c_zero_valid cf = true.

(* A combine point that is right for (L, vals) stays right for (L', vals') when nothing
   under it changed. *)
Lemma good_transfer k L vals L' vals' combs combs' p :
  length vals = length L -> length vals' = length L' ->
  p < internals (2 ^ k) ->
  nth_opt p combs' = nth_opt p combs ->
  (forall j u, 1 <= j -> j <= k -> u < 2 ^ (k - j) -> p = pos k j u ->
     forall i, u * 2 ^ j <= i -> i < (u + 1) * 2 ^ j ->
       nth_opt i vals' = nth_opt i vals /\ (i < length L' <-> i < length L)) ->
  good f cf L vals k combs p -> good f cf L' vals' k combs' p.
Proof.
  intros Hl Hl' Hp Hc Hsame G j u H1 H2 H3 E.
  destruct (G j u H1 H2 H3 E) as [G1 G2]. specialize (Hsame j u H1 H2 H3 E).
  pose proof (pow2_half j H1) as Hh. pose proof (pow2_pos (j - 1)) as Hp1.
  split.
  - intros Hn.
    assert (Hn' : u * 2 ^ j + 2 ^ (j - 1) < length L).
    { apply (Hsame (u * 2 ^ j + 2 ^ (j - 1))); lia. }
    destruct (G1 Hn') as [c [C1 C2]]. exists c. subst p. split; [congruence|].
    rewrite C2. f_equal. rewrite <- Hl, <- Hl'. rewrite !seg_min.
    apply seg_ext. intros i A1 A2. symmetry. apply (Hsame i); lia.
  - intros Z1 Z2 Z3. subst j.
    assert (Hu : u = 0) by (rewrite Nat.sub_diag in H3; simpl in H3; lia). subst u.
    assert (Hone : length L = 1).
    { pose proof (pow2_ge2 k H1).
      assert (0 < length L) by (apply (Hsame 0); lia).
      assert (~ 1 < length L) by (intros Hc1; apply (Hsame 1) in Hc1; lia). lia. }
    destruct (G2 Z1 Hone eq_refl) as [c [v [C1 [C2 C3]]]].
    assert (p = 0) by (subst p; unfold pos; rewrite Nat.sub_diag; reflexivity). subst p.
    exists c, v. rewrite H in Hc. split; [congruence|]. split; [|exact C3].
    rewrite <- C2. apply (Hsame 0); pose proof (pow2_ge2 k H1); lia.
Qed.

(* what the published root is worth, when every present combine point is right *)
Definition spec_result (vals : list Z) : option Z :=
  match vals with
  | [] => if c_has_zero cf then Some (c_zero cf) else None
  | [v] => if c_has_zero cf then Some (f v (c_zero cf)) else Some v
  | _ => fold1 f vals
  end.

Lemma root_value st L vals k combs :
  leaf_vals st L vals -> length L <= 2 ^ k -> (c_has_zero cf = true -> 1 <= k) ->
  wf_presence cf L k combs ->
  (forall p, p < internals (2 ^ k) -> present combs p = true -> good f cf L vals k combs p) ->
  aval cf st L combs (root_aggregate (c_has_zero cf) (2 ^ k) (length L) (length combs)) = spec_result vals.
Proof.
  intros Hvals Hcap Hzk [Hlen Hpres] Hgood.
  assert (Hlv : length vals = length L) by (destruct Hvals; assumption).
  unfold root_aggregate.
  destruct (length L =? 0) eqn:E0.
  { apply Nat.eqb_eq in E0. destruct vals; [|simpl in Hlv; lia].
    unfold aval, agg_src, spec_result. destruct (c_has_zero cf) eqn:Ez; cbn [src_value]; rewrite ?Ez; [rewrite (Hzv eq_refl)|]; reflexivity. }
  apply Nat.eqb_neq in E0.
  assert (Hroot : forall j' u', 1 <= j' -> j' <= k -> u' < 2 ^ (k - j') -> u' * 2 ^ j' = 0 * 2 ^ k ->
            u' * 2 ^ j' + 2 ^ (j' - 1) < length L -> sem_at f L vals k combs j' u').
  { intros j' u' B1 B2 B3 B4 B5.
    assert (Hq : pos k j' u' < internals (2 ^ k)) by (apply pos_internal; lia).
    assert (Hpq : present combs (pos k j' u') = true).
    { rewrite (Hpres _ Hq). apply (proj2 (needed_iff cf L k Hcap j' u' B1 B2 B3)). right. exact B5. }
    destruct (Hgood _ Hq Hpq j' u' B1 B2 B3 eq_refl) as [G _]. apply G. exact B5. }
  destruct (c_has_zero cf && (length L =? 1) && negb (length combs =? 0)) eqn:Ez.
  - apply andb_true_iff in Ez. destruct Ez as [Ez Ez3]. apply andb_true_iff in Ez. destruct Ez as [Ez1 Ez2].
    apply Nat.eqb_eq in Ez2. specialize (Hzk Ez1).
    assert (H0 : 0 < internals (2 ^ k)) by (rewrite internals_pow2; pose proof (pow2_ge2 k Hzk); lia).
    assert (Hpk : pos k k 0 = 0) by (unfold pos; rewrite Nat.sub_diag; reflexivity).
    assert (Hk3 : 0 < 2 ^ (k - k)) by (rewrite Nat.sub_diag; simpl; lia).
    assert (Hp0 : present combs 0 = true).
    { rewrite (Hpres 0 H0).
      pose proof (proj2 (needed_iff cf L k Hcap k 0 Hzk (Nat.le_refl k) Hk3)) as Hn.
      rewrite Hpk in Hn. apply Hn. left. auto. }
    destruct (Hgood 0 H0 Hp0 k 0 Hzk (Nat.le_refl k) ltac:(rewrite Nat.sub_diag; simpl; lia)
                ltac:(unfold pos; rewrite Nat.sub_diag; reflexivity)) as [_ G2].
    destruct (G2 Ez1 Ez2 eq_refl) as [c [v [C1 [C2 C3]]]].
    unfold aval, agg_src. rewrite C1. cbn [src_value]. rewrite C1, C3.
    unfold spec_result. destruct vals as [|v0 [|v1 r]]; simpl in Hlv; try lia.
    simpl in C2. rewrite Ez1. congruence.
  - assert (Hpk : pos k k 0 = 0) by (unfold pos; rewrite Nat.sub_diag; reflexivity).
    assert (Hk3 : 0 < 2 ^ (k - k)) by (rewrite Nat.sub_diag; simpl; lia).
    pose proof (aval_sem f cf st L vals k Hvals Hcap combs k 0 (Nat.le_refl k) Hk3 ltac:(lia) Hroot) as Hav.
    rewrite Hpk in Hav. rewrite Hav. clear Hav.
    { simpl (0 * _). rewrite Nat.sub_0_r. rewrite Nat.min_r by lia.
      unfold seg. simpl. rewrite <- Hlv. rewrite firstn_all.
      unfold spec_result. destruct vals as [|v0 [|v1 r]]; simpl in Hlv; try lia; try reflexivity.
      destruct (c_has_zero cf) eqn:Ez1; [|reflexivity].
      exfalso. simpl in Ez. rewrite <- Hlv in Ez. simpl in Ez.
      specialize (Hzk eq_refl). rewrite Hlen, internals_pow2 in Ez.
      pose proof (pow2_ge2 k Hzk). destruct (2 ^ k - 1 =? 0) eqn:E9; [apply Nat.eqb_eq in E9; lia|discriminate]. }
Qed.

End Cycle.

(* ------------------------------------------------------------------ *)
(* The structural pass followed by the evaluation pass                  *)

Lemma in_concat_map {A B} (g : A -> list B) l y : In y (concat (map g l)) <-> exists x, In x l /\ In y (g x).
Proof.
  induction l as [|a r IH]; simpl; [split; [tauto|intros [x [[] _]]]|].
  rewrite in_app_iff, IH. split.
  - intros [H|[x [H1 H2]]]; [exists a; auto|exists x; auto].
  - intros [x [[->|H1] H2]]; [auto|right; exists x; auto].
Qed.

Lemma nth_opt_repeat {A} (v : A) n p : p < n -> nth_opt p (repeat v n) = Some v.
Proof. revert p. induction n; intros p H; [lia|]. destruct p; simpl; [reflexivity|]. apply IHn. lia. Qed.

Lemma agg_src_presence cf L combs combs' a :
  (forall p, present combs' p = present combs p) -> agg_src cf L combs' a = agg_src cf L combs a.
Proof.
  intros H. destruct a as [|i|p]; simpl; try reflexivity.
  specialize (H p). unfold present in H.
  destruct (nth_opt p combs') as [[c'|]|], (nth_opt p combs) as [[c|]|]; try reflexivity; discriminate.
Qed.

Lemma interval_bound k j u : j <= k -> u < 2 ^ (k - j) -> (u + 1) * 2 ^ j <= 2 ^ k.
Proof.
  intros H1 H2. rewrite (pow2_split k j H1). rewrite (Nat.mul_comm (2 ^ j)). apply Nat.mul_le_mono_r. lia.
Qed.

Section Tree.
Variable f : Z -> Z -> Z.
Variable cf : cfg.
Hypothesis f_assoc : forall a b c, f (f a b) c = f a (f b c).
Hypothesis Hlift : c_lifted cf = true.
Hypothesis Hzv : c_has_zero cf = true -> c_zero_valid cf = true.

(* The positions the evaluation pass visits, as a set: present, and either structural or on the
   path of a leaf whose value ticked (or the root). *)
Definition visited (k : nat) (combs1 : list (option comb)) (spos : list nat) (dm : list nat) (extra : list nat) : list nat :=
  sort_desc_unique (filter (present combs1) spos ++
                    concat (map (live_path (2 ^ k) combs1) dm) ++ extra).

(* Partial rebuild (capacity unchanged): what was right and is untouched stays right; the presence
   of every combine point is what the new live count asks for. *)
Lemma partial_rebuild_ok st' k L vals L' vals' combs sleaves dm combs1 cr rt :
  leaf_vals st' L' vals' -> length vals = length L ->
  length L <= 2 ^ k -> length L' <= 2 ^ k ->
  wf_presence cf L k combs ->
  (forall p, p < internals (2 ^ k) -> present combs p = true -> good f cf L vals k combs p) ->
  (forall i, ~ In i sleaves -> nth_opt i L' = nth_opt i L) ->
  (forall i, ~ In i sleaves -> ~ In i dm -> nth_opt i vals' = nth_opt i vals) ->
  let spos := sort_desc_unique (concat (map (leaf_path (2 ^ k) (length combs)) sleaves)) in
  fold_left (phase1_at cf (2 ^ k) (length L')) spos (combs, [], []) = (combs1, cr, rt) ->
  wf_presence cf L' k combs1 /\
  (forall p, p < internals (2 ^ k) -> present combs1 p = true ->
             ~ In p (visited k combs1 spos dm []) -> good f cf L' vals' k combs1 p).
Proof.
  intros Hvals' Hlv Hcap Hcap' [Hlen Hpres] Hgood HL Hv spos Hph.
  destruct (phase1_spec cf (2 ^ k) (length L') spos combs [] [] combs1 cr rt Hph) as [P1 [P2 [P3 P4]]].
  assert (Hlv' : length vals' = length L') by (destruct Hvals'; assumption).
  (* a structural leaf below p puts p among the structural positions *)
  assert (Hcover : forall j u i, 1 <= j -> j <= k -> u < 2 ^ (k - j) ->
             u * 2 ^ j <= i -> i < (u + 1) * 2 ^ j -> In i sleaves -> In (pos k j u) spos).
  { intros j u i A1 A2 A3 A4 A5 A6. unfold spos. apply sort_desc_unique_in. apply in_concat_map.
    exists i. split; [exact A6|]. rewrite Hlen. apply leaf_path_iff; try assumption;
      pose proof (interval_bound k j u A2 A3); lia. }
  assert (Hsamelen : forall j u i, 1 <= j -> j <= k -> u < 2 ^ (k - j) -> ~ In (pos k j u) spos ->
             u * 2 ^ j <= i -> i < (u + 1) * 2 ^ j -> (i < length L' <-> i < length L)).
  { intros j u i A1 A2 A3 A4 A5 A6.
    assert (Hni : ~ In i sleaves) by (intros Hc; apply A4; apply (Hcover j u i); assumption).
    specialize (HL i Hni). rewrite !nth_opt_length. rewrite HL. tauto. }
  split.
  - split; [lia|]. intros p Hp.
    destruct (in_dec Nat.eq_dec p spos) as [Hin|Hnin].
    + apply P3; [exact Hin|lia].
    + unfold present. rewrite (P2 p Hnin). fold (present combs p). rewrite (Hpres p Hp).
      destruct (pos_coords k p Hp) as [j [u [A1 [A2 [A3 ->]]]]].
      pose proof (pow2_half j A1) as Hh. pose proof (pow2_pos (j - 1)) as Hp1.
      apply eq_true_iff_eq.
      rewrite (needed_iff cf L k Hcap j u A1 A2 A3), (needed_iff cf L' k Hcap' j u A1 A2 A3).
      assert (Hmid : u * 2 ^ j + 2 ^ (j - 1) < length L' <-> u * 2 ^ j + 2 ^ (j - 1) < length L).
      { apply (Hsamelen j u); try assumption; lia. }
      assert (Hone : forall n, pos k j u = 0 -> (length L' = n <-> length L = n)).
      { intros n Hz.
        assert (Hjk : j = k /\ u = 0).
        { unfold pos in Hz. pose proof (pow2_pos (k - j)).
          destruct (Nat.eq_dec j k) as [|Hne]; [split; [assumption|lia]|].
          pose proof (pow2_ge2 (k - j) ltac:(lia)). lia. }
        destruct Hjk as [-> ->].
        assert (Hall : forall i, i < 2 ^ k -> (i < length L' <-> i < length L)).
        { intros i Hi. apply (Hsamelen k 0); try assumption; try lia. }
        assert (length L' = length L).
        { destruct (Nat.lt_trichotomy (length L') (length L)) as [Hc|[Hc|Hc]]; [|assumption|].
          - assert (length L' < length L') by (apply (Hall (length L')); lia). lia.
          - assert (length L < length L) by (apply (Hall (length L)); lia). lia. }
        lia. }
      split; (intros [[Z1 [Z2 Z3]]|Hn]; [left; repeat split; try assumption; apply (Hone 1 Z1); assumption|right; tauto]).
  - intros p Hp Hpr Hnv.
    assert (Hnsp : ~ In p spos).
    { intros Hc. apply Hnv. unfold visited. apply sort_desc_unique_in. apply in_app_iff. left.
      apply filter_In. split; assumption. }
    assert (Hndm : forall i, In i dm -> ~ In p (leaf_path (2 ^ k) (length combs1) i)).
    { intros i Hi Hc. apply Hnv. unfold visited. apply sort_desc_unique_in. apply in_app_iff. right.
      apply in_app_iff. left. apply in_concat_map. exists i. split; [exact Hi|].
      unfold live_path. apply filter_In. split; [exact Hc|]. exact Hpr. }
    assert (Hold : present combs p = true).
    { unfold present in *. rewrite <- (P2 p Hnsp). exact Hpr. }
    apply (good_transfer f cf k L vals L' vals' combs combs1 p Hlv Hlv' Hp (P2 p Hnsp)).
    + intros j u A1 A2 A3 -> i A4 A5.
      assert (Hni : ~ In i sleaves) by (intros Hc; apply Hnsp; apply (Hcover j u i); assumption).
      assert (Hnd : ~ In i dm).
      { intros Hc. apply (Hndm i Hc). rewrite P1, Hlen. apply leaf_path_iff; try assumption;
          pose proof (interval_bound k j u A2 A3); lia. }
      split; [apply Hv; assumption|]. apply (Hsamelen j u); assumption.
    + apply Hgood; assumption.
Qed.

(* Full rebuild (first publication or capacity growth): every position is structural. *)
Lemma full_rebuild_ok k L' combs0 combs1 cr rt :
  length combs0 = internals (2 ^ k) ->
  fold_left (phase1_at cf (2 ^ k) (length L')) (down_from (length combs0)) (combs0, [], []) = (combs1, cr, rt) ->
  wf_presence cf L' k combs1.
Proof.
  intros Hlen Hph.
  destruct (phase1_spec cf (2 ^ k) (length L') _ combs0 [] [] combs1 cr rt Hph) as [P1 [P2 [P3 P4]]].
  split; [lia|]. intros p Hp. apply P3; [apply down_from_in; lia|lia].
Qed.

(* The evaluation pass over the visited positions finishes the job. *)
Lemma eval_visited st' k L' vals' combs1 E :
  leaf_vals st' L' vals' -> length L' <= 2 ^ k -> desc_sorted E ->
  wf_presence cf L' k combs1 ->
  (forall p, p < internals (2 ^ k) -> present combs1 p = true -> ~ In p E -> good f cf L' vals' k combs1 p) ->
  exists combs2 log w,
    fold_left (eval_at f cf st' L' (2 ^ k)) E (combs1, [], []) = (combs2, log, w) /\
    wf_presence cf L' k combs2 /\
    (forall p, present combs2 p = present combs1 p) /\
    (forall p, p < internals (2 ^ k) -> present combs2 p = true -> good f cf L' vals' k combs2 p).
Proof.
  intros Hvals Hcap Hs Hwf Hclean.
  destruct (eval_loop f cf f_assoc Hlift Hzv st' L' vals' k Hvals Hcap E combs1 [] [] Hs Hwf)
    as [combs2 [log [w [Hev [Hwf2 Hg2]]]]].
  { intros p Hp Hnin Hpr. apply Hclean; assumption. }
  exists combs2, log, w. split; [exact Hev|]. split; [exact Hwf2|]. split; [|exact Hg2].
  intros p. destruct Hwf as [Hl1 Hp1]. destruct Hwf2 as [Hl2 Hp2].
  destruct (Nat.lt_ge_cases p (internals (2 ^ k))) as [Hlt|Hge].
  - rewrite Hp1, Hp2 by assumption. reflexivity.
  - unfold present. assert (nth_opt p combs1 = None) by (apply nth_opt_none; lia).
    assert (nth_opt p combs2 = None) by (apply nth_opt_none; lia). rewrite H, H0. reflexivity.
Qed.

End Tree.

(* ================================================================== *)
(* Part 7: the statements of C11 on the mirror                          *)

From Coq Require Import Permutation.

Section Statements.
Variable f : Z -> Z -> Z.
Variable cf : cfg.
Hypothesis f_assoc : forall a b c, f (f a b) c = f a (f b c).
Hypothesis Hlift : c_lifted cf = true.
Hypothesis Hzv : c_has_zero cf = true -> c_zero_valid cf = true.

(* The invariant of the reduction tree between cycles. *)
Record tree_inv (st : store) (L : list leaf) (vals : list Z) (k : nat) (combs : list (option comb)) : Prop := {
  ti_vals : leaf_vals st L vals;
  ti_cap : length L <= 2 ^ k;
  ti_zero : c_has_zero cf = true -> 1 <= k;
  ti_pres : wf_presence cf L k combs;
  ti_good : forall p, p < internals (2 ^ k) -> present combs p = true -> good f cf L vals k combs p
}.

Lemma tree_inv_result st L vals k combs : tree_inv st L vals k combs ->
  src_value cf st combs (agg_src cf L combs (root_aggregate (c_has_zero cf) (2 ^ k) (length L) (length combs)))
  = spec_result f cf vals.
Proof. intros [H1 H2 H3 H4 H5]. exact (root_value f cf Hzv st L vals k combs H1 H2 H3 H4 H5). Qed.

(* One cycle without capacity growth: the structural pass over the paths of the structural leaves,
   then the evaluation pass over (structural positions that hold a combiner) + (paths of the leaves
   whose value ticked) [+ anything else], re-establish the invariant for the new leaves and values. *)
Lemma cycle_partial st st' k L vals L' vals' combs sleaves dm extra combs1 cr rt :
  tree_inv st L vals k combs ->
  leaf_vals st' L' vals' -> length L' <= 2 ^ k ->
  (forall i, ~ In i sleaves -> nth_opt i L' = nth_opt i L) ->
  (forall i, ~ In i sleaves -> ~ In i dm -> nth_opt i vals' = nth_opt i vals) ->
  let spos := sort_desc_unique (concat (map (leaf_path (2 ^ k) (length combs)) sleaves)) in
  fold_left (phase1_at cf (2 ^ k) (length L')) spos (combs, [], []) = (combs1, cr, rt) ->
  exists combs2 log w,
    fold_left (eval_at f cf st' L' (2 ^ k)) (visited k combs1 spos dm extra) (combs1, [], []) = (combs2, log, w) /\
    tree_inv st' L' vals' k combs2 /\ (forall p, present combs2 p = present combs1 p).
Proof.
  intros [T1 T2 T3 T4 T5] Hvals' Hcap' HL Hv spos Hph.
  assert (Hlv : length vals = length L) by (destruct T1; assumption).
  destruct (partial_rebuild_ok f cf st' k L vals L' vals' combs sleaves dm combs1 cr rt
              Hvals' Hlv T2 Hcap' T4 T5 HL Hv Hph) as [W1 W2].
  destruct (eval_visited f cf f_assoc Hlift Hzv st' k L' vals' combs1 (visited k combs1 spos dm extra)
              Hvals' Hcap' (sort_desc_unique_sorted _) W1) as [combs2 [log [w [E1 [E2 [E3 E4]]]]]].
  { intros p Hp Hpr Hnin. apply W2; try assumption. intros Hc. apply Hnin.
    unfold visited in Hc |- *. apply (proj1 (sort_desc_unique_in _ _)) in Hc.
    apply (proj2 (sort_desc_unique_in _ _)).
    apply in_app_iff in Hc. apply in_app_iff. destruct Hc as [Hc|Hc]; [left; exact Hc|right].
    apply in_app_iff in Hc. apply in_app_iff. destruct Hc as [Hc|Hc]; [left; exact Hc|destruct Hc]. }
  exists combs2, log, w. split; [exact E1|]. split; [|exact E3].
  constructor; assumption.
Qed.

(* One cycle with a full rebuild (first publication, or growth into the other bank): every combine
   point is structural and is evaluated. *)
Lemma cycle_full st' k L' vals' combs0 combs1 cr rt dm extra :
  leaf_vals st' L' vals' -> length L' <= 2 ^ k -> (c_has_zero cf = true -> 1 <= k) ->
  length combs0 = internals (2 ^ k) ->
  let spos := down_from (length combs0) in
  fold_left (phase1_at cf (2 ^ k) (length L')) spos (combs0, [], []) = (combs1, cr, rt) ->
  exists combs2 log w,
    fold_left (eval_at f cf st' L' (2 ^ k)) (visited k combs1 spos dm extra) (combs1, [], []) = (combs2, log, w) /\
    tree_inv st' L' vals' k combs2 /\ (forall p, present combs2 p = present combs1 p).
Proof.
  intros Hvals' Hcap' Hz Hlen spos Hph.
  pose proof (full_rebuild_ok cf k L' combs0 combs1 cr rt Hlen Hph) as W1.
  destruct (eval_visited f cf f_assoc Hlift Hzv st' k L' vals' combs1 (visited k combs1 spos dm extra)
              Hvals' Hcap' (sort_desc_unique_sorted _) W1) as [combs2 [log [w [E1 [E2 [E3 E4]]]]]].
  { intros p Hp Hpr Hnin. exfalso. apply Hnin. unfold visited. apply sort_desc_unique_in.
    apply in_app_iff. left. apply filter_In. split; [|exact Hpr].
    unfold spos. apply down_from_in. lia. }
  exists combs2, log, w. split; [exact E1|]. split; [|exact E3].
  constructor; assumption.
Qed.

(* ---- order independence ---- *)
Hypothesis f_comm : forall a b, f a b = f b a.

Lemma fold_left_perm l l' : Permutation l l' -> forall x, fold_left f l x = fold_left f l' x.
Proof.
  induction 1; intros z; simpl; auto.
  - f_equal. rewrite !f_assoc. f_equal. apply f_comm.
  - rewrite IHPermutation1. apply IHPermutation2.
Qed.

Lemma fold1_perm l l' : Permutation l l' -> fold1 f l = fold1 f l'.
Proof.
  induction 1; simpl; auto.
  - f_equal. apply fold_left_perm. assumption.
  - f_equal. f_equal. apply f_comm.
  - congruence.
Qed.

Lemma spec_result_perm vals vals' : Permutation vals vals' -> spec_result f cf vals = spec_result f cf vals'.
Proof.
  intros HP. pose proof (Permutation_length HP) as Hl.
  destruct vals as [|v [|v2 r]], vals' as [|w [|w2 r']]; simpl in Hl; try lia.
  - reflexivity.
  - apply Permutation_length_1 in HP. subst. reflexivity.
  - unfold spec_result. apply fold1_perm. exact HP.
Qed.

End Statements.

(* ---- zero rules ---- *)
Section Zero.
Variable f : Z -> Z -> Z.
Variable cf : cfg.

Lemma spec_result_rules :
  (spec_result f cf [] = if c_has_zero cf then Some (c_zero cf) else None) /\
  (forall v, spec_result f cf [v] = if c_has_zero cf then Some (f v (c_zero cf)) else Some v) /\
  (forall vals, 2 <= length vals -> spec_result f cf vals = fold1 f vals).
Proof.
  repeat split; intros; try reflexivity.
  destruct vals as [|a [|b r]]; simpl in *; try lia. reflexivity.
Qed.

(* once two are live, every combiner present holds the fold of a segment of the live values: the
   zero is not an operand anywhere in the tree *)
Lemma zero_not_in_tree st L vals k combs : tree_inv f cf st L vals k combs -> 2 <= length L ->
  forall j u, 1 <= j -> j <= k -> u < 2 ^ (k - j) -> present combs (pos k j u) = true ->
    sem_at f L vals k combs j u.
Proof.
  intros [T1 T2 T3 [T4 T4'] T5] Hl j u H1 H2 H3 Hp.
  assert (Hq : pos k j u < internals (2 ^ k)) by (apply pos_internal; assumption).
  destruct (T5 _ Hq Hp j u H1 H2 H3 eq_refl) as [G _]. apply G.
  rewrite (T4' _ Hq) in Hp. apply (needed_iff cf L k T2 j u H1 H2 H3) in Hp.
  destruct Hp as [[_ [_ Hone]]|Hn]; [lia|exact Hn].
Qed.

End Zero.

Lemma order_independent f cf :
  (forall a b c, f (f a b) c = f a (f b c)) -> (forall a b, f a b = f b a) -> c_lifted cf = true ->
  (c_has_zero cf = true -> c_zero_valid cf = true) ->
  forall st1 L1 vals1 k1 combs1 st2 L2 vals2 k2 combs2,
  tree_inv f cf st1 L1 vals1 k1 combs1 -> tree_inv f cf st2 L2 vals2 k2 combs2 ->
  Permutation vals1 vals2 ->
  src_value cf st1 combs1 (agg_src cf L1 combs1 (root_aggregate (c_has_zero cf) (2 ^ k1) (length L1) (length combs1))) =
  src_value cf st2 combs2 (agg_src cf L2 combs2 (root_aggregate (c_has_zero cf) (2 ^ k2) (length L2) (length combs2))).
Proof.
  intros Ha Hc Hl Hz st1 L1 vals1 k1 combs1 st2 L2 vals2 k2 combs2 T1 T2 HP.
  rewrite (tree_inv_result f cf Hz st1 L1 vals1 k1 combs1 T1), (tree_inv_result f cf Hz st2 L2 vals2 k2 combs2 T2).
  apply spec_result_perm; assumption.
Qed.

(* ---- a concrete inhabitant of the invariant and of the hypotheses of the cycle lemma ---- *)
Definition ex_cf : cfg := mkCfg false true false 0%Z true.
Definition ex_store (v1 : Z) : store := mkStore 8 [2; 3; 4; 5; 6; 7] [] [(0, (10%Z, 1%Z)); (1, (11%Z, v1))] true.
Definition ex_leaves : list leaf := [mkLeaf 10%Z 0; mkLeaf 11%Z 1].
Definition ex_combs (out : Z) : list (option comb) := [Some (mkComb SNone SNone (Some out) false)].

Lemma ex_leaf_vals v1 : leaf_vals (ex_store v1) ex_leaves [1%Z; v1].
Proof.
  split; [reflexivity|]. intros i lf H. destruct i as [|[|i]]; simpl in H.
  - injection H as <-. exists 1%Z. split; reflexivity.
  - injection H as <-. exists v1. split; reflexivity.
  - destruct i; discriminate H.
Qed.

Lemma ex_tree_inv v1 : tree_inv Z.add ex_cf (ex_store v1) ex_leaves [1%Z; v1] 1 (ex_combs (1 + v1)%Z).
Proof.
  constructor.
  - apply ex_leaf_vals.
  - simpl. lia.
  - intros _. lia.
  - split; [reflexivity|]. intros p Hp. assert (p = 0) by (vm_compute in Hp; lia). subst p. reflexivity.
  - intros p Hp _. assert (p = 0) by (vm_compute in Hp; lia). subst p.
    intros j u H1 H2 H3 E. assert (j = 1) by lia. subst j. assert (u = 0) by (simpl in H3; lia). subst u.
    split; [|intros Hz; discriminate Hz]. intros _. eexists. split; [reflexivity|]. reflexivity.
Qed.

Definition example_inv : Prop := tree_inv Z.add ex_cf (ex_store 2%Z) ex_leaves [1%Z; 2%Z] 1 (ex_combs 3%Z).
Lemma example_inv_holds : example_inv.
Proof. exact (ex_tree_inv 2%Z). Qed.

(* leaf 1 ticks from 2 to 64: no structural leaf, one ticked leaf; the cycle lemma yields the
   invariant for the new values, i.e. the combiner now holds 65 *)
Definition example_cycle : Prop :=
  exists combs2 log w,
    fold_left (eval_at Z.add ex_cf (ex_store 64%Z) ex_leaves (2 ^ 1))
              (visited 1 (ex_combs 3%Z) (sort_desc_unique (concat (map (leaf_path (2 ^ 1) 1) []))) [1] [])
              (ex_combs 3%Z, [], []) = (combs2, log, w) /\
    tree_inv Z.add ex_cf (ex_store 64%Z) ex_leaves [1%Z; 64%Z] 1 combs2 /\
    (forall p, present combs2 p = present (ex_combs 3%Z) p).
Lemma example_cycle_holds : example_cycle.
Proof.
  unfold example_cycle.
  apply (cycle_partial Z.add ex_cf (fun a b c => eq_sym (Z.add_assoc a b c)) eq_refl (fun _ => eq_refl) (ex_store 2%Z) (ex_store 64%Z) 1
           ex_leaves [1%Z; 2%Z] ex_leaves [1%Z; 64%Z] (ex_combs 3%Z) [] [1] [] (ex_combs 3%Z) [] []).
  - exact (ex_tree_inv 2%Z).
  - apply ex_leaf_vals.
  - simpl. lia.
  - intros i _. reflexivity.
  - intros i _ Hi. destruct i as [|[|i]]; simpl; try reflexivity. exfalso. apply Hi. left. reflexivity.
  - reflexivity.
Qed.

(* ================================================================== *)
(* Part 8: the dense leaf maps — swap-last erase and the record of structural leaves *)

Lemma last_opt_nth {A} (l : list A) : last_opt l = nth_opt (length l - 1) l.
Proof.
  induction l as [|x r IH]; [reflexivity|]. destruct r as [|y r]; [reflexivity|].
  change (last_opt (x :: y :: r)) with (last_opt (y :: r)). rewrite IH. simpl. rewrite Nat.sub_0_r. reflexivity.
Qed.

Lemma remove_last_length {A} (l : list A) : length (remove_last l) = length l - 1.
Proof.
  induction l as [|x r IH]; [reflexivity|]. destruct r as [|y r]; [reflexivity|].
  change (remove_last (x :: y :: r)) with (x :: remove_last (y :: r)). simpl length in *. lia.
Qed.

Lemma remove_last_nth {A} (l : list A) j : j < length l - 1 -> nth_opt j (remove_last l) = nth_opt j l.
Proof.
  revert j. induction l as [|x r IH]; intros j H; [simpl in H; lia|]. destruct r as [|y r]; [simpl in H; lia|].
  change (remove_last (x :: y :: r)) with (x :: remove_last (y :: r)).
  destruct j; [reflexivity|]. simpl. apply IH. simpl in *. lia.
Qed.

(* erase by moving the last leaf into the hole: only the hole and the last index change *)
Lemma remove_leaf_at_frame (l : list leaf) i j : i < length l -> j <> i -> j <> length l - 1 ->
  nth_opt j (remove_leaf_at i l) = nth_opt j l.
Proof.
  intros Hi Hj1 Hj2. unfold remove_leaf_at. rewrite last_opt_nth.
  destruct (nth_opt (length l - 1) l) as [lastv|] eqn:El.
  2:{ apply nth_opt_none in El. lia. }
  destruct (i =? length l - 1) eqn:Ei.
  - destruct (Nat.lt_ge_cases j (length l - 1)) as [Hlt|Hge].
    + apply remove_last_nth. exact Hlt.
    + assert (nth_opt j l = None) by (apply nth_opt_none; lia).
      assert (nth_opt j (remove_last l) = None) by (apply nth_opt_none; rewrite remove_last_length; lia).
      congruence.
  - destruct (Nat.lt_ge_cases j (length l - 1)) as [Hlt|Hge].
    + rewrite remove_last_nth by (rewrite set_nth_length; exact Hlt).
      apply nth_opt_set_nth_other. lia.
    + assert (nth_opt j l = None) by (apply nth_opt_none; lia).
      assert (nth_opt j (remove_last (set_nth i lastv l)) = None)
        by (apply nth_opt_none; rewrite remove_last_length, set_nth_length; lia).
      congruence.
Qed.

(* ... the moved leaf lands in the hole, and the list is one shorter *)
Lemma remove_leaf_at_moved (l : list leaf) i : i < length l - 1 ->
  nth_opt i (remove_leaf_at i l) = nth_opt (length l - 1) l /\ length (remove_leaf_at i l) = length l - 1.
Proof.
  intros Hi. unfold remove_leaf_at. rewrite last_opt_nth.
  destruct (nth_opt (length l - 1) l) as [lastv|] eqn:El.
  2:{ apply nth_opt_none in El. lia. }
  destruct (i =? length l - 1) eqn:Ei; [apply Nat.eqb_eq in Ei; lia|].
  split.
  - rewrite remove_last_nth by (rewrite set_nth_length; exact Hi).
    apply nth_opt_set_nth_same. lia.
  - rewrite remove_last_length, set_nth_length. reflexivity.
Qed.

Lemma key_index_lt k l i : key_index k l = Some i -> i < length l.
Proof.
  revert i. induction l as [|x r IH]; intros i H; simpl in H; [discriminate|].
  destruct (lf_key x =? k)%Z. { injection H as <-. simpl. lia. }
  destruct (key_index k r) as [i'|]; [|discriminate]. injection H as <-. simpl. specialize (IH i' eq_refl). lia.
Qed.

Lemma nth_opt_snoc_other {A} (l : list A) x j : j <> length l -> nth_opt j (l ++ [x]) = nth_opt j l.
Proof.
  intros H. destruct (Nat.lt_ge_cases j (length l)) as [Hlt|Hge].
  - apply nth_opt_app_l. exact Hlt.
  - assert (nth_opt j l = None) by (apply nth_opt_none; lia).
    assert (nth_opt j (l ++ [x]) = None) by (apply nth_opt_none; rewrite app_length; simpl; lia). congruence.
Qed.

(* the invariant of the three reconciliation loops: every dense index NOT recorded as structural
   still holds the leaf it held before the cycle *)
Definition rc_frame (L : list leaf) (a : rc) : Prop :=
  let '(l, sl, stc) := a in
  (forall j, ~ In j sl -> nth_opt j l = nth_opt j L) /\ (stc = false -> l = L /\ sl = []).

Lemma rc_remove_frame L k a : rc_frame L a -> rc_frame L (rc_remove k a).
Proof.
  destruct a as [[l sl] stc]. intros [H1 H2]. unfold rc_remove.
  destruct (key_index k l) as [i|] eqn:Ek; [|split; assumption].
  pose proof (key_index_lt k l i Ek) as Hi.
  split; [|discriminate]. intros j Hj.
  rewrite in_app_iff in Hj. unfold removed_paths in Hj.
  rewrite remove_leaf_at_frame; try assumption.
  - apply H1. tauto.
  - intros ->. apply Hj. right. destruct (i =? length l - 1); simpl; auto.
  - intros ->. apply Hj. right. destruct (i =? length l - 1) eqn:E; simpl; auto.
    apply Nat.eqb_eq in E. left. exact E.
Qed.

Lemma rc_add_frame L valid sk a : rc_frame L a -> rc_frame L (rc_add valid sk a).
Proof.
  destruct a as [[l sl] stc]. destruct sk as [s k]. intros [H1 H2]. unfold rc_add.
  destruct (negb (valid s)); [split; assumption|].
  destruct (key_index k l); [split; assumption|].
  split; [|discriminate]. intros j Hj. rewrite in_app_iff in Hj.
  rewrite nth_opt_snoc_other; [apply H1; tauto|]. intros ->. apply Hj. right. left. reflexivity.
Qed.

Lemma rc_mod_frame L live valid sk a : rc_frame L a -> rc_frame L (rc_mod live valid sk a).
Proof.
  destruct a as [[l sl] stc]. destruct sk as [s k]. intros [H1 H2]. unfold rc_mod.
  destruct (negb (live s)); [split; assumption|].
  destruct (key_index k l) as [i|] eqn:Ek.
  - pose proof (key_index_lt k l i Ek) as Hi.
    destruct (negb (valid s)).
    + split; [|discriminate]. intros j Hj. rewrite in_app_iff in Hj. unfold removed_paths in Hj.
      rewrite remove_leaf_at_frame; try assumption.
      * apply H1. tauto.
      * intros ->. apply Hj. right. destruct (i =? length l - 1); simpl; auto.
      * intros ->. apply Hj. right. destruct (i =? length l - 1) eqn:E; simpl; auto.
        apply Nat.eqb_eq in E. left. exact E.
    + destruct (nth_opt i l) as [lf|]; [|split; assumption].
      destruct (lf_slot lf =? s); [split; assumption|].
      split; [|discriminate]. intros j Hj. rewrite in_app_iff in Hj.
      rewrite nth_opt_set_nth_other; [apply H1; tauto|]. intros ->. apply Hj. right. left. reflexivity.
  - destruct (negb (valid s)); [split; assumption|].
    split; [|discriminate]. intros j Hj. rewrite in_app_iff in Hj.
    rewrite nth_opt_snoc_other; [apply H1; tauto|]. intros ->. apply Hj. right. left. reflexivity.
Qed.

Lemma fold_left_inv {A B} (P : A -> Prop) (g : A -> B -> A) l : (forall a b, P a -> P (g a b)) ->
  forall a, P a -> P (fold_left g l a).
Proof. intros H. induction l as [|b r IH]; intros a Ha; simpl; auto. Qed.

(* reconcile_leaf_state (sparse branch), for ANY store and delta: whatever the delta says, an index
   that is not recorded in structural_leaves holds the same leaf as before, and "not structural"
   means nothing moved at all.  This discharges the first hypothesis of reduce_eq_fold_partial
   for the model's own reconciliation. *)
Lemma reconcile_sparse_frame st d L :
  let '(L', sl, stc) := reconcile_sparse st d L in
  (forall j, ~ In j sl -> nth_opt j L' = nth_opt j L) /\ (stc = false -> L' = L /\ sl = []).
Proof.
  unfold reconcile_sparse.
  set (live := fun s => match find_slot s (st_ent st) with Some _ => true | None => false end).
  change (rc_frame L (fold_left (fun a sk => rc_mod live live sk a) (d_mod d)
                       (fold_left (fun a sk => rc_add live sk a) (d_add d)
                          (fold_left (fun a sk => rc_remove (snd sk) a) (d_rem d) (L, [], false))))).
  apply (fold_left_inv (rc_frame L)); [intros; apply rc_mod_frame; assumption|].
  apply (fold_left_inv (rc_frame L)); [intros; apply rc_add_frame; assumption|].
  apply (fold_left_inv (rc_frame L)); [intros; apply rc_remove_frame; assumption|].
  split; [reflexivity|auto].
Qed.

(* ================================================================== *)
(* Part 9: every cycle of the model's own reduce_cycle                  *)

(* ---- capacity ---- *)
Lemma pow2_ge_spec : forall fuel n a, n <= 2 ^ (a + fuel) ->
  exists j, pow2_ge fuel n (2 ^ a) = 2 ^ j /\ n <= 2 ^ j.
Proof.
  induction fuel as [|fuel IH]; intros n a H.
  - rewrite Nat.add_0_r in H. exists a. split; [reflexivity|exact H].
  - cbn [pow2_ge]. destruct (n <=? 2 ^ a) eqn:E.
    + apply Nat.leb_le in E. exists a. split; [reflexivity|exact E].
    + change (2 * 2 ^ a) with (2 ^ S a). apply IH. replace (S a + fuel) with (a + S fuel) by lia. exact H.
Qed.

Lemma bit_ceil_spec n : exists j, bit_ceil n = 2 ^ j /\ n <= 2 ^ j.
Proof.
  unfold bit_ceil. change 1 with (2 ^ 0). apply pow2_ge_spec. simpl. pose proof (pow2_lt_lin n). lia.
Qed.

(* c is the capacity of a tree of height k (capacity 0 - never grown - behaves like capacity 1) *)
Definition capk (c k : nat) : Prop := c = 2 ^ k \/ (c = 0 /\ k = 0).

Lemma capk_inj c k k' : capk c k -> capk c k' -> k = k'.
Proof.
  intros [H|[H1 H2]] [G|[G1 G2]]; subst; try lia.
  - apply (Nat.pow_inj_r 2); [lia|exact G].
  - pose proof (pow2_pos k). lia.
  - pose proof (pow2_pos k'). lia.
Qed.

Lemma capk_internals c k : capk c k -> internals c = internals (2 ^ k).
Proof. intros [->|[-> ->]]; reflexivity. Qed.

Section Capacity.
Variable cf : cfg.

Lemma next_capacity_spec cap live k0 : capk cap k0 ->
  exists k, capk (next_capacity cf cap live) k /\ live <= 2 ^ k /\ (c_has_zero cf = true -> 1 <= k).
Proof.
  intros Hc. unfold next_capacity.
  set (M := if c_has_zero cf then 2 else 0).
  set (X := if live =? 0 then 0 else bit_ceil live).
  assert (HX : live <= X /\ (X = 0 \/ exists j, X = 2 ^ j)).
  { unfold X. destruct (live =? 0) eqn:E; [apply Nat.eqb_eq in E; split; [lia|left; reflexivity]|].
    destruct (bit_ceil_spec live) as [j [H1 H2]]. split; [lia|right; exists j; exact H1]. }
  destruct HX as [HX1 HX2].
  assert (HM : M = 0 \/ exists j, M = 2 ^ j).
  { unfold M. destruct (c_has_zero cf); [right; exists 1; reflexivity|left; reflexivity]. }
  assert (HC : cap = 0 \/ exists j, cap = 2 ^ j).
  { destruct Hc as [->|[-> _]]; [right; exists k0; reflexivity|left; reflexivity]. }
  set (c := Nat.max cap (Nat.max M X)).
  assert (Hc2 : c = 0 \/ exists j, c = 2 ^ j).
  { unfold c. destruct (Nat.max_dec cap (Nat.max M X)) as [-> | ->]; [exact HC|].
    destruct (Nat.max_dec M X) as [-> | ->]; assumption. }
  assert (Hge : live <= c /\ M <= c) by (unfold c; lia).
  destruct Hc2 as [H0|[j Hj]].
  - exists 0. split; [right; split; [exact H0|reflexivity]|]. split; [lia|].
    intros Hz. unfold M in Hge. rewrite Hz in Hge. lia.
  - exists j. split; [left; exact Hj|]. split; [lia|].
    intros Hz. unfold M in Hge. rewrite Hz in Hge. destruct j; [simpl in Hj; lia|lia].
Qed.

End Capacity.

(* ---- the leaf-map half of reduce_reconcile ---- *)
Lemma reconcile_full_list_frame st L :
  let '(L', sl, stc) := reconcile_full_list st L in
  (forall j, ~ In j sl -> nth_opt j L' = nth_opt j L) /\ (stc = false -> L' = L /\ sl = []).
Proof.
  unfold reconcile_full_list.
  apply (fold_left_inv (rc_frame L)); [|split; [reflexivity|auto]].
  intros [[l sl] stc] e [H1 H2]. cbn beta iota.
  destruct (key_index (fst (snd e)) l); [split; assumption|].
  split; [|discriminate]. intros j Hj. rewrite in_app_iff in Hj.
  rewrite nth_opt_snoc_other; [apply H1; tauto|]. intros ->. apply Hj. right. left. reflexivity.
Qed.

Section Step.
Variable f : Z -> Z -> Z.
Variable cf : cfg.
Hypothesis f_assoc : forall a b c, f (f a b) c = f a (f b c).
Hypothesis Hlift : c_lifted cf = true.
Hypothesis Hzv : c_has_zero cf = true -> c_zero_valid cf = true.

Lemma reconcile_leaves_spec st d coll s L' sl stc full pr :
  reconcile_leaves cf st d coll s = (L', sl, stc, full, pr) ->
  (full = false -> forall j, ~ In j sl -> nth_opt j L' = nth_opt j (r_leaves s)) /\
  (stc = false -> L' = r_leaves s /\ sl = []) /\
  (r_published s = false -> full = true).
Proof.
  unfold reconcile_leaves. intros E.
  destruct (available cf st).
  - destruct (negb (r_primed s) || coll) eqn:E1.
    + destruct (negb (r_primed s)) eqn:E2.
      * destruct (c_list cf).
        -- pose proof (reconcile_full_list_frame st (r_leaves s)) as Hf.
           destruct (reconcile_full_list st (r_leaves s)) as [[l sl0] stc0]. destruct Hf as [F1 F2].
           injection E as <- <- <- <- <-. rewrite orb_true_r. repeat split; try discriminate; auto; apply F2; assumption.
        -- unfold reconcile_full in E. injection E as <- <- <- <- <-. rewrite orb_true_r.
           repeat split; try discriminate; auto.
      * pose proof (reconcile_sparse_frame st d (r_leaves s)) as Hf.
        destruct (reconcile_sparse st d (r_leaves s)) as [[l sl0] stc0]. destruct Hf as [F1 F2].
        injection E as <- <- <- <- <-. rewrite orb_false_r.
        repeat split; auto; try (apply F2; assumption). intros ->. reflexivity.
    + injection E as <- <- <- <- <-. repeat split; auto. intros ->. reflexivity.
  - destruct (r_primed s || negb (length (r_leaves s) =? 0)).
    + injection E as <- <- <- <- <-. repeat split; try discriminate; auto.
    + injection E as <- <- <- <- <-. repeat split; auto. intros ->. reflexivity.
Qed.

(* rebuild_structure with the lifted kernel, field by field *)
Lemma rebuild_lifted st s L' sl full :
  let c := next_capacity cf (r_cap s) (length L') in
  let bank_changed := negb (c =? r_cap s) in
  let combs0 := if bank_changed then repeat None (internals c) else r_combs s in
  let positions := if full || bank_changed then down_from (length combs0)
                   else sort_desc_unique (concat (map (leaf_path c (length combs0)) sl)) in
  exists combs1 cr rt,
    fold_left (phase1_at cf c (length L')) positions (combs0, [], []) = (combs1, cr, rt) /\
    let rb := rebuild_structure cf st s L' sl full in
    r_leaves (rb_state rb) = L' /\ r_cap (rb_state rb) = c /\ r_combs (rb_state rb) = combs1 /\
    r_published (rb_state rb) = true /\
    r_pub (rb_state rb) = agg_src cf L' combs1 (root_aggregate (c_has_zero cf) c (length L') (length combs1)) /\
    rb_positions rb = positions.
Proof.
  cbv zeta. unfold rebuild_structure. cbv zeta. rewrite Hlift.
  destruct (fold_left (phase1_at cf (next_capacity cf (r_cap s) (length L')) (length L'))
     (if full || negb (next_capacity cf (r_cap s) (length L') =? r_cap s)
      then down_from (length (if negb (next_capacity cf (r_cap s) (length L') =? r_cap s)
                              then repeat None (internals (next_capacity cf (r_cap s) (length L'))) else r_combs s))
      else sort_desc_unique (concat (map (leaf_path (next_capacity cf (r_cap s) (length L'))
             (length (if negb (next_capacity cf (r_cap s) (length L') =? r_cap s)
                      then repeat None (internals (next_capacity cf (r_cap s) (length L'))) else r_combs s))) sl)))
     (if negb (next_capacity cf (r_cap s) (length L') =? r_cap s)
      then repeat None (internals (next_capacity cf (r_cap s) (length L'))) else r_combs s, [], []))
    as [[combs1 cr] rt] eqn:Eph.
  exists combs1, cr, rt. split; [reflexivity|]. cbn. repeat split; reflexivity.
Qed.

(* the invariant between cycles *)
Definition pub_inv (st : store) (s : rstate) (vals : list Z) : Prop :=
  exists k, capk (r_cap s) k /\ tree_inv f cf st (r_leaves s) vals k (r_combs s) /\
            r_pub s = agg_src cf (r_leaves s) (r_combs s)
                        (root_aggregate (c_has_zero cf) (2 ^ k) (length (r_leaves s)) (length (r_combs s))).

Definition cycle_inv (st : store) (s : rstate) (vals : list Z) : Prop :=
  if r_published s then pub_inv st s vals else (r_cap s = 0 /\ r_combs s = []).

Lemma pub_inv_result st s vals : pub_inv st s vals -> result_of cf st s = spec_result f cf vals.
Proof.
  intros [k [_ [T P]]]. unfold result_of. rewrite P. apply (tree_inv_result f cf Hzv st _ vals k _ T).
Qed.

(* the dense indices of the leaves whose value ticked *)
Definition ticked_leaves (d : delta) (L' : list leaf) : list nat :=
  flat_map (fun sk => match key_index (snd sk) L' with Some i => [i] | None => [] end) (d_mod d).

Lemma cand_mod_eq d L' C combs :
  concat (map (fun sk : nat * Z => match key_index (snd sk) L' with
                                   | Some i => live_path C combs i
                                   | None => []
                                   end) (d_mod d)) =
  concat (map (live_path C combs) (ticked_leaves d L')).
Proof.
  unfold ticked_leaves. induction (d_mod d) as [|sk r IH]; [reflexivity|].
  simpl. destruct (key_index (snd sk) L'); simpl; rewrite IH; reflexivity.
Qed.

Definition ticked_eff (st : store) (d : delta) (coll : bool) (L' : list leaf) : list nat :=
  if coll && available cf st then ticked_leaves d L' else [].

(* EVERY evaluated cycle of reduce_cycle (first observation, not-yet-valid collection, steady state,
   full rebuild, growth with bank swap): invariant to invariant, result = fold.  The hypotheses about
   the cycle concern the source collection only. *)
Theorem reduce_cycle_correct st0 st d coll zero s vals L' sl stc full pr vals' :
  cycle_inv st0 s vals -> coll || zero = true ->
  reconcile_leaves cf st d coll s = (L', sl, stc, full, pr) ->
  leaf_vals st L' vals' ->
  (full && (stc || negb (r_published s)) = false ->
     forall i, ~ In i sl -> ~ In i (ticked_eff st d coll L') -> nth_opt i vals' = nth_opt i vals) ->
  let s2 := o_state (reduce_cycle f cf st d coll zero s) in
  r_published s2 = true /\ r_leaves s2 = L' /\ pub_inv st s2 vals' /\ result_of cf st s2 = spec_result f cf vals'.
Proof.
  intros Hinv Hev HRL Hvals' Hv.
  destruct (reconcile_leaves_spec st d coll s L' sl stc full pr HRL) as [HL [Hns Hunp]].
  assert (Hgoal : let s2 := o_state (reduce_cycle f cf st d coll zero s) in
                  r_published s2 = true /\ r_leaves s2 = L' /\ pub_inv st s2 vals').
  2:{ cbv zeta in *. destruct Hgoal as [G1 [G2 G3]]. repeat split; try assumption. apply pub_inv_result. exact G3. }
  unfold reduce_cycle. rewrite Hev. cbn [negb]. rewrite Hlift.
  unfold reconcile.
  change (reconcile_leaves cf st d coll (set_combs (destroy_previous s) (r_combs (destroy_previous s))))
    with (reconcile_leaves cf st d coll s).
  rewrite HRL.
  cbn [set_combs destroy_previous r_leaves r_cap r_combs r_bank r_prev r_occ r_primed r_published r_pub r_err].
  destruct (stc || negb (r_published s)) eqn:Erb.
  - (* rebuild_structure *)
    match goal with |- context [rebuild_structure cf st ?S L' sl full] => set (s' := S) end.
    destruct (rebuild_lifted st s' L' sl full) as [combs1 [cr [rt [Eph Hrb]]]].
    cbv zeta in Hrb. destruct Hrb as [R1 [R2 [R3 [R4 [R5 R6]]]]].
    change (r_cap s') with (r_cap s) in *. change (r_combs s') with (r_combs s) in *.
    set (c := next_capacity cf (r_cap s) (length L')) in *.
    (* what is known about the old capacity and tree *)
    assert (Hold : exists k0, capk (r_cap s) k0 /\ length (r_combs s) = internals (2 ^ k0) /\
                     (r_published s = true -> tree_inv f cf st0 (r_leaves s) vals k0 (r_combs s))).
    { unfold cycle_inv in Hinv. destruct (r_published s).
      - destruct Hinv as [k0 [C0 [T0 _]]]. exists k0. split; [exact C0|]. split; [|intros _; exact T0].
        destruct T0 as [_ _ _ [Hl _] _]. exact Hl.
      - destruct Hinv as [C0 C1]. exists 0. split; [right; auto|]. split; [rewrite C1; reflexivity|discriminate]. }
    destruct Hold as [k0 [Ck0 [Hlen0 Htree0]]].
    destruct (next_capacity_spec cf (r_cap s) (length L') k0 Ck0) as [k [Ck [Hcap Hz]]]. fold c in Ck.
    cbn [rb_state rb_positions].
    set (rb := rebuild_structure cf st s' L' sl full) in *.
    unfold eval_positions. rewrite R1, R2, R3, R6. cbn [negb orb andb].
    rewrite cand_mod_eq.
    assert (Hsort : forall A B C0, sort_desc_unique (A ++ (if coll && available cf st then B else []) ++ C0) =
                                    sort_desc_unique (A ++ (if coll && available cf st then B else []) ++ C0)) by reflexivity.
    clear Hsort.
    (* evaluation list in the [visited] form *)
    set (dm := ticked_eff st d coll L').
    assert (Hcm : (if coll && available cf st then concat (map (live_path c combs1) (ticked_leaves d L')) else []) =
                  concat (map (live_path c combs1) dm)).
    { unfold dm, ticked_eff. destruct (coll && available cf st); reflexivity. }
    rewrite Hcm. clear Hcm.
    assert (Hconv_eval : eval_at f cf st L' c = eval_at f cf st L' (2 ^ k))
      by (destruct Ck as [->|[-> ->]]; reflexivity).
    assert (Hconv_ph : phase1_at cf c (length L') = phase1_at cf (2 ^ k) (length L'))
      by (destruct Ck as [->|[-> ->]]; reflexivity).
    assert (Hconv_lp : live_path c combs1 = live_path (2 ^ k) combs1)
      by (destruct Ck as [->|[-> ->]]; reflexivity).
    assert (Hconv_ra : forall n m, root_aggregate (c_has_zero cf) c n m = root_aggregate (c_has_zero cf) (2 ^ k) n m)
      by (destruct Ck as [->|[-> ->]]; reflexivity).
    rewrite Hconv_eval, Hconv_lp. rewrite Hconv_ph in Eph.
    set (extra := if zero && (length L' =? 1) && present combs1 0 then [0] else []).
    destruct (full || negb (c =? r_cap s)) eqn:Efull.
    + (* full rebuild: first publication, growth, or a full reconcile *)
      assert (Hlen : length (if negb (c =? r_cap s) then repeat None (internals c) else r_combs s) = internals (2 ^ k)).
      { destruct (c =? r_cap s) eqn:Ec; cbn [negb].
        - apply Nat.eqb_eq in Ec. rewrite <- Ec in Ck0. rewrite (capk_inj c k k0 Ck Ck0). exact Hlen0.
        - rewrite repeat_length. apply capk_internals. exact Ck. }
      destruct (cycle_full f cf f_assoc Hlift Hzv st k L' vals' _ combs1 cr rt dm extra Hvals' Hcap Hz Hlen Eph)
        as [combs2 [log [w [Eev [Tinv Hpres]]]]].
      unfold visited in Eev. rewrite Eev.
      cbn [o_state set_combs r_leaves r_cap r_combs r_pub r_published].
      split; [exact R4|]. split; [exact R1|].
      exists k. cbn [set_combs r_leaves r_cap r_combs r_pub]. rewrite R1, R2.
      split; [exact Ck|]. split; [exact Tinv|].
      rewrite R5, Hconv_ra.
      assert (Hlen12 : length combs1 = length combs2).
      { destruct Tinv as [_ _ _ [Hl2 _] _].
        destruct (phase1_spec cf (2 ^ k) (length L') _ _ _ _ _ _ _ Eph) as [Hl1 _]. lia. }
      rewrite Hlen12. symmetry. apply agg_src_presence. exact Hpres.
    + (* partial rebuild: capacity unchanged, only the paths of the structural leaves *)
      apply orb_false_iff in Efull. destruct Efull as [Ef Ec0]. apply negb_false_iff in Ec0.
      pose proof Ec0 as Ec. apply Nat.eqb_eq in Ec.
      subst full. rewrite Ec0 in Eph |- *. cbn [negb] in Eph |- *.
      assert (Hpub : r_published s = true).
      { destruct (r_published s) eqn:Ep; [reflexivity|]. specialize (Hunp eq_refl). discriminate. }
      specialize (Htree0 Hpub). rewrite <- Ec in Ck0. pose proof (capk_inj c k k0 Ck Ck0) as Hk. subst k0.
      assert (Hconv_path : leaf_path c (length (r_combs s)) = leaf_path (2 ^ k) (length (r_combs s)))
        by (destruct Ck as [->|[-> ->]]; reflexivity).
      rewrite Hconv_path in Eph |- *.
      destruct (cycle_partial f cf f_assoc Hlift Hzv st0 st k (r_leaves s) vals L' vals' (r_combs s) sl dm extra
                  combs1 cr rt Htree0 Hvals' Hcap (HL eq_refl) (Hv eq_refl) Eph)
        as [combs2 [log [w [Eev [Tinv Hpres]]]]].
      unfold visited in Eev. rewrite Eev.
      cbn [o_state set_combs r_leaves r_cap r_combs r_pub r_published].
      split; [exact R4|]. split; [exact R1|].
      exists k. cbn [set_combs r_leaves r_cap r_combs r_pub]. rewrite R1, R2.
      split; [exact Ck|]. split; [exact Tinv|].
      rewrite R5, Hconv_ra.
      assert (Hlen12 : length combs1 = length combs2).
      { destruct Tinv as [_ _ _ [Hl2 _] _].
        destruct (phase1_spec cf (2 ^ k) (length L') _ _ _ _ _ _ _ Eph) as [Hl1 _]. lia. }
      rewrite Hlen12. symmetry. apply agg_src_presence. exact Hpres.
  - (* no rebuild: nothing structural, already published: only values ticked *)
    apply orb_false_iff in Erb. destruct Erb as [-> Epub]. apply negb_false_iff in Epub.
    destruct (Hns eq_refl) as [-> ->].
    assert (Hpi : pub_inv st0 s vals) by (unfold cycle_inv in Hinv; rewrite Epub in Hinv; exact Hinv).
    destruct Hpi as [k [Ck [Tinv0 Hpub0]]].
    cbn [r_leaves r_cap r_combs r_primed r_published r_pub].
    unfold eval_positions. cbn [r_leaves r_cap r_combs negb orb andb].
    rewrite cand_mod_eq.
    set (dm := ticked_eff st d coll (r_leaves s)).
    assert (Hcm : (if coll && available cf st then concat (map (live_path (r_cap s) (r_combs s)) (ticked_leaves d (r_leaves s))) else []) =
                  concat (map (live_path (r_cap s) (r_combs s)) dm)).
    { unfold dm, ticked_eff. destruct (coll && available cf st); reflexivity. }
    rewrite Hcm. clear Hcm.
    assert (Hconv_eval : eval_at f cf st (r_leaves s) (r_cap s) = eval_at f cf st (r_leaves s) (2 ^ k))
      by (destruct Ck as [->|[-> ->]]; reflexivity).
    assert (Hconv_lp : live_path (r_cap s) (r_combs s) = live_path (2 ^ k) (r_combs s))
      by (destruct Ck as [->|[-> ->]]; reflexivity).
    rewrite Hconv_eval, Hconv_lp.
    set (extra := if zero && (length (r_leaves s) =? 1) && present (r_combs s) 0 then [0] else []).
    assert (Hcap : length (r_leaves s) <= 2 ^ k) by (destruct Tinv0; assumption).
    destruct (cycle_partial f cf f_assoc Hlift Hzv st0 st k (r_leaves s) vals (r_leaves s) vals' (r_combs s) [] dm extra
                (r_combs s) [] [] Tinv0 Hvals' Hcap (fun i _ => eq_refl) (Hv (andb_false_r full)) eq_refl)
      as [combs2 [log [w [Eev [Tinv Hpres]]]]].
    unfold visited in Eev. cbn [map concat] in Eev. change (sort_desc_unique []) with (@nil nat) in Eev.
    cbn [filter app] in Eev. cbn [app]. rewrite Hev. cbn [negb]. rewrite Eev.
    cbn [o_state set_combs r_leaves r_cap r_combs r_pub r_published].
    split; [exact Epub|]. split; [reflexivity|].
    exists k. cbn [set_combs r_leaves r_cap r_combs r_pub].
    split; [exact Ck|]. split; [exact Tinv|].
    rewrite Hpub0.
    assert (Hlen12 : length (r_combs s) = length combs2).
    { destruct Tinv as [_ _ _ [Hl2 _] _]. destruct Tinv0 as [_ _ _ [Hl0 _] _]. lia. }
    rewrite Hlen12. symmetry. apply agg_src_presence. exact Hpres.
Qed.


(* ---- whole histories ---- *)

(* one engine cycle as seen by the reduce node: the collection's store and slot-ordered delta after
   the cycle's mutations, which inputs ticked, and (ghost) the values of the reconciled leaves in
   dense order *)
Record cyc := mkCyc { cy_store : store; cy_delta : delta; cy_coll : bool; cy_zero : bool; cy_vals : list Z }.

Definition step (s : rstate) (c : cyc) : rstate :=
  o_state (reduce_cycle f cf (cy_store c) (cy_delta c) (cy_coll c) (cy_zero c) s).

Definition run (h : list cyc) : rstate := fold_left step h rstate0.

(* The hypotheses about the SOURCE collection (property C05, coherence of the collection with its
   delta), stated on one cycle: every leaf the reconciliation keeps has a value in the new store, and
   - unless the tree is rebuilt in full - the values of leaves that are neither structural nor ticked
   are the ones they had.  A cycle in which nothing ticked leaves the values alone. *)
Definition src_ok (s : rstate) (vals : list Z) (c : cyc) : Prop :=
  if cy_coll c || cy_zero c then
    let '(L', sl, stc, full, _) := reconcile_leaves cf (cy_store c) (cy_delta c) (cy_coll c) s in
    leaf_vals (cy_store c) L' (cy_vals c) /\
    (full && (stc || negb (r_published s)) = false ->
       forall i, ~ In i sl -> ~ In i (ticked_eff (cy_store c) (cy_delta c) (cy_coll c) L') ->
                 nth_opt i (cy_vals c) = nth_opt i vals)
  else cy_vals c = vals /\ (r_published s = true -> leaf_vals (cy_store c) (r_leaves s) vals).

Fixpoint hist_ok (s : rstate) (vals : list Z) (h : list cyc) : Prop :=
  match h with
  | [] => True
  | c :: r => src_ok s vals c /\ hist_ok (step s c) (cy_vals c) r
  end.

Definition final (a : store * list Z) (h : list cyc) : store * list Z :=
  fold_left (fun _ c => (cy_store c, cy_vals c)) h a.

Lemma step_inv st s vals c : cycle_inv st s vals -> src_ok s vals c ->
  cycle_inv (cy_store c) (step s c) (cy_vals c).
Proof.
  intros Hinv Hsrc. unfold src_ok in Hsrc. unfold step.
  destruct (cy_coll c || cy_zero c) eqn:Ev.
  - destruct (reconcile_leaves cf (cy_store c) (cy_delta c) (cy_coll c) s) as [[[[L' sl] stc] full] pr] eqn:HRL.
    destruct Hsrc as [Hv1 Hv2].
    destruct (reduce_cycle_correct st (cy_store c) (cy_delta c) (cy_coll c) (cy_zero c) s vals L' sl stc full pr
                (cy_vals c) Hinv Ev HRL Hv1 Hv2) as [G1 [G2 [G3 G4]]].
    unfold cycle_inv. rewrite G1. exact G3.
  - unfold reduce_cycle. rewrite Ev. cbn [negb o_state].
    destruct Hsrc as [-> Hl]. unfold cycle_inv in *. destruct (r_published s); [|exact Hinv].
    destruct Hinv as [k [C [T P]]]. exists k. split; [exact C|]. split; [|exact P].
    destruct T as [T1 T2 T3 T4 T5]. constructor; try assumption. apply Hl. reflexivity.
Qed.

Lemma run_inv : forall h st s vals, cycle_inv st s vals -> hist_ok s vals h ->
  cycle_inv (fst (final (st, vals) h)) (fold_left step h s) (snd (final (st, vals) h)).
Proof.
  induction h as [|c r IH]; intros st s vals Hinv Hok; [exact Hinv|].
  destruct Hok as [H1 H2]. cbn [fold_left final]. apply IH; [|exact H2].
  apply (step_inv st s vals c); assumption.
Qed.

(* reduce_eq_fold: for EVERY history of cycles (adds, swap-last removes, updates, several per cycle,
   empty ticks, zero ticks, shrink to empty and regrow, any capacity growth) from the empty reduction,
   once the node has published, the published root is the fold of f over the values of the live
   leaves in dense order, with the zero rules. *)
Theorem run_eq_fold h : hist_ok rstate0 [] h -> r_published (run h) = true ->
  result_of cf (fst (final (store0, []) h)) (run h) = spec_result f cf (snd (final (store0, []) h)).
Proof.
  intros Hok Hpub.
  assert (H0 : cycle_inv store0 rstate0 []) by (unfold cycle_inv; cbn; split; reflexivity).
  pose proof (run_inv h store0 rstate0 [] H0 Hok) as Hinv. fold (run h) in Hinv.
  unfold cycle_inv in Hinv. rewrite Hpub in Hinv. apply pub_inv_result. exact Hinv.
Qed.

(* every evaluated cycle publishes, and publication is never withdrawn *)
Lemma step_published st s vals c : cycle_inv st s vals -> src_ok s vals c ->
  (cy_coll c || cy_zero c = true \/ r_published s = true) -> r_published (step s c) = true.
Proof.
  intros Hinv Hsrc Hor. unfold src_ok in Hsrc. unfold step.
  destruct (cy_coll c || cy_zero c) eqn:Ev.
  - destruct (reconcile_leaves cf (cy_store c) (cy_delta c) (cy_coll c) s) as [[[[L' sl] stc] full] pr] eqn:HRL.
    destruct Hsrc as [Hv1 Hv2].
    destruct (reduce_cycle_correct st (cy_store c) (cy_delta c) (cy_coll c) (cy_zero c) s vals L' sl stc full pr
                (cy_vals c) Hinv Ev HRL Hv1 Hv2) as [G1 _]. exact G1.
  - unfold reduce_cycle. rewrite Ev. cbn [negb o_state]. destruct Hor as [Hc|Hp]; [discriminate|exact Hp].
Qed.

End Step.

(* order independence over whole histories, associative-commutative combiner *)
Theorem run_order_independent f cf :
  (forall a b c, f (f a b) c = f a (f b c)) -> (forall a b, f a b = f b a) -> c_lifted cf = true ->
  (c_has_zero cf = true -> c_zero_valid cf = true) ->
  forall h1 h2, hist_ok f cf rstate0 [] h1 -> hist_ok f cf rstate0 [] h2 ->
  r_published (run f cf h1) = true -> r_published (run f cf h2) = true ->
  Permutation (snd (final (store0, []) h1)) (snd (final (store0, []) h2)) ->
  result_of cf (fst (final (store0, []) h1)) (run f cf h1) = result_of cf (fst (final (store0, []) h2)) (run f cf h2).
Proof.
  intros Ha Hc Hl Hz h1 h2 O1 O2 P1 P2 HP.
  rewrite (run_eq_fold f cf Ha Hl Hz h1 O1 P1), (run_eq_fold f cf Ha Hl Hz h2 O2 P2).
  apply spec_result_perm; assumption.
Qed.

(* ---- non-vacuity of the history theorem ---- *)
(* a concrete three-cycle history produced by the slot-store model: {10:1, 11:2} added, 11 ticks to 64,
   10 removed (swap-last) *)
Definition exh_cf : cfg := mkCfg false true false 0%Z true.
Definition exh_sd1 := store_apply_dict [] [(10%Z, 1%Z); (11%Z, 2%Z)] store0.
Definition exh_st1 := store_validate (fst exh_sd1).
Definition exh_sd2 := store_apply_dict [] [(11%Z, 64%Z)] exh_st1.
Definition exh_sd3 := store_apply_dict [10%Z] [] (fst exh_sd2).
Definition exh_hist : list (cyc) :=
  [mkCyc exh_st1 (snd exh_sd1) true false [1%Z; 2%Z];
   mkCyc (fst exh_sd2) (snd exh_sd2) true false [1%Z; 64%Z];
   mkCyc (fst exh_sd3) (snd exh_sd3) true false [64%Z]].

Lemma exh_ok : hist_ok Z.add exh_cf rstate0 [] exh_hist.
Proof.
  unfold exh_hist. cbn [hist_ok]. split; [|split; [|split; [|exact I]]].
  - unfold src_ok. cbn [cy_coll cy_zero cy_store cy_delta cy_vals orb].
    vm_compute (reconcile_leaves _ _ _ _ _). cbn beta iota.
    split.
    + split; [reflexivity|]. intros i lf H. destruct i as [|[|i]]; cbn in H.
      * injection H as <-. exists 1%Z. split; reflexivity.
      * injection H as <-. exists 2%Z. split; reflexivity.
      * destruct i; discriminate H.
    + intros Hc. vm_compute in Hc. discriminate Hc.
  - unfold src_ok. cbn [cy_coll cy_zero cy_store cy_delta cy_vals orb].
    vm_compute (reconcile_leaves _ _ _ _ _). cbn beta iota.
    split.
    + split; [reflexivity|]. intros i lf H. destruct i as [|[|i]]; cbn in H.
      * injection H as <-. exists 1%Z. split; reflexivity.
      * injection H as <-. exists 64%Z. split; reflexivity.
      * destruct i; discriminate H.
    + intros _ i _ Hi. vm_compute in Hi.
      destruct i as [|[|i]]; try reflexivity. exfalso. apply Hi. left. reflexivity.
  - unfold src_ok. cbn [cy_coll cy_zero cy_store cy_delta cy_vals orb].
    vm_compute (reconcile_leaves _ _ _ _ _). cbn beta iota.
    split.
    + split; [reflexivity|]. intros i lf H. destruct i as [|i]; cbn in H.
      * injection H as <-. exists 64%Z. split; reflexivity.
      * destruct i; discriminate H.
    + intros _ i Hi _. vm_compute in Hi.
      destruct i as [|[|i]].
      * exfalso. apply Hi. left. reflexivity.
      * exfalso. apply Hi. right. left. reflexivity.
      * destruct i; reflexivity.
Qed.

Example exh_result :
  r_published (run Z.add exh_cf exh_hist) = true /\
  result_of exh_cf (fst (final (store0, []) exh_hist)) (run Z.add exh_cf exh_hist) = Some 64%Z.
Proof. vm_compute. split; reflexivity. Qed.

(* ================================================================== *)
(* Part 10: the number of combiners                                     *)

(* the first leaf of the right half of the combine point at heap position p *)
Definition mid (k p : nat) : nat :=
  let d := Nat.log2 (p + 1) in (p + 1 - 2 ^ d) * 2 ^ (k - d) + 2 ^ (k - d - 1).

Lemma mid_pos k j u : j <= k -> u < 2 ^ (k - j) -> mid k (pos k j u) = u * 2 ^ j + 2 ^ (j - 1).
Proof.
  intros H1 H2. unfold mid. rewrite (pos_log2 k j u H2).
  replace (k - (k - j)) with j by lia.
  replace (pos k j u + 1 - 2 ^ (k - j)) with u by (unfold pos; pose proof (pow2_pos (k - j)); lia).
  reflexivity.
Qed.

Lemma mid_odd j u : 1 <= j -> u * 2 ^ j + 2 ^ (j - 1) = (2 * u + 1) * 2 ^ (j - 1).
Proof. intros H. rewrite (pow2_half j H). lia. Qed.

Lemma odd_pow_inj : forall a b u v, (2 * u + 1) * 2 ^ a = (2 * v + 1) * 2 ^ b -> a = b /\ u = v.
Proof.
  induction a as [|a IH]; intros b u v H.
  - destruct b as [|b]; [simpl in H; lia|]. rewrite pow2_S in H. simpl (2 ^ 0) in H.
    set (t := (2 * v + 1) * 2 ^ b). assert ((2 * v + 1) * (2 * 2 ^ b) = 2 * t) by (unfold t; lia). lia.
  - destruct b as [|b].
    + rewrite pow2_S in H. simpl (2 ^ 0) in H.
      set (t := (2 * u + 1) * 2 ^ a). assert ((2 * u + 1) * (2 * 2 ^ a) = 2 * t) by (unfold t; lia). lia.
    + rewrite !pow2_S in H. destruct (IH b u v) as [-> ->]; [lia|auto].
Qed.

Lemma odd_decomp : forall m, 1 <= m -> exists j u, 1 <= j /\ m = (2 * u + 1) * 2 ^ (j - 1).
Proof.
  intros m. induction m as [m IH] using lt_wf_ind. intros Hm.
  destruct (Nat.Even_or_Odd m) as [[h Hh]|[h Hh]].
  - destruct (IH h ltac:(lia) ltac:(lia)) as [j [u [Hj Hu]]].
    exists (S j), u. split; [lia|]. replace (S j - 1) with (S (j - 1)) by lia. rewrite pow2_S. lia.
  - exists 1, h. split; [lia|]. simpl. lia.
Qed.

Lemma NoDup_map_inj_in {A B} (g : A -> B) (l : list A) :
  (forall x y, In x l -> In y l -> g x = g y -> x = y) -> NoDup l -> NoDup (map g l).
Proof.
  induction l as [|a r IH]; intros Hinj Hnd; simpl; [constructor|].
  inversion Hnd as [|? ? Hn Hr]; subst. constructor.
  - intros Hin. apply in_map_iff in Hin. destruct Hin as [y [Hy1 Hy2]].
    assert (y = a) by (apply Hinj; simpl; auto). subst. contradiction.
  - apply IH; [|assumption]. intros x y Hx Hy. apply Hinj; simpl; auto.
Qed.

Section Count.
Variable cf : cfg.
Variable L : list leaf.
Variable k : nat.
Hypothesis Hcap : length L <= 2 ^ k.
Let live := length L.
Let n := internals (2 ^ k).

Definition needed_list : list nat := filter (needed cf (2 ^ k) live) (seq 0 n).

Lemma needed_list_NoDup : NoDup needed_list.
Proof. apply NoDup_filter. apply seq_NoDup. Qed.

Lemma in_needed_list p : In p needed_list <-> p < n /\ needed cf (2 ^ k) live p = true.
Proof. unfold needed_list. rewrite filter_In, in_seq. split; intros [H1 H2]; split; auto; lia. Qed.

(* with two or more live leaves: one combiner per live index 1 .. live-1 (the combine point whose
   right half starts there), so live - 1 of them *)
Lemma needed_count_many : 2 <= live -> length needed_list = live - 1.
Proof.
  intros Hl.
  assert (Hmid : forall p, In p needed_list -> exists j u, 1 <= j /\ j <= k /\ u < 2 ^ (k - j) /\ p = pos k j u /\
                                             mid k p = u * 2 ^ j + 2 ^ (j - 1) /\ mid k p < live).
  { intros p Hp. apply in_needed_list in Hp. destruct Hp as [Hp1 Hp2].
    destruct (pos_coords k p Hp1) as [j [u [A1 [A2 [A3 ->]]]]].
    exists j, u. repeat split; try assumption.
    - apply mid_pos; assumption.
    - rewrite mid_pos by assumption.
      apply (needed_iff cf L k Hcap j u A1 A2 A3) in Hp2. destruct Hp2 as [[_ [_ Hc]]|Hc]; [fold live in Hc; lia|exact Hc]. }
  rewrite <- (map_length (mid k) needed_list).
  rewrite <- (seq_length (live - 1) 1).
  apply Nat.le_antisymm.
  - apply NoDup_incl_length.
    + (* mid is injective on the needed positions *)
      apply NoDup_map_inj_in; [|apply needed_list_NoDup].
      intros p q Hp Hq E.
      destruct (Hmid p Hp) as [j [u [A1 [A2 [A3 [-> [A5 A6]]]]]]].
      destruct (Hmid q Hq) as [j' [u' [B1 [B2 [B3 [-> [B5 B6]]]]]]].
      rewrite A5, B5 in E. rewrite (mid_odd j u A1), (mid_odd j' u' B1) in E.
      apply odd_pow_inj in E. destruct E as [E1 ->]. replace j' with j by lia. reflexivity.
    + intros m Hm. apply in_map_iff in Hm. destruct Hm as [p [<- Hp]].
      destruct (Hmid p Hp) as [j [u [A1 [A2 [A3 [-> [A5 A6]]]]]]].
      apply in_seq. rewrite A5 in *. pose proof (pow2_pos (j - 1)). lia.
  - apply NoDup_incl_length; [apply seq_NoDup|].
    intros m Hm. apply in_seq in Hm.
    destruct (odd_decomp m ltac:(lia)) as [j [u [Hj Hu]]].
    assert (Hjk : j <= k).
    { destruct (Nat.le_gt_cases j k) as [|Hgt]; [assumption|].
      pose proof (Nat.pow_le_mono_r 2 k (j - 1) ltac:(lia) ltac:(lia)). fold live in Hcap. nia. }
    assert (Hu2 : u < 2 ^ (k - j)).
    { pose proof (pow2_split k j Hjk) as Hs. pose proof (pow2_half j Hj) as Hh. pose proof (pow2_pos (j - 1)).
      fold live in Hcap. destruct (Nat.lt_ge_cases u (2 ^ (k - j))) as [|Hge]; [assumption|]. nia. }
    apply in_map_iff. exists (pos k j u). split.
    + rewrite mid_pos by assumption. rewrite mid_odd by assumption. lia.
    + apply in_needed_list. split; [apply pos_internal; assumption|].
      apply (needed_iff cf L k Hcap j u Hj Hjk Hu2). right. rewrite mid_odd by assumption. fold live. lia.
Qed.


Lemma needed_small p : live <= 1 -> p < n ->
  (needed cf (2 ^ k) live p = true <-> p = 0 /\ c_has_zero cf = true /\ live = 1).
Proof.
  intros Hl Hp. destruct (pos_coords k p Hp) as [j [u [A1 [A2 [A3 ->]]]]]. unfold live in *.
  rewrite (needed_iff cf L k Hcap j u A1 A2 A3). pose proof (pow2_pos (j - 1)).
  split; [intros [G|G]; [exact G|lia]|intros G; left; exact G].
Qed.

Lemma needed_count_zero_singleton : c_has_zero cf = true -> 1 <= k -> live = 1 -> length needed_list = 1.
Proof.
  intros Hz Hk Hl.
  assert (Hn : 0 < n) by (unfold n; rewrite internals_pow2; pose proof (pow2_ge2 k Hk); lia).
  transitivity (length [0]); [|reflexivity]. apply Nat.le_antisymm.
  - apply NoDup_incl_length; [apply needed_list_NoDup|].
    intros p Hp. apply in_needed_list in Hp. destruct Hp as [H1 H2].
    apply needed_small in H2; [|lia|assumption]. left. symmetry. apply H2.
  - apply NoDup_incl_length; [repeat constructor; intros []|].
    intros p [<-|[]]. apply in_needed_list. split; [exact Hn|]. apply needed_small; [lia|exact Hn|auto].
Qed.

Lemma needed_count_none : live = 0 \/ (live = 1 /\ c_has_zero cf = false) -> length needed_list = 0.
Proof.
  intros Hl. assert (Hi : incl needed_list []).
  { intros p Hp. apply in_needed_list in Hp. destruct Hp as [H1 H2].
    apply needed_small in H2; [|lia|assumption]. destruct H2 as [_ [Hz H1']]. destruct Hl as [Hl|[_ Hl]]; [lia|congruence]. }
  destruct needed_list as [|x r]; [reflexivity|]. exfalso. apply (Hi x). left. reflexivity.
Qed.

End Count.

Lemma filter_map_length {A B} (g : B -> bool) (h : A -> B) l :
  length (filter g (map h l)) = length (filter (fun x => g (h x)) l).
Proof. induction l as [|a r IH]; simpl; [reflexivity|]. destruct (g (h a)); simpl; rewrite IH; reflexivity. Qed.

Definition is_some {A} (o : option A) : bool := match o with Some _ => true | None => false end.

Lemma count_present (combs : list (option comb)) :
  length (filter is_some combs) = length (filter (present combs) (seq 0 (length combs))).
Proof.
  induction combs as [|a r IH]; [reflexivity|].
  cbn [length seq]. rewrite <- seq_shift. cbn [filter].
  assert (Hr : length (filter (present (a :: r)) (map S (seq 0 (length r)))) = length (filter (present r) (seq 0 (length r)))).
  { rewrite filter_map_length. reflexivity. }
  unfold present at 1. cbn [nth_opt]. destruct a; cbn [is_some length]; rewrite IH, Hr; reflexivity.
Qed.

(* combiner_count: n live leaves use exactly n - 1 combiners; a singleton with a zero uses one; an empty
   collection, or a singleton without zero, none *)
Theorem combiner_count_number cf (L : list leaf) k combs :
  length L <= 2 ^ k -> (c_has_zero cf = true -> 1 <= k) -> wf_presence cf L k combs ->
  length (filter is_some combs) =
    if 2 <=? length L then length L - 1
    else if c_has_zero cf && (length L =? 1) then 1 else 0.
Proof.
  intros Hcap Hz [Hlen Hpres]. rewrite count_present. rewrite Hlen.
  assert (He : filter (present combs) (seq 0 (internals (2 ^ k))) = needed_list cf L k).
  { unfold needed_list. apply filter_ext_in. intros p Hp. apply in_seq in Hp. apply Hpres. lia. }
  rewrite He.
  destruct (2 <=? length L) eqn:E2.
  - apply Nat.leb_le in E2. apply needed_count_many; assumption.
  - apply Nat.leb_gt in E2. destruct (c_has_zero cf) eqn:Ez; cbn [andb].
    + destruct (length L =? 1) eqn:E1.
      * apply Nat.eqb_eq in E1. apply needed_count_zero_singleton; auto.
      * apply Nat.eqb_neq in E1. apply needed_count_none; [assumption|]. left. lia.
    + apply needed_count_none; [assumption|]. destruct (length L) as [|[|m]]; [left; reflexivity|right; auto|lia].
Qed.

(* ... for every state the invariant holds of, i.e. (reduce_eq_fold_cycle) after every evaluated cycle *)
Lemma state_combiner_count f cf st s vals : pub_inv f cf st s vals ->
  combiner_count s =
    if 2 <=? length (r_leaves s) then length (r_leaves s) - 1
    else if c_has_zero cf && (length (r_leaves s) =? 1) then 1 else 0.
Proof.
  intros [k [_ [[T1 T2 T3 T4 T5] _]]]. unfold combiner_count.
  change (fun oc : option comb => match oc with Some _ => true | None => false end) with (@is_some comb).
  apply (combiner_count_number cf (r_leaves s) k (r_combs s) T2 T3 T4).
Qed.
