(* ReduceFacts.v — lemmas about the mirror model of Reduce.v (property C11). *)
Require Import Base Reduce.
From Coq Require Import PeanoNat ZifyBool.
Local Open Scope nat_scope.

Lemma placeholder_true : True. Proof. exact I. Qed.
