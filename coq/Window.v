(* Window.v — MIRROR model of the tick-count window time-series (TSW<int, period, min_period>):
   src/hgraph/types/metadata/ts_data_window_ops.cpp  TSWindowStorageCore / SizeTSWindowStorage
     (cyclic buffer: capacity_ = period, head_, size_, append at (head+size) % capacity,
      overwrite_oldest at head then head = (head+1) % capacity, evicted element + eviction time,
      clear_values), SizeTSWContext::size_all_valid (size >= min_period), has_current_value
   src/hgraph/types/time_series/ts_data/window_view.cpp  TSWDataMutationView::push / clear
     (one window tick per evaluation time; a clear may be followed by one push)
   Executable definitions only; proofs are in CollFacts.v. *)
Require Import Base.

Record win := mkW {
  w_n : nat;               (* period_ = capacity of the ring (>= 1, construction rejects 0) *)
  w_min : nat;             (* min_period *)
  w_buf : list Z;          (* value slots, physical order, length = period *)
  w_tm : list Z;           (* time slots *)
  w_head : nat;
  w_size : nat;
  w_ev : option Z;         (* evicted_ *)
  w_evt : Z;               (* evicted_time_ *)
  w_lmt : Z                (* tracking last_modified_time *)
}.
Definition win_empty (n m : nat) : win := mkW n m (repeat 0 n) (repeat 0 n) 0 0 None MIN_DT MIN_DT.

Definition phys (w : win) (i : nat) : nat := ((w_head w + i) mod w_n w)%nat.   (* physical_index *)

(* SizeTSWindowStorage::push *)
Definition w_push (v t : Z) (w : win) : win :=
  if (w_size w <? w_n w)%nat then
    let p := phys w (w_size w) in
    mkW (w_n w) (w_min w) (set_nth p v (w_buf w)) (set_nth p t (w_tm w)) (w_head w) (S (w_size w)) (w_ev w) (w_evt w) (w_lmt w)
  else
    let p := w_head w in
    mkW (w_n w) (w_min w) (set_nth p v (w_buf w)) (set_nth p t (w_tm w)) ((w_head w + 1) mod w_n w)%nat (w_size w)
        (Some (nth p (w_buf w) 0)) t (w_lmt w).

(* clear_values *)
Definition w_clear (t : Z) (w : win) : win :=
  mkW (w_n w) (w_min w) (w_buf w) (w_tm w) 0 0 None t (w_lmt w).

Definition w_mark (t : Z) (w : win) : win :=
  if t <=? w_lmt w then w
  else mkW (w_n w) (w_min w) (w_buf w) (w_tm w) (w_head w) (w_size w) (w_ev w) (w_evt w) t.

(* logical contents, oldest first *)
Definition w_values (w : win) : list Z := map (fun i => nth (phys w i) (w_buf w) 0) (seq 0 (w_size w)).
Definition w_times (w : win) : list Z := map (fun i => nth (phys w i) (w_tm w) 0) (seq 0 (w_size w)).
Definition w_modified (t : Z) (w : win) : bool := negb (t =? MIN_DT) && (w_lmt w =? t).
Definition w_valid (w : win) : bool := negb (w_lmt w =? MIN_DT).            (* has_current_value *)
Definition w_all_valid (w : win) : bool := (w_min w <=? w_size w)%nat.       (* size_all_valid *)
Definition w_full (w : win) : bool := (w_size w =? w_n w)%nat.
Definition w_has_removed (t : Z) (w : win) : bool :=
  negb (t =? MIN_DT) && (w_evt w =? t) && match w_ev w with Some _ => true | None => false end.
Definition w_cleared (t : Z) (w : win) : bool :=
  negb (t =? MIN_DT) && ((match w_ev w with Some _ => MIN_DT | None => w_evt w end) =? t).

(* view level: TSWDataMutationView keeps a [cleared_] flag for the scope of one mutation (= one cycle) *)
Inductive wop := WPush (v : Z) | WClear | WNop.

(* returns (result code, cleared flag, state); code 2 = std::logic_error thrown, state untouched *)
Definition win_op (t : Z) (o : wop) (st : bool * win) : Z * (bool * win) :=
  let '(cl, w) := st in
  match o with
  | WPush v =>
      if w_modified t w && negb cl then (2, st)
      else (0, (false, w_mark t (w_push v t w)))
  | WClear =>
      if w_modified t w then (2, st)
      else (0, (true, w_mark t (w_clear t w)))
  | WNop => (-1, st)
  end.
Definition win_cycle (t : Z) (ops : list wop) (w : win) : win :=
  snd (fold_left (fun st o => snd (win_op t o st)) ops (false, w)).
Definition win_run (n m : nat) (h : list (Z * list wop)) : win :=
  fold_left (fun w c => win_cycle (fst c) (snd c) w) h (win_empty n m).

(* the last n elements of a list *)
Definition lastn {A} (n : nat) (l : list A) : list A := skipn (length l - n) l.
