(* ReproFacts.v — lemmas and proofs about coq/Repro.v (property C07). *)
Require Import Base Sched Engine Repro.
From Coq Require Import ZifyBool.

(* =====================  1. the wall clock is not an input of the evaluation  ===================== *)
Lemma xrun_loop_g : forall wall cfgs beh end_ fuel x,
  x_g (xrun_loop wall cfgs beh end_ fuel x) = run_loop cfgs beh end_ fuel (x_g x).
Proof.
  intros wall cfgs beh end_ fuel. induction fuel as [|f IH]; intros x; simpl.
  - reflexivity.
  - destruct (negb (g_err (x_g x) =? 0)) eqn:He; [reflexivity|].
    destruct ((g_nst (x_g x) =? MAX_DT) || (end_ <=? g_nst (x_g x))) eqn:Hf; [reflexivity|].
    rewrite IH. reflexivity.
Qed.

Lemma xrun_g : forall wall cfgs beh start end_ fuel,
  x_g (xrun wall cfgs beh start end_ fuel) = run_sim cfgs beh start end_ fuel.
Proof. intros. unfold xrun, run_sim. rewrite xrun_loop_g. reflexivity. Qed.

Lemma run_deterministic_l : forall wall1 wall2 cfgs beh start end_ fuel,
  x_g (xrun wall1 cfgs beh start end_ fuel) = x_g (xrun wall2 cfgs beh start end_ fuel).
Proof. intros. rewrite !xrun_g. reflexivity. Qed.

(* every cycle reads the wall clock exactly once more: the readings are consumed, never fed back *)
Lemma xrun_loop_reads_mono : forall wall cfgs beh end_ fuel x,
  (x_reads x <= x_reads (xrun_loop wall cfgs beh end_ fuel x))%nat.
Proof.
  intros wall cfgs beh end_ fuel. induction fuel as [|f IH]; intros x; simpl.
  - lia.
  - destruct (negb (g_err (x_g x) =? 0)); [lia|].
    destruct ((g_nst (x_g x) =? MAX_DT) || (end_ <=? g_nst (x_g x))); [lia|].
    etransitivity; [|apply IH]. simpl. lia.
Qed.

(* =====================  2. the intern table  ===================== *)
Lemma find_index_sound : forall k tbl i, find_index k tbl = Some i -> nth_error tbl i = Some k.
Proof.
  intros k tbl. induction tbl as [|x r IH]; intros i H; simpl in H; [discriminate|].
  destruct (x =? k) eqn:E.
  - inversion H; subst. simpl. f_equal. lia.
  - destruct (find_index k r) as [j|] eqn:F; [|discriminate]. inversion H; subst. simpl. apply IH. reflexivity.
Qed.

Lemma find_index_app : forall k tbl l i, find_index k tbl = Some i -> find_index k (tbl ++ l) = Some i.
Proof.
  intros k tbl l. induction tbl as [|x r IH]; intros i H; simpl in *; [discriminate|].
  destruct (x =? k); [assumption|].
  destruct (find_index k r) as [j|] eqn:F; [|discriminate]. rewrite (IH j eq_refl). assumption.
Qed.

Lemma find_index_none_app : forall k tbl, find_index k tbl = None -> find_index k (tbl ++ [k]) = Some (length tbl).
Proof.
  intros k tbl. induction tbl as [|x r IH]; intros H; simpl in *.
  - rewrite Z.eqb_refl. reflexivity.
  - destruct (x =? k); [discriminate|].
    destruct (find_index k r) as [j|] eqn:F; [discriminate|]. rewrite (IH eq_refl). reflexivity.
Qed.

Lemma nth_error_app_some : forall {A} (l l' : list A) i v, nth_error l i = Some v -> nth_error (l ++ l') i = Some v.
Proof.
  intros A l l' i v H. rewrite nth_error_app1; [assumption|]. apply nth_error_Some. congruence.
Qed.

Lemma intern_keeps_ids : forall k' tbl k i, find_index k tbl = Some i -> find_index k (fst (intern k' tbl)) = Some i.
Proof.
  intros k' tbl k i H. unfold intern. destruct (find_index k' tbl); simpl; [assumption|]. apply find_index_app. assumption.
Qed.

Lemma intern_keeps_records : forall k' tbl id v, resolve tbl id = Some v -> resolve (fst (intern k' tbl)) id = Some v.
Proof.
  intros k' tbl id v H. unfold intern, resolve in *. destruct (find_index k' tbl); simpl; [assumption|].
  apply nth_error_app_some. assumption.
Qed.

Lemma intern_resolves : forall k tbl, resolve (fst (intern k tbl)) (snd (intern k tbl)) = Some k.
Proof.
  intros k tbl. unfold intern, resolve. destruct (find_index k tbl) as [i|] eqn:F; simpl.
  - apply find_index_sound. assumption.
  - rewrite nth_error_app2; [|lia]. rewrite Nat.sub_diag. reflexivity.
Qed.

Lemma intern_idempotent : forall k tbl, intern k (fst (intern k tbl)) = (fst (intern k tbl), snd (intern k tbl)).
Proof.
  intros k tbl. unfold intern at 2 3 4. destruct (find_index k tbl) as [i|] eqn:F; simpl.
  - unfold intern. rewrite F. reflexivity.
  - unfold intern. rewrite (find_index_none_app k tbl F). reflexivity.
Qed.

Lemma intern_all_keeps_ids : forall ks tbl k i, find_index k tbl = Some i -> find_index k (fst (intern_all ks tbl)) = Some i.
Proof.
  induction ks as [|k' r IH]; intros tbl k i H; simpl; [assumption|].
  destruct (intern k' tbl) as [t1 i1] eqn:E1. destruct (intern_all r t1) as [t2 is_] eqn:E2. simpl.
  replace t2 with (fst (intern_all r t1)) by (rewrite E2; reflexivity). apply IH.
  replace t1 with (fst (intern k' tbl)) by (rewrite E1; reflexivity). apply intern_keeps_ids. assumption.
Qed.

Lemma intern_all_keeps_records : forall ks tbl id v, resolve tbl id = Some v -> resolve (fst (intern_all ks tbl)) id = Some v.
Proof.
  induction ks as [|k' r IH]; intros tbl id v H; simpl; [assumption|].
  destruct (intern k' tbl) as [t1 i1] eqn:E1. destruct (intern_all r t1) as [t2 is_] eqn:E2. simpl.
  replace t2 with (fst (intern_all r t1)) by (rewrite E2; reflexivity). apply IH.
  replace t1 with (fst (intern k' tbl)) by (rewrite E1; reflexivity). apply intern_keeps_records. assumption.
Qed.

(* the ids handed out by intern_all resolve to the requested keys, in the final table *)
Lemma intern_all_resolves : forall ks tbl,
  map (resolve (fst (intern_all ks tbl))) (snd (intern_all ks tbl)) = map Some ks.
Proof.
  induction ks as [|k r IH]; intros tbl; simpl; [reflexivity|].
  destruct (intern k tbl) as [t1 i1] eqn:E1. destruct (intern_all r t1) as [t2 is_] eqn:E2. simpl.
  f_equal.
  - replace t2 with (fst (intern_all r t1)) by (rewrite E2; reflexivity).
    apply intern_all_keeps_records.
    replace t1 with (fst (intern k tbl)) by (rewrite E1; reflexivity).
    replace i1 with (snd (intern k tbl)) by (rewrite E1; reflexivity). apply intern_resolves.
  - specialize (IH t1). rewrite E2 in IH. simpl in IH. exact IH.
Qed.

(* =====================  3. the process: ownership invariant  ===================== *)
Lemma iter_S_end : forall {A} n (f : A -> A) x, iter (S n) f x = f (iter n f x).
Proof. intros A n f. induction n as [|n IH]; intros x; [reflexivity|]. change (iter (S (S n)) f x) with (iter (S n) f (f x)). rewrite IH. reflexivity. Qed.

Lemma nth_error_update_same : forall {A} n f (l : list A) v, nth_error l n = Some v -> nth_error (update n f l) n = Some (f v).
Proof. intros A n f l. revert n. induction l as [|x r IH]; intros [|n] v H; simpl in *; try discriminate; [congruence|auto]. Qed.

Lemma nth_error_update_other : forall {A} n m f (l : list A), n <> m -> nth_error (update n f l) m = nth_error l m.
Proof. intros A n m f l. revert n m. induction l as [|x r IH]; intros [|n] [|m] H; simpl; auto; congruence. Qed.

Lemma nth_error_update_inv : forall {A} n m f (l : list A) v,
  nth_error (update n f l) m = Some v -> exists v0, nth_error l m = Some v0 /\ (v = v0 \/ (n = m /\ v = f v0)).
Proof.
  intros A n m f l v H. destruct (Nat.eq_dec n m) as [->|Hne].
  - destruct (nth_error l m) as [v0|] eqn:E.
    + rewrite (nth_error_update_same m f l v0 E) in H. inversion H; subst. exists v0. auto.
    + exfalso. assert (Hl : (length l <= m)%nat) by (apply nth_error_None; assumption).
      rewrite <- (update_length m f l) in Hl. apply nth_error_None in Hl. congruence.
  - rewrite nth_error_update_other in H by assumption. exists v. auto.
Qed.

Lemma nth_error_snoc_inv : forall {A} (l : list A) x i v,
  nth_error (l ++ [x]) i = Some v -> nth_error l i = Some v \/ (i = length l /\ v = x).
Proof.
  intros A l x i v H. destruct (Nat.lt_ge_cases i (length l)) as [Hlt|Hge].
  - rewrite nth_error_app1 in H by assumption. auto.
  - rewrite nth_error_app2 in H by assumption. destruct (i - length l)%nat eqn:E; simpl in H.
    + right. split; [lia|congruence].
    + destruct n; discriminate.
Qed.

Section ProcessFacts.
  Variable rstate : Type.
  Variable init : wire -> gsmap -> rstate.
  Variable step : wire -> rstate -> rstate.
  Variable types_of : wire -> list Z.

  Notation proc := (proc rstate).
  Notation pstep := (pstep rstate init step types_of).
  Notation prun := (prun rstate init step types_of).
  Notation exec_state := (exec_state rstate).
  Notation alone_ops := (alone_ops).

  (* the state an executor must be in: its own steps applied to its own initial state *)
  Definition own_state (e : exec) : rstate :=
    iter (e_steps e) (step (e_recipe e)) (init (e_recipe e) (e_seed0 e)).

  Record Inv (p : proc) : Prop := mkInv {
    inv_own : forall k e, nth_error (p_execs rstate p) k = Some e ->
                nth_error (p_heap rstate p) (e_loc e) = Some (CRun (own_state e));
    inv_sep : forall k k' e e', k <> k' -> nth_error (p_execs rstate p) k = Some e ->
                nth_error (p_execs rstate p) k' = Some e' -> e_loc e <> e_loc e';
    inv_seed : forall b bd, nth_error (p_builders rstate p) b = Some bd ->
                exists m, nth_error (p_heap rstate p) (b_seed bd) = Some (CSeed m);
    inv_types : forall k e, nth_error (p_execs rstate p) k = Some e ->
                map (resolve (p_reg rstate p)) (e_types e) = map Some (types_of (e_recipe e)) }.

  Lemma inv_empty : Inv (empty_proc rstate).
  Proof.
    constructor; simpl; intros.
    - destruct k; discriminate.
    - destruct k; discriminate.
    - destruct b; discriminate.
    - destruct k; discriminate.
  Qed.

  Lemma resolve_map_grow : forall (reg reg' : list Z) ids ks,
    (forall id v, resolve reg id = Some v -> resolve reg' id = Some v) ->
    map (resolve reg) ids = map Some ks -> map (resolve reg') ids = map Some ks.
  Proof.
    intros reg reg' ids. induction ids as [|i r IH]; intros ks Hg H; destruct ks as [|k ks']; simpl in *; try discriminate; [reflexivity|].
    inversion H as [[H1 H2]]. rewrite H1. rewrite (Hg i k H1). f_equal. rewrite H2. apply IH; assumption.
  Qed.

  Lemma inv_step : forall p o, Inv p -> Inv (pstep p o).
  Proof.
    intros p o [Hown Hsep Hseed Htypes]. destruct o as [recipe|b key val|b|k|ty]; simpl.
    - (* PNewBuilder *)
      constructor; simpl.
      + intros k e He. apply nth_error_app_some. apply (Hown k). assumption.
      + intros. eapply Hsep; eassumption.
      + intros b bd Hb. apply nth_error_snoc_inv in Hb. destruct Hb as [Hb|[-> ->]].
        * destruct (Hseed b bd Hb) as [m Hm]. exists m. apply nth_error_app_some. assumption.
        * simpl. exists []. rewrite nth_error_app2 by lia. rewrite Nat.sub_diag. reflexivity.
      + assumption.
    - (* PSeed *)
      destruct (nth_error (p_builders rstate p) b) as [bd|] eqn:Hb; [|constructor; assumption].
      destruct (nth_error (p_heap rstate p) (b_seed bd)) as [[m|s]|] eqn:Hc; try (constructor; assumption).
      constructor; simpl.
      + intros k e He. specialize (Hown k e He).
        assert (Hne : b_seed bd <> e_loc e) by (intro E; rewrite E in Hc; congruence).
        unfold set_nth. rewrite nth_error_update_other by assumption. assumption.
      + intros. eapply Hsep; eassumption.
      + intros b' bd' Hb'. destruct (Hseed b' bd' Hb') as [m' Hm'].
        destruct (Nat.eq_dec (b_seed bd) (b_seed bd')) as [E|Hne].
        * exists (gs_set key val m). unfold set_nth. rewrite <- E.
          exact (nth_error_update_same (b_seed bd) (fun _ => CSeed (gs_set key val m)) _ _ Hc).
        * exists m'. unfold set_nth. rewrite nth_error_update_other by assumption. assumption.
      + assumption.
    - (* PBuild *)
      destruct (nth_error (p_builders rstate p) b) as [bd|] eqn:Hb; [|constructor; assumption].
      destruct (nth_error (p_heap rstate p) (b_seed bd)) as [[m|s]|] eqn:Hc; try (constructor; assumption).
      destruct (intern_all (types_of (b_recipe bd)) (p_reg rstate p)) as [reg' ids] eqn:Ei.
      constructor; simpl.
      + intros k e He. apply nth_error_snoc_inv in He. destruct He as [He|[-> ->]].
        * apply nth_error_app_some. apply (Hown k). assumption.
        * simpl. rewrite nth_error_app2 by lia. rewrite Nat.sub_diag. reflexivity.
      + intros k k' e e' Hne He He'.
        apply nth_error_snoc_inv in He. apply nth_error_snoc_inv in He'.
        destruct He as [He|[-> ->]]; destruct He' as [He'|[-> ->]].
        * eapply Hsep; eassumption.
        * simpl. specialize (Hown k e He). assert (e_loc e < length (p_heap rstate p))%nat by (apply nth_error_Some; congruence). lia.
        * simpl. specialize (Hown k' e' He'). assert (e_loc e' < length (p_heap rstate p))%nat by (apply nth_error_Some; congruence). lia.
        * congruence.
      + intros b' bd' Hb'. destruct (Hseed b' bd' Hb') as [m' Hm']. exists m'. apply nth_error_app_some. assumption.
      + intros k e He. apply nth_error_snoc_inv in He. destruct He as [He|[-> ->]].
        * apply resolve_map_grow with (reg := p_reg rstate p); [|apply (Htypes k); assumption].
          intros id v Hr. replace reg' with (fst (intern_all (types_of (b_recipe bd)) (p_reg rstate p))) by (rewrite Ei; reflexivity).
          apply intern_all_keeps_records. assumption.
        * simpl. pose proof (intern_all_resolves (types_of (b_recipe bd)) (p_reg rstate p)) as Hr. rewrite Ei in Hr. exact Hr.
    - (* PStep *)
      destruct (nth_error (p_execs rstate p) k) as [e|] eqn:He; [|constructor; assumption].
      destruct (nth_error (p_heap rstate p) (e_loc e)) as [[m|s]|] eqn:Hc; try (constructor; assumption).
      pose proof (Hown k e He) as Hk. rewrite Hc in Hk. assert (Hs : s = own_state e) by congruence. clear Hk.
      constructor; simpl.
      + intros k' e' He'. destruct (Nat.eq_dec k k') as [<-|Hne].
        * rewrite (nth_error_update_same k bump _ e He) in He'. inversion He'; subst e'. clear He'.
          cbn [bump e_loc]. unfold set_nth.
          rewrite (nth_error_update_same (e_loc e) (fun _ => CRun (step (e_recipe e) s)) _ _ Hc).
          unfold own_state, bump. cbn [e_steps e_recipe e_seed0 e_loc].
          rewrite iter_S_end. fold (own_state e). rewrite Hs. reflexivity.
        * rewrite nth_error_update_other in He' by assumption.
          unfold set_nth. rewrite nth_error_update_other.
          -- apply (Hown k'). assumption.
          -- apply (Hsep k k' e e'); assumption.
      + intros k1 k2 e1 e2 Hne H1 H2.
        apply nth_error_update_inv in H1. apply nth_error_update_inv in H2.
        destruct H1 as [a [Ha Hra]]. destruct H2 as [c [Hc2 Hrc]].
        assert (La : e_loc e1 = e_loc a) by (destruct Hra as [->|[_ ->]]; reflexivity).
        assert (Lc : e_loc e2 = e_loc c) by (destruct Hrc as [->|[_ ->]]; reflexivity).
        rewrite La, Lc. eapply Hsep; eassumption.
      + intros b' bd' Hb'. destruct (Hseed b' bd' Hb') as [m' Hm'].
        assert (Hne : e_loc e <> b_seed bd') by (intro E; rewrite E in Hc; congruence).
        exists m'. unfold set_nth. rewrite nth_error_update_other by assumption. assumption.
      + intros k' e' He'. apply nth_error_update_inv in He'. destruct He' as [e0 [He0 Hr]].
        assert (Ht : e_types e' = e_types e0 /\ e_recipe e' = e_recipe e0) by (destruct Hr as [->|[_ ->]]; split; reflexivity).
        destruct Ht as [-> ->]. apply (Htypes k'). assumption.
    - (* PIntern *)
      constructor; simpl; try assumption.
      intros k e He. apply resolve_map_grow with (reg := p_reg rstate p); [|apply (Htypes k); assumption].
      intros id v Hr. apply intern_keeps_records. assumption.
  Qed.
End ProcessFacts.
