(* ReproFacts.v — lemmas and proofs about coq/Repro.v (property C07). *)
Require Import Base Sched Engine Repro.
From Coq Require Import ZifyBool.

(* =====================  1. the wall clock is not an input of the evaluation  ===================== *)
Lemma xrun_loop_g : forall wall cfgs beh end_ fuel x,
  x_g (xrun_loop wall cfgs beh end_ fuel x) = run_loop cfgs beh end_ fuel (x_g x).
Proof.
  intros wall cfgs beh end_ fuel. induction fuel as [|f IH]; intros x; simpl.
  - reflexivity.
  - destruct (negb (g_err (x_g x) =? 0)) eqn:He; [reflexivity|].
    destruct ((g_nst (x_g x) =? MAX_DT) || (end_ <=? g_nst (x_g x))) eqn:Hf; [reflexivity|].
    rewrite IH. reflexivity.
Qed.

Lemma xrun_g : forall wall cfgs beh start end_ fuel,
  x_g (xrun wall cfgs beh start end_ fuel) = run_sim cfgs beh start end_ fuel.
Proof. intros. unfold xrun, run_sim. rewrite xrun_loop_g. reflexivity. Qed.

Lemma run_deterministic_l : forall wall1 wall2 cfgs beh start end_ fuel,
  x_g (xrun wall1 cfgs beh start end_ fuel) = x_g (xrun wall2 cfgs beh start end_ fuel).
Proof. intros. rewrite !xrun_g. reflexivity. Qed.

(* every cycle reads the wall clock exactly once more: the readings are consumed, never fed back *)
Lemma xrun_loop_reads_mono : forall wall cfgs beh end_ fuel x,
  (x_reads x <= x_reads (xrun_loop wall cfgs beh end_ fuel x))%nat.
Proof.
  intros wall cfgs beh end_ fuel. induction fuel as [|f IH]; intros x; simpl.
  - lia.
  - destruct (negb (g_err (x_g x) =? 0)); [lia|].
    destruct ((g_nst (x_g x) =? MAX_DT) || (end_ <=? g_nst (x_g x))); [lia|].
    etransitivity; [|apply IH]. simpl. lia.
Qed.

(* =====================  2. the intern table  ===================== *)
Lemma find_index_sound : forall k tbl i, find_index k tbl = Some i -> nth_error tbl i = Some k.
Proof.
  intros k tbl. induction tbl as [|x r IH]; intros i H; simpl in H; [discriminate|].
  destruct (x =? k) eqn:E.
  - inversion H; subst. simpl. f_equal. lia.
  - destruct (find_index k r) as [j|] eqn:F; [|discriminate]. inversion H; subst. simpl. apply IH. reflexivity.
Qed.

Lemma find_index_app : forall k tbl l i, find_index k tbl = Some i -> find_index k (tbl ++ l) = Some i.
Proof.
  intros k tbl l. induction tbl as [|x r IH]; intros i H; simpl in *; [discriminate|].
  destruct (x =? k); [assumption|].
  destruct (find_index k r) as [j|] eqn:F; [|discriminate]. rewrite (IH j eq_refl). assumption.
Qed.

Lemma find_index_none_app : forall k tbl, find_index k tbl = None -> find_index k (tbl ++ [k]) = Some (length tbl).
Proof.
  intros k tbl. induction tbl as [|x r IH]; intros H; simpl in *.
  - rewrite Z.eqb_refl. reflexivity.
  - destruct (x =? k); [discriminate|].
    destruct (find_index k r) as [j|] eqn:F; [discriminate|]. rewrite (IH eq_refl). reflexivity.
Qed.

Lemma nth_error_app_some : forall {A} (l l' : list A) i v, nth_error l i = Some v -> nth_error (l ++ l') i = Some v.
Proof.
  intros A l l' i v H. rewrite nth_error_app1; [assumption|]. apply nth_error_Some. congruence.
Qed.

Lemma intern_keeps_ids : forall k' tbl k i, find_index k tbl = Some i -> find_index k (fst (intern k' tbl)) = Some i.
Proof.
  intros k' tbl k i H. unfold intern. destruct (find_index k' tbl); simpl; [assumption|]. apply find_index_app. assumption.
Qed.

Lemma intern_keeps_records : forall k' tbl id v, resolve tbl id = Some v -> resolve (fst (intern k' tbl)) id = Some v.
Proof.
  intros k' tbl id v H. unfold intern, resolve in *. destruct (find_index k' tbl); simpl; [assumption|].
  apply nth_error_app_some. assumption.
Qed.

Lemma intern_resolves : forall k tbl, resolve (fst (intern k tbl)) (snd (intern k tbl)) = Some k.
Proof.
  intros k tbl. unfold intern, resolve. destruct (find_index k tbl) as [i|] eqn:F; simpl.
  - apply find_index_sound. assumption.
  - rewrite nth_error_app2; [|lia]. rewrite Nat.sub_diag. reflexivity.
Qed.

Lemma intern_idempotent : forall k tbl, intern k (fst (intern k tbl)) = (fst (intern k tbl), snd (intern k tbl)).
Proof.
  intros k tbl. unfold intern at 2 3 4. destruct (find_index k tbl) as [i|] eqn:F; simpl.
  - unfold intern. rewrite F. reflexivity.
  - unfold intern. rewrite (find_index_none_app k tbl F). reflexivity.
Qed.

Lemma intern_all_keeps_ids : forall ks tbl k i, find_index k tbl = Some i -> find_index k (fst (intern_all ks tbl)) = Some i.
Proof.
  induction ks as [|k' r IH]; intros tbl k i H; simpl; [assumption|].
  destruct (intern k' tbl) as [t1 i1] eqn:E1. destruct (intern_all r t1) as [t2 is_] eqn:E2. simpl.
  replace t2 with (fst (intern_all r t1)) by (rewrite E2; reflexivity). apply IH.
  replace t1 with (fst (intern k' tbl)) by (rewrite E1; reflexivity). apply intern_keeps_ids. assumption.
Qed.

Lemma intern_all_keeps_records : forall ks tbl id v, resolve tbl id = Some v -> resolve (fst (intern_all ks tbl)) id = Some v.
Proof.
  induction ks as [|k' r IH]; intros tbl id v H; simpl; [assumption|].
  destruct (intern k' tbl) as [t1 i1] eqn:E1. destruct (intern_all r t1) as [t2 is_] eqn:E2. simpl.
  replace t2 with (fst (intern_all r t1)) by (rewrite E2; reflexivity). apply IH.
  replace t1 with (fst (intern k' tbl)) by (rewrite E1; reflexivity). apply intern_keeps_records. assumption.
Qed.

(* the ids handed out by intern_all resolve to the requested keys, in the final table *)
Lemma intern_all_resolves : forall ks tbl,
  map (resolve (fst (intern_all ks tbl))) (snd (intern_all ks tbl)) = map Some ks.
Proof.
  induction ks as [|k r IH]; intros tbl; simpl; [reflexivity|].
  destruct (intern k tbl) as [t1 i1] eqn:E1. destruct (intern_all r t1) as [t2 is_] eqn:E2. simpl.
  f_equal.
  - replace t2 with (fst (intern_all r t1)) by (rewrite E2; reflexivity).
    apply intern_all_keeps_records.
    replace t1 with (fst (intern k tbl)) by (rewrite E1; reflexivity).
    replace i1 with (snd (intern k tbl)) by (rewrite E1; reflexivity). apply intern_resolves.
  - specialize (IH t1). rewrite E2 in IH. simpl in IH. exact IH.
Qed.

(* =====================  3. the process: ownership invariant  ===================== *)
Lemma iter_S_end : forall {A} n (f : A -> A) x, iter (S n) f x = f (iter n f x).
Proof. intros A n f. induction n as [|n IH]; intros x; [reflexivity|]. change (iter (S (S n)) f x) with (iter (S n) f (f x)). rewrite IH. reflexivity. Qed.

Lemma nth_error_update_same : forall {A} n f (l : list A) v, nth_error l n = Some v -> nth_error (update n f l) n = Some (f v).
Proof. intros A n f l. revert n. induction l as [|x r IH]; intros [|n] v H; simpl in *; try discriminate; [congruence|auto]. Qed.

Lemma nth_error_update_other : forall {A} n m f (l : list A), n <> m -> nth_error (update n f l) m = nth_error l m.
Proof. intros A n m f l. revert n m. induction l as [|x r IH]; intros [|n] [|m] H; simpl; auto; congruence. Qed.

Lemma nth_error_update_inv : forall {A} n m f (l : list A) v,
  nth_error (update n f l) m = Some v -> exists v0, nth_error l m = Some v0 /\ (v = v0 \/ (n = m /\ v = f v0)).
Proof.
  intros A n m f l v H. destruct (Nat.eq_dec n m) as [->|Hne].
  - destruct (nth_error l m) as [v0|] eqn:E.
    + rewrite (nth_error_update_same m f l v0 E) in H. inversion H; subst. exists v0. auto.
    + exfalso. assert (Hl : (length l <= m)%nat) by (apply nth_error_None; assumption).
      rewrite <- (update_length m f l) in Hl. apply nth_error_None in Hl. congruence.
  - rewrite nth_error_update_other in H by assumption. exists v. auto.
Qed.

Lemma nth_error_snoc_inv : forall {A} (l : list A) x i v,
  nth_error (l ++ [x]) i = Some v -> nth_error l i = Some v \/ (i = length l /\ v = x).
Proof.
  intros A l x i v H. destruct (Nat.lt_ge_cases i (length l)) as [Hlt|Hge].
  - rewrite nth_error_app1 in H by assumption. auto.
  - rewrite nth_error_app2 in H by assumption. destruct (i - length l)%nat eqn:E; simpl in H.
    + right. split; [lia|congruence].
    + destruct n; discriminate.
Qed.

Section ProcessFacts.
  Variable rstate : Type.
  Variable init : wire -> gsmap -> rstate.
  Variable step : wire -> rstate -> rstate.
  Variable types_of : wire -> list Z.

  Notation proc := (proc rstate).
  Notation pstep := (pstep rstate init step types_of).
  Notation prun := (prun rstate init step types_of).
  Notation exec_state := (exec_state rstate).
  Notation alone_ops := (alone_ops).

  (* the state an executor must be in: its own steps applied to its own initial state *)
  Definition own_state (e : exec) : rstate :=
    iter (e_steps e) (step (e_recipe e)) (init (e_recipe e) (e_seed0 e)).

  Record Inv (p : proc) : Prop := mkInv {
    inv_own : forall k e, nth_error (p_execs rstate p) k = Some e ->
                nth_error (p_heap rstate p) (e_loc e) = Some (CRun (own_state e));
    inv_sep : forall k k' e e', k <> k' -> nth_error (p_execs rstate p) k = Some e ->
                nth_error (p_execs rstate p) k' = Some e' -> e_loc e <> e_loc e';
    inv_seed : forall b bd, nth_error (p_builders rstate p) b = Some bd ->
                exists m, nth_error (p_heap rstate p) (b_seed bd) = Some (CSeed m);
    inv_types : forall k e, nth_error (p_execs rstate p) k = Some e ->
                map (resolve (p_reg rstate p)) (e_types e) = map Some (types_of (e_recipe e)) }.

  Lemma inv_empty : Inv (empty_proc rstate).
  Proof.
    constructor; simpl; intros.
    - destruct k; discriminate.
    - destruct k; discriminate.
    - destruct b; discriminate.
    - destruct k; discriminate.
  Qed.

  Lemma resolve_map_grow : forall (reg reg' : list Z) ids ks,
    (forall id v, resolve reg id = Some v -> resolve reg' id = Some v) ->
    map (resolve reg) ids = map Some ks -> map (resolve reg') ids = map Some ks.
  Proof.
    intros reg reg' ids. induction ids as [|i r IH]; intros ks Hg H; destruct ks as [|k ks']; simpl in *; try discriminate; [reflexivity|].
    inversion H as [[H1 H2]]. rewrite H1. rewrite (Hg i k H1). f_equal. rewrite H2. apply IH; assumption.
  Qed.

  Lemma inv_step : forall p o, Inv p -> Inv (pstep p o).
  Proof.
    intros p o [Hown Hsep Hseed Htypes]. destruct o as [recipe|b key val|b|k|ty]; simpl.
    - (* PNewBuilder *)
      constructor; simpl.
      + intros k e He. apply nth_error_app_some. apply (Hown k). assumption.
      + intros. eapply Hsep; eassumption.
      + intros b bd Hb. apply nth_error_snoc_inv in Hb. destruct Hb as [Hb|[-> ->]].
        * destruct (Hseed b bd Hb) as [m Hm]. exists m. apply nth_error_app_some. assumption.
        * simpl. exists []. rewrite nth_error_app2 by lia. rewrite Nat.sub_diag. reflexivity.
      + assumption.
    - (* PSeed *)
      destruct (nth_error (p_builders rstate p) b) as [bd|] eqn:Hb; [|constructor; assumption].
      destruct (nth_error (p_heap rstate p) (b_seed bd)) as [[m|s]|] eqn:Hc; try (constructor; assumption).
      constructor; simpl.
      + intros k e He. specialize (Hown k e He).
        assert (Hne : b_seed bd <> e_loc e) by (intro E; rewrite E in Hc; congruence).
        unfold set_nth. rewrite nth_error_update_other by assumption. assumption.
      + intros. eapply Hsep; eassumption.
      + intros b' bd' Hb'. destruct (Hseed b' bd' Hb') as [m' Hm'].
        destruct (Nat.eq_dec (b_seed bd) (b_seed bd')) as [E|Hne].
        * exists (gs_set key val m). unfold set_nth. rewrite <- E.
          exact (nth_error_update_same (b_seed bd) (fun _ => CSeed (gs_set key val m)) _ _ Hc).
        * exists m'. unfold set_nth. rewrite nth_error_update_other by assumption. assumption.
      + assumption.
    - (* PBuild *)
      destruct (nth_error (p_builders rstate p) b) as [bd|] eqn:Hb; [|constructor; assumption].
      destruct (nth_error (p_heap rstate p) (b_seed bd)) as [[m|s]|] eqn:Hc; try (constructor; assumption).
      destruct (intern_all (types_of (b_recipe bd)) (p_reg rstate p)) as [reg' ids] eqn:Ei.
      constructor; simpl.
      + intros k e He. apply nth_error_snoc_inv in He. destruct He as [He|[-> ->]].
        * apply nth_error_app_some. apply (Hown k). assumption.
        * simpl. rewrite nth_error_app2 by lia. rewrite Nat.sub_diag. reflexivity.
      + intros k k' e e' Hne He He'.
        apply nth_error_snoc_inv in He. apply nth_error_snoc_inv in He'.
        destruct He as [He|[-> ->]]; destruct He' as [He'|[-> ->]].
        * eapply Hsep; eassumption.
        * simpl. specialize (Hown k e He). assert (e_loc e < length (p_heap rstate p))%nat by (apply nth_error_Some; congruence). lia.
        * simpl. specialize (Hown k' e' He'). assert (e_loc e' < length (p_heap rstate p))%nat by (apply nth_error_Some; congruence). lia.
        * congruence.
      + intros b' bd' Hb'. destruct (Hseed b' bd' Hb') as [m' Hm']. exists m'. apply nth_error_app_some. assumption.
      + intros k e He. apply nth_error_snoc_inv in He. destruct He as [He|[-> ->]].
        * apply resolve_map_grow with (reg := p_reg rstate p); [|apply (Htypes k); assumption].
          intros id v Hr. replace reg' with (fst (intern_all (types_of (b_recipe bd)) (p_reg rstate p))) by (rewrite Ei; reflexivity).
          apply intern_all_keeps_records. assumption.
        * simpl. pose proof (intern_all_resolves (types_of (b_recipe bd)) (p_reg rstate p)) as Hr. rewrite Ei in Hr. exact Hr.
    - (* PStep *)
      destruct (nth_error (p_execs rstate p) k) as [e|] eqn:He; [|constructor; assumption].
      destruct (nth_error (p_heap rstate p) (e_loc e)) as [[m|s]|] eqn:Hc; try (constructor; assumption).
      pose proof (Hown k e He) as Hk. rewrite Hc in Hk. assert (Hs : s = own_state e) by congruence. clear Hk.
      constructor; simpl.
      + intros k' e' He'. destruct (Nat.eq_dec k k') as [<-|Hne].
        * rewrite (nth_error_update_same k bump _ e He) in He'. inversion He'; subst e'. clear He'.
          cbn [bump e_loc]. unfold set_nth.
          rewrite (nth_error_update_same (e_loc e) (fun _ => CRun (step (e_recipe e) s)) _ _ Hc).
          unfold own_state, bump. cbn [e_steps e_recipe e_seed0 e_loc].
          rewrite iter_S_end. fold (own_state e). rewrite Hs. reflexivity.
        * rewrite nth_error_update_other in He' by assumption.
          unfold set_nth. rewrite nth_error_update_other.
          -- apply (Hown k'). assumption.
          -- apply (Hsep k k' e e'); assumption.
      + intros k1 k2 e1 e2 Hne H1 H2.
        apply nth_error_update_inv in H1. apply nth_error_update_inv in H2.
        destruct H1 as [a [Ha Hra]]. destruct H2 as [c [Hc2 Hrc]].
        assert (La : e_loc e1 = e_loc a) by (destruct Hra as [->|[_ ->]]; reflexivity).
        assert (Lc : e_loc e2 = e_loc c) by (destruct Hrc as [->|[_ ->]]; reflexivity).
        rewrite La, Lc. eapply Hsep; eassumption.
      + intros b' bd' Hb'. destruct (Hseed b' bd' Hb') as [m' Hm'].
        assert (Hne : e_loc e <> b_seed bd') by (intro E; rewrite E in Hc; congruence).
        exists m'. unfold set_nth. rewrite nth_error_update_other by assumption. assumption.
      + intros k' e' He'. apply nth_error_update_inv in He'. destruct He' as [e0 [He0 Hr]].
        assert (Ht : e_types e' = e_types e0 /\ e_recipe e' = e_recipe e0) by (destruct Hr as [->|[_ ->]]; split; reflexivity).
        destruct Ht as [-> ->]. apply (Htypes k'). assumption.
    - (* PIntern *)
      constructor; simpl; try assumption.
      intros k e He. apply resolve_map_grow with (reg := p_reg rstate p); [|apply (Htypes k); assumption].
      intros id v Hr. apply intern_keeps_records. assumption.
  Qed.
End ProcessFacts.

Section ProcessFacts2.
  Variable rstate : Type.
  Variable init : wire -> gsmap -> rstate.
  Variable step : wire -> rstate -> rstate.
  Variable types_of : wire -> list Z.

  Notation proc := (proc rstate).
  Notation pstep := (pstep rstate init step types_of).
  Notation prun := (prun rstate init step types_of).
  Notation exec_state := (exec_state rstate).
  Notation Inv := (Inv rstate init step types_of).
  Notation own_state := (own_state rstate init step).

  Lemma inv_fold : forall ops p, Inv p -> Inv (fold_left pstep ops p).
  Proof. induction ops as [|o r IH]; intros p H; simpl; [assumption|]. apply IH. apply inv_step. assumption. Qed.

  Lemma inv_prun : forall ops, Inv (prun ops).
  Proof. intros. unfold Repro.prun. apply inv_fold. apply inv_empty. Qed.

  (* the heart of C07 in the model: whatever the history, executor k is in the state its OWN cycles produce
     from its OWN initial state *)
  Lemma exec_state_own : forall p k e, Inv p -> nth_error (p_execs rstate p) k = Some e ->
    exec_state p k = Some (own_state e).
  Proof.
    intros p k e HI He. unfold Repro.exec_state. rewrite He. rewrite (inv_own _ _ _ _ _ HI k e He). reflexivity.
  Qed.

  (* ---- the same recipe alone in a fresh process ---- *)
  Lemma seeds_fold : forall recipe sets m,
    fold_left pstep (map (fun kv => PSeed 0 (fst kv) (snd kv)) sets) (mkP rstate [CSeed m] [mkB recipe 0] [] [])
    = mkP rstate [CSeed (apply_sets sets m)] [mkB recipe 0] [] [].
  Proof.
    intros recipe sets. induction sets as [|[k v] r IH]; intros m; [reflexivity|].
    cbn [map fold_left fst snd]. 
    replace (pstep (mkP rstate [CSeed m] [mkB recipe 0] [] []) (PSeed 0 k v))
      with (mkP rstate [CSeed (gs_set k v m)] [mkB recipe 0] [] []) by reflexivity.
    rewrite IH. reflexivity.
  Qed.

  Lemma steps_fold : forall n recipe (m : gsmap) ids reg seedm s0 j,
    fold_left pstep (repeat (PStep 0) n)
      (mkP rstate [CSeed seedm; CRun s0] [mkB recipe 0] [mkE recipe 1 ids m j] reg)
    = mkP rstate [CSeed seedm; CRun (iter n (step recipe) s0)] [mkB recipe 0] [mkE recipe 1 ids m (n + j)] reg.
  Proof.
    induction n as [|n IH]; intros; [reflexivity|].
    cbn [repeat fold_left].
    replace (pstep (mkP rstate [CSeed seedm; CRun s0] [mkB recipe 0] [mkE recipe 1 ids m j] reg) (PStep 0))
      with (mkP rstate [CSeed seedm; CRun (step recipe s0)] [mkB recipe 0] [mkE recipe 1 ids m (S j)] reg) by reflexivity.
    rewrite IH. cbn [iter]. replace (n + S j)%nat with (S n + j)%nat by lia. reflexivity.
  Qed.

  Lemma alone_state : forall recipe sets n,
    exec_state (prun (alone_ops recipe sets n)) 0 = Some (iter n (step recipe) (init recipe (apply_sets sets []))).
  Proof.
    intros recipe sets n. unfold Repro.prun, alone_ops. rewrite !fold_left_app. simpl fold_left at 3.
    unfold Repro.pstep at 3. simpl.
    rewrite seeds_fold. simpl.
    destruct (intern_all (types_of recipe) []) as [reg' ids] eqn:Ei. simpl.
    rewrite steps_fold. unfold Repro.exec_state. simpl. reflexivity.
  Qed.

  Theorem runs_independent_l : forall ops k e sets,
    nth_error (p_execs rstate (prun ops)) k = Some e ->
    apply_sets sets [] = e_seed0 e ->
    exec_state (prun ops) k = exec_state (prun (alone_ops (e_recipe e) sets (e_steps e))) 0.
  Proof.
    intros ops k e sets He Hs. rewrite alone_state. rewrite Hs.
    apply exec_state_own; [apply inv_prun|assumption].
  Qed.
End ProcessFacts2.

Section ProcessFacts3.
  Variable rstate : Type.
  Variable init : wire -> gsmap -> rstate.
  Variable step : wire -> rstate -> rstate.
  Variable types_of : wire -> list Z.

  Notation proc := (proc rstate).
  Notation pstep := (pstep rstate init step types_of).
  Notation prun := (prun rstate init step types_of).
  Notation Inv := (Inv rstate init step types_of).

  Definition is_step_of (k : nat) (o : pop) : nat :=
    match o with PStep k' => if Nat.eqb k' k then 1 else 0 | _ => 0 end.

  Definition count_steps (k : nat) (ops : list pop) : nat := fold_left (fun a o => a + is_step_of k o)%nat ops O.

  (* what an executor was built from never changes; only its own PStep advances it *)
  Definition same_exec_but (e e' : exec) (n : nat) : Prop :=
    e_recipe e' = e_recipe e /\ e_seed0 e' = e_seed0 e /\ e_loc e' = e_loc e /\ e_types e' = e_types e /\
    e_steps e' = (e_steps e + n)%nat.

  Lemma exec_frame_step : forall p o k e, Inv p -> nth_error (p_execs rstate p) k = Some e ->
    exists e', nth_error (p_execs rstate (pstep p o)) k = Some e' /\ same_exec_but e e' (is_step_of k o).
  Proof.
    intros p o k e HI He.
    assert (Hsame : same_exec_but e e 0) by (unfold same_exec_but; repeat split; lia).
    destruct o as [recipe|b key val|b|k'|ty]; simpl.
    - exists e. split; assumption.
    - destruct (nth_error (p_builders rstate p) b) as [bd|]; [|exists e; split; assumption].
      destruct (nth_error (p_heap rstate p) (b_seed bd)) as [[m|s]|]; exists e; split; assumption.
    - destruct (nth_error (p_builders rstate p) b) as [bd|]; [|exists e; split; assumption].
      destruct (nth_error (p_heap rstate p) (b_seed bd)) as [[m|s]|]; try (exists e; split; assumption).
      destruct (intern_all (types_of (b_recipe bd)) (p_reg rstate p)) as [reg' ids]. simpl.
      exists e. split; [apply nth_error_app_some; assumption|assumption].
    - destruct (nth_error (p_execs rstate p) k') as [e0|] eqn:He0.
      + rewrite (inv_own _ _ _ _ _ HI k' e0 He0). simpl.
        destruct (Nat.eqb k' k) eqn:Ek.
        * apply Nat.eqb_eq in Ek. subst k'. rewrite He in He0. inversion He0; subst e0.
          exists (bump e). split; [apply nth_error_update_same; assumption|].
          unfold same_exec_but, bump; simpl. repeat split; lia.
        * apply Nat.eqb_neq in Ek. exists e. split; [rewrite nth_error_update_other by assumption; assumption|assumption].
      + destruct (Nat.eqb k' k) eqn:Ek.
        * apply Nat.eqb_eq in Ek. subst k'. congruence.
        * exists e. split; assumption.
    - exists e. split; assumption.
  Qed.

  Lemma exec_frame_fold : forall ops p k e, Inv p -> nth_error (p_execs rstate p) k = Some e ->
    exists e', nth_error (p_execs rstate (fold_left pstep ops p)) k = Some e' /\
               same_exec_but e e' (fold_left (fun a o => a + is_step_of k o)%nat ops O).
  Proof.
    induction ops as [|o r IH]; intros p k e HI He.
    - exists e. split; [assumption|]. unfold same_exec_but; simpl; repeat split; lia.
    - destruct (exec_frame_step p o k e HI He) as [e1 [He1 [R1 [S1 [L1 [T1 N1]]]]]].
      destruct (IH (pstep p o) k e1 (inv_step _ _ _ _ _ _ HI) He1) as [e2 [He2 [R2 [S2 [L2 [T2 N2]]]]]].
      exists e2. split; [exact He2|].
      unfold same_exec_but. repeat split; try congruence.
      cbn [fold_left]. rewrite N2, N1.
      assert (Hacc : forall l a, fold_left (fun a o => a + is_step_of k o)%nat l a = (a + fold_left (fun a o => a + is_step_of k o)%nat l O)%nat).
      { induction l as [|x l IHl]; intros a; simpl; [lia|]. rewrite IHl. rewrite (IHl (is_step_of k x)). lia. }
      rewrite (Hacc r (0 + is_step_of k o)%nat). lia.
  Qed.

  (* a later history does to executor k exactly its own cycles, nothing else *)
  Lemma later_history_only_own_steps : forall ops ops' k e,
    nth_error (p_execs rstate (prun ops)) k = Some e ->
    exists e', nth_error (p_execs rstate (prun (ops ++ ops'))) k = Some e' /\ same_exec_but e e' (count_steps k ops').
  Proof.
    intros ops ops' k e He. unfold Repro.prun. rewrite fold_left_app.
    apply exec_frame_fold; [apply inv_prun|exact He].
  Qed.

  (* ---- the builder's seed is never written by a run, a build or interning ---- *)
  Definition builder_seed (p : proc) (b : nat) : option gsmap :=
    match nth_error (p_builders rstate p) b with
    | Some bd => match nth_error (p_heap rstate p) (b_seed bd) with Some (CSeed m) => Some m | _ => None end
    | None => None
    end.

  Definition is_seed_write (o : pop) : bool := match o with PSeed _ _ _ => true | _ => false end.

  Lemma seed_untouched_step : forall p o b m, Inv p -> is_seed_write o = false ->
    builder_seed p b = Some m -> builder_seed (pstep p o) b = Some m.
  Proof.
    intros p o b m HI Hw Hb. unfold builder_seed in *.
    destruct (nth_error (p_builders rstate p) b) as [bd|] eqn:Hbd; [|discriminate].
    destruct (nth_error (p_heap rstate p) (b_seed bd)) as [[m0|s0]|] eqn:Hc; try discriminate. inversion Hb; subst m0. clear Hb.
    destruct o as [recipe|b' key val|b'|k|ty]; simpl in *; try discriminate.
    - rewrite (nth_error_app_some _ _ _ _ Hbd). rewrite (nth_error_app_some _ _ _ _ Hc). reflexivity.
    - destruct (nth_error (p_builders rstate p) b') as [bd'|]; [|rewrite Hbd, Hc; reflexivity].
      destruct (nth_error (p_heap rstate p) (b_seed bd')) as [[m'|s']|]; try (rewrite Hbd, Hc; reflexivity).
      destruct (intern_all (types_of (b_recipe bd')) (p_reg rstate p)) as [reg' ids]. simpl.
      rewrite Hbd. rewrite (nth_error_app_some _ _ _ _ Hc). reflexivity.
    - destruct (nth_error (p_execs rstate p) k) as [e|] eqn:He; [|rewrite Hbd, Hc; reflexivity].
      pose proof (inv_own _ _ _ _ _ HI k e He) as Ho. rewrite Ho. simpl. rewrite Hbd.
      assert (Hne : e_loc e <> b_seed bd) by (intro E; rewrite E in Ho; congruence).
      unfold set_nth. rewrite nth_error_update_other by assumption. rewrite Hc. reflexivity.
    - rewrite Hbd, Hc. reflexivity.
  Qed.

  Lemma seed_untouched_fold : forall ops p b m, Inv p -> forallb (fun o => negb (is_seed_write o)) ops = true ->
    builder_seed p b = Some m -> builder_seed (fold_left pstep ops p) b = Some m.
  Proof.
    induction ops as [|o r IH]; intros p b m HI Hw Hb; simpl in *; [assumption|].
    apply andb_prop in Hw. destruct Hw as [Ho Hr].
    apply IH; [apply inv_step; assumption|assumption|].
    apply seed_untouched_step; [assumption| |assumption]. destruct (is_seed_write o); [discriminate|reflexivity].
  Qed.

  Lemma seed_untouched_by_runs_l : forall ops ops' b m,
    forallb (fun o => negb (is_seed_write o)) ops' = true ->
    builder_seed (prun ops) b = Some m -> builder_seed (prun (ops ++ ops')) b = Some m.
  Proof.
    intros ops ops' b m Hw Hb. unfold Repro.prun. rewrite fold_left_app.
    apply seed_untouched_fold; [apply inv_prun|assumption|exact Hb].
  Qed.

  (* the types an executor was built with still resolve to the same schemas, whatever was interned since *)
  Lemma types_still_resolve_l : forall ops k e,
    nth_error (p_execs rstate (prun ops)) k = Some e ->
    map (resolve (p_reg rstate (prun ops))) (e_types e) = map Some (types_of (e_recipe e)).
  Proof. intros ops k e He. apply (inv_types _ _ _ _ _ (inv_prun _ _ _ _ ops) k e He). Qed.
End ProcessFacts3.

(* =====================  4. the process instantiated with the engine  ===================== *)
Lemma iter_fix : forall {A} n (f : A -> A) x, f x = x -> iter n f x = x.
Proof. intros A n f x H. induction n as [|n IH]; simpl; [reflexivity|]. rewrite H. exact IH. Qed.

Lemma iter_add : forall {A} n d (f : A -> A) x, iter (n + d) f x = iter d f (iter n f x).
Proof. intros A n d f. induction n as [|n IH]; intros x; simpl; [reflexivity|]. apply IH. Qed.

Lemma eng_cycle_fix : forall cfgs beh end_ g, eng_finished end_ g = true -> eng_cycle cfgs beh end_ g = g.
Proof. intros. unfold eng_cycle. rewrite H. reflexivity. Qed.

(* executor.cpp's run loop is the iteration of single cycles: a run that is finished after n cycles is what
   run_loop returns with any fuel above n *)
Lemma run_loop_iter : forall cfgs beh end_ n g,
  eng_finished end_ (iter n (eng_cycle cfgs beh end_) g) = true ->
  run_loop cfgs beh end_ (S n) g = iter n (eng_cycle cfgs beh end_) g.
Proof.
  intros cfgs beh end_ n. induction n as [|n IH]; intros g Hf.
  - simpl in *. unfold eng_finished in Hf.
    destruct (negb (g_err g =? 0)); [reflexivity|]. simpl in Hf. rewrite Hf. reflexivity.
  - change (iter (S n) (eng_cycle cfgs beh end_) g) with (iter n (eng_cycle cfgs beh end_) (eng_cycle cfgs beh end_ g)) in *.
    destruct (eng_finished end_ g) eqn:Fg.
    + rewrite (eng_cycle_fix _ _ _ _ Fg) in *. rewrite (iter_fix n _ g (eng_cycle_fix cfgs beh end_ g Fg)).
      unfold eng_finished in Fg. change (run_loop cfgs beh end_ (S (S n)) g) with
        (if negb (g_err g =? 0) then g else
         if (g_nst g =? MAX_DT) || (end_ <=? g_nst g) then g else run_loop cfgs beh end_ (S n) (evaluate_graph cfgs beh (g_nst g) g)).
      destruct (negb (g_err g =? 0)); [reflexivity|]. simpl in Fg. rewrite Fg. reflexivity.
    + pose proof Fg as Fg'. unfold eng_finished in Fg'.
      change (run_loop cfgs beh end_ (S (S n)) g) with
        (if negb (g_err g =? 0) then g else
         if (g_nst g =? MAX_DT) || (end_ <=? g_nst g) then g else run_loop cfgs beh end_ (S n) (evaluate_graph cfgs beh (g_nst g) g)).
      destruct (negb (g_err g =? 0)); [discriminate|]. simpl in Fg'. rewrite Fg'.
      unfold eng_cycle at 2. unfold eng_cycle at 2 in Hf. rewrite Fg in *. apply IH. exact Hf.
Qed.

Lemma run_loop_iter_ge : forall cfgs beh end_ n m g, (n <= m)%nat ->
  eng_finished end_ (iter n (eng_cycle cfgs beh end_) g) = true ->
  run_loop cfgs beh end_ (S m) g = iter n (eng_cycle cfgs beh end_) g.
Proof.
  intros cfgs beh end_ n m g Hle Hf.
  replace m with (n + (m - n))%nat by lia.
  assert (Hm : iter (n + (m - n)) (eng_cycle cfgs beh end_) g = iter n (eng_cycle cfgs beh end_) g).
  { rewrite iter_add. apply iter_fix. apply eng_cycle_fix. exact Hf. }
  rewrite <- Hm. apply run_loop_iter. rewrite Hm. exact Hf.
Qed.

Lemma eng_iter : forall recipe seed n,
  iter n (eng_step recipe) (eng_init recipe seed) =
  (iter n (eng_cycle (parse_cfgs recipe) (script_beh recipe) (snd (window recipe)))
          (start_graph (parse_cfgs recipe) (script_beh recipe) (fst (window recipe))), seed).
Proof.
  intros recipe seed n. unfold eng_init.
  generalize (start_graph (parse_cfgs recipe) (script_beh recipe) (fst (window recipe))) as g.
  induction n as [|n IH]; intros g; simpl; [reflexivity|].
  unfold eng_step at 2. simpl. apply IH.
Qed.

(* an executor of the process model that has finished shows exactly what the program shows when run alone *)
Lemma eng_obs_finished : forall recipe seed n,
  eng_finished (snd (window recipe)) (fst (iter n (eng_step recipe) (eng_init recipe seed))) = true ->
  (n <= Z.to_nat (snd (window recipe) - fst (window recipe)))%nat ->
  eng_obs recipe (iter n (eng_step recipe) (eng_init recipe seed)) = run_prog_seeded recipe seed.
Proof.
  intros recipe seed n Hf Hn. rewrite eng_iter in *. simpl fst in Hf.
  unfold eng_obs, run_prog_seeded, run_core0. simpl fst. simpl snd.
  destruct (window recipe) as [s e] eqn:W. simpl fst in *. simpl snd in *.
  unfold run_sim. rewrite Nat.add_1_r.
  rewrite (run_loop_iter_ge _ _ _ n (Z.to_nat (e - s)) _ Hn Hf). reflexivity.
Qed.

Notation eproc := (proc (gst * gsmap)).
Notation eprun := (prun (gst * gsmap) eng_init eng_step eng_types).

Theorem engine_runs_independent_l : forall ops k e,
  nth_error (p_execs (gst * gsmap) (eprun ops)) k = Some e ->
  eng_finished (snd (window (e_recipe e))) (fst (own_state _ eng_init eng_step e)) = true ->
  (e_steps e <= Z.to_nat (snd (window (e_recipe e)) - fst (window (e_recipe e))))%nat ->
  option_map (eng_obs (e_recipe e)) (exec_state (gst * gsmap) (eprun ops) k) = Some (run_prog_seeded (e_recipe e) (e_seed0 e)).
Proof.
  intros ops k e He Hf Hn.
  rewrite (exec_state_own _ _ _ _ _ k e (inv_prun _ _ _ _ ops) He). simpl. f_equal.
  apply eng_obs_finished; assumption.
Qed.

(* =====================  5. the run's GlobalState holds the seed and what the run wrote  ===================== *)
Definition written_keys (sec : wire) : list Z :=
  flat_map (fun l => match l with
                     | 4 :: _ :: mode :: key :: _ :: _ => if (mode =? 0) || (mode =? 2) then [key] else []
                     | _ => [] end) sec.

Definition erased_keys (sec : wire) : list Z :=
  flat_map (fun l => match l with
                     | 4 :: _ :: mode :: key :: _ :: _ => if mode =? 3 then [key] else []
                     | _ => [] end) sec.

Definition final_gs (sec : wire) (tr : wire) (seed : gsmap) : gsmap := w_gs (snd (weave sec tr (mkW seed []))).

Lemma gs_keys_set : forall k k' v m, In k (gs_keys (gs_set k' v m)) <-> k = k' \/ In k (gs_keys m).
Proof.
  intros k k' v m. unfold gs_keys. induction m as [|[a b] r IH]; simpl.
  - intuition.
  - destruct (k' =? a) eqn:E1; simpl.
    + assert (k' = a) by lia. subst. intuition.
    + destruct (k' <? a) eqn:E2; simpl; [intuition|]. rewrite IH. intuition.
Qed.

Lemma gs_keys_erase : forall k k' m, In k (gs_keys (gs_erase k' m)) <-> k <> k' /\ In k (gs_keys m).
Proof.
  intros k k' m. unfold gs_keys. induction m as [|[a b] r IH]; simpl.
  - intuition.
  - destruct (a =? k') eqn:E; simpl.
    + assert (a = k') by lia. subst a. rewrite IH. split.
      * intros [H1 H2]. split; auto.
      * intros [H1 [H2|H2]]; [congruence|auto].
    + assert (a <> k') by lia. split.
      * intros [H1|H1]; [subst; split; auto|]. apply IH in H1. tauto.
      * intros [H1 [H2|H2]]; [left; auto|right; apply IH; auto].
Qed.

Lemma line4_inv : forall {A} (l : line) (f : Z -> Z -> Z -> Z -> list A) x,
  In x (match l with 4 :: n :: mode :: key :: val :: _ => f n mode key val | _ => [] end) ->
  exists n mode key val r, l = 4 :: n :: mode :: key :: val :: r /\ In x (f n mode key val).
Proof.
  intros A l f x. destruct l as [|c l']; [intros []|].
  destruct c as [|p|p]; try (simpl; intros []; fail).
  destruct p as [p|p|]; try (simpl; intros []; fail).
  destruct p as [p|p|]; try (simpl; intros []; fail).
  destruct p as [p|p|]; try (simpl; intros []; fail).
  destruct l' as [|n [|mode [|key [|val r]]]]; try (simpl; intros []; fail).
  intros H. exists n, mode, key, val, r. split; [reflexivity|exact H].
Qed.

Lemma gsops_written : forall sec i mode key val, In (mode, key, val) (gsops_of sec i) ->
  (mode =? 0) || (mode =? 2) = true -> In key (written_keys sec).
Proof.
  intros sec i mode key val Hin Hm. unfold gsops_of in Hin. unfold written_keys.
  apply in_flat_map in Hin. destruct Hin as [l [Hl Hi]]. apply in_flat_map. exists l. split; [assumption|].
  apply (line4_inv l (fun n mode key val => if n =? i then [(mode, key, val)] else [])) in Hi.
  destruct Hi as [n [mo [ke [va [r [-> Hi]]]]]].
  destruct (n =? i); [|destruct Hi]. destruct Hi as [Hi|[]]. inversion Hi; subst. rewrite Hm. left. reflexivity.
Qed.

Lemma gsops_erased : forall sec i key val, In (3, key, val) (gsops_of sec i) -> In key (erased_keys sec).
Proof.
  intros sec i key val Hin. unfold gsops_of in Hin. unfold erased_keys.
  apply in_flat_map in Hin. destruct Hin as [l [Hl Hi]]. apply in_flat_map. exists l. split; [assumption|].
  apply (line4_inv l (fun n mode key val => if n =? i then [(mode, key, val)] else [])) in Hi.
  destruct Hi as [n [mo [ke [va [r [-> Hi]]]]]].
  destruct (n =? i); [|destruct Hi]. destruct Hi as [Hi|[]]. inversion Hi; subst. simpl. left. reflexivity.
Qed.

(* one operation: new keys are written keys; a key disappears only by an erase of that key *)
Lemma gs_step_keys : forall i t m mode key val k,
  In k (gs_keys (fst (gs_step i t m (mode, key, val)))) ->
  In k (gs_keys m) \/ (k = key /\ (mode =? 0) || (mode =? 2) = true).
Proof.
  intros i t m mode key val k H. unfold gs_step in H.
  destruct (mode =? 0) eqn:E0; simpl in *.
  - apply gs_keys_set in H. destruct H; [right; split; auto|left; assumption].
  - destruct (mode =? 1) eqn:E1; simpl in *; [left; assumption|].
    destruct (mode =? 2) eqn:E2; simpl in *.
    + apply gs_keys_set in H. destruct H; [right; split; auto|left; assumption].
    + destruct (mode =? 3) eqn:E3; simpl in *; [apply gs_keys_erase in H; left; tauto|left; assumption].
Qed.

Lemma gs_step_keeps : forall i t m mode key val k,
  In k (gs_keys m) -> (mode = 3 -> k <> key) -> In k (gs_keys (fst (gs_step i t m (mode, key, val)))).
Proof.
  intros i t m mode key val k H Hne. unfold gs_step.
  destruct (mode =? 0) eqn:E0; simpl; [apply gs_keys_set; auto|].
  destruct (mode =? 1) eqn:E1; simpl; [assumption|].
  destruct (mode =? 2) eqn:E2; simpl; [apply gs_keys_set; auto|].
  destruct (mode =? 3) eqn:E3; simpl; [|assumption].
  apply gs_keys_erase. split; [apply Hne; lia|assumption].
Qed.

Lemma gs_step_writes : forall i t m mode key val,
  (mode =? 0) || (mode =? 2) = true -> In key (gs_keys (fst (gs_step i t m (mode, key, val)))).
Proof.
  intros i t m mode key val Hm. unfold gs_step.
  destruct (mode =? 0) eqn:E0; simpl; [apply gs_keys_set; auto|].
  destruct (mode =? 1) eqn:E1; simpl; [lia|].
  destruct (mode =? 2) eqn:E2; simpl; [apply gs_keys_set; auto|]. simpl in Hm. discriminate.
Qed.

Lemma gs_steps_fst : forall i t os m o, fst (gs_steps i t m (o :: os)) = fst (gs_steps i t (fst (gs_step i t m o)) os).
Proof.
  intros. simpl. destruct (gs_step i t m o) as [m1 l1]. simpl. destruct (gs_steps i t m1 os) as [m2 l2]. reflexivity.
Qed.

Lemma gs_steps_keys : forall i t os m k (W : list Z),
  (forall mode key val, In (mode, key, val) os -> (mode =? 0) || (mode =? 2) = true -> In key W) ->
  In k (gs_keys (fst (gs_steps i t m os))) -> In k (gs_keys m) \/ In k W.
Proof.
  intros i t os. induction os as [|[[mode key] val] r IH]; intros m k W HW H.
  - simpl in H. left. assumption.
  - rewrite gs_steps_fst in H. apply IH with (W := W) in H.
    + destruct H as [H|H]; [|right; assumption].
      apply gs_step_keys in H. destruct H as [H|[-> Hm]]; [left; assumption|right].
      apply (HW mode key val); [left; reflexivity|assumption].
    + intros mo ke va Hin. apply (HW mo ke va). right. assumption.
Qed.

Lemma gs_steps_keeps : forall i t os m k (E : list Z),
  (forall key val, In (3, key, val) os -> In key E) -> ~ In k E ->
  In k (gs_keys m) -> In k (gs_keys (fst (gs_steps i t m os))).
Proof.
  intros i t os. induction os as [|[[mode key] val] r IH]; intros m k E HE Hk H.
  - simpl. assumption.
  - rewrite gs_steps_fst. apply IH with (E := E).
    + intros ke va Hin. apply (HE ke va). right. assumption.
    + assumption.
    + apply gs_step_keeps; [assumption|]. intros -> ->. apply Hk. apply (HE key val). left. reflexivity.
Qed.

Lemma gs_steps_writes : forall i t os m mode key val (E : list Z),
  In (mode, key, val) os -> (mode =? 0) || (mode =? 2) = true ->
  (forall ke va, In (3, ke, va) os -> In ke E) -> ~ In key E ->
  In key (gs_keys (fst (gs_steps i t m os))).
Proof.
  intros i t os. induction os as [|[[mo ke] va] r IH]; intros m mode key val E Hin Hm HE Hk; [destruct Hin|].
  rewrite gs_steps_fst. destruct Hin as [Hin|Hin].
  - inversion Hin; subst. apply gs_steps_keeps with (E := E).
    + intros k2 v2 H2. apply (HE k2 v2). right. assumption.
    + assumption.
    + apply gs_step_writes. assumption.
  - apply IH with (mode := mode) (val := val) (E := E); try assumption.
    intros k2 v2 H2. apply (HE k2 v2). right. assumption.
Qed.

Lemma user_run_gs : forall sec i t st, w_gs (fst (user_run sec i t st)) = fst (gs_steps i t (w_gs st) (gsops_of sec i)).
Proof.
  intros. unfold user_run. destruct (state_add_of sec i); destruct (gs_steps i t (w_gs st) (gsops_of sec i)); reflexivity.
Qed.

Lemma weave_cons_run : forall sec l r st i t rest, l = 12 :: i :: t :: rest ->
  snd (weave sec (l :: r) st) = snd (weave sec r (fst (user_run sec i t st))).
Proof.
  intros sec l r st i t rest ->. simpl. destruct (user_run sec i t st) as [st1 ls]. simpl.
  destruct (weave sec r st1) as [a b]. reflexivity.
Qed.

Definition is_run_line (l : line) : option (Z * Z) :=
  match l with 12 :: i :: t :: _ => Some (i, t) | _ => None end.

Lemma weave_step : forall sec l r st,
  snd (weave sec (l :: r) st) =
  snd (weave sec r (match is_run_line l with Some (i, t) => fst (user_run sec i t st) | None => st end)).
Proof.
  intros sec l r st. unfold is_run_line.
  destruct l as [|c [|i [|t rest]]]; simpl; try (destruct (weave sec r st); reflexivity).
  - destruct c as [|p|p]; try (destruct (weave sec r st); reflexivity).
    do 4 (destruct p as [p|p|]; try (destruct (weave sec r st); reflexivity)).
  - destruct c as [|p|p]; try (destruct (weave sec r st); reflexivity).
    do 4 (destruct p as [p|p|]; try (destruct (weave sec r st); reflexivity)).
  - destruct c as [|p|p]; try (destruct (weave sec r st); reflexivity).
    do 4 (destruct p as [p|p|]; try (destruct (weave sec r st); reflexivity)).
    destruct (user_run sec i t st) as [st1 ls]. simpl. destruct (weave sec r st1). reflexivity.
Qed.

(* nothing enters a run's GlobalState but the seed and the keys its own program writes *)
Lemma weave_keys_sound : forall sec tr st k,
  In k (gs_keys (w_gs (snd (weave sec tr st)))) -> In k (gs_keys (w_gs st)) \/ In k (written_keys sec).
Proof.
  intros sec tr. induction tr as [|l r IH]; intros st k H.
  - simpl in H. left. assumption.
  - rewrite weave_step in H. apply IH in H. destruct H as [H|H]; [|right; assumption].
    destruct (is_run_line l) as [[i t]|]; [|left; assumption].
    rewrite user_run_gs in H. apply gs_steps_keys with (W := written_keys sec) in H; [assumption|].
    intros mode key val Hin Hm. apply (gsops_written sec i mode key val); assumption.
Qed.

(* ... and nothing leaves it but by the program's own erase operations *)
Lemma weave_keys_persist : forall sec tr st k,
  In k (gs_keys (w_gs st)) -> ~ In k (erased_keys sec) -> In k (gs_keys (w_gs (snd (weave sec tr st)))).
Proof.
  intros sec tr. induction tr as [|l r IH]; intros st k H Hk.
  - simpl. assumption.
  - rewrite weave_step. apply IH; [|assumption].
    destruct (is_run_line l) as [[i t]|]; [|assumption].
    rewrite user_run_gs. apply gs_steps_keeps with (E := erased_keys sec); try assumption.
    intros key val Hin. apply (gsops_erased sec i key val). assumption.
Qed.

(* a write operation of a node whose user code ran is in the final GlobalState (unless the program erases that key) *)
Lemma weave_keys_written : forall sec tr st i t rest mode key val,
  In (12 :: i :: t :: rest) tr -> In (mode, key, val) (gsops_of sec i) -> (mode =? 0) || (mode =? 2) = true ->
  ~ In key (erased_keys sec) -> In key (gs_keys (w_gs (snd (weave sec tr st)))).
Proof.
  intros sec tr. induction tr as [|l r IH]; intros st i t rest mode key val Hin Hop Hm Hk; [destruct Hin|].
  rewrite weave_step. destruct Hin as [->|Hin].
  - simpl is_run_line. apply weave_keys_persist; [|assumption].
    rewrite user_run_gs. apply gs_steps_writes with (mode := mode) (val := val) (E := erased_keys sec); try assumption.
    intros ke va H3. apply (gsops_erased sec i ke va). assumption.
  - apply (IH _ i t rest mode key val); assumption.
Qed.

(* =====================  5b. erased keys  ===================== *)
(* ---- erased keys: a key a run erases (and never writes) is absent from its final state, hence from whatever is
   seeded from that final state (copy-back REPLACES the selected state by the final state) ---- *)
Lemma gs_step_erases : forall i t m key val, ~ In key (gs_keys (fst (gs_step i t m (3, key, val)))).
Proof. intros i t m key val H. unfold gs_step in H. simpl in H. apply gs_keys_erase in H. tauto. Qed.

Lemma gs_steps_absent_stays : forall i t os m k (W : list Z),
  (forall mode key val, In (mode, key, val) os -> (mode =? 0) || (mode =? 2) = true -> In key W) -> ~ In k W ->
  ~ In k (gs_keys m) -> ~ In k (gs_keys (fst (gs_steps i t m os))).
Proof.
  intros i t os m k W HW Hk Hm H. apply (gs_steps_keys i t os m k W HW) in H. tauto.
Qed.

Lemma gs_steps_erased : forall i t os m k val (W : list Z),
  In (3, k, val) os ->
  (forall mode key v, In (mode, key, v) os -> (mode =? 0) || (mode =? 2) = true -> In key W) -> ~ In k W ->
  ~ In k (gs_keys (fst (gs_steps i t m os))).
Proof.
  intros i t os. induction os as [|[[mo ke] va] r IH]; intros m k val W Hin HW Hk; [destruct Hin|].
  rewrite gs_steps_fst. destruct Hin as [Hin|Hin].
  - inversion Hin; subst. apply gs_steps_absent_stays with (W := W); [|assumption|apply gs_step_erases].
    intros mode key v H2. apply (HW mode key v). right. assumption.
  - apply IH with (val := val) (W := W); [assumption| |assumption].
    intros mode key v H2. apply (HW mode key v). right. assumption.
Qed.

Lemma weave_absent_stays : forall sec tr st k,
  ~ In k (written_keys sec) -> ~ In k (gs_keys (w_gs st)) -> ~ In k (gs_keys (w_gs (snd (weave sec tr st)))).
Proof. intros sec tr st k Hw Hs H. apply weave_keys_sound in H. tauto. Qed.

Lemma weave_erased_absent : forall sec tr st i t rest k val,
  In (12 :: i :: t :: rest) tr -> In (3, k, val) (gsops_of sec i) -> ~ In k (written_keys sec) ->
  ~ In k (gs_keys (w_gs (snd (weave sec tr st)))).
Proof.
  intros sec tr. induction tr as [|l r IH]; intros st i t rest k val Hin Hop Hw; [destruct Hin|].
  rewrite weave_step. destruct Hin as [->|Hin].
  - simpl is_run_line. apply weave_absent_stays; [assumption|].
    rewrite user_run_gs. apply gs_steps_erased with (val := val) (W := written_keys sec); [assumption| |assumption].
    intros mode key v H2 Hm. apply (gsops_written sec i mode key v); assumption.
  - apply (IH _ i t rest k val); assumption.
Qed.

(* the chain: run 2 is seeded with run 1's final state (what copy_from must produce): the key run 1 erased is not in
   run 2's seed, and if run 2 does not write it either, not in run 2's final state *)
Lemma erased_key_gone_l : forall sec1 tr1 seed i t rest k val,
  In (12 :: i :: t :: rest) tr1 -> In (3, k, val) (gsops_of sec1 i) -> ~ In k (written_keys sec1) ->
  ~ In k (gs_keys (final_gs sec1 tr1 seed)) /\
  (forall sec2 tr2, ~ In k (written_keys sec2) -> ~ In k (gs_keys (final_gs sec2 tr2 (final_gs sec1 tr1 seed)))).
Proof.
  intros sec1 tr1 seed i t rest k val Hin Hop Hw.
  assert (H1 : ~ In k (gs_keys (final_gs sec1 tr1 seed))) by (unfold final_gs; apply (weave_erased_absent sec1 tr1 _ i t rest k val); assumption).
  split; [exact H1|]. intros sec2 tr2 Hw2. unfold final_gs at 1. apply weave_absent_stays; assumption.
Qed.

(* =====================  6. the statements of Props/C07.v  ===================== *)
Lemma run_deterministic_full : forall wall1 wall2 cfgs beh start end_ fuel,
  x_g (xrun wall1 cfgs beh start end_ fuel) = x_g (xrun wall2 cfgs beh start end_ fuel) /\
  x_g (xrun wall1 cfgs beh start end_ fuel) = run_sim cfgs beh start end_ fuel.
Proof. intros. split; [apply run_deterministic_l|apply xrun_g]. Qed.

Lemma global_state_isolated_l : forall sec tr seed,
  (forall k, In k (gs_keys (final_gs sec tr seed)) -> In k (gs_keys seed) \/ In k (written_keys sec)) /\
  (forall k, In k (gs_keys seed) -> ~ In k (erased_keys sec) -> In k (gs_keys (final_gs sec tr seed))) /\
  (forall i t rest mode key val, In (12 :: i :: t :: rest) tr -> In (mode, key, val) (gsops_of sec i) ->
     (mode =? 0) || (mode =? 2) = true -> ~ In key (erased_keys sec) -> In key (gs_keys (final_gs sec tr seed))).
Proof.
  intros sec tr seed. unfold final_gs. split; [|split].
  - intros k H. apply weave_keys_sound in H. exact H.
  - intros k H Hk. apply weave_keys_persist; assumption.
  - intros i t rest mode key val Hin Hop Hm Hk. apply (weave_keys_written sec tr _ i t rest mode key val); assumption.
Qed.

Lemma registry_growth_unobservable_l : forall (more : list Z) (tbl : list Z),
  (forall id v, resolve tbl id = Some v -> resolve (fst (intern_all more tbl)) id = Some v) /\
  (forall k i, find_index k tbl = Some i -> find_index k (fst (intern_all more tbl)) = Some i) /\
  (forall k, resolve (fst (intern k tbl)) (snd (intern k tbl)) = Some k).
Proof.
  intros more tbl. split; [|split].
  - intros id v H. apply intern_all_keeps_records. exact H.
  - intros k i H. apply intern_all_keeps_ids. exact H.
  - intros k. apply intern_resolves.
Qed.
