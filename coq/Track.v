(* Track.v — mirror model of hgraph's modification tracking (property C04).

   Mirrors, function by function:
     TSDataTracking::record_modified            src/hgraph/types/time_series/ts_data/types.cpp   -> [rec_mod]
     TSParentLink::notify_child_modified        (same file)                                      -> the [up] flag of [at_path]
     TSDataMutationView::mark_modified/move_value_from/copy_value_from/invalidate
                                                ts_data/base_view.{h,cpp}                        -> [mark], [op_set], [op_whole], [inv_tree]
     atomic_copy/move_value_from, atomic_has_current_value   metadata/ts_data_atomic_ops.cpp     -> [op_set], [valid]
     fixed_copy_value_from, fixed_has_current_value, child_modified_for_parent_time
                                                metadata/ts_data_fixed_structured_ops.cpp        -> [copy_from], [valid], [delta_mask]
     TSDataView::modified / delta_value         ts_data/base_view.cpp                            -> [modified], [delta_readable]
     TSInputView (target link root)             ts_input/base_view.cpp, target_link.cpp          -> [in_lmt], [in_modified], [in_delta]
     TSDDataMutationView::at / erase            ts_data/dict_view.cpp (contract level)           -> [dict_ensure], [op_erase]

   A time-series value is a tree [tsd]; every node carries its TSDataTracking
   record [trk]: last_modified_time and (instead of the observer set itself) the
   number of times observers.notify was called on it.  Executable definitions
   only; the proofs are in TrackFacts.v. *)
Require Import Base.

(* ------------------------------------------------------------------ shapes *)
Inductive shape :=
| STS                              (* TS<int64>; SIGNAL has the same tracking (atomic ops) *)
| STSB (fields : list shape)       (* bundle of fields *)
| STSL (n : nat) (elem : shape)    (* fixed-size list *)
| STSD (elem : shape).             (* dictionary keyed by int64 *)

(* lmt: last_modified_time; ncnt: number of observers.notify calls so far; nlast: the time of the last one,
   which is also the last time this node called parent.notify_child_modified (record_modified returning true,
   or invalidate): a dictionary's per-slot modified bit of the current cycle is exactly [nlast = t] *)
Record trk := mkTrk { lmt : Z; ncnt : Z; nlast : Z }.
Definition trk0 : trk := mkTrk MIN_DT 0 MIN_DT.

Inductive tsd :=
| Leaf (k : trk) (v : Z)
| Fix (k : trk) (fk : Z) (bits : Z) (kids : list tsd)   (* fk: 1 = TSB, 3 = TSB with projected value, 2 = fixed TSL, 4 = unbounded TSL; bits: a plain TSB value's field-valid bits *)
| Dict (k : trk) (elem : shape) (kids : list (Z * tsd)).   (* live keys, sorted by key *)

(* A TSB whose sub-tree holds a dictionary presents a PROJECTED value surface (field validity is read
   from the children); otherwise its value carries sticky per-field validity bits
   (FixedTSDataContext::projected_value_surface). *)
Fixpoint has_dict (s : shape) : bool :=
  match s with
  | STS => false
  | STSB fs => existsb has_dict fs
  | STSL _ e => has_dict e
  | STSD _ => true
  end.

Fixpoint init (s : shape) : tsd :=
  match s with
  | STS => Leaf trk0 0
  | STSB fs => Fix trk0 (if existsb has_dict fs then 3 else 1) 0 (map init fs)
  | STSL n e => Fix trk0 (if Nat.eqb n 0 then 4 else 2) 0 (repeat (init e) n)   (* n = 0: unbounded list, grows on demand *)
  | STSD e => Dict trk0 e []
  end.

Definition tracking (s : tsd) : trk :=
  match s with Leaf k _ => k | Fix k _ _ _ => k | Dict k _ _ => k end.
Definition set_tracking (k : trk) (s : tsd) : tsd :=
  match s with Leaf _ v => Leaf k v | Fix _ f b c => Fix k f b c | Dict _ e c => Dict k e c end.
Definition lmt_of (s : tsd) : Z := lmt (tracking s).
Definition ncnt_of (s : tsd) : Z := ncnt (tracking s).

(* ------------------------------------------------------------------ TSDataTracking::record_modified
   if (modified_time <= last_modified_time) return false;
   last_modified_time = modified_time; observers.notify(modified_time); return true;            *)
Definition rec_mod (t : Z) (k : trk) : trk * bool :=
  if t <=? lmt k then (k, false) else (mkTrk t (ncnt k + 1) t, true).

(* observers.notify alone (used by invalidate) *)
Definition notify_only (t : Z) (k : trk) : trk := mkTrk (lmt k) (ncnt k + 1) t.

(* record on a node; the boolean says whether state.parent.notify_child_modified is to be called *)
Definition mark (t : Z) (s : tsd) : tsd * bool :=
  let '(k', b) := rec_mod t (tracking s) in (set_tracking k' s, b).

(* ------------------------------------------------------------------ reads (TSDataView / TSOutputView) *)
Definition valid (s : tsd) : bool := negb (lmt_of s =? MIN_DT).
Definition modified (t : Z) (s : tsd) : bool := negb (t =? MIN_DT) && (lmt_of s =? t).
Definition value_of (s : tsd) : Z := match s with Leaf _ v => if valid s then v else 0 | _ => 0 end.
Definition delta_readable (t : Z) (s : tsd) : bool := negb (t =? MIN_DT) && (lmt_of s =? t).

Fixpoint mask_from (i : nat) (pl : Z) (kids : list tsd) : Z :=
  match kids with
  | [] => 0
  | c :: r => (if lmt_of c =? pl then Z.shiftl 1 (Z.of_nat i) else 0) + mask_from (S i) pl r
  end.
(* which children sit in the parent's delta: child_modified_for_parent_time *)
Definition delta_mask (s : tsd) : Z :=
  match s with
  | Leaf _ v => v
  | Fix k _ _ kids => mask_from 0 (lmt k) kids
  | Dict _ _ _ => -1
  end.

(* mark_tsb_value_field_valid: only a TSB's value carries per-field validity bits *)
Definition set_bit (fk : Z) (n : nat) (bits : Z) : Z :=
  if fk =? 1 then Z.lor bits (Z.shiftl 1 (Z.of_nat n)) else bits.

(* ------------------------------------------------------------------ navigation *)
Definition path := list Z.

Fixpoint dict_find (key : Z) (l : list (Z * tsd)) : option tsd :=
  match l with
  | [] => None
  | (k, c) :: r => if k =? key then Some c else dict_find key r
  end.
Fixpoint dict_put (key : Z) (c : tsd) (l : list (Z * tsd)) : list (Z * tsd) :=
  match l with
  | [] => [(key, c)]
  | (k, x) :: r => if key <? k then (key, c) :: l else if k =? key then (key, c) :: r else (k, x) :: dict_put key c r
  end.
Fixpoint dict_del (key : Z) (l : list (Z * tsd)) : list (Z * tsd) :=
  match l with
  | [] => []
  | (k, x) :: r => if k =? key then r else (k, x) :: dict_del key r
  end.

Definition zidx (i : Z) : option nat := if i <? 0 then None else Some (Z.to_nat i).

Fixpoint get (p : path) (s : tsd) : option tsd :=
  match p with
  | [] => Some s
  | i :: p' =>
    match s with
    | Leaf _ _ => None
    | Fix _ _ _ kids => match zidx i with
                    | Some n => match nth_error kids n with Some c => get p' c | None => None end
                    | None => None end
    | Dict _ _ kids => match dict_find i kids with Some c => get p' c | None => None end
    end
  end.

(* The result of an operation on a sub-tree: the new sub-tree, whether the
   parent chain is to be notified (the C++ called parent.notify_child_modified
   on this node's link), the printed result flag, an error code (0 = none;
   an exception unwinds, so nothing is notified upwards). *)
Record res := mkRes { r_tree : tsd; r_up : bool; r_flag : bool; r_err : Z }.

(* TSParentLink::notify_child_modified at the parent: record_child_modified_impl (the
   TSB field-valid bit, not observable here), then
   if (state.record_modified(t)) state.parent.notify_child_modified(t)                       *)
Definition notify_parent (t : Z) (up : bool) (k : trk) : trk * bool :=
  if up then rec_mod t k else (k, false).

(* TSDDataMutationView::at(key): insert_key_impl + apply_slot_mutation_result (mark_modified
   when the key set changed).  Returns the dict's tracking, its children, the child, and whether
   the dict's own parent chain is notified. *)
Definition dict_ensure (t : Z) (k : trk) (e : shape) (kids : list (Z * tsd)) (key : Z)
  : trk * list (Z * tsd) * tsd * bool :=
  match dict_find key kids with
  | Some c => (k, kids, c, false)
  | None => let c := init e in
            let '(k', up) := rec_mod t k in
            (k', dict_put key c kids, c, up)
  end.

Fixpoint at_path (f : tsd -> res) (t : Z) (p : path) (s : tsd) : res :=
  match p with
  | [] => f s
  | i :: p' =>
    match s with
    | Leaf _ _ => mkRes s false false 3
    | Fix k fk bits kids =>
      match zidx i with
      | None => mkRes s false false 3
      | Some n =>
        match nth_error kids n with
        | None => mkRes s false false 3
        | Some c =>
          let r := at_path f t p' c in
          let '(k', up') := notify_parent t (r_up r) k in
          mkRes (Fix k' fk (if r_up r then set_bit fk n bits else bits) (set_nth n (r_tree r) kids)) up' (r_flag r) (r_err r)
        end
      end
    | Dict k e kids =>
      let '(k1, kids1, c, up1) := dict_ensure t k e kids i in
      let r := at_path f t p' c in
      let '(k2, up2) := notify_parent t (r_up r) k1 in
      mkRes (Dict k2 e (dict_put i (r_tree r) kids1)) (up1 || up2) (r_flag r) (r_err r)
    end
  end.

(* ------------------------------------------------------------------ operations *)
(* move_value_from on an atomic TS: first_for_time := lmt != t; assign; if first_for_time mark_modified *)
Definition op_set (t v : Z) (s : tsd) : res :=
  match s with
  | Leaf k _ =>
    if lmt k =? t then mkRes (Leaf k v) false false 0
    else let '(k', b) := rec_mod t k in mkRes (Leaf k' v) b true 0
  | _ => mkRes s false false 1          (* schema mismatch: invalid_argument *)
  end.

(* TSDataMutationView::invalidate.  For every owned child (fixed shapes only: a dictionary's
   slots are not statically indexed): child.invalidate(); the child then calls
   parent.notify_child_modified, i.e. record_modified on THIS node and, when that
   returns true, onwards.  Finally: observers.notify; parent.notify_child_modified;
   last_modified_time = MIN_DT.  Returns (tree, notify-parent?, did-anything?). *)
Definition inv_kids (inv : tsd -> tsd * bool * bool) (t fk : Z) :=
  fix go (n : nat) (k : trk) (bits : Z) (l : list tsd) : trk * Z * list tsd :=
    match l with
    | [] => (k, bits, [])
    | c :: r =>
      let '(c', up, _) := inv c in
      let '(k1, _) := notify_parent t up k in
      let '(k2, bits2, r') := go (S n) k1 (if up then set_bit fk n bits else bits) r in
      (k2, bits2, c' :: r')
    end.

Fixpoint inv_tree (t : Z) (s : tsd) : tsd * bool * bool :=
  if lmt_of s =? MIN_DT then (s, false, false) else
  match s with
  | Leaf k v => (Leaf (mkTrk MIN_DT (ncnt k + 1) t) v, true, true)
  | Dict k e kids =>
    let fix go (k : trk) (l : list (Z * tsd)) : trk * list (Z * tsd) :=
      match l with
      | [] => (k, [])
      | (key, c) :: r =>
        let '(c', up, _) := inv_tree t c in
        let '(k1, _) := notify_parent t up k in
        let '(k2, r') := go k1 r in
        (k2, (key, c') :: r')
      end in
    let '(k', kids') := go k kids in
    (Dict (mkTrk MIN_DT (ncnt k' + 1) t) e kids', true, true)
  | Fix k fk bits kids =>
    let '(k', bits', kids') := inv_kids (inv_tree t) t fk 0%nat k bits kids in
    (Fix (mkTrk MIN_DT (ncnt k' + 1) t) fk bits' kids', true, true)
  end.

Definition op_inv (t : Z) (s : tsd) : res :=
  let '(s', up, did) := inv_tree t s in mkRes s' up did 0.

(* value trees for whole-value writes *)
Inductive vtree := VAbs | VLeaf (v : Z) | VFix (kids : list vtree).

(* copy_value_from_impl: returns (tree, newly_modified, error).  The caller records the modification.
   fixed_copy_value_from: for each present child: if child.copy(..) then
       if (!child.tracking.record_modified(t)) throw "duplicate modification"   (error 2)  *)
Fixpoint copy_from (t : Z) (vt : vtree) (s : tsd) : tsd * bool * Z :=
  match vt, s with
  | VAbs, _ => (s, false, 0)
  | VLeaf v, Leaf k _ => (Leaf k v, negb (lmt k =? t), 0)
  | VFix vs, Fix k fk bits kids =>
    let fix go (n : nat) (bits : Z) (vs : list vtree) (l : list tsd) : list tsd * Z * bool * Z :=
      match vs, l with
      | v :: vr, c :: r =>
        match v with
        | VAbs => let '(r', b, nw, e) := go (S n) bits vr r in (c :: r', b, nw, e)
        | _ =>
          let '(c1, newly, e1) := copy_from t v c in
          if negb (e1 =? 0) then (c1 :: r, bits, false, e1) else
          if newly then
            let '(k', ok) := rec_mod t (tracking c1) in
            if ok then let '(r', b, _, e) := go (S n) (set_bit fk n bits) vr r in (set_tracking k' c1 :: r', b, true, e)
            else (c1 :: r, bits, false, 2)
          else let '(r', b, nw, e) := go (S n) bits vr r in (c1 :: r', b, nw, e)
        end
      | _, _ => (l, bits, false, 0)
      end in
    let '(kids', bits', newly, e) := go 0%nat bits vs kids in (Fix k fk bits' kids', newly, e)
  | _, _ => (s, false, 1)
  end.

Definition op_whole (t : Z) (vt : vtree) (s : tsd) : res :=
  match vt with
  | VAbs => mkRes s false false 0
  | _ =>
    let '(s1, newly, e) := copy_from t vt s in
    if negb (e =? 0) then mkRes s1 false false e
    else if newly then let '(s2, up) := mark t s1 in mkRes s2 up true 0
    else mkRes s1 false false 0
  end.

(* dictionary: create a key without writing (mutation.at(key)) *)
Definition op_dict_at (t key : Z) (s : tsd) : res :=
  match s with
  | Dict k e kids => let '(k', kids', _, up) := dict_ensure t k e kids key in mkRes (Dict k' e kids') up true 0
  | _ => mkRes s false false 1
  end.

(* erase(key): remove_key_impl; changed -> mark_modified; otherwise touch_impl *)
Definition op_erase (t key : Z) (s : tsd) : res :=
  match s with
  | Dict k e kids =>
    match dict_find key kids with
    | Some _ => let '(k', up) := rec_mod t k in mkRes (Dict k' e (dict_del key kids)) up true 0
    | None => let '(k', up) := rec_mod t k in mkRes (Dict k' e kids) up false 0   (* touch_impl: a no-op erase still marks *)
    end
  | _ => mkRes s false false 1
  end.

Inductive op :=
| OSet (p : path) (v : Z)
| OInv (p : path)
| OWhole (p : path) (vt : vtree)
| ODictAt (p : path) (key : Z)
| OErase (p : path) (key : Z)
| OSetD (p : path) (v : Z).      (* leaf write through the element's own view: dictionaries are only looked up *)

Definition op_code (o : op) : Z :=
  match o with OSet _ _ => 1 | OInv _ => 2 | OWhole _ _ => 3 | ODictAt _ _ => 4 | OErase _ _ => 5 | OSetD _ _ => 6 end.

(* TSDDataView::contains on every dictionary level of the path *)
Fixpoint keys_exist (p : path) (s : tsd) : bool :=
  match p with
  | [] => true
  | i :: p' =>
    match s with
    | Leaf _ _ => true
    | Fix _ _ _ kids => match zidx i with
                        | Some n => match nth_error kids n with Some c => keys_exist p' c | None => true end
                        | None => true end
    | Dict _ _ kids => match dict_find i kids with Some c => keys_exist p' c | None => false end
    end
  end.

(* TSDataView::ensure_indexed_child_at on an unbounded TSL: writing index m of a list of fewer than m+1
   elements first appends fresh elements up to m (growth alone marks nothing).  Done as a pre-pass along the
   path of an operation, with the shape telling which lists are unbounded (STSL 0 e). *)
Fixpoint grow (sh : shape) (p : path) (s : tsd) : tsd :=
  match p with
  | [] => s
  | i :: p' =>
    match sh, s with
    | STSL n e, Fix k fk b kids =>
      match zidx i with
      | Some m =>
        let kids1 := if Nat.eqb n 0 && (length kids <=? m)%nat then kids ++ repeat (init e) (S m - length kids) else kids in
        Fix k fk b (update m (grow e p') kids1)
      | None => s
      end
    | STSB fs, Fix k fk b kids =>
      match zidx i with
      | Some m => match nth_error fs m with Some f => Fix k fk b (update m (grow f p') kids) | None => s end
      | None => s
      end
    | _, _ => s          (* not below a dictionary: the generator keeps unbounded lists out of TSD elements *)
    end
  end.

Definition op_path (o : op) : path :=
  match o with OSet p _ => p | OInv p => p | OWhole p _ => p | ODictAt p _ => p | OErase p _ => p | OSetD p _ => p end.

Definition step (t : Z) (o : op) (s : tsd) : res :=
  match o with
  | OSet p v => at_path (op_set t v) t p s
  | OInv p => at_path (op_inv t) t p s
  | OWhole p vt => at_path (op_whole t vt) t p s
  | ODictAt p key => at_path (op_dict_at t key) t p s
  | OErase p key => at_path (op_erase t key) t p s
  | OSetD p v => if keys_exist p s then at_path (op_set t v) t p s else mkRes s false false 4
  end.

(* a write history: (time, operation) in execution order *)
Definition hist := list (Z * op).

Definition run (h : hist) (s : tsd) : tsd :=
  fold_left (fun s e => r_tree (step (fst e) (snd e) s)) h s.

(* ------------------------------------------------------------------ inputs (consumers)
   An input never owns data: it holds a link whose tracking record is fed by the
   bound node's observer notifications (TSInputTargetLinkState::notify ->
   record_target_modified).  bind() replays the source's last_modified_time. *)
Record cons := mkCons { c_kind : Z; c_bind_at : Z; c_path : path; c_bound : bool; c_link : Z }.

Definition target_ncnt (p : path) (s : tsd) : Z := match get p s with Some x => ncnt_of x | None => 0 end.

(* after an operation at time t: every bound link whose target was notified records t *)
Definition feed (t : Z) (before after : tsd) (c : cons) : cons :=
  if c_bound c && (target_ncnt (c_path c) before <? target_ncnt (c_path c) after)
  then mkCons (c_kind c) (c_bind_at c) (c_path c) true (Z.max (c_link c) t)
  else c.

Definition bind_now (s : tsd) (c : cons) : cons :=
  let src := match get (c_path c) s with Some x => lmt_of x | None => MIN_DT end in
  mkCons (c_kind c) (c_bind_at c) (c_path c) true (Z.max (c_link c) src).

(* reads at the target-link root (InputDataCursor::last_modified_time / modified, TSInputView::delta_value) *)
Definition in_lmt (c : cons) (x : tsd) : Z := Z.max (c_link c) (lmt_of x).
Definition in_modified (t : Z) (c : cons) (x : tsd) : bool :=
  negb (t =? MIN_DT) && ((c_link c =? t) || (lmt_of x =? t)).
(* "sampled rebind": when the link's time is later than the target's, delta_value IS value() *)
Definition in_delta_sampled (c : cons) (x : tsd) : bool := lmt_of x <? c_link c.

(* ------------------------------------------------------------------ decoding of a case (wire) *)
Fixpoint parse_shape (fuel : nat) (l : list Z) : option (shape * list Z) :=
  match fuel with
  | O => None
  | S f =>
    match l with
    | 0 :: r => Some (STS, r)
    | 1 :: n :: r =>
      let fix fields (m : nat) (r : list Z) : option (list shape * list Z) :=
        match m with
        | O => Some ([], r)
        | S m' => match parse_shape f r with
                  | Some (s, r1) => match fields m' r1 with Some (ss, r2) => Some (s :: ss, r2) | None => None end
                  | None => None
                  end
        end in
      if (n <? 0) || (8 <? n) then None else
      match fields (Z.to_nat n) r with Some (ss, r') => Some (STSB ss, r') | None => None end
    | 2 :: n :: r =>
      if (n <? 0) || (8 <? n) then None else
      match parse_shape f r with Some (e, r') => Some (STSL (Z.to_nat n) e, r') | None => None end
    | 3 :: r => match parse_shape f r with Some (e, r') => Some (STSD e, r') | None => None end
    | _ => None
    end
  end.

Definition shape_kids (s : shape) : list shape :=
  match s with STS => [] | STSB fs => fs | STSL n e => repeat e n | STSD _ => [] end.

Fixpoint shape_at (p : path) (s : shape) : option shape :=
  match p with
  | [] => Some s
  | i :: p' =>
    match s with
    | STSD e => shape_at p' e
    | STS => None
    | _ => match zidx i with
           | Some n => match nth_error (shape_kids s) n with Some c => shape_at p' c | None => None end
           | None => None end
    end
  end.

(* value tree of a whole-value write: TS: present v | TSB/TSL: present then, if present, the children *)
Fixpoint parse_val (fuel : nat) (s : shape) (a : list Z) : option (vtree * list Z) :=
  match fuel with
  | O => None
  | S f =>
    match s, a with
    | STS, pr :: v :: r => Some (if pr =? 0 then VAbs else VLeaf v, r)
    | STSD _, _ => None
    | _, pr :: r =>
      if pr =? 0 then Some (VAbs, r) else
      let fix go (ss : list shape) (r : list Z) : option (list vtree * list Z) :=
        match ss with
        | [] => Some ([], r)
        | c :: cs => match parse_val f c r with
                     | Some (v, r1) => match go cs r1 with Some (vs, r2) => Some (v :: vs, r2) | None => None end
                     | None => None
                     end
        end in
      match go (shape_kids s) r with Some (vs, r') => Some (VFix vs, r') | None => None end
    | _, _ => None
    end
  end.

Definition parse_op (sh : shape) (l : line) : option (Z * op) :=
  match l with
  | 3 :: t :: code :: plen :: r =>
    let n := Z.to_nat plen in
    let p := firstn n r in
    let a := skipn n r in
    if code =? 1 then Some (t, OSet p (hdz a))
    else if code =? 2 then Some (t, OInv p)
    else if code =? 3 then
      match shape_at p sh with
      | Some s => match parse_val (S (length a)) s a with Some (vt, _) => Some (t, OWhole p vt) | None => None end
      | None => None
      end
    else if code =? 4 then Some (t, ODictAt p (hdz a))
    else if code =? 5 then Some (t, OErase p (hdz a))
    else if code =? 6 then Some (t, OSetD p (hdz a))
    else None
  | _ => None
  end.

Fixpoint find_shape (w : wire) : option shape :=
  match w with
  | [] => None
  | (2 :: r) :: _ => match parse_shape (S (length r)) r with Some (s, _) => Some s | None => None end
  | _ :: w' => find_shape w'
  end.

Fixpoint window (w : wire) : Z * Z :=
  match w with
  | [] => (1, 10)
  | (1 :: s :: e :: _) :: _ => (s, e)
  | _ :: w' => window w'
  end.

Fixpoint parse_ops (sh : shape) (w : wire) : hist :=
  match w with
  | [] => []
  | l :: w' => match l with
               | 3 :: _ => match parse_op sh l with Some o => o :: parse_ops sh w' | None => parse_ops sh w' end
               | _ => parse_ops sh w'
               end
  end.

Fixpoint parse_cons (w : wire) : list cons :=
  match w with
  | [] => []
  | (4 :: kind :: bind_at :: p) :: w' => mkCons kind bind_at p (negb (kind =? 3)) MIN_DT :: parse_cons w'
  | _ :: w' => parse_cons w'
  end.

(* ------------------------------------------------------------------ observation lines *)
Definition obs_line (who t : Z) (p : path) (vld md : bool) (l v : Z) (hd : bool) (dv : Z) : line :=
  [20; who; t; Z.of_nat (length p)] ++ p ++ [b2z vld; b2z md; l; v; b2z hd; dv].

(* Reads.  [link] is the time of the consumer's link (None for the producer-side view);
   [root] says whether this position is the link's own root (only there do last_modified_time and
   modified blend the link's tracking).  TSInputView::delta_value: at EVERY position of a
   target link, when link.tracking.last_modified_time > data.last_modified_time() the "delta"
   handed back is value().  *)
Fixpoint valid_mask (i : nat) (kids : list tsd) : Z :=
  match kids with
  | [] => 0
  | c :: r => (if valid c then Z.shiftl 1 (Z.of_nat i) else 0) + valid_mask (S i) r
  end.
Definition sampled_dv (x : tsd) : Z :=
  match x with
  | Leaf _ v => v
  | Fix _ fk bits kids => if fk =? 1 then bits else if fk =? 3 then valid_mask 0 kids else -2
  | Dict _ _ _ => -2
  end.

Definition node_line (who t : Z) (p : path) (link : option Z) (root : bool) (x : tsd) : line :=
  match link with
  | None =>
    let rd := delta_readable t x in
    obs_line who t p (valid x) (modified t x) (lmt_of x) (value_of x) rd (if rd then delta_mask x else 0)
  | Some lk =>
    let sampled := lmt_of x <? lk in
    let rd := sampled || delta_readable t x in
    let dv := if sampled then sampled_dv x else if rd then delta_mask x else 0 in
    let md := if root then negb (t =? MIN_DT) && ((lk =? t) || (lmt_of x =? t)) else modified t x in
    let l := if root then Z.max lk (lmt_of x) else lmt_of x in
    obs_line who t p (valid x) md l (value_of x) rd dv
  end.

(* [cnt]: Some true = producer view of a statically indexed node (append the notification count),
   Some false = producer view below a dictionary (append -1), None = a consumer's view (nothing appended) *)
(* TSDDataView::modified_keys: the slots whose modified bit was set in the current delta window, i.e. the
   live elements that notified the dictionary at t (a write below them, or their own invalidation: invalidate
   notifies the parent BEFORE it clears last_modified_time, so record_child_modified still sees a value) *)
Definition mod_keys (t : Z) (s : tsd) : list Z :=
  match s with
  | Dict _ _ kids => if modified t s then map fst (filter (fun kc => nlast (tracking (snd kc)) =? t) kids) else []
  | _ => []
  end.
(* is the delta handed back the dictionary's own per-tick delta (readable and not the sampled whole value) *)
(* TSLDataView::modified_indices of an unbounded list, asked only when the view says the list is modified:
   the elements that notified the list in this cycle (the circular "modified ring") *)
Fixpoint nlast_indices (t : Z) (i : nat) (kids : list tsd) : list Z :=
  match kids with
  | [] => []
  | c :: r => (if nlast (tracking c) =? t then [Z.of_nat i] else []) ++ nlast_indices t (S i) r
  end.
Definition mod_indices (t : Z) (link : option Z) (root : bool) (s : tsd) : list Z :=
  let md := match link with
            | Some lk => if root then negb (t =? MIN_DT) && ((lk =? t) || (lmt_of s =? t)) else modified t s
            | None => modified t s
            end in
  match s with
  | Fix _ _ _ kids => if md then 1 :: (if modified t s then nlast_indices t 0 kids else []) else [0]
  | _ => [0]
  end.

Definition typed_delta (t : Z) (link : option Z) (s : tsd) : bool :=
  delta_readable t s && match link with Some lk => negb (lmt_of s <? lk) | None => true end.

Fixpoint read_tree (fuel : nat) (who t : Z) (p : path) (link : option Z) (root : bool) (cnt : option bool) (s : tsd) : wire :=
  match fuel with
  | O => []
  | S f =>
    let me := node_line who t p link root s ++
              match cnt with Some true => [ncnt_of s] | Some false => [-1] | None => [] end in
    match s with
    | Leaf _ _ => [me]
    | Fix _ fk _ kids =>
      let dyn := fk =? 4 in
      (* the elements of an unbounded list do not exist at start: no counting observer on them *)
      let cnt' := if dyn then (match cnt with Some _ => Some false | None => None end) else cnt in
      me :: (if dyn then [[32; who; t; Z.of_nat (length p)] ++ p ++ mod_indices t link root s] else [])
         ++ concat (map (fun ic => read_tree f who t (p ++ [Z.of_nat (fst ic)]) link false cnt' (snd ic)) (combine (seq 0 (length kids)) kids))
    | Dict _ _ kids =>
      me :: ([24; who; t; Z.of_nat (length p)] ++ p ++ map fst kids)
         :: ([22; who; t; Z.of_nat (length p)] ++ p ++ mod_keys t s)
         :: ([31; who; t; Z.of_nat (length p)] ++ p ++
             (if typed_delta t link s then 1 :: mod_keys t s else [0]))
         :: concat (map (fun kc => read_tree f who t (p ++ [fst kc]) link false
                                             (match cnt with Some _ => Some false | None => None end) (snd kc)) kids)
    end
  end.

Fixpoint shape_depth (s : shape) : nat :=
  match s with
  | STS => 1
  | STSB fs => S (fold_right (fun c a => Nat.max (shape_depth c) a) 0%nat fs)
  | STSL _ e => S (shape_depth e)
  | STSD e => S (shape_depth e)
  end.

Fixpoint depth (s : tsd) : nat :=
  match s with
  | Leaf _ _ => 1
  | Fix _ _ _ kids => S (fold_right (fun c a => Nat.max (depth c) a) 0%nat kids)
  | Dict _ e kids => S (fold_right (fun c a => Nat.max (depth (snd c)) a) (shape_depth e) kids)
  end.

Definition read_cons (who t : Z) (c : cons) (s : tsd) : wire :=
  if negb (c_bound c) then [[26; who; t]] else
  match get (c_path c) s with
  | None => [[26; who; t]]
  | Some x => read_tree (depth x + 1) who t (c_path c) (Some (c_link c)) true None x
  end.

(* ------------------------------------------------------------------ the simulated run *)
Record sim := mkSim { m_tree : tsd; m_cons : list cons; m_log : wire }.

Definition apply_ops (sh : shape) (t : Z) (h : hist) (m : sim) : sim :=
  fold_left (fun m e =>
               if fst e =? t then
                 let tree := grow sh (op_path (snd e)) (m_tree m) in
                 let r := step t (snd e) tree in
                 let ln := if r_err r =? 0 then [23; t; op_code (snd e); b2z (r_flag r)]
                           else [29; t; op_code (snd e); r_err r] in
                 mkSim (r_tree r) (map (feed t (m_tree m) (r_tree r)) (m_cons m)) (ln :: m_log m)
               else m) h m.

(* consumers evaluated in a cycle, in node order; the last consumer is the every-cycle reporter *)
Fixpoint sinks (t : Z) (who : Z) (n : Z) (before : list cons) (cs : list cons) (tree0 tree1 : tsd) : list cons * wire :=
  match cs with
  | [] => ([], [])
  | c :: r =>
    let active := (c_kind c =? 1) || (c_kind c =? 2) in
    let woken := (who =? n)
                 || (active && (target_ncnt (c_path c) tree0 <? target_ncnt (c_path c) tree1))
                 || ((c_kind c =? 3) && (c_bind_at c =? t)) in
    let c' := if (c_kind c =? 3) && (c_bind_at c =? t) then bind_now tree1 c else c in
    let '(r', w) := sinks t (who + 1) n before r tree0 tree1 in
    (c' :: r',
     (if woken then [[21; who; t]] else []) ++
     (if (c_kind c =? 3) && (c_bind_at c =? t) then [[25; who; t]] else []) ++ w)
  end.

Fixpoint report (t : Z) (who : Z) (cs : list cons) (s : tsd) : wire :=
  match cs with
  | [] => []
  | c :: r => read_cons who t c s ++ report t (who + 1) r s
  end.

Fixpoint cycles (sh : shape) (fuel : nat) (t e : Z) (h : hist) (m : sim) : sim :=
  match fuel with
  | O => m
  | S f =>
    if e <=? t then m else
    let tree0 := m_tree m in
    let m1 := apply_ops sh t h m in
    let n := Z.of_nat (length (m_cons m1)) in
    let '(cs', w) := sinks t 1 n (m_cons m1) (m_cons m1) tree0 (m_tree m1) in
    let rep := read_tree (depth (m_tree m1) + 1) 0 t [] None true (Some true) (m_tree m1) ++ report t 1 cs' (m_tree m1) in
    cycles sh f (t + 1) e h (mkSim (m_tree m1) cs' (rev rep ++ rev w ++ m_log m1))
  end.

Definition run_track (w : wire) : wire :=
  match find_shape w with
  | None => [[28; 1]]
  | Some sh =>
    let '(s, e) := window w in
    let cs := match parse_cons w with [] => [mkCons 0 0 [] true MIN_DT] | l => l end in
    let m := cycles sh (Z.to_nat (e - s) + 1) s e (parse_ops sh w) (mkSim (init sh) cs []) in
    rev (m_log m)
  end.
