(* Fixed.v — MIRROR model of the fixed-shape structured time-series (TSB / fixed-size TSL of TS<int> children):
   src/hgraph/types/metadata/ts_data_fixed_structured_ops.cpp
     (children with their own value + last_modified_time, the parent's last_modified_time; a child write that
      is the first for its time records the child, then notifies the parent (fixed_record_child_modified +
      parent record_modified); the parent's delta lists exactly the children whose last_modified_time equals
      the parent's: child_modified_for_parent_time / child_delta_view, read only when the parent ticked)
   Executable definitions only; proofs are in FixedFacts.v. *)
Require Import Base Coll.

Record fixed := mkF { f_ch : list child; f_lmt : Z }.
Definition fixed_empty (n : nat) : fixed := mkF (repeat child0 n) MIN_DT.
Definition f_child (s : fixed) (i : nat) : child := nth i (f_ch s) child0.

(* child.begin_mutation(t).copy_value_from(v) on child i *)
Definition f_write (t : Z) (i : nat) (v : Z) (s : fixed) : fixed :=
  if (i <? length (f_ch s))%nat then
    let c := f_child s i in
    if c_lmt c <? t
    then mkF (set_nth i (mkC v t) (f_ch s)) (rec_mod t (f_lmt s))
    else mkF (set_nth i (mkC v (c_lmt c)) (f_ch s)) (f_lmt s)
  else s.

Inductive fop := FSet (i : nat) (v : Z) | FNop.
Definition f_op (t : Z) (o : fop) (s : fixed) : Z * fixed :=
  match o with
  | FSet i v => (if (i <? length (f_ch s))%nat then 0 else 3, f_write t i v s)
  | FNop => (-1, s)
  end.
Definition f_cycle (t : Z) (ops : list fop) (s : fixed) : fixed := fold_left (fun st o => snd (f_op t o st)) ops s.

(* reads *)
Definition f_value (s : fixed) (i : nat) : option Z :=
  let c := f_child s i in if c_valid c then Some (c_val c) else None.
Definition f_modified (t : Z) (s : fixed) : bool := negb (t =? MIN_DT) && (f_lmt s =? t).
(* the parent's delta at time t: the children modified at the parent's time *)
Definition f_delta (t : Z) (s : fixed) (i : nat) : option Z :=
  let c := f_child s i in
  if f_modified t s && (i <? length (f_ch s))%nat && (c_lmt c =? f_lmt s) then Some (c_val c) else None.
