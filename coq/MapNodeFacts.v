(* MapNodeFacts.v — the whole-node mirror MapNode (slot store + MapSched scheduling) refines the
   specification MapSpec: for every key, one cycle of the node computes [key_step]; hence the node's log
   (the output dictionary stream) equals the specification's, for every body family whose pending wake-ups
   are consumed when due, every key universe, every history and every choice of the environment
   (slot allocation, sparse candidate hints) that respects the engine's and the key set's contracts. *)
Require Import Base MapSpec MapFacts MapSched MapSchedFacts MapEval MapEvalFacts MapNode.
From Coq Require Import ZifyBool.

Section NodeFacts.
Context {S : Type}.
Variable B : Z -> body S.
Variable keys : list Z.
Hypothesis Hnd : NoDup keys.
(* a step of the body (at a time within the run window) consumes the wake-ups that were due and leaves only
   later ones, before MAX_DT *)
Hypothesis Hwake : forall j s bi, bi_now bi < MAX_ET ->
  match b_next (B j) (fst (b_step (B j) s bi)) with Some w => bi_now bi < w /\ w < MAX_DT | None => True end.

(* the link between the slot store, the key set and the scheduling entries, at cycle boundaries *)
Definition Link (n : nstate S) : Prop :=
  Good (n_sch n) /\
  (forall j s, n_slot n j = Some s -> In j keys /\ exists e, n_store n s = Some e /\ se_key e = j /\ se_started e = true) /\
  (forall s e, n_store n s = Some e -> se_started e = true -> n_slot n (se_key e) = Some s) /\
  (forall s e, n_store n s = Some e -> se_started e = true ->
       exists se, s_ent (n_sch n) s = Some se /\ e_started se = true /\
                  e_next se = wake_z (b_next (B (se_key e)) (se_inst e)) /\ e_next se <= MAX_DT) /\
  (forall s se, s_ent (n_sch n) s = Some se -> e_started se = true ->
       exists e, n_store n s = Some e /\ se_started e = true) /\
  (forall j, In j keys -> is_some (n_slot n j) = bound_somewhere (n_vals n j)).

Lemma wake_z_due (b : body S) (i : S) t : t < MAX_DT -> wake_due b i t = (wake_z (b_next b i) <=? t).
Proof. intros Ht. unfold wake_due, wake_z. destruct (b_next b i); [reflexivity|]. symmetry. apply Z.leb_gt. exact Ht. Qed.

Lemma find_map_add (f : Z -> nat) t l k :
  find (fun a => Nat.eqb (a_slot a) k) (map (fun j => mkAdd (f j) t false) l) =
  option_map (fun j => mkAdd (f j) t false) (find (fun j => Nat.eqb (f j) k) l).
Proof. induction l as [|j r IH]; cbn [map find a_slot]; [reflexivity|]. destruct (Nat.eqb (f j) k); [reflexivity|exact IH]. Qed.

Lemma slot_eval_id (b : body S) t args first inset (e : sentry S) :
  se_key (fst (slot_eval b t args first inset e)) = se_key e /\
  se_started (fst (slot_eval b t args first inset e)) = se_started e.
Proof.
  unfold slot_eval. destruct (se_started e && inset && (first || any_mod args || wake_due b (se_inst e) t)) eqn:E; [|auto].
  apply andb_true_iff in E. destruct E as [E _]. apply andb_true_iff in E. destruct E as [E _].
  destruct (b_step b (se_inst e) _) as [s' o]. destruct o; cbn; auto.
Qed.

Lemma slot_eval_stepped (b : body S) t args first (e : sentry S) :
  se_started e = true -> first || any_mod args || wake_due b (se_inst e) t = true ->
  se_inst (fst (slot_eval b t args first true e)) = fst (b_step b (se_inst e) (mkBI t (se_key e) first args)).
Proof.
  intros Hs Ht. unfold slot_eval. rewrite Hs, Ht. cbn [andb].
  destruct (b_step b (se_inst e) _) as [s' o]. destruct o; reflexivity.
Qed.

Lemma slot_eval_skipped (b : body S) t args first (e : sentry S) :
  fst (slot_eval b t args first false e) = e.
Proof. unfold slot_eval. rewrite andb_false_r. reflexivity. Qed.

Lemma stepped_wake j i bi : bi_now bi < MAX_ET ->
  let w := wake_z (b_next (B j) (fst (b_step (B j) i bi))) in
  clamp_after (bi_now bi) w = w /\ w <= MAX_DT.
Proof.
  intros Ht. pose proof (Hwake j i bi Ht) as H. cbn zeta. unfold wake_z, clamp_after. unfold MAX_ET in Ht.
  destruct (b_next (B j) (fst (b_step (B j) i bi))) as [w|].
  - destruct (w <=? bi_now bi) eqn:E; lia.
  - destruct (MAX_DT <=? bi_now bi); lia.
Qed.

Section OneCycle.
Variable n : nstate S.
Variable c : cyc.
Variable x : env.
Hypothesis HL : Link n.
Hypothesis Hok : step_ok keys n c x.

Let t := c_t c.

Lemma t_lt : c_t c < MAX_DT.
Proof. destruct Hok as [_ [H _]]. unfold MAX_ET in H. lia. Qed.

(* ---- key / slot bookkeeping ---- *)
Lemma live_slot_unique j j' s : n_slot n j = Some s -> n_slot n j' = Some s -> j = j'.
Proof.
  destruct HL as [_ [L1 _]]. intros H1 H2.
  destruct (L1 j s H1) as [_ [e [E1 [E2 _]]]]. destruct (L1 j' s H2) as [_ [e' [E1' [E2' _]]]]. congruence.
Qed.

Lemma pushed_mem j s : In j keys -> n_slot n j = Some s ->
  existsb (Nat.eqb s) (c_pushed keys n c) = any_mod (c_args n c j).
Proof.
  intros Hin Hs. unfold c_pushed. destruct (any_mod (c_args n c j)) eqn:E.
  - apply existsb_exists. exists s. split; [|apply Nat.eqb_refl]. apply in_flat_map. exists j. split; [exact Hin|].
    rewrite Hs, E. left. reflexivity.
  - destruct (existsb _ _) eqn:Ex; [|reflexivity]. apply existsb_exists in Ex. destruct Ex as [s' [Hs' Es']].
    apply Nat.eqb_eq in Es'. subst s'. apply in_flat_map in Hs'. destruct Hs' as [j' [Hj' Hin']].
    destruct (n_slot n j') as [s'|] eqn:Ej'; [|destruct Hin'].
    destruct (any_mod (c_args n c j')) eqn:Em; [|destruct Hin']. destruct Hin' as [<-|[]].
    assert (j = j') by (eapply live_slot_unique; eassumption). subst j'. congruence.
Qed.

Lemma rm_mem j s : In j keys -> n_slot n j = Some s ->
  existsb (Nat.eqb s) (c_rm keys n c) = negb (c_bound n c j).
Proof.
  intros Hin Hs. unfold c_rm. destruct (c_bound n c j) eqn:E; cbn [negb].
  - destruct (existsb _ _) eqn:Ex; [|reflexivity]. apply existsb_exists in Ex. destruct Ex as [s' [Hs' Es']].
    apply Nat.eqb_eq in Es'. subst s'. apply in_flat_map in Hs'. destruct Hs' as [j' [Hj' Hin']].
    destruct (n_slot n j') as [s'|] eqn:Ej'; [|destruct Hin'].
    destruct (c_bound n c j') eqn:Em; [destruct Hin'|]. destruct Hin' as [<-|[]].
    assert (j = j') by (eapply live_slot_unique; eassumption). subst j'. congruence.
  - apply existsb_exists. exists s. split; [|apply Nat.eqb_refl]. apply in_flat_map. exists j. split; [exact Hin|].
    rewrite Hs, E. left. reflexivity.
Qed.

Lemma rm_only_live s : existsb (Nat.eqb s) (c_rm keys n c) = true ->
  exists j, In j keys /\ n_slot n j = Some s /\ c_bound n c j = false.
Proof.
  intros Ex. apply existsb_exists in Ex. destruct Ex as [s' [Hs' Es']]. apply Nat.eqb_eq in Es'. subst s'.
  unfold c_rm in Hs'. apply in_flat_map in Hs'. destruct Hs' as [j [Hj Hin]].
  destruct (n_slot n j) as [s'|] eqn:Ej; [|destruct Hin]. destruct (c_bound n c j) eqn:Em; [destruct Hin|].
  destruct Hin as [<-|[]]. exists j. auto.
Qed.

Lemma adk_in j : In j (c_adk keys n c) <-> In j keys /\ n_slot n j = None /\ c_bound n c j = true.
Proof.
  unfold c_adk. rewrite filter_In. split.
  - intros [H1 H2]. apply andb_true_iff in H2. destruct H2 as [H2 H3]. destruct (n_slot n j); [discriminate|]. auto.
  - intros [H1 [H2 H3]]. split; [exact H1|]. rewrite H2, H3. reflexivity.
Qed.

Lemma created_spec s : match c_created keys n c x s with
                       | Some j => In j (c_adk keys n c) /\ x_alloc x j = s
                       | None => forall j, In j (c_adk keys n c) -> x_alloc x j <> s
                       end.
Proof.
  unfold c_created. destruct (find _ _) as [j|] eqn:E.
  - apply find_some in E. destruct E as [E1 E2]. apply Nat.eqb_eq in E2. auto.
  - intros j Hj He. apply (find_none _ _ E) in Hj. rewrite He, Nat.eqb_refl in Hj. discriminate.
Qed.

Lemma created_alloc j : In j (c_adk keys n c) -> c_created keys n c x (x_alloc x j) = Some j.
Proof.
  intros Hj. pose proof (created_spec (x_alloc x j)) as H. destruct (c_created keys n c x (x_alloc x j)) as [j'|].
  - destruct H as [H1 H2]. apply adk_in in Hj. apply adk_in in H1. destruct Hok as [_ [_ [_ Hinj]]].
    f_equal. apply Hinj; tauto.
  - exfalso. apply (H j Hj). reflexivity.
Qed.

Lemma created_not_live s e : n_store n s = Some e -> se_started e = true -> c_created keys n c x s = None.
Proof.
  intros He Hs. pose proof (created_spec s) as H. destruct (c_created keys n c x s) as [j|]; [|reflexivity].
  destruct H as [H1 H2]. apply adk_in in H1. destruct Hok as [_ [_ [Hfree _]]].
  specialize (Hfree j (proj1 H1) (proj1 (proj2 H1))). rewrite H2, He in Hfree. congruence.
Qed.

(* ---- the scheduling side before the node runs ---- *)
Lemma sch2_facts :
  Good (c_sch2 keys n c) /\ s_now (c_sch2 keys n c) = t /\ s_done (c_sch2 keys n c) = false /\
  (forall s, match s_ent (n_sch n) s with
             | Some se => exists se2, s_ent (c_sch2 keys n c) s = Some se2 /\ e_started se2 = e_started se /\
                 e_next se2 = (if existsb (Nat.eqb s) (c_pushed keys n c) && e_started se then Z.min (e_next se) t else e_next se)
             | None => s_ent (c_sch2 keys n c) s = None end).
Proof.
  destruct HL as [HG _]. destruct Hok as [Htick _].
  assert (H1 : Good (do_tick t (n_sch n))) by (apply good_tick; exact HG).
  assert (H2 : s_now (do_tick t (n_sch n)) = t /\ s_done (do_tick t (n_sch n)) = false /\ s_ent (do_tick t (n_sch n)) = s_ent (n_sch n)).
  { unfold do_tick. fold t in Htick. rewrite Htick. cbn. auto. }
  destruct H2 as [A [Bd C]].
  unfold c_sch2. fold t.
  pose proof (push_fold_now (c_pushed keys n c) (do_tick t (n_sch n)) Bd) as P. cbn zeta in P. destruct P as [P1 [P2 P3]].
  split; [apply push_fold_good; exact H1|]. split; [congruence|]. split; [exact P2|].
  intros s. specialize (P3 s). rewrite C, A in P3. exact P3.
Qed.

Lemma live_slot_sched s e : n_store n s = Some e -> se_started e = true ->
  In (se_key e) keys /\ n_slot n (se_key e) = Some s /\
  exists se2, s_ent (c_sch2 keys n c) s = Some se2 /\ e_started se2 = true /\
    t <= wake_z (b_next (B (se_key e)) (se_inst e)) /\
    e_next se2 = (if any_mod (c_args n c (se_key e)) then t else wake_z (b_next (B (se_key e)) (se_inst e))).
Proof.
  intros He Hs. destruct HL as [HG [L1 [L2 [L3 [L4 L5]]]]].
  pose proof (L2 s e He Hs) as Hslot. destruct (L1 _ _ Hslot) as [Hin _].
  split; [exact Hin|]. split; [exact Hslot|].
  destruct (L3 s e He Hs) as [se [S1 [S2 [S3 S4]]]].
  destruct sch2_facts as [_ [_ [_ F]]]. specialize (F s). rewrite S1 in F. destruct F as [se2 [F1 [F2 F3]]].
  exists se2. split; [exact F1|]. split; [congruence|].
  assert (Ht : t <= e_next se).
  { destruct Hok as [Htick _]. pose proof t_lt as HtM. destruct (Z_lt_le_dec (e_next se) MAX_DT) as [Hlt|Hge]; [|fold t in HtM; lia].
    apply (tick_cannot_skip t (n_sch n) s se HG S1 S2 Hlt). exact Htick. }
  split; [rewrite <- S3; exact Ht|].
  rewrite F3, (pushed_mem (se_key e) s Hin Hslot), S2, andb_true_r, <- S3.
  destruct (any_mod (c_args n c (se_key e))); [lia|reflexivity].
Qed.

(* ---- the reconciled entries ---- *)
Definition fresh_t : entry := mkE true MAX_DT t.

Lemma rec_ent k :
  s_ent (reconcile (c_rm keys n c) (c_ad keys n c x) (c_sch2 keys n c)) k =
  let ent_r := if existsb (Nat.eqb k) (c_rm keys n c) then option_map (fun _ => stopped_entry) (s_ent (c_sch2 keys n c) k)
               else s_ent (c_sch2 keys n c) k in
  match c_created keys n c x k with
  | Some _ => match ent_r with Some e => if e_started e then Some e else Some fresh_t | None => Some fresh_t end
  | None => ent_r
  end.
Proof.
  unfold reconcile.
  assert (Hq : forall a, In a (c_ad keys n c x) -> a_sampled a = false).
  { intros a Ha. unfold c_ad in Ha. apply in_map_iff in Ha. destruct Ha as [j [<- _]]. reflexivity. }
  pose proof (create_fold_quiet (c_ad keys n c x) Hq (fold_left (fun s k => remove_slot k s) (c_rm keys n c) (c_sch2 keys n c))) as Cq.
  cbn zeta in Cq. destruct Cq as [_ [_ [_ [_ Ce]]]]. rewrite Ce, remove_fold_ent.
  destruct (remove_fold_fields (c_rm keys n c) (c_sch2 keys n c)) as [Rn _]. rewrite Rn.
  destruct sch2_facts as [_ [Hnow _]]. rewrite Hnow.
  unfold c_ad. rewrite find_map_add. fold (c_created keys n c x k). cbn zeta.
  destruct (c_created keys n c x k) as [j|]; cbn [option_map]; [|reflexivity].
  assert (Hf : fresh_entry t (mkAdd (x_alloc x j) (c_t c) false) = fresh_t).
  { unfold fresh_entry, fresh_t, clamp_next. cbn [a_next]. fold t. rewrite Z.ltb_irrefl. reflexivity. }
  rewrite Hf. reflexivity.
Qed.

Notation s0 := (reconcile (c_rm keys n c) (c_ad keys n c x) (c_sch2 keys n c)).

(* a slot whose child stays *)
Lemma rec_continuing s e : n_store n s = Some e -> se_started e = true -> c_bound n c (se_key e) = true ->
  s_ent s0 s = s_ent (c_sch2 keys n c) s.
Proof.
  intros He Hs Hb. destruct (live_slot_sched s e He Hs) as [Hin [Hslot _]].
  rewrite rec_ent. cbn zeta. rewrite (created_not_live s e He Hs), (rm_mem _ _ Hin Hslot), Hb. reflexivity.
Qed.

(* a slot whose key left *)
Lemma rec_removed s e : n_store n s = Some e -> se_started e = true -> c_bound n c (se_key e) = false ->
  s_ent s0 s = Some stopped_entry.
Proof.
  intros He Hs Hb. destruct (live_slot_sched s e He Hs) as [Hin [Hslot [se2 [H2 _]]]].
  rewrite rec_ent. cbn zeta. rewrite (created_not_live s e He Hs), (rm_mem _ _ Hin Hslot), Hb, H2. reflexivity.
Qed.

(* a scheduling entry that is started belongs to a started store entry, also after the notifications *)
Lemma sch2_started_store k se2 : s_ent (c_sch2 keys n c) k = Some se2 -> e_started se2 = true ->
  exists e, n_store n k = Some e /\ se_started e = true.
Proof.
  intros H2 Hs. destruct HL as [_ [_ [_ [_ [L4 _]]]]].
  destruct sch2_facts as [_ [_ [_ F]]]. specialize (F k).
  destruct (s_ent (n_sch n) k) as [se|] eqn:E; [|congruence].
  destruct F as [se2' [F1 [F2 _]]]. rewrite H2 in F1. inversion F1. subst se2'. apply (L4 k se E). congruence.
Qed.

(* a slot given to a new key *)
Lemma rec_created j : In j (c_adk keys n c) -> s_ent s0 (x_alloc x j) = Some fresh_t.
Proof.
  intros Hj. rewrite rec_ent. cbn zeta. rewrite (created_alloc j Hj).
  apply adk_in in Hj. destruct Hj as [Hin [Hnone _]]. destruct Hok as [_ [_ [Hfree _]]]. specialize (Hfree j Hin Hnone).
  destruct (existsb (Nat.eqb (x_alloc x j)) (c_rm keys n c)).
  - destruct (s_ent (c_sch2 keys n c) (x_alloc x j)); reflexivity.
  - destruct (s_ent (c_sch2 keys n c) (x_alloc x j)) as [se2|] eqn:E2; [|reflexivity].
    destruct (e_started se2) eqn:Es; [|reflexivity].
    destruct (sch2_started_store _ _ E2 Es) as [e [E1 E3]]. rewrite E1 in Hfree. congruence.
Qed.

(* every other slot holds no started scheduling entry *)
Lemma rec_other k e0 : s_ent s0 k = Some e0 -> e_started e0 = true ->
  (exists e, n_store n k = Some e /\ se_started e = true /\ c_bound n c (se_key e) = true) \/
  (exists j, In j (c_adk keys n c) /\ x_alloc x j = k).
Proof.
  intros H0 Hs. rewrite rec_ent in H0. cbn zeta in H0.
  pose proof (created_spec k) as Hc. destruct (c_created keys n c x k) as [j|]; [right; exists j; exact Hc|].
  left. destruct (existsb (Nat.eqb k) (c_rm keys n c)) eqn:Erm.
  - destruct (s_ent (c_sch2 keys n c) k); cbn in H0; [inversion H0; subst e0; discriminate Hs|discriminate].
  - destruct (sch2_started_store k e0 H0 Hs) as [e [E1 E2]]. exists e. split; [exact E1|]. split; [exact E2|].
    destruct (live_slot_sched k e E1 E2) as [Hin [Hslot _]]. rewrite (rm_mem _ _ Hin Hslot) in Erm.
    destruct (c_bound n c (se_key e)); [reflexivity|discriminate].
Qed.

(* ---- the outcome of the evaluation, per slot ---- *)
Lemma ad_quiet : forall a, In a (c_ad keys n c x) -> a_sampled a = false.
Proof. intros a Ha. unfold c_ad in Ha. apply in_map_iff in Ha. destruct Ha as [j [<- _]]. reflexivity. Qed.

Lemma eval_outcome k :
  match s_ent s0 k with
  | None => s_ent (c_sch3 B keys n c x) k = None
  | Some e0 =>
      exists e', s_ent (c_sch3 B keys n c x) k = Some e' /\ e_started e' = e_started e0 /\
        e_next e' = (if c_inset keys n c x k then clamp_after t (c_nexts B keys n c x k) else e_next e0) /\
        (e_started e0 = true -> c_inset keys n c x k = (e_next e0 <=? t))
  end.
Proof.
  destruct sch2_facts as [HG [Hnow [Hd _]]].
  pose proof (do_eval_entry (c_rm keys n c) (c_ad keys n c x) (x_tk x) (x_full x) (c_nexts B keys n c x) (c_sch2 keys n c) k HG Hd ad_quiet) as H.
  cbn zeta in H. fold (c_sch3 B keys n c x) in H. fold (c_inset keys n c x) in H. rewrite Hnow in H.
  destruct (s_ent s0 k) as [e0|] eqn:E0; [|exact H].
  destruct H as [e' [H1 [H2 [H3 H4]]]]. exists e'. split; [exact H1|]. split; [exact H2|]. split; [exact H3|].
  intros Hs. rewrite H4, Hs, andb_true_r.
  destruct (e_next e0 <=? t) eqn:Ed; [|apply andb_false_r].
  rewrite andb_true_r. pose proof t_lt as HtM. fold t in HtM.
  apply (cand_due (c_rm keys n c) (c_ad keys n c x) (x_tk x) (x_full x) (c_sch2 keys n c) k e0 HG Hd E0 Hs); lia.
Qed.

(* ---- the value side: every key's cycle is the specification's key_step ---- *)
Notation n' := (node_cycle B keys n c x).

Lemma existsb_keys j : In j keys -> existsb (Z.eqb j) keys = true.
Proof. intros H. apply existsb_exists. exists j. split; [exact H|apply Z.eqb_refl]. Qed.

Lemma inset_continuing s e : n_store n s = Some e -> se_started e = true -> c_bound n c (se_key e) = true ->
  c_inset keys n c x s = any_mod (c_args n c (se_key e)) || wake_due (B (se_key e)) (se_inst e) t.
Proof.
  intros He Hs Hb. destruct (live_slot_sched s e He Hs) as [_ [_ [se2 [H2 [H3 [H4 H5]]]]]].
  pose proof (eval_outcome s) as Ho. rewrite (rec_continuing s e He Hs Hb), H2 in Ho.
  destruct Ho as [_ [_ [_ [_ Hi]]]]. rewrite (Hi H3), H5.
  pose proof t_lt as HtM. fold t in HtM. rewrite (wake_z_due _ _ t HtM).
  destruct (any_mod (c_args n c (se_key e))); cbn [orb]; [apply Z.leb_refl|reflexivity].
Qed.

Lemma inset_created j : In j (c_adk keys n c) -> c_inset keys n c x (x_alloc x j) = true.
Proof.
  intros Hj. pose proof (eval_outcome (x_alloc x j)) as Ho. rewrite (rec_created j Hj) in Ho.
  destruct Ho as [_ [_ [_ [_ Hi]]]]. rewrite (Hi eq_refl). cbn. apply Z.leb_refl.
Qed.

Lemma key_refines j : In j keys ->
  (nabs n' j, c_ev B keys n c x j) = key_step (B j) t (c_bc c j) j (nabs n j) (ops_on j (c_ops c)).
Proof.
  intros Hin. destruct HL as [HG [L1 [L2 [L3 [L4 L5]]]]].
  pose proof inset_continuing as Hic. pose proof inset_created as Hicr. unfold t in *.
  unfold nabs at 1. cbn [node_cycle n_vals n_slot n_store]. unfold c_slot', c_ev.
  destruct (n_slot n j) as [s|] eqn:Ej.
  - destruct (L1 j s Ej) as [_ [e [E1 [E2 E3]]]]. unfold nabs. rewrite Ej, E1. subst j.
    destruct (c_bound n c (se_key e)) eqn:Eb.
    + (* the key stays *)
      assert (Hrc : c_store_rc B keys n c x s = Some e).
      { unfold c_store_rc. rewrite (created_not_live s e E1 E3), E1, E3, Eb. reflexivity. }
      assert (Hf : c_first keys n c x s = false) by (unfold c_first; rewrite (created_not_live s e E1 E3); reflexivity).
      unfold c_res. rewrite Hrc, Hf. cbn [option_map].
      pose proof (refines_eval_partial (B (se_key e)) (c_t c) (c_bc c (se_key e)) e (n_vals n (se_key e)) (ops_on (se_key e) (c_ops c))
                    (c_inset keys n c x s) E3 Eb) as R.
      fold (c_nv n c (se_key e)) in R. fold (c_args n c (se_key e)) in R.
      rewrite (Hic s e E1 E3 Eb) in R |- *. specialize (R (fun H => H)).
      destruct (slot_eval _ _ _ _ _ e) as [e' ev]. cbn [fst snd]. symmetry. exact R.
    + (* the key left every dictionary *)
      pose proof (refines_remove_partial (B (se_key e)) (c_t c) (c_bc c (se_key e)) e (n_vals n (se_key e)) (ops_on (se_key e) (c_ops c)) E3 Eb) as R.
      fold (c_nv n c (se_key e)) in R. unfold slot_remove in R |- *. cbn [fst snd] in *. rewrite R. unfold abs_entry. cbn [se_started]. reflexivity.
  - unfold nabs. rewrite Ej. destruct (c_bound n c j) eqn:Eb.
    + (* the key appeared *)
      rewrite (existsb_keys j Hin). cbn [andb].
      assert (Hadk : In j (c_adk keys n c)) by (apply adk_in; auto).
      assert (Hrc : c_store_rc B keys n c x (x_alloc x j) = Some (slot_create (B j) j)).
      { unfold c_store_rc. rewrite (created_alloc j Hadk). reflexivity. }
      assert (Hf : c_first keys n c x (x_alloc x j) = true) by (unfold c_first; rewrite (created_alloc j Hadk); reflexivity).
      unfold c_res. rewrite Hrc, Hf, (Hicr j Hadk). cbn [option_map se_key slot_create].
      pose proof (refines_create_partial (B j) (c_t c) (c_bc c j) j (n_vals n j) (ops_on j (c_ops c)) None I Eb) as R.
      fold (c_nv n c j) in R. fold (c_args n c j) in R.
      destruct (slot_eval (B j) (c_t c) (c_args n c j) true true (slot_create (B j) j)) as [e' ev]. cbn [fst snd]. symmetry. exact R.
    + (* absent before and after *)
      unfold key_step, abs_entry. cbn [k_inst k_vals k_valid]. fold (c_nv n c j). unfold c_bound in Eb. rewrite Eb. reflexivity.
Qed.

(* ---- the link is re-established ---- *)
Lemma sch3_done : s_done (c_sch3 B keys n c x) = true.
Proof.
  destruct sch2_facts as [_ [_ [Hd _]]]. unfold c_sch3, do_eval. rewrite Hd.
  destruct (prepare _ _ _ _) as [s1 cc]. unfold finish.
  destruct (rest_part _ _); [reflexivity|]. match goal with |- context [psched ?w ?ss] => destruct (psched_fields w ss) as [_ [F2 _]] end.
  rewrite F2. reflexivity.
Qed.

Lemma store_rc_cases s e_rc : c_store_rc B keys n c x s = Some e_rc -> se_started e_rc = true ->
  (exists e, n_store n s = Some e /\ se_started e = true /\ c_bound n c (se_key e) = true /\ e_rc = e /\
             c_first keys n c x s = false) \/
  (exists j, In j (c_adk keys n c) /\ x_alloc x j = s /\ e_rc = slot_create (B j) j /\ c_first keys n c x s = true).
Proof.
  unfold c_store_rc, c_first. intros H Hs. pose proof (created_spec s) as Hc.
  destruct (c_created keys n c x s) as [j|].
  - right. exists j. inversion H. destruct Hc. auto.
  - left. destruct (n_store n s) as [e|] eqn:E; [|discriminate].
    destruct (se_started e && negb (c_bound n c (se_key e))) eqn:Eb.
    + inversion H. subst e_rc. discriminate Hs.
    + inversion H. subst e_rc. exists e. rewrite Hs in Eb. cbn in Eb.
      destruct (c_bound n c (se_key e)); [auto|discriminate].
Qed.

Lemma link_cycle : Link n'.
Proof.
  pose proof HL as HL0. destruct HL0 as [HG [L1 [L2 [L3 [L4 L5]]]]].
  destruct sch2_facts as [HG2 [Hnow2 [Hd2 _]]].
  destruct Hok as [_ [HtM _]].
  unfold Link. cbn [node_cycle n_sch n_store n_slot n_vals].
  split; [apply good_eval; exact HG2|].
  split; [|split; [|split; [|split]]].
  - (* key -> slot *)
    intros j s Hs. unfold c_slot' in Hs. destruct (n_slot n j) as [s1|] eqn:Ej.
    + destruct (c_bound n c j) eqn:Eb; [|discriminate]. inversion Hs. subst s1.
      destruct (L1 j s Ej) as [Hin [e [E1 [E2 E3]]]]. split; [exact Hin|]. subst j.
      assert (Hrc : c_store_rc B keys n c x s = Some e).
      { unfold c_store_rc. rewrite (created_not_live s e E1 E3), E1, E3, Eb. reflexivity. }
      unfold c_res. rewrite Hrc. cbn [option_map]. eexists. split; [reflexivity|].
      destruct (slot_eval_id (B (se_key e)) (c_t c) (c_args n c (se_key e)) (c_first keys n c x s) (c_inset keys n c x s) e) as [A1 A2].
      split; congruence.
    + destruct (c_bound n c j) eqn:Eb; [|discriminate]. destruct (existsb (Z.eqb j) keys) eqn:Ex; [|discriminate].
      cbn in Hs. inversion Hs. subst s.
      assert (Hin : In j keys). { apply existsb_exists in Ex. destruct Ex as [y [Hy Ey]]. assert (j = y) by lia. subst y. exact Hy. }
      split; [exact Hin|].
      assert (Hadk : In j (c_adk keys n c)) by (apply adk_in; auto).
      assert (Hrc : c_store_rc B keys n c x (x_alloc x j) = Some (slot_create (B j) j)).
      { unfold c_store_rc. rewrite (created_alloc j Hadk). reflexivity. }
      unfold c_res. rewrite Hrc. cbn [option_map]. eexists. split; [reflexivity|].
      destruct (slot_eval_id (B (se_key (slot_create (B j) j))) (c_t c) (c_args n c (se_key (slot_create (B j) j)))
                  (c_first keys n c x (x_alloc x j)) (c_inset keys n c x (x_alloc x j)) (slot_create (B j) j)) as [A1 A2].
      split; [rewrite A1|rewrite A2]; reflexivity.
  - (* slot -> key *)
    intros s e' He' Hs'. unfold c_res in He'. destruct (c_store_rc B keys n c x s) as [e_rc|] eqn:Hrc; [|discriminate].
    cbn [option_map] in He'. inversion He'. subst e'.
    destruct (slot_eval_id (B (se_key e_rc)) (c_t c) (c_args n c (se_key e_rc)) (c_first keys n c x s) (c_inset keys n c x s) e_rc) as [A1 A2].
    rewrite A1. rewrite A2 in Hs'.
    destruct (store_rc_cases s e_rc Hrc Hs') as [[e [E1 [E2 [E3 [E4 _]]]]]|[j [J1 [J2 [J3 _]]]]].
    + subst e_rc. unfold c_slot'. rewrite (L2 s e E1 E2), E3. reflexivity.
    + subst e_rc. cbn [se_key slot_create]. apply adk_in in J1. destruct J1 as [K1 [K2 K3]].
      unfold c_slot'. rewrite K2, K3, (existsb_keys j K1). cbn. congruence.
  - (* store -> scheduling entry, with the pending wake-up as its time *)
    intros s e' He' Hs'. unfold c_res in He'. destruct (c_store_rc B keys n c x s) as [e_rc|] eqn:Hrc; [|discriminate].
    cbn [option_map] in He'. inversion He'. subst e'.
    destruct (slot_eval_id (B (se_key e_rc)) (c_t c) (c_args n c (se_key e_rc)) (c_first keys n c x s) (c_inset keys n c x s) e_rc) as [A1 A2].
    rewrite A1. rewrite A2 in Hs'.
    pose proof (eval_outcome s) as Ho.
    assert (Hnx : c_nexts B keys n c x s =
                  wake_z (b_next (B (se_key e_rc)) (se_inst (fst (slot_eval (B (se_key e_rc)) (c_t c) (c_args n c (se_key e_rc)) (c_first keys n c x s) true e_rc))))).
    { unfold c_nexts. rewrite Hrc. reflexivity. }
    destruct (store_rc_cases s e_rc Hrc Hs') as [[e [E1 [E2 [E3 [E4 E5]]]]]|[j [J1 [J2 [J3 J4]]]]].
    + subst e_rc. destruct (live_slot_sched s e E1 E2) as [_ [_ [se2 [H2 [H3 [H4 H5]]]]]].
      rewrite (rec_continuing s e E1 E2 E3), H2 in Ho. destruct Ho as [ef [F1 [F2 [F3 F4]]]].
      exists ef. split; [exact F1|]. split; [congruence|].
      pose proof (inset_continuing s e E1 E2 E3) as Hi. rewrite E5 in *.
      destruct (c_inset keys n c x s) eqn:Ein.
      * rewrite F3, Hnx.
        rewrite (slot_eval_stepped (B (se_key e)) (c_t c) (c_args n c (se_key e)) false e E2 (eq_sym Hi)).
        destruct (stepped_wake (se_key e) (se_inst e) (mkBI (c_t c) (se_key e) false (c_args n c (se_key e))) HtM) as [W1 W2].
        cbn [bi_now] in W1. unfold t. split; [exact W1|rewrite W1; exact W2].
      * rewrite slot_eval_skipped, F3, H5.
        symmetry in Hi. apply orb_false_iff in Hi. destruct Hi as [Hi1 Hi2]. rewrite Hi1.
        split; [reflexivity|]. destruct (L3 s e E1 E2) as [se [_ [_ [S3 S4]]]]. rewrite <- S3. exact S4.
    + subst e_rc. rewrite <- J2 in *. rewrite (rec_created j J1) in Ho. destruct Ho as [ef [F1 [F2 [F3 F4]]]].
      exists ef. split; [exact F1|]. split; [exact F2|].
      rewrite (inset_created j J1) in *. rewrite J4 in *. cbn [se_key slot_create] in *.
      rewrite F3, Hnx.
      rewrite (slot_eval_stepped (B j) (c_t c) (c_args n c j) true (slot_create (B j) j) eq_refl eq_refl).
      destruct (stepped_wake j (se_inst (slot_create (B j) j)) (mkBI (c_t c) (se_key (slot_create (B j) j)) true (c_args n c j)) HtM) as [W1 W2].
      cbn [bi_now] in W1. unfold t. split; [exact W1|rewrite W1; exact W2].
  - (* scheduling entry -> store *)
    intros k se Hse Hst. pose proof (eval_outcome k) as Ho.
    destruct (s_ent s0 k) as [e0|] eqn:E0; [|congruence].
    destruct Ho as [ef [F1 [F2 _]]]. rewrite Hse in F1. inversion F1. subst ef.
    destruct (rec_other k e0 E0 ltac:(congruence)) as [[e [E1 [E2 E3]]]|[j [J1 J2]]].
    + assert (Hrc : c_store_rc B keys n c x k = Some e).
      { unfold c_store_rc. rewrite (created_not_live k e E1 E2), E1, E2, E3. reflexivity. }
      unfold c_res. rewrite Hrc. cbn [option_map]. eexists. split; [reflexivity|].
      destruct (slot_eval_id (B (se_key e)) (c_t c) (c_args n c (se_key e)) (c_first keys n c x k) (c_inset keys n c x k) e) as [_ A2]. congruence.
    + subst k. assert (Hrc : c_store_rc B keys n c x (x_alloc x j) = Some (slot_create (B j) j)).
      { unfold c_store_rc. rewrite (created_alloc j J1). reflexivity. }
      unfold c_res. rewrite Hrc. cbn [option_map]. eexists. split; [reflexivity|].
      destruct (slot_eval_id (B (se_key (slot_create (B j) j))) (c_t c) (c_args n c (se_key (slot_create (B j) j)))
                  (c_first keys n c x (x_alloc x j)) (c_inset keys n c x (x_alloc x j)) (slot_create (B j) j)) as [_ A2].
      rewrite A2. reflexivity.
  - (* live keys = keys bound in some dictionary *)
    intros j Hin. unfold c_slot'. rewrite <- any_bound_map. fold (c_bound n c j).
    destruct (n_slot n j); destruct (c_bound n c j); cbn; try reflexivity. rewrite (existsb_keys j Hin). reflexivity.
Qed.

(* ---- one cycle of the whole node = one cycle of the specification ---- *)
Definition spec_state (m : nstate S) : mstate S := map (fun j => (j, nabs m j)) keys.

Lemma cycle_refines :
  spec_state n' = next_state (cycle B (c_t c) (c_bc c) (c_ops c) (spec_state n)) /\
  map (fun j => (j, c_ev B keys n c x j)) keys = events (cycle B (c_t c) (c_bc c) (c_ops c) (spec_state n)).
Proof.
  unfold spec_state, cycle, next_state, events. rewrite !map_map. cbn [fst snd].
  split; apply map_ext_in; intros j Hj; pose proof (key_refines j Hj) as R; unfold t in R; rewrite <- R; reflexivity.
Qed.

(* ---- a cycle that passes the node by ---- *)
Lemma nabs_kinv j : In j keys -> kinv (nabs n j).
Proof.
  intros Hin. destruct HL as [_ [L1 [_ [_ [_ L5]]]]]. specialize (L5 j Hin). unfold nabs, kinv.
  destruct (n_slot n j) as [s|] eqn:Ej.
  - destruct (L1 j s Ej) as [_ [e [E1 [_ E3]]]]. rewrite E1. unfold abs_entry. rewrite E3. cbn [k_inst k_vals k_valid is_some] in *.
    split; [exact L5|auto].
  - unfold abs_entry. cbn [k_inst k_vals k_valid is_some] in *. split; [exact L5|discriminate].
Qed.

Lemma idle_key j : In j keys -> c_required keys n c = false ->
  key_step (B j) (c_t c) (c_bc c j) j (nabs n j) (ops_on j (c_ops c)) = (nabs n j, no_ev).
Proof.
  intros Hin Hreq. unfold c_required in Hreq. apply orb_false_iff in Hreq. destruct Hreq as [Hreq Hbc].
  apply orb_false_iff in Hreq. destruct Hreq as [Hps Hops].
  assert (Hnil : c_ops c = []) by (destruct (c_ops c); [reflexivity|discriminate]).
  assert (Hbcj : forall j', In j' keys -> any_mod (c_bc c j') = false).
  { intros j' Hj'. destruct (any_mod (c_bc c j')) eqn:E; [|reflexivity].
    assert (Hex : existsb (fun j0 => any_mod (c_bc c j0)) keys = true) by (apply existsb_exists; exists j'; auto). congruence. }
  rewrite Hnil. change (ops_on j []) with (@nil kop).
  apply untouched_cycle_identity; [apply nabs_kinv; exact Hin|apply Hbcj; exact Hin|].
  unfold nabs. destruct (n_slot n j) as [s|] eqn:Ej; [|exact I].
  destruct HL as [HG [L1 [_ [L3 _]]]]. destruct (L1 j s Ej) as [_ [e [E1 [E2 E3]]]]. rewrite E1. unfold abs_entry. rewrite E3.
  cbn [k_inst]. subst j. rewrite (wake_z_due _ _ (c_t c) t_lt).
  destruct (L3 s e E1 E3) as [se [S1 [S2 [S3 S4]]]]. rewrite <- S3.
  (* no pushes happened, so the parent's slot after the tick is the one before; it is not t, and it bounds e_next *)
  assert (Hpushed : c_pushed keys n c = []).
  { unfold c_pushed. assert (Hall : forall j', In j' keys -> any_mod (c_args n c j') = false).
    { intros j' Hj'. unfold c_args, c_nv. rewrite Hnil. change (ops_on j' []) with (@nil kop). rewrite new_vals_nil.
      assert (Hz : forall l : list (option Z),
                 existsb (fun p : option Z * bool => is_some (fst p) && snd p) (map (fun v : option Z => (v, false)) l) = false).
      { induction l as [|v r IH]; [reflexivity|]. cbn [map existsb fst snd]. rewrite IH, andb_false_r. reflexivity. }
      pose proof (Hbcj j' Hj') as Hb'. unfold any_mod in *. rewrite existsb_app, Hb', orb_false_r. apply Hz. }
    assert (Hfm : forall l : list Z, (forall k, In k l -> In k keys) ->
               flat_map (fun j0 => match n_slot n j0 with
                                   | Some s1 => if any_mod (c_args n c j0) then [s1] else []
                                   | None => [] end) l = []).
    { induction l as [|k r IH]; intros Hsub; [reflexivity|]. cbn [flat_map]. rewrite IH by (intros k' Hk'; apply Hsub; right; exact Hk').
      destruct (n_slot n k); [rewrite Hall by (apply Hsub; left; reflexivity)|]; reflexivity. }
    apply Hfm. auto. }
  unfold c_sch2 in Hps. rewrite Hpushed in Hps. cbn [fold_left] in Hps.
  destruct Hok as [Htick _]. unfold do_tick in Hps. rewrite Htick in Hps. cbn [s_pslot] in Hps.
  apply Z.leb_gt.
  destruct (Z_lt_le_dec (e_next se) MAX_DT) as [Hlt|Hge]; [|pose proof t_lt; lia].
  destruct HG as [HI _]. destruct (HI s se S1 S2 Hlt) as [_ [[P [HP1 HP2]] _]].
  unfold tick_ok in Htick. rewrite HP1 in Htick.
  assert (P = s_pslot (n_sch n)). { unfold pend in HP1. destruct (_ || _); inversion HP1; reflexivity. }
  lia.
Qed.

Lemma link_idle : Link (node_idle keys n c).
Proof.
  destruct HL as [HG [L1 [L2 [L3 [L4 L5]]]]]. destruct Hok as [Htick _].
  assert (He : s_ent (do_tick (c_t c) (n_sch n)) = s_ent (n_sch n)) by (unfold do_tick; rewrite Htick; reflexivity).
  unfold Link, node_idle. cbn [n_sch n_store n_slot n_vals]. rewrite He.
  split; [apply good_tick; exact HG|]. auto.
Qed.

Lemma idle_refines : c_required keys n c = false ->
  spec_state (node_idle keys n c) = next_state (cycle B (c_t c) (c_bc c) (c_ops c) (spec_state n)) /\
  map (fun j => (j, no_ev)) keys = events (cycle B (c_t c) (c_bc c) (c_ops c) (spec_state n)) /\
  has_set (c_ops c) = false.
Proof.
  intros Hreq. unfold spec_state, cycle, next_state, events. rewrite !map_map. cbn [fst snd].
  split; [|split].
  - apply map_ext_in. intros j Hj. rewrite (idle_key j Hj Hreq). reflexivity.
  - apply map_ext_in. intros j Hj. rewrite (idle_key j Hj Hreq). reflexivity.
  - unfold c_required in Hreq. apply orb_false_iff in Hreq. destruct Hreq as [Hreq _]. apply orb_false_iff in Hreq.
    destruct Hreq as [_ Hops]. destruct (c_ops c); [reflexivity|discriminate].
Qed.

End OneCycle.

(* ---- the whole run ---- *)
Definition Rel (m : nstate S) (r : run_state S) : Prop :=
  Link m /\ r_st r = spec_state m /\ r_primed r = n_primed m /\ r_log r = n_log m.

Lemma rel_init ndict : Rel (ninit ndict) (start_state ndict keys).
Proof.
  split; [|split; [|split]]; try reflexivity.
  unfold Link, ninit. cbn [n_sch n_store n_slot n_vals].
  split; [exact good_init|].
  split; [intros j s H; discriminate H|]. split; [intros s e H; discriminate H|].
  split; [intros s e H; discriminate H|]. split; [intros s se H; discriminate H|].
  intros j _. cbn [is_some]. unfold bound_somewhere. induction ndict; cbn; auto.
Qed.

Lemma rel_cycle m r cx : Rel m r -> step_ok keys m (fst cx) (snd cx) ->
  Rel (node_step B keys m (fst cx) (snd cx)) (run_cycle B r (fst cx)).
Proof.
  intros [HLk [Hst [Hpr Hlog]]] Hok'. destruct cx as [c x]. cbn [fst snd] in *. unfold node_step.
  destruct (x_force x || c_required keys m c) eqn:Ereq.
  - destruct (cycle_refines m c x HLk Hok') as [C1 C2].
    split; [apply link_cycle; assumption|].
    unfold run_cycle. cbn [r_st r_primed r_log node_cycle n_primed n_log]. rewrite Hst, Hpr, Hlog, <- C1, <- C2.
    split; [reflexivity|]. split; reflexivity.
  - apply orb_false_iff in Ereq. destruct Ereq as [_ Ereq].
    destruct (idle_refines m c x HLk Hok' Ereq) as [C1 [C2 C3]].
    split; [apply (link_idle m c x HLk Hok')|].
    unfold run_cycle. cbn [r_st r_primed r_log node_idle n_primed n_log]. rewrite Hst, Hpr, Hlog, <- C1, <- C2, C3.
    rewrite andb_false_r, orb_false_r. split; [reflexivity|]. split; reflexivity.
Qed.

Lemma rel_run : forall h m r, Rel m r -> run_ok B keys m h ->
  Rel (node_run B keys m h) (run B r (map fst h)).
Proof.
  induction h as [|cx h IH]; intros m r HR Hok'; [exact HR|].
  cbn [run_ok] in Hok'. destruct Hok' as [H1 H2]. cbn [node_run run fold_left map].
  apply IH; [apply rel_cycle; assumption|exact H2].
Qed.

(* map_refines_spec: the log of the whole-node mirror - per cycle the time, the priming flag and every key's
   start / stop / removal / output / error events, i.e. the output dictionary stream - is the specification's *)
Lemma node_refines_spec ndict h :
  run_ok B keys (ninit ndict) h ->
  n_log (node_run B keys (ninit ndict) h) = r_log (run B (start_state ndict keys) (map fst h)) /\
  Link (node_run B keys (ninit ndict) h).
Proof.
  intros Hok'. destruct (rel_run h (ninit ndict) (start_state ndict keys) (rel_init ndict) Hok') as [A [_ [_ Bq]]].
  split; [symmetry; exact Bq|exact A].
Qed.

(* the printed observation (output dictionary delta and value per tick, lifecycle lines) is a function of the log *)
Lemma node_output_stream ndict h usekey counts :
  run_ok B keys (ninit ndict) h ->
  print_log usekey counts (rev (n_log (node_run B keys (ninit ndict) h))) [] [] =
  print_log usekey counts (rev (r_log (run B (start_state ndict keys) (map fst h)))) [] [].
Proof. intros H. destruct (node_refines_spec ndict h H) as [E _]. rewrite E. reflexivity. Qed.

End NodeFacts.

(* a body with a real self-wake-up that satisfies the hypothesis of the refinement theorem: every input tick
   (re)arms a wake-up 3 later (capped inside the run window); the wake-up emits the last input + 500 *)
Definition tbody : body (Z * option Z) :=
  mkBody (0, None)
         (fun s bi =>
            let woke := match snd s with Some w => w <=? bi_now bi | None => false end in
            let pend := if woke then None else option_map (fun w => Z.min w MAX_ET) (snd s) in
            match nth 0 (bi_args bi) (None, false) with
            | (Some v, true) => ((v, Some (Z.min (bi_now bi + 3) MAX_ET)), if woke then BOut (fst s + 500) else BNone)
            | _ => ((fst s, pend), if woke then BOut (fst s + 500) else BNone)
            end)
         (fun s => snd s).

Lemma tbody_wake : forall (j : Z) s bi, bi_now bi < MAX_ET ->
  match b_next tbody (fst (b_step tbody s bi)) with Some w => bi_now bi < w /\ w < MAX_DT | None => True end.
Proof.
  intros j [v p] bi Ht. cbn [tbody b_next b_step fst snd]. unfold MAX_ET in *.
  destruct (nth 0 (bi_args bi) (None, false)) as [[a|] [|]]; cbn [fst snd]; try lia;
    (destruct p as [w|]; [|exact I]; destruct (w <=? bi_now bi) eqn:E; [exact I|]; cbn [option_map]; lia).
Qed.
