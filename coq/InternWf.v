(* InternWf.v — the rank graph of a wired state is well formed (all edge endpoints are instances),
   so the run-time check [rg_wfb] of the acceptor can never fail on a model-built graph and the
   hypothesis [rg_wf g] of the compile theorems is always met. *)
Require Import Base Rank RankLemmas RankFacts Intern InternFacts.
From Coq Require Import Arith Permutation Lia.
Local Open Scope nat_scope.

Fixpoint peers (s : src) : list nat :=
  match s with
  | SPeer n _ _ => [n]
  | SStruct cs => flat_map peers cs
  | _ => []
  end.

Definition inputs_peers (ins : list input) : list nat := flat_map (fun i => peers (in_src i)) ins.

Record WF (w : wst) : Prop := {
  wf_env : forall l i, alookup l (w_env w) = Some i -> i < length (w_insts w);
  wf_tab : forall k i, In (k, i) (w_tab w) -> i < length (w_insts w);
  wf_ins : forall i it, nth_error (w_insts w) i = Some it ->
           forall n, In n (inputs_peers (i_ins it)) -> n < length (w_insts w);
  wf_binds : forall h i q, alookup h (w_binds w) = Some (i, q) -> i < length (w_insts w);
  wf_deps : forall a b, In (a, b) (w_deps w) -> a < length (w_insts w) /\ b < length (w_insts w)
}.

Lemma wf_init : WF w0.
Proof. constructor; simpl; try discriminate; try tauto. intros [|i] it; discriminate. Qed.

Lemma mapM_in {A B} (f : A -> option B) cs l : mapM f cs = Some l ->
  forall y, In y l -> exists x, In x cs /\ f x = Some y.
Proof.
  revert l. induction cs as [|x r IH]; simpl; intros l H y Hy.
  - injection H as <-. destruct Hy.
  - destruct (f x) as [a|] eqn:Ea; [|discriminate]. destruct (mapM f r) as [b|] eqn:Eb; [|discriminate].
    injection H as <-. destruct Hy as [<-|Hy].
    + exists x. auto.
    + destruct (IH b eq_refl y Hy) as (x' & Hx' & Hf). exists x'. auto.
Qed.

Lemma resolve_peers e p s : forall r, resolve e p s = Some r ->
  forall n, In n (peers r) -> exists l, alookup l e = Some n.
Proof.
  induction s as [m q k|h q| |cs IH] using src_ind'; intros r H n Hn.
  - simpl in H. destruct (alookup m e) as [i|] eqn:E; [|discriminate]. injection H as <-.
    simpl in Hn. destruct Hn as [<-|[]]. eauto.
  - simpl in H. destruct (memb h p); [|discriminate]. injection H as <-. destruct Hn.
  - injection H as <-. destruct Hn.
  - rewrite resolve_struct in H. destruct (mapM (resolve e p) cs) as [cs'|] eqn:E; [|discriminate].
    injection H as <-. simpl in Hn. apply in_flat_map in Hn. destruct Hn as (y & Hy & Hny).
    destruct (mapM_in _ _ _ E y Hy) as (x & Hx & Hf).
    rewrite Forall_forall in IH. eapply IH; eauto.
Qed.

Lemma resolve_inputs_peers e p ins : forall rins, resolve_inputs e p ins = Some rins ->
  forall n, In n (inputs_peers rins) -> exists l, alookup l e = Some n.
Proof.
  induction ins as [|i r IH]; simpl; intros rins H n Hn.
  - injection H as <-. destruct Hn.
  - destruct (resolve e p (in_src i)) as [s|] eqn:Es; [|discriminate].
    destruct (resolve_inputs e p r) as [r'|] eqn:Er; [|discriminate].
    injection H as <-. unfold inputs_peers in Hn. simpl in Hn. apply in_app_iff in Hn. destruct Hn as [Hn|Hn].
    + eapply resolve_peers; eauto.
    + eapply IH; eauto.
Qed.

Lemma wf_step sh w l s w' : WF w -> wire_stmt sh w l s = Ok w' -> WF w'.
Proof.
  intros F Hw. destruct s as [d ins| |h l' p|a b|pa la|pa la rc]; cbn [wire_stmt] in Hw.
  - unfold wire_node, wire_node_gen in Hw.
    destruct (resolve_inputs (w_env w) (w_phs w) ins) as [rins0|] eqn:R; [|discriminate].
    cbv zeta in Hw. set (rins := eff_inputs d rins0) in *.
    assert (Hpe : inputs_peers rins = inputs_peers rins0).
    { unfold rins, eff_inputs. destruct (nd_uniq d); auto. unfold inputs_peers.
      clear. induction rins0 as [|x r IH]; simpl; auto. rewrite IH. reflexivity. }
    destruct (all_passive rins); [discriminate|].
    destruct (if sh && interns d then tab_find (make_key d rins) (w_tab w) else None) as [i|] eqn:T.
    + injection Hw as <-.
      assert (Hi : i < length (w_insts w)).
      { destruct (sh && interns d); [|discriminate]. apply tab_find_some in T. destruct T as (k' & Hin & _).
        eapply wf_tab; eauto. }
      constructor; cbn [w_insts w_tab w_env w_phs w_binds w_deps];
        [ | exact (wf_tab _ F) | exact (wf_ins _ F) | exact (wf_binds _ F) | exact (wf_deps _ F)].
      intros l0 i0. rewrite alookup_cons. destruct (l =? l0); [intros H; injection H as <-; exact Hi | apply (wf_env _ F)].
    + injection Hw as <-.
      constructor; cbn [w_insts w_tab w_env w_phs w_binds w_deps]; rewrite app_length; simpl.
      * intros l0 i0. destruct (l =? l0).
        -- intros H. injection H as <-. lia.
        -- intros H. pose proof (wf_env _ F l0 i0 H). lia.
      * intros k i0 Hin. destruct (interns d).
        -- destruct Hin as [Hin|Hin]; [injection Hin as _ <-; lia | pose proof (wf_tab _ F k i0 Hin); lia].
        -- pose proof (wf_tab _ F k i0 Hin). lia.
      * intros i0 it Hn n Hin.
        destruct (Nat.lt_ge_cases i0 (length (w_insts w))) as [Hlt|Hge].
        -- rewrite nth_error_app1 in Hn by exact Hlt. pose proof (wf_ins _ F i0 it Hn n Hin). lia.
        -- rewrite nth_error_app2 in Hn by exact Hge.
           destruct (i0 - length (w_insts w)) as [|j]; simpl in Hn; [|destruct j; discriminate].
           injection Hn as <-. simpl in Hin. rewrite Hpe in Hin.
           destruct (resolve_inputs_peers _ _ _ _ R n Hin) as (l1 & Hl1).
           pose proof (wf_env _ F l1 n Hl1). lia.
      * intros h i0 q H. pose proof (wf_binds _ F h i0 q H). lia.
      * intros a b H. pose proof (wf_deps _ F a b H). lia.
  - injection Hw as <-. constructor; cbn [w_insts w_tab w_env w_phs w_binds w_deps];
      [exact (wf_env _ F) | exact (wf_tab _ F) | exact (wf_ins _ F) | exact (wf_binds _ F) | exact (wf_deps _ F)].
  - destruct (memb h (w_phs w)); [|discriminate].
    destruct (alookup l' (w_env w)) as [i|] eqn:El; [|discriminate].
    destruct (alookup h (w_binds w)); [discriminate|]. injection Hw as <-.
    constructor; cbn [w_insts w_tab w_env w_phs w_binds w_deps];
      [exact (wf_env _ F) | exact (wf_tab _ F) | exact (wf_ins _ F) | | exact (wf_deps _ F)].
    intros h0 i0 q. rewrite alookup_cons. destruct (h =? h0).
    + intros H. injection H as <- _. eapply wf_env; eauto.
    + apply (wf_binds _ F).
  - destruct (alookup a (w_env w)) as [ia|] eqn:Ea; [|discriminate].
    destruct (alookup b (w_env w)) as [ib|] eqn:Eb; [|discriminate].
    destruct (ia =? ib); [discriminate|].
    destruct (existsb (pair_eqb (ia, ib)) (w_deps w)).
    + injection Hw as <-. exact F.
    + injection Hw as <-. constructor; cbn [w_insts w_tab w_env w_phs w_binds w_deps];
        [exact (wf_env _ F) | exact (wf_tab _ F) | exact (wf_ins _ F) | exact (wf_binds _ F) | ].
      intros x y Hin. apply in_app_iff in Hin. destruct Hin as [Hin|[Hin|[]]].
      * eapply wf_deps; eauto.
      * injection Hin as <- <-. split; eapply wf_env; eauto.
  - destruct (alookup la (w_env w)); [|discriminate]. injection Hw as <-. exact F.
  - destruct (alookup la (w_env w)); [|discriminate]. injection Hw as <-. exact F.
Qed.

Lemma wf_wire_from sh prog : forall order w w', WF w -> wire_from sh prog order w = Ok w' -> WF w'.
Proof.
  induction order as [|l r IH]; simpl; intros w w' F H.
  - injection H as <-. exact F.
  - destruct (nth_error prog l) as [s|]; [|discriminate].
    destruct (wire_stmt sh w l s) as [w1|c] eqn:E; [|discriminate].
    eapply IH; [eapply wf_step; eauto | exact H].
Qed.

Lemma wf_wire_prog sh prog order w : wire_prog sh prog order = Ok w -> WF w.
Proof. apply wf_wire_from. exact wf_init. Qed.

(* ---- the rank graph *)
Lemma producers_struct binds cs :
  producers binds (SStruct cs) =
  match mapM (producers binds) cs with Some ls => Some (concat ls) | None => None end.
Proof.
  simpl.
  match goal with |- ?g cs = _ => assert (E : forall xs, g xs = match mapM (producers binds) xs with Some ls => Some (concat ls) | None => None end) end.
  { induction xs as [|x r IH]; simpl; [reflexivity|]. rewrite IH.
    destruct (producers binds x); [|reflexivity]. destruct (mapM (producers binds) r); reflexivity. }
  apply E.
Qed.

Lemma producers_bound binds s : forall ps, producers binds s = Some ps ->
  forall p, In p ps -> In p (peers s) \/ exists h q, alookup h binds = Some (p, q).
Proof.
  induction s as [m q k|h q| |cs IH] using src_ind'; intros ps H p Hp.
  - simpl in H. injection H as <-. destruct Hp as [<-|[]]. left; simpl; auto.
  - simpl in H. destruct (alookup h binds) as [[i q0]|] eqn:E; [|discriminate]. injection H as <-.
    destruct Hp as [<-|[]]. right. eauto.
  - simpl in H. injection H as <-. destruct Hp.
  - rewrite producers_struct in H. destruct (mapM (producers binds) cs) as [ls|] eqn:E; [|discriminate].
    injection H as <-. apply in_concat in Hp. destruct Hp as (l & Hl & Hpl).
    destruct (mapM_in _ _ _ E l Hl) as (x & Hx & Hf).
    rewrite Forall_forall in IH. destruct (IH x Hx l Hf p Hpl) as [Hpe|Hb]; [|right; exact Hb].
    left. simpl. apply in_flat_map. exists x. auto.
Qed.

Lemma input_edges_bound binds c ins : forall es, input_edges binds c ins = Some es ->
  forall p c', In (p, c') es -> c' = c /\ (In p (inputs_peers ins) \/ exists h q, alookup h binds = Some (p, q)).
Proof.
  induction ins as [|i r IH]; simpl; intros es H p c' Hin.
  - injection H as <-. destruct Hin.
  - destruct (in_rank i).
    + destruct (producers binds (in_src i)) as [ps|] eqn:Ep; [|discriminate].
      destruct (input_edges binds c r) as [es'|] eqn:Er; [|discriminate].
      injection H as <-. apply in_app_iff in Hin. destruct Hin as [Hin|Hin].
      * apply in_map_iff in Hin. destruct Hin as (x & Hx & Hxp). injection Hx as <- <-. split; auto.
        destruct (producers_bound binds _ ps Ep x Hxp) as [A|B]; [left | right; exact B].
        unfold inputs_peers. simpl. apply in_app_iff. left; exact A.
      * destruct (IH es' eq_refl p c' Hin) as [A [B|B]]; split; auto.
        left. unfold inputs_peers. simpl. apply in_app_iff. right; exact B.
    + destruct (IH es H p c' Hin) as [A [B|B]]; split; auto.
      left. unfold inputs_peers. simpl. apply in_app_iff. right; exact B.
Qed.

Lemma rank_edges_bound w : WF w -> forall insts c es,
  (forall j it, nth_error insts j = Some it -> nth_error (w_insts w) (c + j) = Some it) ->
  rank_edges_from w c insts = Some es ->
  forall p c', In (p, c') es -> p < length (w_insts w) /\ c' < length (w_insts w).
Proof.
  intros F. induction insts as [|it r IH]; simpl; intros c es Hsub H p c' Hin.
  - injection H as <-. destruct Hin.
  - destruct (input_edges (w_binds w) c (i_ins it)) as [a|] eqn:Ea; [|discriminate].
    destruct (rank_edges_from w (S c) r) as [b|] eqn:Eb; [|discriminate].
    injection H as <-.
    assert (Hc : nth_error (w_insts w) c = Some it) by (rewrite <- (Nat.add_0_r c); apply Hsub; reflexivity).
    assert (Hcl : c < length (w_insts w)) by (apply nth_error_Some; congruence).
    rewrite !in_app_iff in Hin. destruct Hin as [Hin|[Hin|Hin]].
    + destruct (input_edges_bound _ _ _ a Ea p c' Hin) as [-> [A|(h & q & B)]]; split; auto.
      * eapply wf_ins; eauto.
      * eapply wf_binds; eauto.
    + unfold dep_edges in Hin. apply in_map_iff in Hin. destruct Hin as ([x y] & Hxy & Hf). simpl in Hxy.
      injection Hxy as <- <-. apply filter_In in Hf. destruct Hf as [Hf _]. split; auto.
      eapply wf_deps; eauto.
    + eapply (IH (S c) b); eauto. intros j it' Hj. replace (S c + j) with (c + S j) by lia. apply Hsub. exact Hj.
Qed.

Lemma rgraph_of_wf w g : WF w -> rgraph_of w = Some g -> rg_wf g.
Proof.
  intros F H. unfold rgraph_of in H. destruct (rank_edges_from w 0 (w_insts w)) as [es|] eqn:E; [|discriminate].
  injection H as <-. split; simpl.
  - apply map_length.
  - intros p c Hin. eapply (rank_edges_bound w F (w_insts w) 0 es); eauto.
Qed.

(* the compile theorems without the well-formedness hypothesis *)
(* ---- the service rank contract only adds dependencies between existing instances *)
Definition svc_ok (n : nat) (s : svc) : Prop :=
  (forall p i, In (p, i) (s_anchors s) -> i < n) /\ (forall p i rc, In (p, i, rc) (s_clients s) -> i < n).

Lemma alookup_in {B} k (l : list (nat * B)) v : alookup k l = Some v -> In (k, v) l.
Proof.
  induction l as [|[k' v'] r IH]; simpl; [discriminate|]. destruct (k' =? k) eqn:E.
  - apply Nat.eqb_eq in E. subst. intros H. injection H as ->. left; reflexivity.
  - intros H. right. apply IH; exact H.
Qed.

Lemma collect_svc_ok prog env n : (forall l i, alookup l env = Some i -> i < n) ->
  forall order s s', svc_ok n s -> collect_svc prog order env s = Ok s' -> svc_ok n s'.
Proof.
  intros He. induction order as [|l r IH]; simpl; intros s s' Hs H.
  - injection H as <-. exact Hs.
  - destruct (nth_error prog l) as [[d ins| |h l' q|a b|p l'|p l' rc]|]; try (eapply IH; eauto; fail).
    + destruct (alookup l' env) as [i|] eqn:El; [|discriminate].
      destruct (alookup p (s_anchors s)) as [j|].
      * destruct (i =? j); [eapply IH; eauto | discriminate].
      * eapply IH; [|exact H]. destruct Hs as [Ha Hc]. split; simpl; auto.
        intros p0 i0 Hin. apply in_app_iff in Hin. destruct Hin as [Hin|[Hin|[]]]; [eapply Ha; eauto|].
        injection Hin as <- <-. eapply He; eauto.
    + destruct (alookup l' env) as [i|] eqn:El; [|discriminate].
      eapply IH; [|exact H]. destruct Hs as [Ha Hc]. split; simpl; auto.
      intros p0 i0 rc0 Hin. apply in_app_iff in Hin. destruct Hin as [Hin|[Hin|[]]]; [eapply Hc; eauto|].
      injection Hin as <- <- <-. eapply He; eauto.
Qed.

Lemma apply_svc_bound n anchors clients :
  (forall p i, In (p, i) anchors -> i < n) -> (forall p i rc, In (p, i, rc) clients -> i < n) ->
  forall deps, (forall a b, In (a, b) deps -> a < n /\ b < n) ->
  forall a b, In (a, b) (apply_svc anchors clients deps) -> a < n /\ b < n.
Proof.
  intros Ha. induction clients as [|[[p c] rc] r IH]; simpl; intros Hc deps Hd a b Hin; [eapply Hd; eauto|].
  assert (Hc' : forall p0 i rc0, In (p0, i, rc0) r -> i < n) by (intros; eapply Hc; right; eauto).
  assert (Hcn : c < n) by (eapply Hc; left; reflexivity).
  destruct (alookup p anchors) as [an|] eqn:E; [|eapply IH; eauto].
  destruct (an =? c); [eapply IH; eauto|].
  assert (Han : an < n) by (apply alookup_in in E; eapply Ha; eauto).
  eapply (IH Hc' (add_dep deps (if rc then (c, an) else (an, c)))); [|exact Hin].
  intros x y Hxy. unfold add_dep in Hxy. destruct (existsb _ deps); [eapply Hd; eauto|].
  apply in_app_iff in Hxy. destruct Hxy as [Hxy|[Hxy|[]]]; [eapply Hd; eauto|].
  destruct rc; injection Hxy as <- <-; auto.
Qed.

Lemma wf_finalize prog order w s : WF w -> collect_svc prog order (w_env w) svc0 = Ok s -> WF (finalize w s).
Proof.
  intros F H.
  assert (Hs : svc_ok (length (w_insts w)) s).
  { eapply (collect_svc_ok prog (w_env w) _ (wf_env _ F) order svc0 s); [|exact H].
    split; simpl; intros; tauto. }
  destruct Hs as [Ha Hc].
  constructor; cbn [finalize w_insts w_tab w_env w_phs w_binds w_deps];
    [exact (wf_env _ F) | exact (wf_tab _ F) | exact (wf_ins _ F) | exact (wf_binds _ F) | ].
  apply (apply_svc_bound _ _ _ Ha Hc). exact (wf_deps _ F).
Qed.

Lemma compile_ranked' prog order w g o es :
  compile prog order = Built w g o es -> kahn g = KOk o /\ is_ranking g o.
Proof.
  intros H. apply (compile_ranked prog order w g o es H).
  unfold compile in H. destruct (wire_prog true prog order) as [w'|c] eqn:Ew; [|discriminate].
  destruct (collect_svc prog order (w_env w') svc0) as [sv|c] eqn:Es; [|discriminate].
  unfold finish in H. destruct (rgraph_of (finalize w' sv)) as [g'|] eqn:Eg; [|discriminate].
  destruct (kahn g'); try discriminate. destruct (emit_from (finalize w' sv) 0 (w_insts (finalize w' sv))); [|discriminate].
  injection H as <- <- _ _. apply (rgraph_of_wf (finalize w' sv) g'); auto.
  eapply wf_finalize; eauto. apply (wf_wire_prog true prog order w' Ew).
Qed.

Lemma compile_rejects_cycle' prog order w sv g :
  wire_prog true prog order = Ok w -> collect_svc prog order (w_env w) svc0 = Ok sv ->
  rgraph_of (finalize w sv) = Some g ->
  (compile prog order = Rejected E_CYCLE <-> cyclic g /\ ~ has_push_dep g).
Proof.
  intros Hw Hs Hg. apply (compile_rejects_cycle prog order w sv Hw Hs g Hg). apply (rgraph_of_wf (finalize w sv) g); auto.
  eapply wf_finalize; eauto. apply (wf_wire_prog true prog order w Hw).
Qed.

(* ---- the service rank contract reaches the rank graph: every client is ordered against its anchor *)
Lemma add_dep_mono deps pr x : In x deps -> In x (add_dep deps pr).
Proof. unfold add_dep. destruct (existsb _ deps); auto. intros H. apply in_app_iff. left; exact H. Qed.

Lemma add_dep_has deps pr : In pr (add_dep deps pr).
Proof.
  unfold add_dep. destruct (existsb (pair_eqb pr) deps) eqn:E.
  - apply existsb_exists in E. destruct E as ([x y] & Hin & He). unfold pair_eqb in He. simpl in He.
    apply andb_true_iff in He. destruct He as [H1 H2]. apply Nat.eqb_eq in H1, H2. destruct pr as [u v]. simpl in *. subst. exact Hin.
  - apply in_app_iff. right. left. reflexivity.
Qed.

Lemma apply_svc_mono anchors clients : forall deps x, In x deps -> In x (apply_svc anchors clients deps).
Proof.
  induction clients as [|[[p c] rc] r IH]; simpl; intros deps x H; auto.
  destruct (alookup p anchors) as [a|]; auto. destruct (a =? c); auto. apply IH. apply add_dep_mono. exact H.
Qed.

Lemma apply_svc_has anchors (clients : list (nat * nat * bool)) : forall deps p c (rc : bool) a,
  In (p, c, rc) clients -> alookup p anchors = Some a -> a <> c ->
  In (if rc then (c, a) else (a, c)) (apply_svc anchors clients deps).
Proof.
  induction clients as [|[[p0 c0] rc0] r IH]; simpl; intros deps p c rc a Hin Ha Hne; [destruct Hin|].
  destruct Hin as [Hin|Hin].
  - injection Hin as -> -> ->. rewrite Ha. destruct (a =? c) eqn:E; [apply Nat.eqb_eq in E; congruence|].
    apply apply_svc_mono. apply add_dep_has.
  - destruct (alookup p0 anchors) as [a0|]; [|eapply IH; eauto]. destruct (a0 =? c0); eapply IH; eauto.
Qed.

Lemma rank_edges_from_deps w : forall insts c es, rank_edges_from w c insts = Some es ->
  forall j a b, j < length insts -> In (a, b) (w_deps w) -> a = c + j -> In (b, a) es.
Proof.
  induction insts as [|it r IH]; simpl; intros c es H j a b Hj Hin Ha; [lia|].
  destruct (input_edges (w_binds w) c (i_ins it)) as [x|]; [|discriminate].
  destruct (rank_edges_from w (S c) r) as [y|] eqn:Er; [|discriminate].
  injection H as <-. rewrite !in_app_iff. destruct j as [|j].
  - right; left. unfold dep_edges. apply in_map_iff. exists (a, b). split; [simpl; f_equal; lia|].
    apply filter_In. split; auto. simpl. apply Nat.eqb_eq. lia.
  - right; right. eapply (IH (S c) y Er j); eauto; lia.
Qed.

(* rank edges are (producer, consumer): a receiving client comes after its anchor, a sending client before *)
Lemma service_edges_ranked prog order w sv g :
  wire_prog true prog order = Ok w -> collect_svc prog order (w_env w) svc0 = Ok sv ->
  rgraph_of (finalize w sv) = Some g ->
  forall p c rc a, In (p, c, rc) (s_clients sv) -> alookup p (s_anchors sv) = Some a -> a <> c ->
  In (if rc then (a, c) else (c, a)) (rg_edges g).
Proof.
  intros Hw Hs Hg p c rc a Hin Ha Hne.
  pose proof (wf_wire_prog true prog order w Hw) as F.
  assert (Hok : svc_ok (length (w_insts w)) sv).
  { eapply (collect_svc_ok prog (w_env w) _ (wf_env _ F) order svc0 sv); [|exact Hs]. split; simpl; intros; tauto. }
  destruct Hok as [Hoa Hoc].
  pose proof (apply_svc_has (s_anchors sv) (s_clients sv) (w_deps w) p c rc a Hin Ha Hne) as Hd.
  unfold rgraph_of in Hg. destruct (rank_edges_from (finalize w sv) 0 (w_insts (finalize w sv))) as [es|] eqn:E; [|discriminate].
  injection Hg as <-. simpl.
  assert (Hc : c < length (w_insts w)) by (eapply Hoc; eauto).
  assert (Han : a < length (w_insts w)) by (apply alookup_in in Ha; eapply Hoa; eauto).
  destruct rc.
  - apply (rank_edges_from_deps (finalize w sv) _ 0 es E c c a); auto.
  - apply (rank_edges_from_deps (finalize w sv) _ 0 es E a a c); auto.
Qed.
