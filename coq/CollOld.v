(* CollOld.v — the TSD insert rule of hgraph BEFORE the repair of KF-tsd-set-erase-set-C05 (history).
   Identical to Coll.d_insert_key except that a resurrected child that was already modified in the
   current cycle is NOT re-marked as modified.  Kept only so that the refutation witness of the old
   rule stays checkable (Props/C05.v, tsd_value_step_old_rule_refuted). *)
Require Import Base Coll.

Definition d_insert_key_old (t k : Z) (s : tsd) : nat * bool * tsd :=
  let s1 := d_prepare t s in
  let '(r, ks') := k_insert k (d_ks s1) in
  let i := ir_slot r in
  let s2 := d_ensure (mkD ks' (d_ch s1) (d_add s1) (d_rem s1) (d_mod s1) (d_pub s1) (d_dt s1) (d_lmt s1) (d_kslmt s1)) in
  let s3 := if ir_constructed r
            then mkD (d_ks s2) (set_nth i child0 (d_ch s2)) (d_add s2) (d_rem s2) (d_mod s2) (d_pub s2) (d_dt s2) (d_lmt s2) (d_kslmt s2)
            else s2 in
  if negb (ir_inserted r) then (i, false, s3)
  else
    let s4 := if bit i (d_rem s3)
              then d_set_bits s3 (d_add s3) (set_nth i false (d_rem s3)) (d_mod s3) (set_nth i true (d_pub s3))
              else if c_valid (child_at s3 i)
                   then d_set_bits s3 (set_nth i true (d_add s3)) (d_rem s3) (d_mod s3) (set_nth i true (d_pub s3))
                   else s3 in
    (i, true, mkD (d_ks s4) (d_ch s4) (d_add s4) (d_rem s4) (d_mod s4) (d_pub s4) (d_dt s4) (d_lmt s4) (rec_mod t (d_kslmt s4))).

Definition tsd_at_old (t k : Z) (s : tsd) : nat * tsd :=
  let '(i, ch, s1) := d_insert_key_old t k s in (i, if ch then d_mark t s1 else s1).
Definition tsd_set_old (t k v : Z) (s : tsd) : tsd :=
  let '(i, s1) := tsd_at_old t k s in tsd_child_write t i v s1.
Definition tsd_op_old (t : Z) (o : dop) (s : tsd) : Z * tsd :=
  match o with
  | DSet k v => (0, tsd_set_old t k v s)
  | DCreate k => let '(i, s') := tsd_at_old t k s in (zn i, s')
  | _ => tsd_op t o s
  end.
Definition tsd_cycle_old (t : Z) (ops : list dop) (s : tsd) : tsd :=
  fold_left (fun st o => snd (tsd_op_old t o st)) ops s.
