(* Props/C10.v — property C10: map_ runs one isolated instance per key and mirrors the key set.
   Statements only; every proof is one [exact].
   LEVEL (DESIGN.md "proof, partial"):
     PROVED   of the specification model MapSpec, for every body family, key universe and history:
              map_keyset_mirrors, valid_elements_have_output, map_key_isolated, map_key_runs_alone,
              other_keys_invisible, readd_is_fresh.
     PROVED   of the mirror model MapSched (map_node.cpp's child schedule queue), for every sequence of
              ticks, child schedules, erases, key removals / additions / slot reuse and child behaviours:
              map_no_child_wake_lost, owner_cannot_skip_child_time, due_child_is_in_evaluation_set.
     PROVED   refinement of the WHOLE-NODE mirror MapNode (slot store of MapEval entries + MapSched scheduling,
              the evaluation set taken from MapSched, not assumed) to MapSpec, for every body family whose due
              wake-ups are consumed by a step, every key universe, every history and every environment (slot
              allocation by the key set, sparse candidate hints) respecting the engine's and the key set's
              contracts: map_cycle_refines_spec (one cycle, per key), map_link_preserved, map_refines_spec (the
              whole log, hence the output dictionary stream).  No capacity restriction: slots are unbounded
              naturals and growth is part of the model.  Per-entry lemmas refines_*_partial are its ingredients.
              Cycles of the owning graph that pass the map node by (its slot does not hold the time and no input
              ticked) are part of the run ([node_idle]); that nothing is due in them is derived from
              map_no_child_wake_lost's invariant.  NOT covered by the mirror: key-set erase callbacks (invisible:
              a stopped and an absent entry mean the same), pause/resume, key-source replacement.
     TESTED   (not proved): that the real map node refines MapSpec - by the differential check of
              cxx/map_driver.cpp against MapSpec.run_map and by the Python oracle of gen/map.py. *)
Require Import Base MapSpec MapFacts MapSched MapSchedFacts MapEval MapEvalFacts MapNode MapNodeFacts.
From Coq Require Import ZifyBool.

(* ---------------------------------------------------------------- the specification *)
(* The set of live instances follows the union key set of the multiplexed dictionaries (defined
   independently of the map, [dicts_after]); only keys with a live instance can be output elements. *)
Theorem map_keyset_mirrors : forall (S : Type) (B : Z -> body S) ndict keys h j ks,
  kget j (r_st (run B (start_state ndict keys) h)) = Some ks ->
  (is_some (k_inst ks) = true <-> exists i, (i < ndict)%nat /\ dicts_after h i j <> None) /\
  (k_valid ks = true -> is_some (k_inst ks) = true).
Proof. exact @MapFacts.keyset_mirrors. Qed.
Print Assumptions map_keyset_mirrors.

(* ... restricted to children whose output is valid: an output tick makes the key an element. *)
Theorem valid_elements_have_output : forall (S : Type) (B : body S) t bc j ks ops v,
  ev_out (snd (key_step B t bc j ks ops)) = Some v ->
  k_valid (fst (key_step B t bc j ks ops)) = true /\ is_some (k_inst (fst (key_step B t bc j ks ops))) = true.
Proof. exact @MapFacts.out_makes_valid. Qed.
Print Assumptions valid_elements_have_output.

(* Keys are isolated.  Two runs - different body families (so the other keys' code, state and failures
   differ arbitrarily), different histories - from states that agree on key j, with the same body at j and
   histories that look the same to j (same cycle times, same broadcast arguments, same operations ON j): key j's state
   and key j's whole trace (starts, stops, outputs, removals, errors per cycle) are equal. *)
Theorem map_key_isolated : forall (S : Type) (B1 B2 : Z -> body S) j h1 h2 r1 r2,
  B1 j = B2 j -> agree_on j r1 r2 -> Forall2 (same_for j) h1 h2 ->
  key_trace j (r_log r1) = key_trace j (r_log r2) ->
  agree_on j (run B1 r1 h1) (run B2 r2 h2) /\
  key_trace j (r_log (run B1 r1 h1)) = key_trace j (r_log (run B2 r2 h2)).
Proof. exact @MapFacts.isolated_gen. Qed.
Print Assumptions map_key_isolated.

(* ... which is the property's "as if run alone": key j's trace in the map equals its trace in a map whose key
   universe is {j} alone and whose history contains only the operations on j (same times, same broadcast). *)
Theorem map_key_runs_alone : forall (S : Type) (B : Z -> body S) ndict keys h j,
  In j keys ->
  key_trace j (r_log (run B (start_state ndict keys) h)) =
  key_trace j (r_log (run B (start_state ndict [j]) (map (restrict_to j) h))).
Proof. exact @MapFacts.runs_alone. Qed.
Print Assumptions map_key_runs_alone.

(* A cycle that does not concern key j - no operation on j, no broadcast argument modified, no wake-up of j due - leaves
   j untouched and silent: the cycles other keys cause (their ticks, their timers) are invisible to j. *)
Theorem other_keys_invisible : forall (S : Type) (B : body S) t bc j (ks : kstate S),
  kinv ks ->
  any_mod bc = false ->
  match k_inst ks with Some s => wake_due B s t = false | None => True end ->
  key_step B t bc j ks [] = (ks, no_ev).
Proof. exact @MapFacts.untouched_cycle_identity. Qed.
Print Assumptions other_keys_invisible.

(* A key that was removed and is added again starts from fresh state: after ANY history in which j ended
   absent, j's trace under ANY continuation equals its trace in a newly created map. *)
Theorem readd_is_fresh : forall (S : Type) (B : Z -> body S) ndict keys h1 h2 j ks,
  kget j (r_st (run B (start_state ndict keys) h1)) = Some ks -> k_inst ks = None ->
  let r1 := clear_log (run B (start_state ndict keys) h1) in
  key_trace j (r_log (run B r1 h2)) = key_trace j (r_log (run B (fresh_state ndict keys) h2)).
Proof. exact @MapFacts.readd_fresh. Qed.
Print Assumptions readd_is_fresh.

(* ---------------------------------------------------------------- the scheduling mechanism *)
(* In every reachable state of the mirror of map_node.cpp's child schedule queue: a live child whose
   earliest pending time is T is not overdue; the owning graph is bound to evaluate the map node at a time
   P <= T (the parent's slot); and the queue holds a non-stale entry for the child with time <= T. *)
Theorem map_no_child_wake_lost : forall ops k e,
  let s := reach ops in
  s_ent s k = Some e -> e_started e = true -> e_next e < MAX_DT ->
  (s_now s < e_next e \/ (s_now s = e_next e /\ s_done s = false)) /\
  (exists P, pend s = Some P /\ P <= e_next e) /\
  covered s k (e_next e).
Proof. exact MapSchedFacts.no_child_wake_lost. Qed.
Print Assumptions map_no_child_wake_lost.

(* The owning graph cannot begin a cycle beyond a live child's pending time. *)
Theorem owner_cannot_skip_child_time : forall ops k e t,
  let s := reach ops in
  s_ent s k = Some e -> e_started e = true -> e_next e < MAX_DT -> tick_ok t s = true -> t <= e_next e.
Proof. exact MapSchedFacts.tick_respects_children. Qed.
Print Assumptions owner_cannot_skip_child_time.

(* When the map node is evaluated, every child that is due is in the evaluation set - whatever the sparse
   candidate sources are (adversarial ticked-slot list and full-scan flag), after any removals, additions
   and slot reuse in the same evaluation. *)
Theorem due_child_is_in_evaluation_set : forall ops rm ad tk full k,
  let s := reach ops in
  s_done s = false ->
  let s1 := fst (prepare ad tk full (reconcile rm ad s)) in
  forall e, s_ent s1 k = Some e -> e_started e = true -> e_next e < MAX_DT -> e_next e <= s_now s ->
  evaluated_in rm ad tk full s k = true.
Proof. exact MapSchedFacts.due_child_is_evaluated. Qed.
Print Assumptions due_child_is_in_evaluation_set.

(* ---------------------------------------------------------------- partial refinement (per entry) *)
(* remove_entry_at_slot computes the "key left every dictionary" branch of the specification. *)
Theorem refines_remove_partial : forall (S : Type) (B : body S) t bc (e : sentry S) vals ops,
  se_started e = true ->
  any_bound (new_vals 0 vals ops) = false ->
  let '(e', ev) := slot_remove e in
  key_step B t bc (se_key e) (abs_entry vals (Some e)) ops = (abs_entry (map fst (new_vals 0 vals ops)) (Some e'), ev).
Proof. exact @MapEvalFacts.refines_remove_partial. Qed.
Print Assumptions refines_remove_partial.

(* create_entry_at_slot + the first evaluation of the new child compute the "key appeared" branch, whatever
   stopped entry occupied the slot before (slot reuse). *)
Theorem refines_create_partial : forall (S : Type) (B : body S) t bc key vals ops (old : option (sentry S)),
  match old with Some e => se_started e = false | None => True end ->
  any_bound (new_vals 0 vals ops) = true ->
  let '(e', ev) := slot_eval B t (new_vals 0 vals ops ++ bc) true true (slot_create B key) in
  key_step B t bc key (abs_entry vals old) ops = (abs_entry (map fst (new_vals 0 vals ops)) (Some e'), ev).
Proof. exact @MapEvalFacts.refines_create_partial. Qed.
Print Assumptions refines_create_partial.

(* The evaluation loop computes the "key stays" branch provided the evaluation set contains every child with
   a ticked input or a due wake-up (the guarantee of due_child_is_in_evaluation_set for the scheduling mirror). *)
Theorem refines_eval_partial : forall (S : Type) (B : body S) t bc (e : sentry S) vals ops in_set,
  se_started e = true ->
  any_bound (new_vals 0 vals ops) = true ->
  (any_mod (new_vals 0 vals ops ++ bc) || wake_due B (se_inst e) t = true -> in_set = true) ->
  let '(e', ev) := slot_eval B t (new_vals 0 vals ops ++ bc) false in_set e in
  key_step B t bc (se_key e) (abs_entry vals (Some e)) ops = (abs_entry (map fst (new_vals 0 vals ops)) (Some e'), ev).
Proof. exact @MapEvalFacts.refines_eval_partial. Qed.
Print Assumptions refines_eval_partial.

(* ---------------------------------------------------------------- refinement of the whole node *)
(* One cycle of the node mirror - tick, input notifications of the children whose arguments ticked, then
   map_evaluate_impl with reconciliation, candidate set, queue drains, evaluation loop and re-arm - does to every
   key exactly what the specification's key_step does, the evaluation set being MapSched's own. *)
Theorem map_cycle_refines_spec : forall (S : Type) (B : Z -> body S) (keys : list Z) (n : nstate S) (c : cyc) (x : env),
  Link B keys n -> step_ok keys n c x ->
  forall j, In j keys ->
  (nabs (node_cycle B keys n c x) j, c_ev B keys n c x j) =
  key_step (B j) (c_t c) (c_bc c j) j (nabs n j) (ops_on j (c_ops c)).
Proof. exact @MapNodeFacts.key_refines. Qed.
Print Assumptions map_cycle_refines_spec.

(* The link invariant (key set <-> slot store bijection; every started entry has a started scheduling entry
   whose time is the pending wake-up of the child's state, e_next = b_next; MapSched's invariant) is
   re-established by every cycle. *)
Theorem map_link_preserved : forall (S : Type) (B : Z -> body S) (keys : list Z),
  (forall j s bi, bi_now bi < MAX_ET ->
     match b_next (B j) (fst (b_step (B j) s bi)) with Some w => bi_now bi < w /\ w < MAX_DT | None => True end) ->
  forall (n : nstate S) (c : cyc) (x : env),
  Link B keys n -> step_ok keys n c x -> Link B keys (node_cycle B keys n c x).
Proof. exact @MapNodeFacts.link_cycle. Qed.
Print Assumptions map_link_preserved.

(* map_refines_spec: over any history, the node mirror's log - per cycle the time and every key's start, stop,
   removal, output and error events, from which the output dictionary stream is printed - equals the
   specification's. *)
Theorem map_refines_spec : forall (S : Type) (B : Z -> body S) (keys : list Z),
  (forall j s bi, bi_now bi < MAX_ET ->
     match b_next (B j) (fst (b_step (B j) s bi)) with Some w => bi_now bi < w /\ w < MAX_DT | None => True end) ->
  forall (ndict : nat) (h : list (cyc * env)),
  run_ok B keys (ninit ndict) h ->
  n_log (node_run B keys (ninit ndict) h) = r_log (run B (start_state ndict keys) (map fst h)) /\
  Link B keys (node_run B keys (ninit ndict) h).
Proof. exact @MapNodeFacts.node_refines_spec. Qed.
Print Assumptions map_refines_spec.

(* ... and so are the printed observations: the output dictionary delta and value per tick, and the lifecycle lines. *)
Corollary map_output_stream_refines_spec : forall (S : Type) (B : Z -> body S) (keys : list Z),
  (forall j s bi, bi_now bi < MAX_ET ->
     match b_next (B j) (fst (b_step (B j) s bi)) with Some w => bi_now bi < w /\ w < MAX_DT | None => True end) ->
  forall (ndict : nat) (h : list (cyc * env)) (usekey counts : bool),
  run_ok B keys (ninit ndict) h ->
  print_log usekey counts (rev (n_log (node_run B keys (ninit ndict) h))) [] [] =
  print_log usekey counts (rev (r_log (run B (start_state ndict keys) (map fst h)))) [] [].
Proof. exact @MapNodeFacts.node_output_stream. Qed.
Print Assumptions map_output_stream_refines_spec.

(* ---------------------------------------------------------------- non-vacuity *)
(* A concrete history over the driver's vocabulary (acc body): key 5 is added, updated, removed, re-added;
   key 6 lives alongside.  The re-added key restarts from 0 (3, not 14); key 6 is unaffected. *)
Example c10_spec_nontrivial :
  let B := fun _ : Z => vbody (mkV false false [SAcc]) in
  let h := [mkCyc 1 (fun _ => []) [(0%nat, 1, 5, 10); (0%nat, 1, 6, 20)];
            mkCyc 2 (fun _ => []) [(0%nat, 1, 5, 1)];
            mkCyc 3 (fun _ => []) [(0%nat, 2, 5, 0); (0%nat, 1, 6, 7)];
            mkCyc 4 (fun _ => []) [(0%nat, 1, 5, 3)]] in
  let r := run B (start_state 1 [5; 6]) h in
  map (fun te => (fst te, option_map ev_out (snd te))) (rev (key_trace 5 (r_log r)))
    = [(1, Some (Some 10)); (2, Some (Some 11)); (3, Some None); (4, Some (Some 3))] /\
  map (fun te => (fst te, option_map ev_out (snd te))) (rev (key_trace 6 (r_log r)))
    = [(1, Some (Some 20)); (2, Some None); (3, Some (Some 27)); (4, Some None)] /\
  option_map (fun ks => is_some (k_inst ks)) (kget 5 (r_st (run B (start_state 1 [5; 6]) (firstn 3 h)))) = Some false.
Proof. vm_compute. repeat split; reflexivity. Qed.

(* the hypotheses of refines_eval_partial are met by a timer child whose wake-up is due and in the set *)
Example c10_refine_nontrivial :
  let B := vbody (mkV false false [STimer 3 false]) in
  let e := mkSE 5 true (fst (b_step B (b_init B) (mkBI 1 5 true [(Some 10, true)]))) false in
  wake_due B (se_inst e) 4 = true /\
  snd (slot_eval B 4 (new_vals 0 [Some 10] [] ++ []) false true e) = mkEv false false false (Some 510) false.
Proof. vm_compute. split; reflexivity. Qed.

(* The hypotheses of map_refines_spec are satisfiable and the conclusion is not trivial: a body with a real
   self-wake-up (tbody_wake proves the hypothesis on bodies), two keys in two slots, a cycle that passes the
   node by (t = 3), a wake-up cycle with no input (t = 4: the node runs only because its slot holds), a key
   removal, and the re-use of its slot by the re-added key. *)
Definition c10_node_hist : list (cyc * env) :=
  let x := mkEnv (fun j => if j =? 5 then 0%nat else 1%nat) [] false false in
  [(mkCyc 1 (fun _ => []) [(0%nat, 1, 5, 10)], x);
   (mkCyc 2 (fun _ => []) [(0%nat, 1, 6, 20)], x);
   (mkCyc 3 (fun _ => []) [], x);
   (mkCyc 4 (fun _ => []) [], x);
   (mkCyc 5 (fun _ => []) [(0%nat, 2, 5, 0)], x);
   (mkCyc 6 (fun _ => []) [(0%nat, 1, 5, 7)], x);
   (mkCyc 9 (fun _ => []) [], x)].

Example c10_node_nontrivial :
  (forall j s bi, bi_now bi < MAX_ET ->
     match b_next ((fun _ : Z => tbody) j) (fst (b_step ((fun _ : Z => tbody) j) s bi)) with
     | Some w => bi_now bi < w /\ w < MAX_DT | None => True end) /\
  run_ok (fun _ => tbody) [5; 6] (ninit 1) c10_node_hist /\
  map (fun te => (fst (fst te), map (fun p => (fst p, ev_out (snd p))) (snd te)))
      (rev (n_log (node_run (fun _ => tbody) [5; 6] (ninit 1) c10_node_hist)))
  = [(1, [(5, None); (6, None)]); (2, [(5, None); (6, None)]); (3, [(5, None); (6, None)]); (4, [(5, Some 510); (6, None)]);
     (5, [(5, None); (6, Some 520)]); (6, [(5, None); (6, None)]); (9, [(5, Some 507); (6, None)])].
Proof.
  split; [exact MapNodeFacts.tbody_wake|]. split; [|vm_compute; reflexivity].
  unfold c10_node_hist. cbn [run_ok fst snd].
  repeat match goal with
         | |- _ /\ _ => split
         | |- step_ok _ _ _ _ => unfold step_ok; cbn [c_t x_alloc]
         | |- tick_ok _ _ = true => vm_compute; reflexivity
         | |- _ < MAX_ET => vm_compute; reflexivity
         | |- True => exact I
         | |- forall j, In j _ -> _ = None -> match _ with _ => _ end =>
             let H := fresh in let K := fresh in intros ? H K; cbn [In] in H;
             destruct H as [H|[H|[]]]; subst; vm_compute in K |- *; try discriminate K; try exact I; try reflexivity
         | |- forall j j', In j _ -> In j' _ -> _ =>
             let H := fresh in let H' := fresh in let K := fresh in let K' := fresh in let E := fresh in
             intros ? ? H H' K K' E; cbn [In] in H, H';
             destruct H as [H|[H|[]]]; destruct H' as [H'|[H'|[]]]; subst;
             vm_compute in K, K', E; try reflexivity; try discriminate
         end.
Qed.

(* A concrete run of the scheduling mirror with a timer child, an input-driven sibling, a key removal and
   slot reuse: the hypotheses of the three mechanism theorems are met by a reachable state. *)
Definition c10_ops : list op :=
  [Tick 1; Eval [] [mkAdd 0 MAX_DT true; mkAdd 1 MAX_DT true] [] false (fun k => if Nat.eqb k 0 then 4 else MAX_DT);
   Tick 2; Push 1 2; Eval [] [] [1%nat] false (fun _ => MAX_DT);
   Tick 3; Eval [0%nat] [] [] false (fun _ => MAX_DT);
   Erase 0;
   Tick 4; Eval [] [mkAdd 0 MAX_DT true] [] false (fun _ => 9)].

Example c10_sched_nontrivial :
  let s := reach c10_ops in
  s_now s = 4 /\ s_done s = true /\ pend s = Some 9 /\
  option_map e_next (s_ent s 0) = Some 9 /\ option_map e_started (s_ent s 0) = Some true /\
  tick_ok 9 s = true /\ tick_ok 10 s = false.
Proof. vm_compute. repeat split; reflexivity. Qed.

Example c10_due_child_nontrivial :
  let s := reach (c10_ops ++ [Tick 9]) in
  s_done s = false /\
  option_map e_next (s_ent (fst (prepare [] [] false (reconcile [] [] s))) 0) = Some 9 /\
  evaluated_in [] [] [] false s 0 = true.
Proof. vm_compute. repeat split; reflexivity. Qed.
