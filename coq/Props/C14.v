(* Props/C14.v — property C14: every started node is stopped exactly once, in reverse order,
   whatever fails.  Statements only; every proof is one [exact].

   Setting (coq/Lifecycle.v): a tree of graphs ([world] = the root graph; a node is plain or owns a
   child graph), an ARBITRARY fault plan [pl : path -> phase -> occurrence -> bool] for the start /
   evaluate / stop hooks of every plain node, an arbitrary [sp] of request_stop calls, any
   configuration (start, end, cleanup_on_error, fuel = bound on the number of cycles).
   [life pl sp cfg w] = (log up to the return of run, what run threw, the state then, the log of the
   release of the executor, the final state); [full_log] = both logs.  [fresh_world w]: no started
   flag set (a newly built executor).
   For a graph path gp, [graph_word gp L] is the projection of the log L on that graph: its own
   notifications (SG k) and those of its nodes (SN k i, i = index in the graph).
   [starts_of gp L] = indices of the nodes of gp whose start completed ("after start node"), in log
   order; [stops_of gp L] = indices for which a stop was attempted ("before stop node"). *)
Require Import Base Lifecycle LifecycleFacts.
From Coq Require Import ZifyBool.
Local Open Scope nat_scope.

(* Nodes start in evaluation order and stop in the reverse order: in every graph of the tree the
   completed starts are 0,1,..,m-1 in this order and the stop attempts are m-1, m-2, .., c. *)
Theorem start_in_order_stop_in_reverse : forall pl sp cfg w, fresh_world w -> forall gp,
  exists m c, c <= m /\ starts_of gp (full_log pl sp cfg w) = seq 0 m /\
              stops_of gp (full_log pl sp cfg w) = rev (seq c (m - c)).
Proof. exact order_thm. Qed.
Print Assumptions start_in_order_stop_in_reverse.

(* Every node - of the root graph or of any nested child - whose start completed is stopped
   exactly once: the stop attempts are exactly m-1..0, each once, PROVIDED no graph leaked, i.e.
   no start rollback was cut short by a failing stop (see [stopped_exactly_once_refuted]). *)
Theorem stopped_exactly_once : forall pl sp cfg w, fresh_world w -> no_leak (full_log pl sp cfg w) ->
  forall gp, exists m, starts_of gp (full_log pl sp cfg w) = seq 0 m /\
                       stops_of gp (full_log pl sp cfg w) = rev (seq 0 m).
Proof. exact once_thm. Qed.
Print Assumptions stopped_exactly_once.

(* ... in particular whenever the plan has no stop fault (any start and evaluate faults, in any
   node, phase and cycle) or has no start fault (any evaluate and stop faults, e.g. an evaluate
   fault followed by stop faults). *)
Theorem stopped_exactly_once_static : forall pl sp cfg w, fresh_world w ->
  no_stop_faults pl \/ no_start_faults pl ->
  forall gp, exists m, starts_of gp (full_log pl sp cfg w) = seq 0 m /\
                       stops_of gp (full_log pl sp cfg w) = rev (seq 0 m).
Proof. exact once_static_thm. Qed.
Print Assumptions stopped_exactly_once_static.

Theorem never_leaks_static : forall pl sp cfg w, no_stop_faults pl \/ no_start_faults pl ->
  no_leak (full_log pl sp cfg w).
Proof. exact never_leaks. Qed.
Print Assumptions never_leaks_static.

(* ... and no later than the return of run - or, when clean-up on error is off and an evaluation
   error escaped, the release of the executor: otherwise nothing is left for the release to do. *)
Theorem stopped_by_return_of_run : forall pl sp cfg w ev1 f w1 ev2 w2,
  fresh_world w -> life pl sp cfg w = (ev1, f, w1, ev2, w2) -> no_leak (ev1 ++ ev2) ->
  c_cleanup cfg = true \/ (forall fl i, f = Some fl -> f_note fl <> Some (i, PEval)) ->
  ev2 = [] /\ forall gp, exists m, starts_of gp ev1 = seq 0 m /\ stops_of gp ev1 = rev (seq 0 m).
Proof. exact by_return_thm. Qed.
Print Assumptions stopped_by_return_of_run.

(* The full statement (without [no_leak]) is FALSE of the faithful model, and of the
   implementation: three plain nodes, the start of node 2 throws, and during the rollback the stop
   of node 1 throws: node 0 started and is never stopped, not even at the release. *)
Definition leak_plan : plan := fun p ph k =>
  match p, ph, k with [2], PStart, 0 => true | [1], PStop, 0 => true | _, _, _ => false end.
Definition three_nodes : world := W false 0 [Plain 1 false 0 0 0 0; Plain 1 false 0 0 0 0; Plain 1 false 0 0 0 0].

Theorem stopped_exactly_once_refuted :
  exists pl sp cfg w, fresh_world w /\
    starts_of [] (full_log pl sp cfg w) = [0; 1] /\ stops_of [] (full_log pl sp cfg w) = [1].
Proof.
  exists leak_plan, (fun _ _ => false), (Cfg 1 4 true 5), three_nodes.
  split; [split; reflexivity|]. vm_compute. split; reflexivity.
Qed.
Print Assumptions stopped_exactly_once_refuted.

(* A failed start stops exactly the nodes already started: when the start of node k of a graph
   fails, nodes 0..k-1 had started, nothing had been stopped, nothing starts afterwards, and the
   rollback stops k-1, k-2, .. in this order - all of them (c = 0) unless a graph leaked. *)
Theorem failed_start_rolls_back_prefix : forall pl sp cfg w, fresh_world w -> forall gp w1 k w2,
  graph_word gp (full_log pl sp cfg w) = w1 ++ SN SNF k :: w2 ->
  idxs ASN w1 = seq 0 k /\ idxs BPN w1 = [] /\ idxs ASN w2 = [] /\
  exists c, c <= k /\ idxs BPN w2 = rev (seq c (k - c)) /\ (no_leak (full_log pl sp cfg w) -> c = 0).
Proof. exact rollback_thm. Qed.
Print Assumptions failed_start_rolls_back_prefix.

(* A failing stop does not prevent the remaining nodes from stopping: a stop pass of a graph
   ("before stop graph" .. "after stop graph") attempts the stop of every started node, m-1..0,
   however many of them fail. *)
Theorem failing_stop_does_not_block : forall pl sp cfg w, fresh_world w -> forall gp w1 w2,
  graph_word gp (full_log pl sp cfg w) = w1 ++ SG BPG :: w2 ->
  exists m, idxs ASN w1 = seq 0 m /\ idxs BPN w1 = [] /\
            (In (SG APG) w2 \/ no_leak (full_log pl sp cfg w) -> idxs BPN w2 = rev (seq 0 m)).
Proof. exact stop_pass_thm. Qed.
Print Assumptions failing_stop_does_not_block.

(* No node is evaluated before its start or after its stop: whenever the evaluation bracket of
   node i opens (BEN) or its user code runs (HE), the node's start has completed and no stop of it
   has been attempted. *)
Theorem no_eval_outside_lifetime : forall pl sp cfg w, fresh_world w -> forall gp w1 k i w2,
  k = BEN \/ k = HE ->
  graph_word gp (full_log pl sp cfg w) = w1 ++ SN k i :: w2 ->
  In i (idxs ASN w1) /\ ~ In i (idxs BPN w1).
Proof. exact lifetime_thm. Qed.
Print Assumptions no_eval_outside_lifetime.

(* The original error reaches the caller naming the failing node: what run throws is the FIRST
   fault that fired (later ones - in the rollback, in the clean-up stop - are swallowed), with the
   index j of the root node it lies under and the phase it was thrown in; run returns normally iff
   no fault fired. *)
Theorem first_error_reported_with_node : forall pl sp cfg w w1 ev f,
  fresh_world w -> (c_start cfg < c_end cfg)%Z -> run pl sp cfg w = (w1, ev, f) ->
  match f with None => fired pl ev = [] | Some fl => reported pl ev fl end.
Proof. exact first_error. Qed.
Print Assumptions first_error_reported_with_node.

(* Every "before" notification has its "after" or "failed" (per graph and per node, in order). *)
Theorem observer_events_balanced : forall pl sp cfg w, fresh_world w -> no_leak (full_log pl sp cfg w) ->
  forall gp, let W := graph_word gp (full_log pl sp cfg w) in
  idxs BSN W = idxs ASN W ++ idxs SNF W /\ idxs BEN W = idxs AEN W /\ idxs BPN W = idxs APN W /\
  gcnt BSG W = gcnt ASG W + gcnt SGF W /\ gcnt BGE W = gcnt AGE W /\ gcnt BPG W = gcnt APG W.
Proof. exact balanced_thm. Qed.
Print Assumptions observer_events_balanced.

(* The executable acceptor used on IMPLEMENTATION logs: it accepts exactly the logs in which every
   event is addressed to a graph, the word of every graph is a (prefix of a) lifecycle [LogWf] and
   has come to rest [LogClosed]; and the model's own log is always well formed, and accepted
   unless a graph leaked. *)
Theorem lifecycle_ok_accepts : forall L, lifecycle_ok L = true <-> LogWf L /\ LogClosed L.
Proof. exact lifecycle_ok_iff. Qed.
Print Assumptions lifecycle_ok_accepts.

Theorem model_log_accepted : forall pl sp cfg w, fresh_world w ->
  log_wf (full_log pl sp cfg w) = true /\
  (no_leak (full_log pl sp cfg w) -> lifecycle_ok (full_log pl sp cfg w) = true).
Proof. exact accepts_thm. Qed.
Print Assumptions model_log_accepted.

(* What acceptance gives for ANY log (in particular an implementation's): order, exactly once. *)
Theorem accepted_log_is_ordered : forall L, log_wf L = true -> forall gp,
  exists m c, c <= m /\ starts_of gp L = seq 0 m /\ stops_of gp L = rev (seq c (m - c)).
Proof. intros L H gp. apply word_order. apply log_wf_iff in H. apply H. Qed.
Print Assumptions accepted_log_is_ordered.

Theorem accepted_log_stops_exactly_once : forall L, lifecycle_ok L = true -> forall gp,
  exists m, starts_of gp L = seq 0 m /\ stops_of gp L = rev (seq 0 m).
Proof. intros L H gp. apply word_closed. apply lifecycle_ok_iff in H. apply H. Qed.
Print Assumptions accepted_log_stops_exactly_once.

(* ---- non-vacuity: the hypotheses are met by concrete, non-trivial runs ---- *)
(* a nested tree, an evaluate fault in the grandchild followed by a stop fault in the child:
   nothing leaks, run reports the evaluate fault, everything is stopped by the return of run *)
Definition nested_world : world :=
  W false 0 [Plain 1 false 0 0 0 0;
             Nest false false 0 [Plain 1 false 0 0 0 0; Nest false false 0 [Plain 2 false 0 0 0 0]]].
Definition eval_then_stop : plan := fun p ph k =>
  match p, ph, k with [1; 1; 0], PEval, 1 => true | [1; 0], PStop, 0 => true | _, _, _ => false end.

Example c14_nontrivial_run :
  fresh_world nested_world /\ no_start_faults eval_then_stop /\
  let L := full_log eval_then_stop (fun _ _ => false) (Cfg 1 5 true 6) nested_world in
  lifecycle_ok L = true /\ length L = 92 /\
  starts_of [1] L = [0; 1] /\ stops_of [1] L = [1; 0] /\ idxs PNF (graph_word [1] L) = [0] /\
  (exists fl, snd (run eval_then_stop (fun _ _ => false) (Cfg 1 5 true 6) nested_world) = Some fl /\
              f_exn fl = XFault [1; 1; 0] PEval 1 /\ f_note fl = Some (1, PEval)).
Proof.
  split; [split; reflexivity|]. split.
  - intros p k. unfold eval_then_stop. destruct p as [|a [|b [|c [|d q]]]]; auto;
      destruct a as [|[|a]]; auto; destruct b as [|[|b]]; auto; destruct c; auto.
  - vm_compute. do 5 (split; [reflexivity|]). eexists. split; [reflexivity|]. split; reflexivity.
Qed.

(* with clean-up off the same evaluate fault leaves the graph started until the release *)
Example c14_cleanup_off_stops_at_release :
  let '(ev1, f, w1, ev2, w2) := life eval_then_stop (fun _ _ => false) (Cfg 1 5 false 6) nested_world in
  w_gs w1 = true /\ stops_of [] ev1 = [] /\ stops_of [] (ev1 ++ ev2) = [1; 0] /\ lifecycle_ok (ev1 ++ ev2) = true.
Proof. vm_compute. repeat split; reflexivity. Qed.

(* the decomposition hypotheses of the rollback / stop-pass / lifetime theorems are satisfiable *)
Example c14_rollback_word :
  graph_word [] (full_log leak_plan (fun _ _ => false) (Cfg 1 4 true 5) three_nodes) =
  [SG BSG; SN BSN 0; SN HS 0; SN ASN 0; SN BSN 1; SN HS 1; SN ASN 1; SN BSN 2; SN HS 2] ++
  SN SNF 2 :: [SN BPN 1; SN HP 1; SN PNF 1; SN APN 1; SG SGF].
Proof. vm_compute. reflexivity. Qed.
