Require Import Base Lifecycle.
Theorem placeholder : lifecycle_ok [] = true.
Proof. reflexivity. Qed.
Print Assumptions placeholder.
