(* C15 — captured errors tick once, where they happen, and do not disturb the rest.

   Model: Nested.v.  An exception is the world's [w_err] (code 100+a = runtime_error("hgv boom a"),
   3 = "Graph cannot schedule a node in the past"); every step is the identity while it is set.
   node.cpp evaluate_impl with captures_errors = [capture] inside [eval_plain]; try_except_node.cpp
   try_except_evaluate_impl = [caught] then [pull] inside [eval_nested]; graph.cpp evaluate_impl's
   cursor / evaluation_failed / resuming = [eval_graph] (rr = true: the repaired rule of /repo commit
   "graph evaluate must not resume mid-cycle after a failed cycle"; rr = false: the rule before it).
   All statements are universal over trees, behaviours and worlds. *)
Require Import Base Sched Nested NestedWitness NestedFacts NestedInv NestedOnce NestedMsg.

(* ---------------------------------------------------------------- captured_error_one_tick_same_cycle *)
(* node-level capture: an exception e raised by the user code of a capturing node becomes exactly one
   tick of THAT node's error output, stamped with the current time and carrying e; no other error
   output changes; the exception is cleared *)
Theorem captured_error_one_tick_same_cycle :
  forall T, parents_lt T -> forall g i now w e,
    c_kind (ncfg_at T g i) = 3 -> w_err w = e -> e <> 0 ->
    (g < length (w_gs w))%nat -> (i < length (g_nodes (gat g w)))%nat ->
    let w' := capture T g i now w in
    w_err w' = 0
    /\ errp (node_at g i w') = (Some e, now)
    /\ forall g' i', (g', i') <> (g, i) -> errp (node_at g' i' w') = errp (node_at g' i' w).
Proof. exact capture_one_tick. Qed.
Print Assumptions captured_error_one_tick_same_cycle.

(* the whole evaluation of a capturing node whose user code throws e: the tick is there after the
   evaluation, at this cycle's time, and the scheduler re-arm still ran (on the captured state) *)
Theorem captured_error_evaluation :
  forall T beh, parents_lt T -> forall g i w e,
    c_kind (ncfg_at T g i) = 3 -> n_started (node_at g i w) = true ->
    (match c_ins (ncfg_at T g i) with [] => true | _ => ready (ncfg_at T g i) (now_of g w) w end) = true ->
    w_err (run_user T beh g i w) = e -> e <> 0 ->
    (g < length (w_gs w))%nat -> (i < length (g_nodes (gat g w)))%nat ->
    let now := now_of g w in
    let w1 := capture T g i now (run_user T beh g i w) in
    eval_plain T beh g i w
      = rearm T g i (c_sched (ncfg_at T g i) && is_scheduled_now now (n_sch (node_at g i w))) now w1
    /\ w_err w1 = 0
    /\ errp (node_at g i (eval_plain T beh g i w)) = (Some e, now).
Proof. exact eval_plain_captured. Qed.
Print Assumptions captured_error_evaluation.

(* exactly one: an evaluation whose user code does not throw changes no error output at all *)
Theorem no_error_no_tick :
  forall T beh g i w, w_err (run_user T beh g i w) = 0 -> ErrEq w (eval_plain T beh g i w).
Proof. exact eval_plain_no_tick. Qed.
Print Assumptions no_error_no_tick.

(* try_except: whatever exception e escapes the child graph's evaluation becomes exactly one tick of the
   try_except node's `exception` field at the current time; no other error output changes; it is cleared *)
Theorem try_except_one_tick_same_cycle :
  forall T, parents_lt T -> forall g i now w e,
    w_err w = e -> e <> 0 ->
    (g < length (w_gs w))%nat -> (i < length (g_nodes (gat g w)))%nat ->
    let w' := caught T g i now w in
    w_err w' = 0
    /\ errp (node_at g i w') = (Some e, now)
    /\ forall g' i', (g', i') <> (g, i) -> errp (node_at g' i' w') = errp (node_at g' i' w).
Proof. exact caught_one_tick. Qed.
Print Assumptions try_except_one_tick_same_cycle.

Theorem try_except_no_error_no_tick :
  forall T g i now w, w_err w = 0 -> caught T g i now w = w.
Proof. exact caught_none. Qed.
Print Assumptions try_except_no_error_no_tick.

(* CARRYING THE EXCEPTION'S MESSAGE, at any depth.  The error slot carries the message id (100+a for
   "hgv boom a", 2 for a non-std exception = "unknown error", 3 for the engine's schedule-in-the-past).
   Whatever code leaves the evaluation of a graph - with any number of plain nested levels below, none of
   them a try_except or a re-entering owner - is 9 / 3 (the engine's own tail codes) or the code raised by
   the evaluation of ONE non-nested node from an error-free world: no nesting level rewrites it. *)
Theorem message_not_rewritten_by_nesting :
  forall T beh, wf_tree T -> forall c rr, no_try_from c T -> forall f g t w,
    (c <= g)%nat -> ok w = true -> w_err (eval_graph f T beh rr g t w) <> 0 ->
    origin T beh (w_err (eval_graph f T beh rr g t w)).
Proof. intros T beh HT c rr HN f. exact (eval_graph_origin T beh HT c rr HN f). Qed.
Print Assumptions message_not_rewritten_by_nesting.

(* ... hence the message ticked by try_except is exactly the message thrown, whatever depth lies between *)
Theorem try_except_ticks_the_thrown_message :
  forall T beh, wf_tree T -> forall rr f g i now w e,
    no_try_from (c_child (ncfg_at T g i)) T ->
    ok w = true ->
    let w1 := eval_graph f T beh rr (c_child (ncfg_at T g i)) now w in
    w_err w1 = e -> e <> 0 ->
    (g < length (w_gs w1))%nat -> (i < length (g_nodes (gat g w1)))%nat ->
    errp (node_at g i (caught T g i now w1)) = (Some e, now) /\ w_err (caught T g i now w1) = 0 /\ origin T beh e.
Proof. intros T beh HT. exact (try_ticks_thrown_code T beh HT). Qed.
Print Assumptions try_except_ticks_the_thrown_message.

(* ---------------------------------------------------------------- run_continues *)
(* the capture leaves no error behind (above: w_err = 0), the notification of the error output's readers
   cannot fail, and the pull after a catch cannot fail while the child's cache is not behind the clock *)
Theorem run_continues_notify :
  forall T, parents_lt T -> forall g i code now w, w_err (write_err T g i code now w) = w_err w.
Proof. exact write_err_err. Qed.
Print Assumptions run_continues_notify.

Theorem run_continues_pull :
  forall T, parents_lt T -> forall g i c w, now_of g w <= g_nst (gat c w) -> w_err (pull T g i c w) = w_err w.
Proof. exact pull_err. Qed.
Print Assumptions run_continues_pull.

(* ---------------------------------------------------------------- non_interference *)
(* FULL STATEMENT (not proved; carried by the paired faulty / fault-free runs of the correspondence and
   the oracle's `interference` check): for every program, every node not reachable from the failing
   node through edges, bindings or forwarding has the same sequence of evaluations, inputs read and
   values emitted in the run with the fault as in the run without it.
   What is missing: a trace-level simulation between the two runs (their root cycle sets differ).
   Proved: the footprint of a capture.  One error tick changes NO other node at all, and of the failing
   node neither its value output, nor its scheduler, run counter or lifecycle flag; all it adds is the
   scheduling of the readers of that error output. *)
Theorem non_interference_footprint :
  forall T g i code now w g' i',
    let n := node_at g' i' w in
    let n' := node_at g' i' (write_err T g i code now w) in
    ((g', i') <> (g, i) -> n' = n)
    /\ n_val n' = n_val n /\ n_lmt n' = n_lmt n /\ n_sch n' = n_sch n /\ n_runs n' = n_runs n /\ n_started n' = n_started n.
Proof. exact write_err_footprint. Qed.
Print Assumptions non_interference_footprint.

(* ---------------------------------------------------------------- recovers_next_cycle *)
(* After a cycle of a (nested) graph that ended with an exception - whichever node index failed, i.e.
   wherever the evaluation cursor was left - the next evaluation is the same as from a reset cursor: a
   fresh cycle that announces itself, resets the cache and scans every node from index 0. *)
Theorem recovers_next_cycle :
  forall f T beh g t w k,
    g_failed (gat g w) = true ->
    eval_graph (S f) T beh true g t (upd_g g (g_set_cursor k) w) = eval_graph (S f) T beh true g t w.
Proof. intros f T beh g t w k. exact (eval_graph_after_failure f T beh g t w k). Qed.
Print Assumptions recovers_next_cycle.

(* History (DESIGN.md 8.1): under the rule before the repair the statement is false.  Witness: try_except
   over the child [ident(x)+100; boom], x = 1,2,3,4, boom (child index 1) throwing on its 2nd run.
   The recorder of `out` sees 101,-,-,104 under the old rule and 101,-,103,104 under the repaired one;
   both see exactly one error tick (code 107) at t = 2. *)
Theorem recovers_next_cycle_old_rule_refuted :
  exists case : wire,
    rec_ticks 0 2 (run_nest_rule false case) = [(1, 101); (4, 104)]
    /\ rec_ticks 0 2 (run_nest_rule true case) = [(1, 101); (3, 103); (4, 104)]
    /\ rec_ticks 0 3 (run_nest_rule false case) = [(2, 107)]
    /\ rec_ticks 0 3 (run_nest_rule true case) = [(2, 107)].
Proof.
  exists boom_ident_case.
  destruct old_rule_loses_tick as [A B]. destruct repaired_rule_delivers_tick as [C D]. auto.
Qed.
Print Assumptions recovers_next_cycle_old_rule_refuted.

(* the old rule, stated: with the cursor left at k <> 0 the next cycle skips the per-cycle set-up and
   starts its scan at k *)
Theorem old_rule_resumes_at_stale_cursor :
  forall f T beh g t w,
    g_failed (gat g w) = true -> g_cursor (gat g w) <> 0 -> g_cursor (gat g w) <> -1 ->
    eval_graph (S f) T beh false g t w =
    (let w0 := upd_g g (fun s => g_set_flags (g_started s) true false (g_set_now t s)) w in
     let n := length (gc_nodes (gcfg_at T g)) in
     let st := Z.to_nat (g_cursor (gat g w0)) in
     let w2 := scan T beh (eval_graph f T beh false) g st (n - st) w0 in
     if negb (ok w2) then upd_g g (fun s => g_set_flags (g_started s) false (negb (w_err w2 =? PAUSED)) s) w2
     else
       let w3 := upd_g g (g_set_cursor 0) w2 in
       let w4 := match gc_parent (gcfg_at T g) with
                 | None => w3
                 | Some (pg, pn) => let nx := g_nst (gat g w3) in
                                    if nx <? MAX_DT then sched_at (length T) T pg pn nx w3 else w3
                 end in
       upd_g g (fun s => g_set_flags (g_started s) false (g_failed s) s) w4).
Proof. exact old_rule_resumes. Qed.
Print Assumptions old_rule_resumes_at_stale_cursor.

(* ---------------------------------------------------------------- non-vacuity *)
(* a reachable state with a failed cycle behind it and the cursor on a non-zero index: the child graph of
   the witness after the cycle at t = 2 (run until end_time 3) *)
Example failed_state_inhabited :
  let T := decode boom_ident_case in
  let w := run_sim T (script_beh boom_ident_case) true 1 3 3 in
  w_err w = 0 /\ g_failed (gat 1 w) = true /\ g_cursor (gat 1 w) = 1
  /\ errp (node_at 0 1 w) = (Some 107, 2).
Proof. vm_compute. repeat split; reflexivity. Qed.

(* the hypotheses of the capture theorems are met: a world carrying an exception, a capturing node *)
Example capture_hypotheses_inhabited :
  let T := [mkGC None [mkCfg 3 false false true 0 [] 0 (-1) [] (fun _ => 0)]] in
  let w := set_err 105 (init_world T) in
  parents_lt T /\ c_kind (ncfg_at T 0 0) = 3 /\ w_err w = 105 /\ (0 < length (w_gs w))%nat
  /\ (0 < length (g_nodes (gat 0 w)))%nat
  /\ errp (node_at 0 0 (capture T 0 0 7 w)) = (Some 105, 7) /\ w_err (capture T 0 0 7 w) = 0.
Proof.
  repeat split; try (vm_compute; reflexivity); try (vm_compute; lia).
  intros g pg pn. destruct g as [|[|g]]; vm_compute; intros H; discriminate.
Qed.

(* two levels: the thrower's message (107 = "hgv boom 7") is what the try_except two levels above ticks, at the
   throw's time (t = 2), and the run continues to the end *)
Example message_through_two_levels :
  let T := decode try_nested_boom_case in
  let w := run_sim T (script_beh try_nested_boom_case) true 1 9 9 in
  w_err w = 0 /\ errp (node_at 0 1 w) = (Some 107, 2) /\ c_kind (ncfg_at T 0 1) = 2 /\ c_kind (ncfg_at T 1 0) = 1.
Proof. vm_compute. repeat split; reflexivity. Qed.

