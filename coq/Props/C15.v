(* C15 — captured errors tick once, where they happen, and do not disturb the rest. (in progress) *)
Require Import Base Sched Nested NestedWitness NestedFacts.

Theorem boom_ident_repaired :
  rec_ticks 0 2 (run_nest_rule true boom_ident_case) = [(1, 101); (3, 103); (4, 104)]
  /\ rec_ticks 0 3 (run_nest_rule true boom_ident_case) = [(2, 107)].
Proof. exact repaired_rule_delivers_tick. Qed.
Print Assumptions boom_ident_repaired.
