(* Props/C20.v — placeholder while the development is being built. *)
Require Import Base DeltaLib Delta DeltaFacts.

Theorem leaf_roundtrip : forall z, capture TS (apply TS (fresh TS) (DVal z)) = DVal z.
Proof. exact DeltaFacts.placeholder_leaf. Qed.
Print Assumptions leaf_roundtrip.
