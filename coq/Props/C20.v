(* Props/C20.v — property C20: recording a time-series and replaying the recording reproduces
   the same ticks (same cycles, same per-tick deltas, same values) for scalar, signal, set,
   dictionary, list, bundle and window shapes at any nesting; equivalently, applying a captured
   delta to a copy of the pre-tick state yields the post-tick state, and capturing again from the
   copy yields the same delta.  Statements only; every proof is one [exact].

   Vocabulary (coq/Delta.v mirrors the C++, coq/DeltaFacts.v holds the definitions used here):
     shape              TS | SIGNAL | TSW p m | TSS | TSD e | TSL n e | TSB fs, nested at will
     node               the state of a time-series endpoint during a cycle (values, validity,
                        modified marks, added/removed elements, per-slot dictionary bits)
     commit sh n        the same endpoint once the cycle is over
     capture sh n       capture_delta;   apply sh out d   apply_delta (with its has_effect gate)
     good sh s          [s] is a between-cycles state in which every dictionary key has a valid child
     tick sh s live     [live] is [s] after one cycle of mutations: its delta surface tells the
                        truth about the change, every ticking collection changed or became valid,
                        and no bundle has a never-ticked set/dict field beside a ticking one
     chain sh s n h     [h] is a history (cycle time, post-tick state) list, strictly increasing
                        times with arbitrary gaps, each state a [tick] of the committed previous one *)
Require Import Base DeltaLib DeltaLibFacts Delta DeltaFacts.

(* Applying the captured delta to a copy of the pre-tick state yields the post-tick state:
   the same value once the cycle is over, the same validity, and it ticks. *)
Theorem apply_capture : forall sh pre live, wf_shape sh -> good sh pre -> tick sh pre live ->
  commit sh (apply sh pre (capture sh live)) = commit sh live /\
  nvalid (apply sh pre (capture sh live)) = nvalid live /\
  nmod (apply sh pre (capture sh live)) = nmod live.
Proof. exact DeltaFacts.apply_capture_value. Qed.
Print Assumptions apply_capture.

(* Capturing again from the copy yields the same delta. *)
Theorem capture_apply : forall sh pre live, wf_shape sh -> good sh pre -> tick sh pre live ->
  capture sh (apply sh pre (capture sh live)) = capture sh live.
Proof. exact DeltaFacts.capture_apply_delta. Qed.
Print Assumptions capture_apply.

(* The hypotheses propagate: after such a tick the committed state is again [good] (so the
   statement applies cycle after cycle), and the empty state is [good]. *)
Theorem good_after_tick : forall sh pre live, wf_shape sh -> good sh pre -> tick sh pre live -> good sh (commit sh live).
Proof. exact DeltaFacts.good_commit_tick. Qed.
Print Assumptions good_after_tick.

Theorem good_initially : forall sh, wf_shape sh -> good sh (fresh sh).
Proof. exact DeltaFacts.good_fresh. Qed.
Print Assumptions good_initially.

(* Every such tick is observable, so the record node writes it. *)
Theorem tick_is_recorded : forall sh, wf_shape sh -> forall pre live, good sh pre -> tick sh pre live ->
  observable sh live (capture sh live) = true.
Proof. exact DeltaFacts.tick_observable. Qed.
Print Assumptions tick_is_recorded.

(* Recording any tick history with gaps into the cycle-aligned buffer and replaying the buffer
   reproduces the tick stream exactly:
     - the replayed output ticks in exactly the recorded cycles, with exactly the recorded
       deltas ([stream] of the replayed outputs IS the buffer, holes included), so recording the
       replay gives the recording back;
     - at each of its ticks the replayed output has the value the original had;
     - the buffer is cycle aligned: the tick of cycle t sits at index t - MIN_ST. *)
Theorem replay_record_id : forall sh h, wf_shape sh -> chain sh (fresh sh) 0 h ->
  let buf := rec_hist sh h [] in
  let outs := replay_cursor sh buf (length buf) 0 (fresh sh) in
  stream sh outs = buf /\
  map (commit sh) (filter nmod outs) = map (fun tl => commit sh (snd tl)) h /\
  Forall2 (fun tl o => nth_error buf (Z.to_nat (fst tl - MIN_ST)) = Some (Some (capture sh (snd tl)))) h (filter nmod outs).
Proof. exact DeltaFacts.replay_record_id_gen. Qed.
Print Assumptions replay_record_id.

(* The same through the SPARSE absolute-time recording (one (time, delta) entry per tick; replay
   with an explicit recordable_id): replaying from any start time not later than the first tick
   re-creates every tick at its own absolute time, with the same delta and the same value.
   ([sreplay_run] is the sparse branch of replay_impl::eval: entries older than the current time
   are skipped, entries of the current time applied, the node re-arms for the next entry.) *)
Theorem sparse_replay_record_id : forall sh h rs, wf_shape sh -> chain sh (fresh sh) 0 h ->
  match h with (t, _) :: _ => rs <= t | [] => True end ->
  let ents := srec_hist sh h [] in
  let run := sreplay_run sh (S (length ents)) rs ents (fresh sh) in
  ents = entries_of sh h /\
  map fst run = map fst h /\
  map (fun to => capture sh (snd to)) run = map snd ents /\
  map (fun to => commit sh (snd to)) run = map (fun tl => commit sh (snd tl)) h.
Proof. exact DeltaFacts.sparse_replay_record_id_gen. Qed.
Print Assumptions sparse_replay_record_id.

(* Erasing a key and re-creating it within one cycle is NETTED by the dictionary (intended: the
   pending-erase slot is resurrected with its child, docs time_series.rst "Slot lifetime"): the
   live state is the old dictionary - the same child with its contents - merely touched; the
   captured delta is empty and the committed value unchanged, so value and delta agree and the
   only thing a replay cannot re-create is that empty tick itself (finding B). *)
Theorem erase_recreate_in_one_cycle_nets : forall e m v items k c,
  good (TSD e) (NDict m v items) -> get k items = Some (clean_flags, c) ->
  let live := dict_at e k (dict_erase k (NDict m v items)) in
  capture (TSD e) live = DDict [] [] /\ commit (TSD e) live = NDict false true items.
Proof. exact DeltaFacts.erase_recreate_delta_empty. Qed.
Print Assumptions erase_recreate_in_one_cycle_nets.

(* RECOVER: the seed as of any time T - the fold of the recorded deltas up to T, each applied at
   its own evaluation time (recorded_seed_resolver) - is the state the recorded time-series had
   at T: the value after its last tick at or before T, nothing if there is none.  (A corollary of
   [apply_capture]; it is what makes "start later from the recording" sound.) *)
Theorem recover_state : forall sh h T, wf_shape sh -> chain sh (fresh sh) 0 h ->
  commit sh (recover sh (srec_hist sh h []) T) = commit sh (last_state_from h T (fresh sh)).
Proof. exact DeltaFacts.recover_state_gen. Qed.
Print Assumptions recover_state.

(* Continuation: a second recording run that finds the first run's recording in the shared
   GlobalState appends to it; the recording is the concatenation of both runs' ticks. *)
Theorem continued_recording : forall sh h1 h2 len2, wf_shape sh ->
  chain sh (fresh sh) 0 h1 -> chain sh (fresh sh) len2 h2 ->
  srec_hist sh h2 (srec_hist sh h1 []) = entries_of sh h1 ++ entries_of sh h2.
Proof. exact DeltaFacts.continued_recording_gen. Qed.
Print Assumptions continued_recording.

(* For sets the hypothesis [tick] is not an assumption on the history at all: EVERY non-empty
   sequence of add / remove / touch / clear calls on a good state is a [tick] — or it is exactly
   an empty tick on an already valid set (finding B below), which leaves the set as it was. *)
Theorem every_set_script_ticks_or_is_empty : forall pre ops, good TSS pre -> ops <> [] ->
  let live := run_set ops pre in
  tick TSS pre live \/ (exists el, pre = NSet false true el [] [] /\ live = NSet true true el [] []).
Proof. exact DeltaFacts.tss_every_script. Qed.
Print Assumptions every_set_script_ticks_or_is_empty.

(* Non-vacuity: concrete histories produced by the scripted mutations of the driver satisfy the
   hypotheses — nested dictionaries, removals, child-only ticks, remove and re-add of a key in one
   cycle, gaps, bundles, lists, windows, signals. *)
Example history_of_a_dict_of_sets : chain ex1_sh (fresh ex1_sh) 0 ex1_hist.
Proof. exact DeltaFacts.ex1_chain. Qed.
Example history_of_a_nested_bundle : wf_shape ex2_sh /\ chain ex2_sh (fresh ex2_sh) 0 ex2_hist.
Proof. exact (conj DeltaFacts.ex2_wf DeltaFacts.ex2_chain). Qed.
Example the_recorded_buffer_has_gaps :
  map (fun en => match en with Some _ => 1 | None => 0 end) (rec_hist ex1_sh ex1_hist []) = [1; 0; 1; 0; 0; 1].
Proof. vm_compute. reflexivity. Qed.

(* The side conditions of [tick] cannot be dropped: the unconditional statements are false of
   the faithful model, and of the implementation (each witness is replayed on the real code; see
   docs/notes-delta.md, findings A-C; D was a defect of the tree, now repaired). *)

(* A: a bundle {set, scalar} whose scalar field ticks while the set field never ticked:
   apply_delta validates the set field. *)
Theorem apply_capture_refuted_bundle_default : exists sh pre ops, good sh pre /\
  let live := run_ops sh ops pre in veq sh live (apply sh pre (capture sh live)) = false.
Proof. exact DeltaFacts.apply_capture_unconditional_refuted_tsb. Qed.
Print Assumptions apply_capture_refuted_bundle_default.

(* B: a tick with an empty delta on a valid set is observable (recorded) and not re-created. *)
Theorem same_cycles_refuted_empty_tick : exists sh pre ops, good sh pre /\
  let live := run_ops sh ops pre in
  nmod live = true /\ observable sh live (capture sh live) = true /\ nmod (apply sh pre (capture sh live)) = false.
Proof. exact DeltaFacts.replay_same_cycles_unconditional_refuted_empty_tick. Qed.
Print Assumptions same_cycles_refuted_empty_tick.

(* C: a dictionary key whose child never became valid is lost. *)
Theorem apply_capture_refuted_unset_child : exists sh pre ops, good sh pre /\
  let live := run_ops sh ops pre in veq sh live (apply sh pre (capture sh live)) = false.
Proof. exact DeltaFacts.apply_capture_unconditional_refuted_unset_child. Qed.
Print Assumptions apply_capture_refuted_unset_child.

(* D (repaired in the tree): under the insert_key rule BEFORE the repair — a resurrected slot was
   not marked modified again — child changed, key erased and re-inserted in one cycle lost the
   change.  Under the repaired rule ([dict_at], restore_modified_on_resurrection) the same history
   is an ordinary [tick]: see [reinserted_key_now_ticks]. *)
Theorem apply_capture_old_rule_refuted_reinserted_key : exists sh pre ops, good sh pre /\
  let live := run_ops_old sh ops pre in veq sh live (apply sh pre (capture sh live)) = false.
Proof. exact DeltaFacts.apply_capture_old_rule_refuted_reinserted_key. Qed.
Print Assumptions apply_capture_old_rule_refuted_reinserted_key.

Example reinserted_key_now_ticks : chain ex3_sh (fresh ex3_sh) 0 [(1, ex3_l1); (2, ex3_l2)].
Proof. exact DeltaFacts.ex3_chain. Qed.
