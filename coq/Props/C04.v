(* Props/C04.v — property C04 (stub, replaced below). *)
Require Import Base Track TrackFacts.

Theorem record_modified_monotone : forall t k, t <= lmt k -> rec_mod t k = (k, false).
Proof. exact TrackFacts.rec_mod_older_noop. Qed.
Print Assumptions record_modified_monotone.
