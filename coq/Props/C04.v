(* Props/C04.v — property C04: modified / valid / last-modified-time tell the
   truth for producers and consumers.  Statements only; every proof is one [exact].

   Vocabulary (Track.v, TrackFacts.v):
     shape, init sh          nested time-series shapes (TS, TSB of fields, fixed TSL, TSD) and the fresh output of a shape
     hist, run h s           a write history [(time, op)] in execution order, applied through the mirror of
                             record_modified / notify_child_modified / move_value_from / invalidate
     OSet p v | OInv p       write the leaf at path p | invalidate the node at path p
     times_ok MIN_DT h       times are concrete and non-decreasing (several writes per cycle and gaps allowed)
     typed (init sh) o       the operation addresses a leaf / a node of the shape
     get q s, lmt_of, modified t, valid, delta_readable t       what TSOutputView / TSDataView read at endpoint q
     last_write h q          THE WRITE LOG, with no tree and no tracking record in it:
         last_write [] q = MIN_DT
         last_write (h ++ [(t, OSet p _)]) q = t                  when q is p or encloses p,   else unchanged
         last_write (h ++ [(t, OInv p)]) q   = unchanged          when p is not valid (last_write h p = MIN_DT)
                                             = MIN_DT             when q is p or below p
                                             = t                  when q encloses p
                                             = unchanged          otherwise
   The theorems range over every dictionary-free shape (induction on the shape / on the path) and every
   such history (induction on the history).  Whole-value writes and dictionaries are executable in the
   model and exercised by the correspondence; see whole_write_after_child_write_refuted and
   keyed_parent_if_child for what is proved of them. *)
Require Import Base Track TrackFacts.
From Coq Require Import ZifyBool.

(* record_modified is monotone: an older or equal time neither rewinds the record nor notifies;
   a newer time is recorded and notified exactly once; a repeat in the same cycle coalesces. *)
Theorem record_modified_monotone : forall t k,
  (t <= lmt k -> rec_mod t k = (k, false)) /\
  (lmt k < t -> rec_mod t k = (mkTrk t (ncnt k + 1) t, true)) /\
  rec_mod t (fst (rec_mod t k)) = (fst (rec_mod t k), false) /\
  lmt k <= lmt (fst (rec_mod t k)) /\
  ncnt (fst (rec_mod t k)) = ncnt k + (if snd (rec_mod t k) then 1 else 0).
Proof.
  exact (fun t k => conj (rec_mod_older_noop t k) (conj (rec_mod_newer t k) (conj (rec_mod_coalesces t k)
          (conj (rec_mod_never_rewinds t k) (rec_mod_notifies_at_most_once t k))))).
Qed.
Print Assumptions record_modified_monotone.

(* last-modified-time of every endpoint of every shape, after every history, is the write log's answer *)
Theorem lmt_is_last_write : forall sh h,
  has_dict sh = false -> times_ok MIN_DT h -> Forall (fun e => typed (init sh) (snd e)) h ->
  forall q, lmt_at (run h (init sh)) q = last_write h q.
Proof. exact TrackFacts.lmt_is_last_write_sh. Qed.
Print Assumptions lmt_is_last_write.

(* modified reads true at t exactly when the write log says the endpoint (or something below it) was
   last written in cycle t and not invalidated since *)
Theorem modified_iff_written : forall sh h,
  has_dict sh = false -> times_ok MIN_DT h -> Forall (fun e => typed (init sh) (snd e)) h ->
  forall q x t, get q (run h (init sh)) = Some x ->
  (modified t x = true <-> (last_write h q = t /\ t <> MIN_DT)).
Proof. exact TrackFacts.modified_iff_written_sh. Qed.
Print Assumptions modified_iff_written.

(* ... and the write log names a cycle only if an operation of that cycle concerned the endpoint:
   a write at or below it, or the invalidation of something strictly below it *)
Theorem modified_only_if_an_operation_in_that_cycle : forall h q t,
  last_write h q = t -> t <> MIN_DT -> exists o, In (t, o) h /\ concerns o q = true.
Proof.
  exact (fun h q t H Ht =>
           match last_write_only_if_op (rev h) q t H Ht with
           | ex_intro _ o (conj Hin Hc) => ex_intro _ o (conj (proj2 (in_rev h (t, o)) Hin) Hc)
           end).
Qed.
Print Assumptions modified_only_if_an_operation_in_that_cycle.

(* a write is seen, in its cycle, by the leaf and by every enclosing collection up to the root *)
Theorem written_then_modified : forall h t p v q, prefixb q p = true -> last_write (h ++ [(t, OSet p v)]) q = t.
Proof. exact TrackFacts.write_is_visible. Qed.
Print Assumptions written_then_modified.

(* valid is true from the first write until an explicit invalidation (of the endpoint or of a node
   enclosing it) and never otherwise *)
Theorem valid_iff_written_since_invalidate : forall sh h,
  has_dict sh = false -> times_ok MIN_DT h -> Forall (fun e => typed (init sh) (snd e)) h ->
  forall q x, get q (run h (init sh)) = Some x -> (valid x = true <-> last_write h q <> MIN_DT).
Proof. exact TrackFacts.valid_iff_written_sh. Qed.
Print Assumptions valid_iff_written_since_invalidate.

Theorem invalidation_wipes_below_and_touches_above : forall h t p q, last_write h p <> MIN_DT ->
  last_write (h ++ [(t, OInv p)]) q = if prefixb p q then MIN_DT else if prefixb q p then t else last_write h q.
Proof. exact TrackFacts.invalidate_is_visible. Qed.
Print Assumptions invalidation_wipes_below_and_touches_above.

Theorem invalidating_the_invalid_changes_nothing : forall h t p q,
  last_write h p = MIN_DT -> last_write (h ++ [(t, OInv p)]) q = last_write h q.
Proof. exact TrackFacts.invalidate_invalid_noop. Qed.
Print Assumptions invalidating_the_invalid_changes_nothing.

(* a parent is modified whenever one of its children is (read in the current cycle t) ... *)
Theorem fixed_parent_if_child : forall sh h,
  has_dict sh = false -> times_ok MIN_DT h -> Forall (fun e => typed (init sh) (snd e)) h ->
  forall q i t, (forall e, In e h -> fst e <= t) -> MIN_DT <= t ->
  last_write h (q ++ [i]) = t -> last_write h q = t.
Proof. exact TrackFacts.child_then_parent. Qed.
Print Assumptions fixed_parent_if_child.

(* ... and a fixed-shape parent only then: a child is modified in that cycle, or a child was
   invalidated in that cycle (the code notifies the parent of an invalidated child; the tree's own test
   "scheduling-only fixed-list invalidation" relies on it) *)
Theorem fixed_parent_iff_child : forall sh h,
  Forall (fun e => typed (init sh) (snd e)) h ->
  forall q t, skel (init sh) q = Some 1 -> last_write h q = t -> t <> MIN_DT ->
  (exists i, last_write h (q ++ [i]) = t) \/ (exists p, In (t, OInv p) h /\ sprefixb q p = true).
Proof. exact TrackFacts.parent_only_if_child. Qed.
Print Assumptions fixed_parent_iff_child.

(* dictionaries: a structural change (key created on the way, key erased) or a child's modification
   makes the dictionary modified in that cycle *)
Theorem keyed_parent_if_child : forall f t k e kids key p', lmt k <= t ->
  let r := at_path f t (key :: p') (Dict k e kids) in
  (dict_find key kids = None -> lmt_of (r_tree r) = t) /\
  (forall c, dict_find key kids = Some c -> r_up (at_path f t p' c) = true -> lmt_of (r_tree r) = t).
Proof. exact TrackFacts.dict_parent_if_child. Qed.
Print Assumptions keyed_parent_if_child.

Theorem keyed_parent_on_erase : forall t key k e kids, lmt k <= t -> lmt_of (r_tree (op_erase t key (Dict k e kids))) = t.
Proof. exact TrackFacts.dict_erase_marks. Qed.
Print Assumptions keyed_parent_on_erase.

(* a per-tick delta is readable only during the cycle that produced it *)
Theorem delta_only_in_cycle : forall sh h,
  has_dict sh = false -> times_ok MIN_DT h -> Forall (fun e => typed (init sh) (snd e)) h ->
  forall q x t, get q (run h (init sh)) = Some x ->
  (delta_readable t x = true <-> (last_write h q = t /\ t <> MIN_DT)).
Proof. exact TrackFacts.delta_only_in_cycle_sh. Qed.
Print Assumptions delta_only_in_cycle.

(* a second write of the same leaf in the same cycle changes no tracking record anywhere:
   nobody is notified twice *)
Theorem repeated_write_is_silent : forall t v p s k v0,
  fx s -> get p s = Some (Leaf k v0) -> lmt k = t ->
  r_up (at_path (op_set t v) t p s) = false /\
  forall q, option_map tracking (get q (r_tree (at_path (op_set t v) t p s))) = option_map tracking (get q s).
Proof. exact TrackFacts.set_again_silent. Qed.
Print Assumptions repeated_write_is_silent.

(* consumers: an input owns no data.  Its line for an endpoint is the producer's line whenever the link's
   own time is not ahead of the endpoint's (always so for a link bound to a valid, never invalidated
   endpoint); validity and value never depend on the link; consumers of one endpoint stay in step *)
Theorem consumers_agree : forall who t p lk root x,
  lk <= lmt_of x -> lmt_of x <= t ->
  node_line who t p (Some lk) root x = node_line who t p None root x.
Proof. exact TrackFacts.consumer_line_agrees. Qed.
Print Assumptions consumers_agree.

Theorem consumers_agree_valid_value : forall who t p lk root x,
  exists md l rd dv md' l' rd' dv',
    node_line who t p (Some lk) root x = obs_line who t p (valid x) md l (value_of x) rd dv /\
    node_line who t p None root x = obs_line who t p (valid x) md' l' (value_of x) rd' dv'.
Proof. exact TrackFacts.consumer_valid_value_agree. Qed.
Print Assumptions consumers_agree_valid_value.

Theorem consumers_in_step : forall t a b c1 c2,
  c_path c1 = c_path c2 -> c_bound c1 = c_bound c2 -> c_link c1 = c_link c2 ->
  c_link (feed t a b c1) = c_link (feed t a b c2) /\ c_bound (feed t a b c1) = c_bound (feed t a b c2).
Proof. exact TrackFacts.feed_deterministic. Qed.
Print Assumptions consumers_in_step.

(* ------------------------------------------------------------------ what is FALSE of the faithful model (findings) *)
Definition sh_nested : shape := STSB [STSB [STS; STS]; STS].

(* F3: writing a child and then the whole bundle in one cycle throws ("duplicate modification") *)
Theorem whole_write_after_child_write_refuted :
  exists sh t p v vt, typed (init sh) (OSet p v) /\
    r_err (step t (OWhole [] vt) (run [(t, OSet p v)] (init sh))) = 2.
Proof.
  exists sh_nested, 2, [0; 0], 7, (VFix [VFix [VLeaf 5; VLeaf 6]; VLeaf 8]). split; vm_compute; reflexivity.
Qed.
Print Assumptions whole_write_after_child_write_refuted.

(* F1: a consumer reads a delta for an endpoint in a cycle that did not write it: the link's time (fed by
   the sibling's write at 2) is ahead of the endpoint's own (1) *)
Theorem consumer_delta_only_in_cycle_refuted :
  exists sh h q x lk t,
    get q (run h (init sh)) = Some x /\ modified t x = false /\ delta_readable t x = false /\
    c_link (fold_left (fun c e => feed (fst e) (run (firstn (fst (snd e)) h) (init sh)) (run (firstn (S (fst (snd e))) h) (init sh)) c)
                      [(1, (0%nat, tt)); (2, (1%nat, tt))] (mkCons 0 0 [] true MIN_DT)) = lk /\
    node_line 1 t q (Some lk) false x = obs_line 1 t q true false 1 9 true 9.
Proof.
  exists (STSB [STS; STS]), [(1, OSet [1] 9); (2, OSet [0] 7)], [1], (Leaf (mkTrk 1 1 1) 9), 2, 2.
  vm_compute. repeat split; reflexivity.
Qed.
Print Assumptions consumer_delta_only_in_cycle_refuted.

(* F2: after an invalidation the consumer's own position reads modified and the invalidation time,
   the producer reads not modified and MIN_DT; the stale value stays readable as a delta *)
Theorem consumers_agree_after_invalidate_refuted :
  exists x lk t, valid x = false /\
    node_line 0 t [] None true x = obs_line 0 t [] false false 0 0 false 0 /\
    node_line 1 t [] (Some lk) true x = obs_line 1 t [] false true 2 0 true 8.
Proof. exists (Leaf (mkTrk MIN_DT 2 2) 8), 2, 2. vm_compute. repeat split; reflexivity. Qed.
Print Assumptions consumers_agree_after_invalidate_refuted.

(* ------------------------------------------------------------------ non-vacuity *)
Definition ex_hist : hist :=
  [(1, OSet [0; 1] 5); (1, OSet [0; 1] 6); (3, OSet [1] 7); (3, OInv [0]); (6, OSet [0; 0] 9); (6, OInv [1]); (6, OInv [1])].

Example c04_hypotheses_satisfiable :
  has_dict sh_nested = false /\ times_ok MIN_DT ex_hist /\
  map (last_write ex_hist) [[]; [0]; [0; 0]; [0; 1]; [1]] = [6; 6; 6; 0; 0] /\
  map (lmt_at (run ex_hist (init sh_nested))) [[]; [0]; [0; 0]; [0; 1]; [1]] = [6; 6; 6; 0; 0].
Proof.
  split; [reflexivity|]. split; [cbn; unfold MIN_DT; repeat split; lia|].
  split; vm_compute; reflexivity.
Qed.

Example c04_history_is_typed : Forall (fun e => typed (init sh_nested) (snd e)) ex_hist.
Proof.
  unfold ex_hist.
  repeat (apply Forall_cons; [vm_compute; first [reflexivity | (intro H; discriminate H)]|]).
  apply Forall_nil.
Qed.

Example c04_parent_by_invalidation_only :
  let h := [(1, OSet [0; 1] 5); (2, OInv [0; 1])] in
  last_write h [0] = 2 /\ last_write h [0; 0] = 0 /\ last_write h [0; 1] = 0.
Proof. vm_compute. repeat split; reflexivity. Qed.

Example c04_model_runs_a_case :
  run_track [[1; 1; 3]; [2; 1; 2; 0; 0]; [4; 1; 0]; [4; 0; 0]; [3; 1; 1; 1; 1; 9]; [3; 2; 1; 1; 0; 7]] =
  [[23; 1; 1; 1]; [21; 1; 1]; [21; 2; 1];
   [20; 0; 1; 0; 1; 1; 1; 0; 1; 2; 1]; [20; 0; 1; 1; 0; 0; 0; 0; 0; 0; 0; 0]; [20; 0; 1; 1; 1; 1; 1; 1; 9; 1; 9; 1];
   [20; 1; 1; 0; 1; 1; 1; 0; 1; 2]; [20; 1; 1; 1; 0; 0; 0; 0; 0; 1; 0]; [20; 1; 1; 1; 1; 1; 1; 1; 9; 1; 9];
   [20; 2; 1; 0; 1; 1; 1; 0; 1; 2]; [20; 2; 1; 1; 0; 0; 0; 0; 0; 1; 0]; [20; 2; 1; 1; 1; 1; 1; 1; 9; 1; 9];
   [23; 2; 1; 1]; [21; 1; 2]; [21; 2; 2];
   [20; 0; 2; 0; 1; 1; 2; 0; 1; 1; 2]; [20; 0; 2; 1; 0; 1; 1; 2; 7; 1; 7; 1]; [20; 0; 2; 1; 1; 1; 0; 1; 9; 0; 0; 1];
   [20; 1; 2; 0; 1; 1; 2; 0; 1; 1]; [20; 1; 2; 1; 0; 1; 1; 2; 7; 1; 7]; [20; 1; 2; 1; 1; 1; 0; 1; 9; 1; 9];
   [20; 2; 2; 0; 1; 1; 2; 0; 1; 1]; [20; 2; 2; 1; 0; 1; 1; 2; 7; 1; 7]; [20; 2; 2; 1; 1; 1; 0; 1; 9; 1; 9]].
Proof. vm_compute. reflexivity. Qed.
