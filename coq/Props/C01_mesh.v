(* C01 for the stdlib mesh_ node — "within one engine cycle every node is evaluated at most once, and never
   before any node whose output it reads (... or through a reference) has had its turn in that cycle; this holds
   ... for every nested child graph".

   Model: Mesh.v, the executable mirror of src/hgraph/runtime/mesh_node.cpp (settle loop, ranks, pause / resume,
   mesh_subscribe, child graph cursor and schedule cache) for the program of cxx/mesh_driver.cpp; it reproduces
   the real node's evaluation trace line for line (family `mesh`).  [m_fix m = true] is the tree as it is
   (settle loop repaired by /repo commit 1c89b1b); [m_fix m = false] is the loop before that commit.

   All statements quantify over EVERY mesh state (any key set, any link graph, any ranks, any pending
   schedules): nothing below assumes the state is reachable.

   (a) at most once.      A child graph that completed its cycle carries settled_time = now and is skipped by
                          every later pass; an evaluated child ends settled or paused (the pause keeps the
                          cursor on the mesh_subscribe node: resumed children are the business of
                          Props/C01_nest.v, whose generic graph model proves that a resumed entry never re-runs
                          a node before the cursor).
   (b) never before what it reads.
                          - a mesh_ref is bound only to a dependency of strictly lower rank that has settled at
                            this cycle's time or is quiescent;
                          - the repaired loop never starts an evaluation above the pending-rank minimum, and
                            whatever became pending inside a pass (scheduled by a sibling's tick, paused)
                            DEFERS every unsettled entry ranked above it for the whole rest of the pass;
                          - ranks follow dependencies: re_rank never returns with a new violated edge;
                          - the loop before the repair violates the property: `snapshot_order_refuted`.
   (c) dependency cycles. A self reference is always reported; a report is sound for the registered edges.

   NOT proved here (kept visible, carried by the correspondence + the oracle of gen/mesh.py on every case):
     * dependency_settled_when_evaluated (trace level, the full (b)): "in the trace of any engine cycle of the
       repaired model no comb(k) precedes comb(j) when k reads j".  Proved: the rank order of the registered
       edges (re_rank_restores_the_rank_order) and the deferral mechanism.  Missing: completeness of the
       candidate set (a child with a due node is a candidate in the pass that follows) and the lift of the
       rank-order invariant through instance creation / removal; with them the theorems below compose to the
       trace statement by induction over the rank.
     * evaluated_at_most_once (trace level, the full (a)): needs the slot store invariant (a free slot holds no
       entry) to show that create_instance never overwrites a settled entry.
     * cycle_report_complete: a cycle among the registered edges through the new edge is always reported. *)
Require Import Base Mesh MeshFacts.

(* ---------------------------------------------------------------- (a) at most once *)
Theorem settled_child_is_not_evaluated_again :
  forall m slot t e, get_entry m slot = Some e -> e_settled e = t -> process_entry slot t m = (m, Skipped).
Proof. exact settled_child_skipped. Qed.
Print Assumptions settled_child_is_not_evaluated_again.

Theorem evaluated_child_is_settled_or_paused :
  forall m slot t m', process_entry slot t m = (m', Evaluated) -> failed m' = false ->
    exists e', get_entry m' slot = Some e' /\ (e_settled e' = t \/ e_paused e' = true).
Proof. exact evaluated_settles_or_pauses. Qed.
Print Assumptions evaluated_child_is_settled_or_paused.

(* ---------------------------------------------------------------- (b) never before what it reads *)
(* add_dependency (the test mesh_subscribe makes before it binds and forwards self[item]) *)
Theorem reference_bound_only_to_settled_lower_rank :
  forall k d t m m', add_dependency k d t m = (m', true) ->
    m' = dep_insert d k m /\
    exists ke de, find_entry m' k = Some ke /\ find_entry m' d = Some de /\ e_rank de < e_rank ke /\
                  (e_settled de = t \/ (e_paused de = false /\ t < c_cache (e_child de))).
Proof. exact add_dependency_true. Qed.
Print Assumptions reference_bound_only_to_settled_lower_rank.

Theorem repaired_loop_never_evaluates_above_pending :
  forall m slot t m' e, m_fix m = true -> get_entry m slot = Some e ->
    process_entry slot t m = (m', Evaluated) -> e_rank e <= m_pmin m.
Proof. exact evaluated_not_above_pending. Qed.
Print Assumptions repaired_loop_never_evaluates_above_pending.

(* every state met inside a pass is a later state ([ext]) of every earlier one *)
Theorem pass_only_moves_forward :
  forall m0 order t m ev, ext m0 m -> ext m0 (fst (fst (pass order t m ev))).
Proof. exact ext_pass. Qed.
Print Assumptions pass_only_moves_forward.

Theorem repaired_loop_defers_readers_of_scheduled_child :
  forall m x node t ex m2 s e t',
    m_fix m = true -> get_entry m x = Some ex -> c_started (e_child ex) = true -> c_evalg (e_child ex) = false ->
    t <= m_now m ->
    ext (schedule x node t m) m2 ->
    get_entry m2 s = Some e -> e_live e = true -> e_settled e <> t' -> e_rank ex < e_rank e ->
    process_entry s t' m2 = (m2, Deferred).
Proof. exact no_evaluation_above_scheduled. Qed.
Print Assumptions repaired_loop_defers_readers_of_scheduled_child.

Theorem repaired_loop_defers_readers_of_paused_child :
  forall m x t m1 ex m2 s e,
    m_fix m = true -> process_entry x t m = (m1, Evaluated) -> failed m1 = false ->
    get_entry m1 x = Some ex -> e_settled ex <> t ->
    ext m1 m2 ->
    get_entry m2 s = Some e -> e_live e = true -> e_settled e <> t -> e_rank ex < e_rank e ->
    process_entry s t m2 = (m2, Deferred).
Proof. exact no_evaluation_above_paused. Qed.
Print Assumptions repaired_loop_defers_readers_of_paused_child.

(* THE RANKS FOLLOW THE DEPENDENCIES.  [violated m a b]: "a depends on b" is registered, both instances exist
   and a is NOT ranked above b.  Whatever re_rank does (re-ranking through the dependents to any depth), when
   it returns without an error it has introduced no violated edge and has repaired the edge it was called for *)
Theorem re_rank_restores_the_rank_order :
  forall fuel k d stack m, failed m = false -> k <> d -> failed (re_rank fuel k d stack m) = false ->
    forall a b, violated (re_rank fuel k d stack m) a b -> violated m a b /\ ~ (a = k /\ b = d).
Proof. exact re_rank_restores. Qed.
Print Assumptions re_rank_restores_the_rank_order.

(* ... so "no registered edge is violated" is kept by add_dependency (both instances existing) *)
Theorem add_dependency_keeps_the_rank_order :
  forall k d t m, failed m = false -> k <> d ->
    (forall a b, violated (dep_insert d k m) a b -> a = k /\ b = d) ->
    find_entry (dep_insert d k m) d <> None ->
    failed (fst (add_dependency k d t m)) = false ->
    forall a b, ~ violated (fst (add_dependency k d t m)) a b.
Proof. exact add_dependency_keeps_rank_order. Qed.
Print Assumptions add_dependency_keeps_the_rank_order.

(* ---- the witness: 3 reads 2 reads 1; cycle 2 ticks val[1] and val[3] but not val[2] *)
Definition witness : wire :=
  [[1; 1; 10]; [2; 0];
   [3; 0; 1; 1; 1; 10]; [3; 0; 1; 1; 2; 0]; [3; 0; 1; 1; 3; 0];
   [3; 1; 1; 1; 2; 1]; [3; 1; 1; 1; 3; 2];
   [3; 0; 2; 1; 1; 20]; [3; 0; 2; 1; 3; 5]].

(* the comb evaluations (key, value read through link1, result) of the engine cycle at time t, in order *)
Fixpoint combs_from (on : bool) (t : Z) (w : wire) : list (Z * Z * Z) :=
  match w with
  | [] => []
  | (10 :: t' :: _) :: r => combs_from (t' =? t) t r
  | (13 :: k :: _ :: _ :: _ :: d1 :: _ :: _ :: res :: _) :: r =>
      if on then (k, d1, res) :: combs_from on t r else combs_from on t r
  | _ :: r => combs_from on t r
  end.

(* before the repair: key 3 is evaluated BEFORE key 2, reads 2's value of the previous cycle (30) and keeps the
   stale result 95 = 5 + 3*30; the real node of /repo before 1c89b1b prints exactly this trace
   (corpus/mesh/chain_late_dependency.case, mutants/C01/mesh_unfixed_settle_snapshot.patch) *)
Theorem snapshot_order_refuted :
  exists case, combs_from false 2 (run_mesh_old case) = [(1, 0, 20); (3, 30, 95); (2, 20, 60)].
Proof. exists witness. vm_compute. reflexivity. Qed.
Print Assumptions snapshot_order_refuted.

(* the repaired loop on the same case: 1, 2, 3 and key 3 = 5 + 3*60 *)
Example repaired_order_on_the_witness :
  combs_from false 2 (run_mesh witness) = [(1, 0, 20); (2, 20, 60); (3, 60, 185)].
Proof. vm_compute. reflexivity. Qed.

(* the stale child also keeps next_scheduled_time in the past: a later reader of it can never be resumed and
   the old loop aborts the run with "mesh_ failed to settle within the cycle" (code 4) *)
Definition witness_deadlock : wire :=
  [[1; 1; 10]; [2; 0];
   [3; 0; 1; 1; 1; 10]; [3; 0; 1; 1; 2; 0]; [3; 0; 1; 1; 3; 0]; [3; 0; 1; 1; 4; 0];
   [3; 1; 1; 1; 2; 1]; [3; 1; 1; 1; 3; 2];
   [3; 0; 2; 1; 1; 20]; [3; 0; 2; 1; 3; 5];
   [3; 1; 3; 1; 4; 3]].
Example old_loop_deadlocks_a_later_reader :
  last (run_mesh_old witness_deadlock) [] = [19; 4] /\ combs_from false 3 (run_mesh witness_deadlock) = [(4, 185, 555)].
Proof. vm_compute. split; reflexivity. Qed.

(* ---------------------------------------------------------------- (c) dependency cycles *)
Theorem self_dependency_is_a_cycle :
  forall k t m, failed m = false ->
    m_err (fst (add_dependency k k t m)) = E_CYCLE /\ snd (add_dependency k k t m) = false.
Proof. exact self_dependency_is_reported. Qed.
Print Assumptions self_dependency_is_a_cycle.

Theorem cycle_report_is_sound :
  forall fuel k d stack m, failed m = false -> chain m (k :: stack) ->
    m_err (re_rank fuel k d stack m) = E_CYCLE -> exists x, reaches m x x.
Proof. exact re_rank_cycle_sound. Qed.
Print Assumptions cycle_report_is_sound.

(* a genuine two-cycle is reported in the cycle it is wired in *)
Example two_cycle_is_reported :
  last (run_mesh [[1; 1; 5]; [2; 0]; [3; 0; 1; 1; 1; 1]; [3; 0; 1; 1; 2; 2]; [3; 1; 1; 1; 1; 2]; [3; 1; 1; 1; 2; 1]]) []
  = [19; 3].
Proof. vm_compute. reflexivity. Qed.

(* "registered edges" matters: links {1:2}, then link[2]=1 and link[1]=3 in ONE engine cycle.  The end state
   1->3, 2->1 is acyclic, but key 2 (lower rank) registers 2->1 before key 1 has retracted 1->2: the real node
   and the model both report a cycle (observation O1 in docs/notes-mesh.md) *)
Example transient_cycle_is_reported :
  last (run_mesh [[1; 1; 7]; [2; 0]; [3; 0; 1; 1; 1; 1]; [3; 0; 1; 1; 2; 6]; [3; 0; 1; 1; 3; 6]; [3; 1; 1; 1; 1; 2];
                  [3; 1; 2; 1; 2; 1]; [3; 1; 2; 1; 1; 3]]) [] = [19; 3].
Proof. vm_compute. reflexivity. Qed.

(* ---------------------------------------------------------------- non-vacuity *)
(* the state after the first engine cycle of the witness (keys 1, 2, 3 in slots 0, 1, 2 with ranks 0, 1, 2),
   at engine time 2 *)
Definition state1 : mesh :=
  let h := decode witness (mkHdr 1 10 0 []) in
  set_m_pmin MAX_DT (set_m_now 2 (fst (cycle 80 false 1 (filter (fun o => o_t o =? 1) (h_ops h)) (empty_mesh true)))).

Example state1_shape :
  map (fun oe => match oe with Some e => (e_key e, e_rank e, e_settled e) | None => (0, 0, 0) end)
      (firstn 3 (m_entries state1)) = [(1, 0, 1); (2, 1, 1); (3, 2, 1)]
  /\ failed state1 = false /\ m_fix state1 = true.
Proof. vm_compute. repeat split; reflexivity. Qed.

(* hypotheses of repaired_loop_defers_readers_of_scheduled_child: key 2 (slot 1, rank 1) is scheduled by a tick;
   key 3 (slot 2, rank 2) is live, unsettled at time 2 - and is deferred; key 1 ... *)
Example scheduled_child_hypotheses_inhabited :
  exists ex e,
    get_entry state1 1 = Some ex /\ c_started (e_child ex) = true /\ c_evalg (e_child ex) = false /\
    2 <= m_now state1 /\
    get_entry (schedule 1 N_SUB1 2 state1) 2 = Some e /\ e_live e = true /\ e_settled e <> 2 /\
    e_rank ex < e_rank e /\
    snd (process_entry 2 2 (schedule 1 N_SUB1 2 state1)) = Deferred.
Proof.
  destruct (get_entry state1 1) as [ex|] eqn:E1; [|vm_compute in E1; discriminate].
  destruct (get_entry (schedule 1 N_SUB1 2 state1) 2) as [e|] eqn:E2; [|vm_compute in E2; discriminate].
  exists ex, e. vm_compute in E1. vm_compute in E2. inversion E1; subst. inversion E2; subst.
  vm_compute. repeat split; try reflexivity; try discriminate.
Qed.

(* hypotheses of repaired_loop_defers_readers_of_paused_child / evaluated_child_is_settled_or_paused: in state1
   with link[2] retargeted to the new key 9, evaluating key 2 creates 9 and PAUSES *)
Definition state1_retarget : mesh :=
  schedule 1 N_SUB1 2 (set_m_d1 [(2, 9); (3, 2)] state1).
Example paused_child_hypotheses_inhabited :
  exists m1 ex,
    process_entry 1 2 state1_retarget = (m1, Evaluated) /\ failed m1 = false /\
    get_entry m1 1 = Some ex /\ e_settled ex <> 2 /\ e_paused ex = true /\
    snd (process_entry 2 2 m1) = Deferred.
Proof.
  destruct (process_entry 1 2 state1_retarget) as [m1 v] eqn:E. exists m1.
  destruct (get_entry m1 1) as [ex|] eqn:E1.
  - exists ex. vm_compute in E. inversion E; subst. vm_compute in E1. inversion E1; subst.
    vm_compute. repeat split; try reflexivity; try discriminate.
  - vm_compute in E. inversion E; subst. vm_compute in E1. discriminate.
Qed.

(* hypotheses of reference_bound_only_to_settled_lower_rank: in state1 key 3 asks for key 2, which settled at 1 *)
Example add_dependency_true_inhabited :
  snd (add_dependency 3 2 1 state1) = true.
Proof. vm_compute. reflexivity. Qed.

(* hypotheses of cycle_report_is_sound: the chain [k] is trivially a chain *)
Example cycle_sound_hypotheses_inhabited :
  failed state1 = false /\ chain state1 [3] /\ depends state1 3 2 /\ depends state1 2 1.
Proof. vm_compute. repeat split; auto. Qed.

(* hypotheses of re_rank_restores_the_rank_order / add_dependency_keeps_the_rank_order: in state1 a new key 7
   (rank 0, created on demand by key 1) becomes a dependency of key 1: 1 is raised above 7, then 2 above 1, then
   3 above 2; nothing is violated afterwards although three ranks changed *)
Example re_rank_chain_inhabited :
  let m := fst (add_dependency 1 7 2 state1) in
  failed m = false /\
  map (fun oe => match oe with Some e => (e_key e, e_rank e) | None => (0, 0) end) (firstn 4 (m_entries m))
  = [(1, 1); (2, 2); (3, 3); (7, 0)].
Proof. vm_compute. split; reflexivity. Qed.
