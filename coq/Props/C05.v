(* Props/C05.v — property C05: collection deltas are coherent with collection values at every tick.
   Statements only; every proof is one [exact].  The models are the mirrors of Coll.v / Window.v;
   a history is a list of engine cycles (time, mutations) at strictly increasing times. *)
Require Import Base Coll CollOld Window DWindow Fixed CollFacts TsdFacts TsdValueFacts WindowFacts DWindowFacts FixedFacts.

(* ================================================================== TSS *)
(* [tss_trace tss_empty h] lists, for every cycle of the history h, the storage before the cycle, the
   cycle's time and mutations, and the storage after it.  [tss_value] is the set of live elements;
   [tss_added t] / [tss_removed t] are what TSSOutputView::added()/removed() return at time t. *)

(* The set starts empty. *)
Theorem tss_from_empty : tss_value tss_empty = [].
Proof. exact CollFacts.tss_value_empty. Qed.
Print Assumptions tss_from_empty.

(* value' = (value \ removed) U added, at every cycle of every history. *)
Theorem tss_step : forall h, increasing MIN_DT h ->
  forall a t ops b, In (a, t, ops, b) (tss_trace tss_empty h) ->
  forall k, In k (tss_value b) <-> (In k (tss_value a) /\ ~ In k (tss_removed t b)) \/ In k (tss_added t b).
Proof. exact CollFacts.tss_step_l. Qed.
Print Assumptions tss_step.

Theorem tss_disjoint : forall h, increasing MIN_DT h ->
  forall a t ops b, In (a, t, ops, b) (tss_trace tss_empty h) ->
  forall k, In k (tss_added t b) -> In k (tss_removed t b) -> False.
Proof. exact CollFacts.tss_disjoint_l. Qed.
Print Assumptions tss_disjoint.

(* every added element is present afterwards (and was not present before) *)
Theorem tss_added_present : forall h, increasing MIN_DT h ->
  forall a t ops b, In (a, t, ops, b) (tss_trace tss_empty h) ->
  forall k, In k (tss_added t b) -> In k (tss_value b) /\ ~ In k (tss_value a).
Proof. exact CollFacts.tss_added_present_l. Qed.
Print Assumptions tss_added_present.

(* every removed element is absent afterwards and was present before *)
Theorem tss_removed_absent_was_present : forall h, increasing MIN_DT h ->
  forall a t ops b, In (a, t, ops, b) (tss_trace tss_empty h) ->
  forall k, In k (tss_removed t b) -> ~ In k (tss_value b) /\ In k (tss_value a).
Proof. exact CollFacts.tss_removed_l. Qed.
Print Assumptions tss_removed_absent_was_present.

(* Mutations that cancel within one cycle leave no trace: whatever the cycle's mutation list is
   (add-then-remove of a new element, remove-then-add of an existing one, any longer alternation,
   clears, capacity growth, slot reuse), the delta is exactly the NET change of membership, and the
   membership after the cycle is the mathematical meaning [spec_cycle] of the mutation list. *)
Theorem tss_cancel_leaves_no_trace : forall h, increasing MIN_DT h ->
  forall a t ops b, In (a, t, ops, b) (tss_trace tss_empty h) ->
  (forall k, In k (tss_added t b) <-> In k (tss_value b) /\ ~ In k (tss_value a)) /\
  (forall k, In k (tss_removed t b) <-> In k (tss_value a) /\ ~ In k (tss_value b)) /\
  (forall k, In k (tss_value b) <-> spec_cycle ops (fun x => In x (tss_value a)) k) /\
  (tss_modified t b = false -> forall k, In k (tss_value b) <-> In k (tss_value a)).
Proof. exact CollFacts.tss_facts. Qed.
Print Assumptions tss_cancel_leaves_no_trace.

(* Slot reuse and capacity growth do not change the abstraction: growing the slot store changes
   neither the value nor the delta marks ... *)
Theorem abs_growth_invariant : forall c s, TInv s ->
  TInv (tss_reserve c s) /\
  forall i, st (tss_reserve c s) i = st s i /\ ab (tss_reserve c s) i = ab s i /\ rb (tss_reserve c s) i = rb s i.
Proof. exact CollFacts.abs_growth_invariant_l. Qed.
Print Assumptions abs_growth_invariant.

(* ... and an insertion, whichever slot the store hands out (a fresh one after growth, one freed by the
   deferred erase, or the element's own pending slot), adds exactly that element; a removal removes
   exactly that element.  The well-formedness invariant [TInv] holds in every reachable state. *)
Theorem abs_slot_reuse : forall V0 t k s ch s',
  Fresh V0 t s \/ Mid V0 t s -> tss_add t k s = (ch, s') ->
  Rolled V0 t s' /\ (forall k', inV s' k' <-> inV s k' \/ k' = k) /\ (ch = true <-> ~ inV s k).
Proof. exact CollFacts.add_step. Qed.
Print Assumptions abs_slot_reuse.

Theorem abs_remove : forall V0 t k s ch s',
  Fresh V0 t s \/ Mid V0 t s -> tss_remove t k s = (ch, s') ->
  Rolled V0 t s' /\ (forall k', inV s' k' <-> inV s k' /\ k' <> k) /\ (ch = true <-> inV s k).
Proof. exact CollFacts.remove_step. Qed.
Print Assumptions abs_remove.


(* ================================================================== TSD (keys; TS<int> children) *)
(* A dictionary key "exists" once its child has a value: the key set observed at a tick is
   [tsd_valid_keys]; [tsd_added t] / [tsd_removed t] / [tsd_modified_keys t] are what
   TSDOutputView::added_keys() / removed_keys() / modified_keys() return at time t. *)
Theorem tsd_from_empty : tsd_valid_keys tsd_empty = [] /\ tsd_keys tsd_empty = [].
Proof. exact (conj eq_refl eq_refl). Qed.
Print Assumptions tsd_from_empty.

Theorem tsd_keys_step : forall h, dincreasing MIN_DT h ->
  forall a t ops b, In (a, t, ops, b) (tsd_trace tsd_empty h) ->
  forall k, In k (tsd_valid_keys b) <-> (In k (tsd_valid_keys a) /\ ~ In k (tsd_removed t b)) \/ In k (tsd_added t b).
Proof. exact TsdFacts.tsd_keys_step_l. Qed.
Print Assumptions tsd_keys_step.

Theorem tsd_disjoint : forall h, dincreasing MIN_DT h ->
  forall a t ops b, In (a, t, ops, b) (tsd_trace tsd_empty h) ->
  forall k, In k (tsd_added t b) -> In k (tsd_removed t b) -> False.
Proof. exact TsdFacts.tsd_disjoint_l. Qed.
Print Assumptions tsd_disjoint.

Theorem tsd_added_present : forall h, dincreasing MIN_DT h ->
  forall a t ops b, In (a, t, ops, b) (tsd_trace tsd_empty h) ->
  forall k, In k (tsd_added t b) -> In k (tsd_valid_keys b) /\ ~ In k (tsd_valid_keys a).
Proof. exact TsdFacts.tsd_added_present_l. Qed.
Print Assumptions tsd_added_present.

Theorem tsd_removed_absent_was_present : forall h, dincreasing MIN_DT h ->
  forall a t ops b, In (a, t, ops, b) (tsd_trace tsd_empty h) ->
  forall k, In k (tsd_removed t b) -> ~ In k (tsd_valid_keys b) /\ In k (tsd_valid_keys a).
Proof. exact TsdFacts.tsd_removed_l. Qed.
Print Assumptions tsd_removed_absent_was_present.

(* the key delta is exactly the net change of the key set, whatever the cycle's mutations were
   (set / erase / clear / create / reserve in any order and multiplicity) *)
Theorem tsd_cancel_leaves_no_trace : forall h, dincreasing MIN_DT h ->
  forall a t ops b, In (a, t, ops, b) (tsd_trace tsd_empty h) ->
  (forall k, In k (tsd_added t b) <-> In k (tsd_valid_keys b) /\ ~ In k (tsd_valid_keys a)) /\
  (forall k, In k (tsd_removed t b) <-> In k (tsd_valid_keys a) /\ ~ In k (tsd_valid_keys b)) /\
  (tsd_struct_current t b = false -> forall k, In k (tsd_valid_keys b) <-> In k (tsd_valid_keys a)) /\
  (forall k, In k (tsd_modified_keys t b) -> In k (tsd_valid_keys b) /\ In k (tsd_keys b)).
Proof. exact TsdFacts.tsd_facts. Qed.
Print Assumptions tsd_cancel_leaves_no_trace.

(* modified keys are live keys that have a value *)
Theorem tsd_modified_are_live : forall h, dincreasing MIN_DT h ->
  forall a t ops b, In (a, t, ops, b) (tsd_trace tsd_empty h) ->
  forall k, In k (tsd_modified_keys t b) -> In k (tsd_valid_keys b) /\ In k (tsd_keys b).
Proof. exact TsdFacts.tsd_modified_live_l. Qed.
Print Assumptions tsd_modified_are_live.

(* The VALUE part of the step statement: value' = value with the delta (removed keys, modified items) applied -
   in every cycle of every history a key that is neither removed nor modified keeps its value (and an absent
   key stays absent).  Holds for the REPAIRED insert rule (restore_modified_on_resurrection). *)
Theorem tsd_value_step : forall h, dincreasing MIN_DT h ->
  forall a t ops b, In (a, t, ops, b) (tsd_trace tsd_empty h) ->
  forall k, ~ In k (tsd_removed t b) -> ~ In k (tsd_modified_keys t b) -> tsd_get b k = tsd_get a k.
Proof. exact TsdValueFacts.tsd_value_step_l. Qed.
Print Assumptions tsd_value_step.

(* The delta of a cycle is EXACTLY that cycle's, also when elements are written through their own output views
   (DWrite: no dictionary-level operation, the dictionary rolls its window from record_child_modified alone):
   a key is reported as modified iff it is live and its element carries this cycle's time stamp - never a mark
   left over from the previous delta window. *)
Theorem tsd_modified_are_written : forall h, dincreasing MIN_DT h ->
  forall a t ops b, In (a, t, ops, b) (tsd_trace tsd_empty h) ->
  forall k, In k (tsd_modified_keys t b) ->
  exists i, dst b i = mkSlot SLive k /\ c_lmt (child_at b i) = t /\ tsd_get b k = Some (c_val (child_at b i)).
Proof. exact TsdValueFacts.tsd_modified_written_l. Qed.
Print Assumptions tsd_modified_are_written.

Theorem tsd_written_are_modified : forall h, dincreasing MIN_DT h ->
  forall a t ops b, In (a, t, ops, b) (tsd_trace tsd_empty h) ->
  forall i k, dst b i = mkSlot SLive k -> c_lmt (child_at b i) = t -> In k (tsd_modified_keys t b).
Proof. exact TsdValueFacts.tsd_written_modified_l. Qed.
Print Assumptions tsd_written_are_modified.

(* HISTORY (known finding KF-tsd-set-erase-set-C05, repaired): under the insert rule hgraph had before the repair
   (CollOld.v) the statement was false - a key written, erased and written again within one cycle carried a new
   value without being reported as modified. *)
Theorem tsd_value_step_old_rule_refuted :
  exists t ops, 0 < t /\ ~ tsd_apply_delta_ok tsd_empty t (tsd_cycle_old t ops tsd_empty).
Proof. exact TsdFacts.tsd_value_step_old_rule_refuted_l. Qed.
Print Assumptions tsd_value_step_old_rule_refuted.


(* ================================================================== TSB / fixed TSL (TS<int> children) *)
(* [f_value b i] is child i's value (None while it never ticked); [f_delta t b i] is child i's entry in
   the parent's delta at time t.  value' = value with the delta applied, from all-invalid. *)
Theorem fixed_step : forall n h, fincreasing MIN_DT h ->
  forall a t ops b, In (a, t, ops, b) (f_trace (fixed_empty n) h) ->
  forall i, f_value b i = match f_delta t b i with Some v => Some v | None => f_value a i end.
Proof. exact FixedFacts.fixed_step_l. Qed.
Print Assumptions fixed_step.

Theorem fixed_delta_only_when_ticked : forall n h, fincreasing MIN_DT h ->
  forall a t ops b, In (a, t, ops, b) (f_trace (fixed_empty n) h) ->
  forall i v, f_delta t b i = Some v -> f_modified t b = true /\ f_value b i = Some v.
Proof. exact FixedFacts.fixed_delta_valid_l. Qed.
Print Assumptions fixed_delta_only_when_ticked.

(* ================================================================== tick-count window *)
(* [spec_whist h []] is the list of values pushed since the last clear according to the protocol
   (one tick per evaluation time; a clear may be followed by one push; anything else is rejected). *)
Theorem window_is_lastn : forall n m h, (0 < n)%nat -> wincreasing MIN_DT h ->
  w_values (win_run n m h) = lastn n (spec_whist h []).
Proof. exact WindowFacts.window_is_lastn_l. Qed.
Print Assumptions window_is_lastn.

(* the ring is correct for every sequence of storage-level pushes, at any head position *)
Theorem window_push_is_lastn : forall v t w hist, WInv w hist -> WInv (w_push v t w) (hist ++ [v]).
Proof. exact WindowFacts.w_push_inv. Qed.
Print Assumptions window_push_is_lastn.

(* the window is (all_)valid exactly when it holds at least min_period elements *)
Theorem window_valid_iff : forall n m h, (0 < n)%nat -> wincreasing MIN_DT h ->
  w_all_valid (win_run n m h) = (m <=? Nat.min (length (spec_whist h [])) n)%nat.
Proof. exact WindowFacts.window_valid_iff_l. Qed.
Print Assumptions window_valid_iff.

(* ... i.e. (for min_period <= period) valid exactly once min_period values have been pushed since the last clear *)
Theorem window_valid_only_once_min_reached : forall n m h, (0 < n)%nat -> (m <= n)%nat -> wincreasing MIN_DT h ->
  (w_all_valid (win_run n m h) = true <-> (m <= length (spec_whist h []))%nat).
Proof. exact WindowFacts.window_valid_threshold_l. Qed.
Print Assumptions window_valid_only_once_min_reached.

(* ================================================================== duration (time-based) window *)
(* [dw_content] is the logical contents of the ring as (time, value) pairs, oldest first.  [spec_dwhist R h []] is
   the reference: per accepted push at time t, drop every pair older than t - R and append (t, v); a clear empties
   it (protocol: one tick per evaluation time, a clear may be followed by one push).  The theorem holds whatever
   head advances, wrap-arounds and growths (0 -> 4 -> 8 ...; relocation in logical order) the history causes. *)
Theorem dwindow_content : forall R m h, wincreasing MIN_DT h ->
  dw_content (dwin_run R m h) = spec_dwhist R h [] /\ dw_minr (dwin_run R m h) = m /\ DWInv (dwin_run R m h).
Proof. exact DWindowFacts.dwindow_content_l. Qed.
Print Assumptions dwindow_content.

(* storage level, from any ring state (any head / size / capacity): a push drops exactly the expired prefix and
   appends the new pair, in order *)
Theorem dwindow_push_keeps_unexpired : forall v t w, DWInv w ->
  DWInv (dw_push v t w) /\ dw_content (dw_push v t w) = spec_dpush (dw_range w) t v (dw_content w) /\
  dw_range (dw_push v t w) = dw_range w /\ dw_minr (dw_push v t w) = dw_minr w /\ dw_lmt (dw_push v t w) = dw_lmt w.
Proof. exact DWindowFacts.dw_push_content. Qed.
Print Assumptions dwindow_push_keeps_unexpired.

(* the per-tick delta: removed_value is the LAST pair that expired in this push; if nothing expired the stash
   (and its time) is left alone, so has_removed_value(t) stays false *)
Theorem dwindow_removed_value : forall v t w, DWInv w ->
  let k := count_expired (t - dw_range w) (dw_times w) in
  (k = 0%nat -> dw_ev (dw_push v t w) = dw_ev w /\ dw_evt (dw_push v t w) = dw_evt w) /\
  ((0 < k)%nat -> dw_ev (dw_push v t w) = Some (nth (k - 1) (dw_values w) 0) /\ dw_evt (dw_push v t w) = t /\
                  dw_has_removed t (dw_push v t w) = negb (t =? MIN_DT)).
Proof. exact DWindowFacts.dwindow_push_removed_l. Qed.
Print Assumptions dwindow_removed_value.

(* valid (all_valid) iff non-empty and the contents span at least the minimum range *)
Theorem dwindow_valid_iff : forall w,
  dw_all_valid w = match map fst (dw_content w) with
                   | [] => false
                   | first :: _ => if dw_minr w <=? 0 then true else dw_minr w <=? last (map fst (dw_content w)) 0 - first
                   end.
Proof. exact DWindowFacts.dwindow_valid_l. Qed.
Print Assumptions dwindow_valid_iff.

(* ================================================================== non-vacuity *)
(* a history with an add-then-remove of a new element, a remove-then-add of an existing one, a longer
   alternation, a re-insertion after the deferred erase and growth past the first capacity of 8 *)
Definition ex_h : list (Z * list sop) :=
  [ (1, [SAdd 5; SAdd 7]);
    (2, [SAdd 9; SRemove 9; SRemove 5; SAdd 5; SRemove 7; SAdd 7; SRemove 7]);
    (4, [SAdd 9; SAdd 1; SAdd 2; SAdd 3; SAdd 4; SAdd 6; SAdd 8; SAdd 10; SAdd 11]) ].
Example ex_h_increasing : increasing MIN_DT ex_h.
Proof. cbn. unfold MIN_DT. repeat split; lia. Qed.
Example ex_h_trace :
  map (fun x => (sortz (tss_value (snd x)), sortz (tss_added (snd (fst (fst x))) (snd x)), sortz (tss_removed (snd (fst (fst x))) (snd x)),
                 ks_cap (t_ks (snd x))))
      (tss_trace tss_empty ex_h)
  = [ ([5; 7], [5; 7], [], 8%nat); ([5], [], [7], 8%nat); ([1; 2; 3; 4; 5; 6; 8; 9; 10; 11], [1; 2; 3; 4; 6; 8; 9; 10; 11], [], 16%nat) ].
Proof. vm_compute. reflexivity. Qed.


Definition ex_d : list (Z * list dop) :=
  [ (1, [DSet 5 50; DSet 7 70]);
    (2, [DSet 9 90; DErase 9; DErase 5; DSet 5 51; DErase 7; DCreate 3]);
    (4, [DSet 1 1; DSet 2 2; DSet 3 3; DSet 4 4; DSet 6 6; DSet 8 8; DSet 10 10; DSet 11 11; DClear; DSet 5 55]) ].
Example ex_d_trace :
  dincreasing MIN_DT ex_d /\
  map (fun x => (sortz (tsd_valid_keys (snd x)), sortz (tsd_added (snd (fst (fst x))) (snd x)), sortz (tsd_removed (snd (fst (fst x))) (snd x)),
                 sortz (tsd_modified_keys (snd (fst (fst x))) (snd x)), ks_cap (d_ks (snd x))))
      (tsd_trace tsd_empty ex_d)
  = [ ([5; 7], [5; 7], [], [5; 7], 8%nat); ([5], [], [7], [5], 8%nat); ([5], [], [], [5], 16%nat) ].
Proof. vm_compute. split; [repeat split; reflexivity|reflexivity]. Qed.


Example ex_fixed :
  let h := [ (1, [FSet 0 5]); (2, [FSet 1 6; FSet 1 7]); (4, []); (5, [FSet 2 8; FSet 0 9]) ] in
  fincreasing MIN_DT h /\
  map (fun x => (map (f_value (snd x)) [0; 1; 2]%nat, map (f_delta (snd (fst (fst x))) (snd x)) [0; 1; 2]%nat)) (f_trace (fixed_empty 3) h)
  = [ ([Some 5; None; None], [Some 5; None; None]); ([Some 5; Some 7; None], [None; Some 7; None]);
      ([Some 5; Some 7; None], [None; None; None]); ([Some 9; Some 7; Some 8], [Some 9; None; Some 8]) ].
Proof. vm_compute. split; [repeat split; reflexivity|reflexivity]. Qed.

Example ex_tsd_repaired :
  let b := tsd_cycle 1 [DSet 2 9; DErase 2; DSet 2 3] tsd_empty in
  tsd_modified_keys 1 b = [2] /\ tsd_added 1 b = [2] /\ tsd_get b 2 = Some 3.
Proof. exact TsdFacts.tsd_repaired_witness. Qed.

Example ex_tsd_child_only_cycle :
  let h := [ (1, [DSet 1 10; DSet 2 20; DSet 3 30]); (2, [DSet 1 11; DSet 2 21; DErase 3]); (4, [DWrite 2 22]); (5, []) ] in
  dincreasing MIN_DT h /\
  map (fun x => (sortz (tsd_modified_keys (snd (fst (fst x))) (snd x)), sortz (tsd_removed (snd (fst (fst x))) (snd x)), tsd_get (snd x) 2))
      (tsd_trace tsd_empty h)
  = [ ([1; 2; 3], [], Some 20); ([1; 2], [3], Some 21); ([2], [], Some 22); ([], [], Some 22) ].
Proof. vm_compute. split; [repeat split; reflexivity|reflexivity]. Qed.

(* range 10: an old element, a cluster, a jump that expires exactly the old one (head advances, the ring of capacity 4
   is full and wrapped), then a push that expires nothing: growth 4 -> 8 while wrapped *)
Example ex_dwindow_growth_while_wrapped :
  let h := [ (1, [WPush 11]); (5, [WPush 12]); (6, [WPush 13]); (7, [WPush 14]); (12, [WPush 15]); (13, [WPush 16]); (30, [WPush 17]) ] in
  wincreasing MIN_DT h /\
  (let w := dwin_run 10 3 (firstn 5 h) in (dw_head w, dw_size w, length (dw_buf w), dw_content w, dw_ev w))
    = (1%nat, 4%nat, 4%nat, [(5, 12); (6, 13); (7, 14); (12, 15)], Some 11) /\
  (let w := dwin_run 10 3 (firstn 6 h) in (dw_head w, dw_size w, length (dw_buf w), dw_content w, dw_all_valid w))
    = (0%nat, 5%nat, 8%nat, [(5, 12); (6, 13); (7, 14); (12, 15); (13, 16)], true) /\
  (let w := dwin_run 10 3 h in (dw_content w, dw_ev w, dw_all_valid w)) = ([(30, 17)], Some 16, false).
Proof. vm_compute. repeat split; reflexivity. Qed.

Example ex_window :
  let h := [ (1, [WPush 10]); (2, [WPush 11]); (3, []); (4, [WPush 12]); (5, [WPush 13; WPush 14]); (7, [WClear; WPush 15]) ] in
  wincreasing MIN_DT h /\ spec_whist h [] = [15] /\
  w_values (win_run 3 2 (firstn 5 h)) = [11; 12; 13] /\ w_all_valid (win_run 3 2 (firstn 1 h)) = false /\
  w_all_valid (win_run 3 2 (firstn 2 h)) = true /\ w_values (win_run 3 2 h) = [15].
Proof. vm_compute. repeat split; auto. Qed.
