(* Props/C06.v — property C06 (wiring half):
     "Behaviour depends on the dataflow, not on wiring order or node sharing: wiring the same nodes
      and connections in any statement order that respects port availability yields identical
      output streams; the same node definition with equal inputs and equal scalars may share one
      instance without changing any output, whereas nodes that differ in any input, scalar or
      resolved type, and all sink nodes, always remain distinct."
   Model: Intern.v, the mirror of Wiring::add_node / add_unique_node / add_rank_dependency /
   delayed_binding and of the part of Wiring::finish that builds the rank graph; Rank.v for the
   ranking itself.  A program is a list of statements (label = position); an order is the sequence
   of labels in which they are executed.  "The dataflow" of statement l is its unfolding
   [punf prog fuel l]: definition, resolved types, scalars and, recursively, what feeds each input
   — a function of the program alone.  A node whose behaviour is a function of its definition,
   types, scalars and input histories therefore produces a stream that is a function of its
   unfolding; the theorems below show the wired graph has, at every statement, exactly the
   program's unfolding — whatever the order, with or without sharing.  (Equality of the streams
   themselves on the implementation is checked by the correspondence; its derivation from a
   denotational semantics belongs to the engine family.)
   Statements only; every proof is one [exact]. *)
Require Import Base Rank RankLemmas RankFacts Intern InternFacts InternWf InternShare.
From Coq Require Import Arith Permutation.

(* --- the interning key ----------------------------------------------------------------------- *)
(* The key comparison used by the intern table is equality of the whole key
   (definition, resolved schemas, InputKey list, scalars): nothing is left out.  Since the repair
   (hooks/fix_passive_marker_in_key.patch) an InputKey carries the passive marker of its slot too. *)
Theorem intern_key_injective : forall a b : key, key_eqb a b = true <-> a = b.
Proof. exact InternFacts.key_eqb_eq. Qed.
Print Assumptions intern_key_injective.

(* Two calls get equal keys iff they agree on the definition, every resolved schema, the scalars and
   the inputs after the code's normalisation of target paths ... *)
Theorem make_key_injective : forall d ins d' ins',
  make_key d ins = make_key d' ins' <->
  nd_def d = nd_def d' /\ nd_sch d = nd_sch d' /\ nd_scal d = nd_scal d' /\ key_inputs ins = key_inputs ins'.
Proof. exact InternFacts.make_key_inj. Qed.
Print Assumptions make_key_injective.

(* ... and equal normalised inputs means: same number of inputs and, slot by slot, the same source
   (producing instance with path / placeholder / structure), the same rank flag and the same
   target path, where an empty target path stands for the slot's own index.  So swapped inputs,
   a different producer, a different path, a different rank flag or a different PASSIVE marker
   (`passive(port)`) all change the key. *)
Theorem inputs_equal_slotwise : forall ins ins',
  key_inputs ins = key_inputs ins' <->
  length ins = length ins' /\
  forall j a b, nth_error ins j = Some a -> nth_error ins' j = Some b ->
    in_src a = in_src b /\ in_rank a = in_rank b /\ in_passive a = in_passive b /\
    (match in_tpath a with [] => [(0 + j)%nat] | p => p end) = (match in_tpath b with [] => [(0 + j)%nat] | p => p end).
Proof. exact (InternFacts.norm_from_eq 0). Qed.
Print Assumptions inputs_equal_slotwise.

(* --- which statements share a node ----------------------------------------------------------- *)
(* Two statements that were given the same node are configured identically — same definition,
   same resolved schemas, same scalars, same inputs (by identity of the producing NODE, path, target
   slot, rank flag, passive marker; [eff_inputs]: add_unique_node ignores markers) — and, if they
   are different statements, both are shareable (have an output, were not added as unique).
   Contrapositive: statements differing in any input, scalar or resolved type remain distinct. *)
Theorem shared_only_if_identical : forall sharing prog order w l1 l2 i,
  NoDup order -> wire_prog sharing prog order = Ok w ->
  alookup l1 (w_env w) = Some i -> alookup l2 (w_env w) = Some i ->
  exists d1 ins1 r1 d2 ins2 r2,
    nth_error prog l1 = Some (StNode d1 ins1) /\ nth_error prog l2 = Some (StNode d2 ins2) /\
    resolve_inputs (w_env w) (w_phs w) ins1 = Some r1 /\ resolve_inputs (w_env w) (w_phs w) ins2 = Some r2 /\
    nd_def d1 = nd_def d2 /\ nd_sch d1 = nd_sch d2 /\ nd_scal d1 = nd_scal d2 /\
    key_inputs (eff_inputs d1 r1) = key_inputs (eff_inputs d2 r2) /\
    (l1 <> l2 -> interns d1 = true /\ interns d2 = true).
Proof. exact InternFacts.run_shared_same_config. Qed.
Print Assumptions shared_only_if_identical.

(* In particular two different statements that share a node carry the same passive markers: nodes
   differing in the marker of any input remain distinct. *)
Theorem shared_only_if_same_markers : forall sharing prog order w l1 l2 i d1 ins1 d2 ins2,
  NoDup order -> wire_prog sharing prog order = Ok w -> l1 <> l2 ->
  alookup l1 (w_env w) = Some i -> alookup l2 (w_env w) = Some i ->
  nth_error prog l1 = Some (StNode d1 ins1) -> nth_error prog l2 = Some (StNode d2 ins2) ->
  map in_passive ins1 = map in_passive ins2.
Proof. exact InternFacts.run_shared_same_markers. Qed.
Print Assumptions shared_only_if_same_markers.

(* Sinks (no output schema) and nodes added with add_unique_node never share a node with any other
   statement. *)
Theorem sinks_distinct : forall sharing prog order w l1 l2 i d ins,
  NoDup order -> wire_prog sharing prog order = Ok w ->
  nth_error prog l1 = Some (StNode d ins) -> interns d = false ->
  alookup l1 (w_env w) = Some i -> alookup l2 (w_env w) = Some i -> l1 = l2.
Proof. exact InternFacts.run_bypass_distinct. Qed.
Print Assumptions sinks_distinct.

(* Sharing is COMPLETE (sharing on): two executed statements that intern and have equal keys — same
   definition, schemas, scalars, inputs resolved to the same nodes — get ONE node, whatever was executed
   in between.  In particular a consumer of the first one's hidden error output
   (exception_time_series(p): Wiring::activate_error_capture amends p's instance in place) wired between
   two equal statements does not separate them: error capture is not part of the key and does not
   move the instance in the table ([captured] is read off the wired inputs). *)
Theorem equal_keys_share : forall prog order w l1 l2 k,
  NoDup order -> wire_prog true prog order = Ok w -> In l1 order -> In l2 order ->
  shared_key prog w l1 k -> shared_key prog w l2 k ->
  exists i, alookup l1 (w_env w) = Some i /\ alookup l2 (w_env w) = Some i.
Proof. exact InternShare.equal_keys_share. Qed.
Print Assumptions equal_keys_share.

(* --- sharing and statement order are unobservable -------------------------------------------- *)
(* Whatever the order and whether or not sharing is on, the node a statement is given unfolds, to
   every depth, to the dataflow the PROGRAM ascribes to that statement — passive markers included
   ([TIn] shows the marker in force on each input). *)
Theorem graph_unfolds_to_program : forall sharing prog order w,
  complete_order prog order -> single_bind prog -> wire_prog sharing prog order = Ok w ->
  forall l d ins, nth_error prog l = Some (StNode d ins) ->
  exists i, alookup l (w_env w) = Some i /\ forall fuel, gunf w fuel i = punf prog fuel l.
Proof. exact InternFacts.run_unfolds. Qed.
Print Assumptions graph_unfolds_to_program.

(* Sharing one instance does not change what any statement (in particular any sink) computes from. *)
Theorem intern_preserves_dataflow : forall prog order w_shared w_unshared,
  complete_order prog order -> single_bind prog ->
  wire_prog true prog order = Ok w_shared -> wire_prog false prog order = Ok w_unshared ->
  forall l d ins, nth_error prog l = Some (StNode d ins) ->
  exists i1 i0, alookup l (w_env w_shared) = Some i1 /\ alookup l (w_env w_unshared) = Some i0 /\
                forall fuel, gunf w_shared fuel i1 = gunf w_unshared fuel i0.
Proof. exact InternFacts.intern_preserves_dataflow. Qed.
Print Assumptions intern_preserves_dataflow.

(* Two admissible statement orders of the same program give graphs with equal unfoldings at every
   statement ... *)
Theorem order_independent : forall prog o1 o2 w1 w2,
  complete_order prog o1 -> complete_order prog o2 -> single_bind prog ->
  wire_prog true prog o1 = Ok w1 -> wire_prog true prog o2 = Ok w2 ->
  forall l d ins, nth_error prog l = Some (StNode d ins) ->
  exists i1 i2, alookup l (w_env w1) = Some i1 /\ alookup l (w_env w2) = Some i2 /\
                forall fuel, gunf w1 fuel i1 = gunf w2 fuel i2.
Proof. exact InternFacts.order_independent_unfold. Qed.
Print Assumptions order_independent.

(* The rank graph of any wired state is well formed (every edge joins two instances), so the
   theorems of C01 apply to it unconditionally ... *)
Theorem wired_rank_graph_wf : forall sharing prog order w g,
  wire_prog sharing prog order = Ok w -> rgraph_of w = Some g -> rg_wf g.
Proof. intros sharing prog order w g Hw. exact (InternWf.rgraph_of_wf w g (InternWf.wf_wire_prog sharing prog order w Hw)). Qed.
Print Assumptions wired_rank_graph_wf.

(* ... and what finish compiles, for each order, is a valid ranking of its own rank graph (so by
   C01 every node is evaluated after its producers, in both). *)
Theorem compiled_order_is_ranking : forall prog order w g o es,
  compile prog order = Built w g o es -> kahn g = KOk o /\ is_ranking g o.
Proof. exact InternWf.compile_ranked'. Qed.
Print Assumptions compiled_order_is_ranking.

(* A wired program is rejected as cyclic exactly when the rank graph finish builds — the wired state
   with the service rank dependencies applied — has a cycle. *)
Theorem compile_rejects_exactly_cycles : forall prog order w sv g,
  wire_prog true prog order = Ok w -> collect_svc prog order (w_env w) svc0 = Ok sv ->
  rgraph_of (finalize w sv) = Some g ->
  (compile prog order = Rejected E_CYCLE <-> cyclic g /\ ~ has_push_dep g).
Proof. exact InternWf.compile_rejects_cycle'. Qed.
Print Assumptions compile_rejects_exactly_cycles.

(* ---- non-vacuity: a concrete program, evaluated by the kernel -------------------------------- *)
Definition dsrc (k : nat) (s : Z) : ndef := {| nd_def := k; nd_sch := [1]; nd_scal := Some [s]; nd_uniq := false; nd_push := false |}.
Definition dadd : ndef := {| nd_def := 3; nd_sch := [1]; nd_scal := None; nd_uniq := false; nd_push := false |}.
Definition dsink : ndef := {| nd_def := 0; nd_sch := [0]; nd_scal := None; nd_uniq := false; nd_push := false |}.
Definition pin (l : nat) : input := {| in_src := SPeer l [] 0; in_tpath := []; in_rank := true; in_passive := false |}.
(* 0: a = src(7)  1: b = src(8)  2: add(a,b)  3: add(a,b) again  4: add(b,a)  5: sink(2)  6: sink(3)  7: sink(4) *)
Definition ex_prog : list stmt :=
  [StNode (dsrc 0 7) []; StNode (dsrc 0 8) []; StNode dadd [pin 0; pin 1]; StNode dadd [pin 0; pin 1];
   StNode dadd [pin 1; pin 0]; StNode dsink [pin 2]; StNode dsink [pin 3]; StNode dsink [pin 4]]%nat.
Definition ex_o1 : list nat := [0; 1; 2; 3; 4; 5; 6; 7]%nat.
Definition ex_o2 : list nat := [1; 0; 4; 3; 2; 7; 6; 5]%nat.

Definition env_of (r : res wst) : list (nat * nat) := match r with Ok w => w_env w | Err _ => [] end.
Definition count_of (r : res wst) : nat := match r with Ok w => length (w_insts w) | Err _ => O end.

(* statements 2 and 3 share a node, 4 (swapped inputs) does not; the three identical sinks stay three *)
Example ex_shared : (alookup 2 (env_of (wire_prog true ex_prog ex_o1)), alookup 3 (env_of (wire_prog true ex_prog ex_o1)),
                     alookup 4 (env_of (wire_prog true ex_prog ex_o1))) = (Some 2, Some 2, Some 3)%nat.
Proof. vm_compute. reflexivity. Qed.
Example ex_counts : (count_of (wire_prog true ex_prog ex_o1), count_of (wire_prog true ex_prog ex_o2),
                     count_of (wire_prog false ex_prog ex_o1)) = (7, 7, 8)%nat.
Proof. vm_compute. reflexivity. Qed.
Example ex_complete1 : NoDup ex_o1 /\ NoDup ex_o2.
Proof. split; apply nodupb_NoDup; vm_compute; reflexivity. Qed.
Example ex_built : match compile ex_prog ex_o2 with Built _ g o _ => rg_wfb g && valid_ranking g o | Rejected _ => false end = true.
Proof. vm_compute. reflexivity. Qed.
(* a loop through a placeholder: rejected; the same loop closed by a rank-free input: built *)
Definition ex_loop (rank : bool) : list stmt :=
  [StPlace; StNode (dsrc 0 1) [];
   StNode dadd [{| in_src := SPeer 1 [] 0; in_tpath := []; in_rank := true; in_passive := false |}; {| in_src := SDelay 0 []; in_tpath := []; in_rank := rank; in_passive := false |}];
   StNode dadd [pin 2]; StBind 0 3 []; StNode dsink [pin 3]]%nat.
Example ex_loop_rejected : compile (ex_loop true) [0; 1; 2; 3; 4; 5]%nat = Rejected E_CYCLE.
Proof. vm_compute. reflexivity. Qed.
Example ex_loop_broken_built : match compile (ex_loop false) [0; 1; 2; 3; 4; 5]%nat with Built _ _ o _ => o | _ => [] end = [0; 1; 2; 3]%nat.
Proof. vm_compute. reflexivity. Qed.
Definition ex_w2 : wst := match wire_prog true ex_prog ex_o2 with Ok w => w | Err _ => w0 end.
Example ex_unfold : gunf ex_w2 3 (match alookup 6 (w_env ex_w2) with Some i => i | None => 99 end) = punf ex_prog 3 6.
Proof. vm_compute. reflexivity. Qed.

(* --- the OLD rule, kept as a named variant ---------------------------------------------------- *)
(* Before hooks/fix_passive_marker_in_key.patch the key did not contain the passive marker
   ([wire_prog_old], [make_key_old]).  Under that rule the two full-strength statements above fail:
   x = src, y = src, sum(passive(x), y), sum(x, y) share one node, and which markers are in force on
   it — hence the unfolding [gunf], which shows them — depends on the statement order.
   A change that reverts the repair makes the implementation follow [wire_prog_old] again; the
   correspondence and the oracle kind passive_marker_not_in_key then fail (mutants/C06/revert_passive_marker_fix). *)
Theorem passive_marker_distinct_old_rule_refuted :
  exists prog order w l1 l2 i d1 ins1 d2 ins2,
    NoDup order /\ wire_prog_old true prog order = Ok w /\ l1 <> l2 /\
    alookup l1 (w_env w) = Some i /\ alookup l2 (w_env w) = Some i /\
    nth_error prog l1 = Some (StNode d1 ins1) /\ nth_error prog l2 = Some (StNode d2 ins2) /\
    map in_passive ins1 <> map in_passive ins2.
Proof. exact InternFacts.passive_marker_distinct_old_rule_refuted. Qed.
Print Assumptions passive_marker_distinct_old_rule_refuted.

Theorem order_independent_old_rule_refuted :
  exists prog o1 o2 w1 w2 l i1 i2 fuel,
    complete_order prog o1 /\ complete_order prog o2 /\ single_bind prog /\
    wire_prog_old true prog o1 = Ok w1 /\ wire_prog_old true prog o2 = Ok w2 /\
    alookup l (w_env w1) = Some i1 /\ alookup l (w_env w2) = Some i2 /\
    gunf w1 fuel i1 <> gunf w2 fuel i2.
Proof. exact InternFacts.order_independent_old_rule_refuted. Qed.
Print Assumptions order_independent_old_rule_refuted.

(* Under the repaired rule the pair is two nodes, each with its own active list, in either order. *)
Definition ppin (l : nat) : input := {| in_src := SPeer l [] 0; in_tpath := []; in_rank := true; in_passive := true |}.
Definition px_prog : list stmt :=
  [StNode (dsrc 0 7) []; StNode (dsrc 0 8) []; StNode dadd [ppin 0; pin 1]; StNode dadd [pin 0; pin 1];
   StNode dsink [pin 2]; StNode dsink [pin 3]]%nat.
Example px_two_nodes :
  (match compile px_prog [0; 1; 2; 3; 4; 5]%nat with Built w _ _ _ => map (fun it => (i_label it, active_slots it)) (w_insts w) | _ => [] end,
   match compile px_prog [0; 1; 3; 2; 4; 5]%nat with Built w _ _ _ => map (fun it => (i_label it, active_slots it)) (w_insts w) | _ => [] end)
  = ([(0, []); (1, []); (2, [1]); (3, [0; 1]); (4, [0]); (5, [0])],
     [(0, []); (1, []); (3, [0; 1]); (2, [1]); (4, [0]); (5, [0])])%nat.
Proof. vm_compute. reflexivity. Qed.

(* error capture interleaved with duplicate wires: p, a consumer of p's error output, a duplicate q of p,
   in the orders "p err q" and "p q err": q shares p's node in both, and p is captured in both *)
Definition ec_err (l : nat) : input := {| in_src := SPeer l [] 1; in_tpath := []; in_rank := true; in_passive := false |}.
Definition ec_prog : list stmt :=
  [StNode (dsrc 0 7) []; StNode dadd [pin 0]; StNode dadd [pin 0]; StNode dsink [ec_err 1]; StNode dsink [pin 2]]%nat.
Example ec_orders :
  (match wire_prog true ec_prog [0; 1; 3; 2; 4]%nat with Ok w => (alookup 1 (w_env w), alookup 2 (w_env w), length (w_insts w), captured w 1) | Err _ => (None, None, O, false) end,
   match wire_prog true ec_prog [0; 1; 2; 3; 4]%nat with Ok w => (alookup 1 (w_env w), alookup 2 (w_env w), length (w_insts w), captured w 1) | Err _ => (None, None, O, false) end)
  = ((Some 1, Some 1, 4, true), (Some 1, Some 1, 4, true))%nat.
Proof. vm_compute. reflexivity. Qed.
