(* Props/C16.v — property C16: push queue: accepted values are delivered once, in
   order, within capacity.  Statements only; every proof is one [exact].

   The model (coq/PushQ.v) is a labelled transition system whose atomic steps are the
   mutex-protected critical sections and condition-variable operations of
   push_source_node.cpp / executor.cpp / graph.cpp's push phase.  [reach pl c n ls] is the
   state after ANY list [ls] of steps (any interleaving of any number [n] of producers
   with the evaluation thread, starts, stops, stop requests, spurious wake-ups), policy
   [pl] (Queue, Burst, Confl), capacity [c] (0 = unbounded).
   Level: PARTIAL — atomicity of each critical section and the memory model are assumed.
   ONE push source: the LTS has a single queue and the engine-wide flag push_update_pending.  A root graph with
   several push sources shares that one flag among them (evaluate_impl resets it once per cycle and evaluates
   every push node of the prefix); that case is NOT covered by these theorems.  It rests on the correspondence
   check: the harness adds idle push sources to the observed one (sequential differential: the flag after each
   cycle; free running: the acceptor per source plus the oracle kinds stall / undelivered / lost_wakeup). *)
Require Import Base PushQ PushQInv PushQInv2 PushQFacts PushQBridge.
From Coq Require Import ZifyBool.

(* The values delivered to the graph are, in order, a prefix of the values whose send was accepted
   (acceptance order = order of the admission critical sections, the ghost log [accepted]);
   while the source is accepting, what is accepted is exactly what was delivered plus what is queued. *)
Theorem delivered_is_prefix_of_accepted : forall pl c n ls, let s := reach pl c n ls in
  (exists rest, accepted s = flatd (delivered s) ++ rest) /\
  (accepting s = true -> accepted s = flatd (delivered s) ++ vals s) /\
  (accepting s = false -> vals s = []).
Proof. exact PushQFacts.reach_log. Qed.
Print Assumptions delivered_is_prefix_of_accepted.

(* ... hence each producer's own order is preserved among the delivered values. *)
Theorem per_producer_order_preserved : forall pl c n ls, let s := reach pl c n ls in
  forall i j e1 e2, nth_error (flatd (delivered s)) i = Some e1 -> nth_error (flatd (delivered s)) j = Some e2 ->
    (i < j)%nat -> e_pid e1 = e_pid e2 -> (e_seq e1 < e_seq e2)%nat.
Proof. exact PushQFacts.reach_order. Qed.
Print Assumptions per_producer_order_preserved.

(* The engine time of a cycle is the ghost field [now]; [LCBegin t] is enabled only for now < t: that the
   real-time loop advances strictly (advance_realtime's max(wall, last + MIN_TD)) is C17's theorem
   rt_cycle_times_strict (Props/C17.v, RTLoop.v), reused here as the step's guard, not re-proved; the
   acceptor checks it on every recorded run (clause ok_times, oracle kind delivery_time_not_increasing). *)
(* Each value is delivered exactly once, each delivery in its own engine cycle, cycle times strictly
   increasing; under the queue policy a cycle delivers one value, a burst / conflated batch is non-empty. *)
Theorem delivered_once_each_in_own_cycle : forall pl c n ls, let s := reach pl c n ls in
  NoDup (flatd (delivered s)) /\
  increasingZ (map fst (delivered s)) /\
  forall tb, In tb (delivered s) -> snd tb <> [] /\ fst tb <= now s /\ (pol s = Queue -> length (snd tb) = 1%nat).
Proof. exact PushQFacts.reach_once. Qed.
Print Assumptions delivered_once_each_in_own_cycle.

(* The number of accepted but undelivered values never exceeds the configured capacity. *)
Theorem pending_le_capacity : forall pl c n ls, let s := reach pl c n ls in
  cap s <> 0%nat ->
  (length (vals s) <= cap s)%nat /\ (length (accepted s) <= length (flatd (delivered s)) + cap s)%nat \/ accepting s = false.
Proof. exact PushQFacts.reach_capacity. Qed.
Print Assumptions pending_le_capacity.

(* A non-blocking send is refused only when the queue is full or the source has stopped (stale or
   closing or detached sender, stop requested, or not accepting); a blocking send fails only when the
   source has stopped: whatever step decides "refused", one of these holds at that very step. *)
Theorem refused_only_if_full_or_stopped : forall s p s',
  step (LProd p) s = Some s' -> refusal_step p s s' ->
  stopped_for p s \/ (knd (get_prod p s) = KTry /\ full s = true).
Proof. exact PushQFacts.refusal_reason. Qed.
Print Assumptions refused_only_if_full_or_stopped.

Theorem blocking_fails_only_if_stopped : forall s p s',
  step (LProd p) s = Some s' -> refusal_step p s s' -> knd (get_prod p s) <> KTry -> stopped_for p s.
Proof.
  exact (fun s p s' H R K => match PushQFacts.refusal_reason s p s' H R with
                             | or_introl st => st
                             | or_intror (conj k _) => False_ind _ (K k)
                             end).
Qed.
Print Assumptions blocking_fails_only_if_stopped.

(* "full" means: exactly [cap] values are queued. *)
Theorem full_means_at_capacity : forall pl c n ls, let s := reach pl c n ls in
  full s = true -> cap s <> 0%nat /\ length (vals s) = cap s.
Proof. exact PushQFacts.reach_full_exact. Qed.
Print Assumptions full_means_at_capacity.

(* Nothing is accepted after stop: from a state whose queue no longer accepts, no sequence of steps
   without a new start extends the acceptance log; and a call begun after begin_close is turned away. *)
Theorem nothing_accepted_after_stop : forall ls s,
  accepting s = false -> (forall l, In l ls -> l <> LCStart) ->
  accepted (run ls s) = accepted s /\ accepting (run ls s) = false.
Proof. exact PushQFacts.run_after_stop. Qed.
Print Assumptions nothing_accepted_after_stop.

Theorem closed_sender_refuses : forall s p s',
  closing s = true -> pc (get_prod p s) = PEnter -> step (LProd p) s = Some s' ->
  pc (get_prod p s') = PIdle /\ lastr (get_prod p s') = 0 /\ accepted s' = accepted s.
Proof. exact PushQFacts.closed_refuses. Qed.
Print Assumptions closed_sender_refuses.

(* No lost wake-up: in every reachable state with a non-empty queue and no stop requested, the pending
   flag is set, or a producer stands right before mark_push_update_pending, or the evaluation thread is
   inside a cycle at a point from which it pops / re-arms before it can wait again. *)
Theorem no_lost_wakeup : forall pl c n ls, let s := reach pl c n ls in
  vals s <> [] -> stop_req s = false ->
  flag s = true \/ (exists p, (p < length (prods s))%nat /\ pc (get_prod p s) = PMark) \/ cons_rearming (cons s) = true.
Proof. exact PushQFacts.reach_no_lost_wakeup. Qed.
Print Assumptions no_lost_wakeup.

(* State before notify: whenever the evaluation thread is blocked in its wait although the flag (or the
   stop request) is set, a notify_all is on its way. *)
Theorem no_lost_notification : forall pl c n ls, let s := reach pl c n ls in
  cons s = CBlocked -> flag s = true \/ stop_req s = true ->
  (exists p, (p < length (prods s))%nat /\ pc (get_prod p s) = PNotify) \/ (stop_notifies s > 0)%nat.
Proof. exact PushQFacts.reach_no_lost_notification. Qed.
Print Assumptions no_lost_notification.

(* There is no reachable state in which the evaluation thread waits for ever with work pending:
   blocked + work pending + running => some producer's next step sets the flag or notifies. *)
Theorem consumer_never_waits_forever_on_work : forall pl c n ls, let s := reach pl c n ls in
  cons s = CBlocked -> vals s <> [] -> stop_req s = false ->
  (exists p, (p < length (prods s))%nat /\ (pc (get_prod p s) = PMark \/ pc (get_prod p s) = PNotify)) \/ (stop_notifies s > 0)%nat.
Proof. exact PushQFacts.reach_consumer_not_stuck. Qed.
Print Assumptions consumer_never_waits_forever_on_work.

Theorem pending_work_at_quiescence_has_flag : forall pl c n ls, let s := reach pl c n ls in
  (forall p, (p < length (prods s))%nat -> pc (get_prod p s) <> PMark) ->
  cons s = CIdle \/ cons s = CBlocked ->
  vals s <> [] -> stop_req s = false -> flag s = true.
Proof. exact PushQFacts.reach_quiescent_flag. Qed.
Print Assumptions pending_work_at_quiescence_has_flag.

(* Bounded progress: with the evaluation thread running (fair consumer), the k queued values are
   delivered by the next k cycles, one per cycle in queue order, and the flag stays set in between (the
   re-arm), so it never waits. *)
Theorem every_accepted_delivered_within_queue_length : forall vs s,
  pol s = Queue -> vals s = vs -> cons s = CIdle -> stop_req s = false -> (vs <> [] -> flag s = true) ->
  let s' := drain (length vs) s in
  vals s' = [] /\ cons s' = CIdle /\ accepted s' = accepted s /\
  map snd (delivered s') = map snd (delivered s) ++ map (fun v => [v]) vs.
Proof. exact PushQFacts.drain_delivers_all. Qed.
Print Assumptions every_accepted_delivered_within_queue_length.

(* A blocked sender never sleeps next to a free slot, nor past a stop, without a notify on its way. *)
Theorem blocked_sender_never_waits_forever : forall pl c n ls, let s := reach pl c n ls in
  (exists p, (p < length (prods s))%nat /\ pc (get_prod p s) = PWaiting) ->
  (accepting s = false -> cons s = CStopB) /\
  (accepting s = true -> cap s <> 0%nat /\
     ((pol s = Burst /\ is_popped (cons s) = true) \/
      (cap s <= length (vals s) + cnt is_woken (prods s) + b2n (is_popped (cons s)))%nat)).
Proof. exact PushQFacts.reach_blocked_sender_not_stuck. Qed.
Print Assumptions blocked_sender_never_waits_forever.

(* The sender control block outlives the node: no call is ever inside a detached control. *)
Theorem no_call_inside_detached_control : forall pl c n ls, let s := reach pl c n ls in
  forall p, (p < length (prods s))%nat -> inside (pc (get_prod p s)) = true -> attached s = true.
Proof. exact PushQFacts.reach_no_use_after_detach. Qed.
Print Assumptions no_call_inside_detached_control.

(* The executable acceptor used on free-running executions decides the declarative statement of the
   property on recorded histories. *)
Theorem acceptor_decides_history_ok : forall h, pushq_history_ok h = true <-> HistoryOK h.
Proof. exact PushQFacts.history_ok_iff. Qed.
Print Assumptions acceptor_decides_history_ok.

(* ---- bridge between the LTS's acceptance order and what a harness observes (tickets around calls) ---- *)
(* A call on its "accepted" return path has its entry in the acceptance log ... *)
Theorem returned_accepted_is_logged : forall pl c n ls, let s := reach pl c n ls in
  forall p, (p < length (prods s))%nat -> admitted (pc (get_prod p s)) = true -> In (cur (get_prod p s)) (accepted s).
Proof. exact PushQBridge.returned_accepted_is_logged. Qed.
Print Assumptions returned_accepted_is_logged.

(* ... and whatever is in the log when a send call begins stays ahead of that call's own entry: real-time
   order of calls (x returned before y began) is contained in the acceptance order.  With
   delivered_is_prefix_of_accepted this is the acceptor's FIFO clause.
   PARTIAL bridge.  Full statement, not proved: every run of the LTS, recorded with step indices as
   tickets (send begin / return, cycle begin, delivery), yields a history h with HistoryOK h.  Proved
   here: the order clause (ok_fifo) and, by delivered_once_each_in_own_cycle, ok_once / ok_times; the
   counting clauses (ok_cap, ok_batch, ok_refuse against tickets) are not bridged. *)
Theorem real_time_order_in_acceptance_order_partial : forall pl c n ls1 q v k ls2,
  let s1 := reach pl c n ls1 in
  pc (get_prod q s1) = PIdle -> (q < length (prods s1))%nat ->
  (forall l, In l ls2 -> l <> LCStart) ->
  let s2 := run ls2 (do_step s1 (LBegin q v k)) in
  let y := mkEntry q (nsent (get_prod q s1)) v in
  forall i j e, In e (accepted s1) -> nth_error (accepted s2) i = Some e -> nth_error (accepted s2) j = Some y -> (i < j)%nat.
Proof. exact PushQBridge.accepted_before_begin_is_ahead. Qed.
Print Assumptions real_time_order_in_acceptance_order_partial.

(* ---- non-vacuity ---- *)
(* two producers, capacity 1: p0's value is accepted, p1's try_send is refused (full), a cycle delivers,
   p1 sends again and is accepted: a reachable state with a delivery, a queued value and the flag set *)
Definition ex_labels : list label :=
  [LCStart; LBind 0 1; LBind 1 1;
   LBegin 0 10 KTry; LProd 0; LProd 0; LProd 0;          (* enter, stop check, admission: accepted, wake required *)
   LBegin 1 20 KTry; LProd 1; LProd 1; LProd 1; LProd 1;  (* refused: full *)
   LProd 0; LProd 0; LProd 0;                             (* mark, notify, leave *)
   LCBegin 5; LCons 0; LCons 0; LCons 0;                  (* reset, pop, notify capacity, (no) re-arm *)
   LBegin 1 21 KTry; LProd 1; LProd 1; LProd 1; LProd 1; LProd 1; LProd 1].
Example c16_reachable_nontrivial :
  let s := reach Queue 1 2 ex_labels in
  map e_val (flatd (delivered s)) = [10] /\ map e_val (vals s) = [21] /\ flag s = true /\
  lastr (get_prod 1 s) = 1 /\ map fst (delivered s) = [5] /\ cons s = CIdle.
Proof. vm_compute. repeat split; reflexivity. Qed.

(* the refusal premise is met: a step that decides "refused" on a full queue *)
Example c16_refusal_step_exists :
  let s := reach Queue 1 2 (firstn 10 ex_labels) in
  exists s', step (LProd 1) s = Some s' /\ refusal_step 1 s s' /\ full s = true.
Proof. eexists. split; [vm_compute; reflexivity|]. split; [right; split; [vm_compute; discriminate|vm_compute; reflexivity]|vm_compute; reflexivity]. Qed.

(* a blocked sender, woken by the pop's notify_one: premises of the waiting theorems are reachable *)
Example c16_blocked_sender_reachable :
  let s := reach Queue 1 2 ([LCStart; LBind 0 1; LBind 1 1; LBegin 0 10 KTry; LProd 0; LProd 0; LProd 0;
                             LBegin 1 20 KBlock; LProd 1; LProd 1; LProd 1]) in
  pc (get_prod 1 s) = PWaiting /\ accepting s = true /\ pc (get_prod 0 s) = PMark /\ flag s = false /\ vals s <> [].
Proof. vm_compute. repeat split; try reflexivity. discriminate. Qed.

(* the bridge's premises are met: p0's value is in the log when p1 begins its second call, whose entry
   (1, 1, 21) lands behind it *)
Example c16_bridge_premises :
  let s1 := reach Queue 1 2 (firstn 19 ex_labels) in
  pc (get_prod 1 s1) = PIdle /\ map e_val (accepted s1) = [10] /\
  map e_val (accepted (run (skipn 20 ex_labels) (do_step s1 (LBegin 1 21 KTry)))) = [10; 21].
Proof. vm_compute. repeat split; reflexivity. Qed.

(* a recorded history accepted by the acceptor *)
Example c16_history_accepted :
  pushq_history_ok (mkHist Queue 1 20 21 22 false false true
     [mkSend 0 0 100 false 1 1 2; mkSend 1 0 200 false 0 3 4; mkSend 1 1 201 true 1 5 9]
     [mkDeliv 10 6 7 [100]; mkDeliv 11 10 11 [201]] [(8, 1)]) = true.
Proof. vm_compute. reflexivity. Qed.
