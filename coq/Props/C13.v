(* Props/C13.v — property C13: reading through a reference equals reading its
   current target.  Statements only; every proof is one [exact].

   Vocabulary (coq/Ref.v, coq/RefFacts.v).  A history is a list of cycles [cyc]: in
   each cycle the selector source may tick with a value, each target may tick with a
   payload, and the unrelated poke source may tick.  [wf] = times strictly increasing.
     spec_sel op cs     the target the selection designates after cs, a fold over the
                        script alone: for the plain ops (if_then_else 0/3/5, if_cmp 1) the
                        target picked by the latest selector value ([plain_designation]);
                        for the CHAINED ops (6: if_then_else(c2, if_then_else(c1,A,B), C),
                        7: if_cmp(cmp2, if_then_else(c1,A,B), C, C)) the composition of the
                        two selectors, same-reference de-duplication at each level
                        ([chained_*] below say what it is in the relevant cases)
     spec_tgt sh i cs   target i as a plain time-series: the fold of ITS OWN ticks
     last_out sh op pre c   what the mechanism does in cycle c after ANY history pre:
                        o_cons = the consumers below the reference that are evaluated,
                        each with its reading (valid, modified, last-modified time,
                        value, delta); o_ref = the reference output ticked.
   Consumers: 0 active; 1 active + poke; 2 passive on the reference + poke; 3 active
   and requires a valid input.  All theorems quantify over every shape (TS / TSS /
   TSD), both selection operators, every history and every next cycle: arbitrary
   relative timings of retargets and target ticks.  By [run_outputs] every cycle of
   every run is the [last_out] of a prefix, and by [decode_wf] every case file the
   correspondence check runs decodes to a well-formed history. *)
Require Import Base Ref RefFacts.
From Coq Require Import ZifyBool.

(* Every cycle output of every run is the last cycle of one of its prefixes: the
   theorems below, stated for "any history pre, then cycle c", cover all cycles. *)
Theorem every_cycle_is_a_last_cycle : forall sh op cs o,
  In o (snd (run sh op s0 cs)) -> exists pre c post, cs = pre ++ c :: post /\ o = last_out sh op pre c.
Proof. exact RefFacts.run_outputs. Qed.
Print Assumptions every_cycle_is_a_last_cycle.

Theorem decode_wf : forall w,
  let '(s, e, shz, op) := header w in 1 <= s -> wf (snd (decode w)).
Proof. exact RefFacts.decode_wf_l. Qed.
Print Assumptions decode_wf.

(* The mechanism's state always agrees with the specification notions: the reference
   output and the dereferencing link designate spec_sel, the targets are their own
   histories, no recorded time lies in the future. *)
Theorem link_follows_selection : forall sh op cs, wf cs -> Inv sh op cs (st_after sh op cs).
Proof. exact RefFacts.inv_reach. Qed.
Print Assumptions link_follows_selection.

(* deref_reads_target (value): at EVERY evaluation, whatever caused it, a consumer
   reads through the reference exactly the validity and value of the currently
   designated target. *)
Theorem deref_reads_target : forall sh op pre c cid r,
  wf (pre ++ [c]) -> In (cid, r) (o_cons (last_out sh op pre c)) ->
  match spec_sel op (pre ++ [c]) with
  | Some j => r_valid r = tvalid (spec_tgt sh j (pre ++ [c])) /\
              r_vals r = (if tvalid (spec_tgt sh j (pre ++ [c])) then tval (spec_tgt sh j (pre ++ [c])) else [])
  | None => r_valid r = false /\ r_vals r = []
  end.
Proof. exact RefFacts.deref_value_l. Qed.
Print Assumptions deref_reads_target.

(* deref_reads_target (delta): when the designated target ticks, the whole reading —
   valid, modified, time, value and DELTA — is the one a direct reader of that target
   gets in that cycle. *)
Theorem deref_reads_target_delta : forall sh op pre c j cid r,
  wf (pre ++ [c]) ->
  spec_sel op (pre ++ [c]) = spec_sel op pre -> spec_sel op pre = Some j -> ticks c j = true ->
  In (cid, r) (o_cons (last_out sh op pre c)) ->
  r = read_direct (spec_tgt sh j (pre ++ [c])).
Proof. exact RefFacts.deref_delta_l. Qed.
Print Assumptions deref_reads_target_delta.

(* wakes_on_target_tick: whenever the designated target ticks, every active consumer is
   evaluated in that cycle and sees it as modified. *)
Theorem wakes_on_target_tick : forall sh op pre c j,
  wf (pre ++ [c]) -> spec_sel op (pre ++ [c]) = Some j -> ticks c j = true ->
  exists r, In (0%nat, r) (o_cons (last_out sh op pre c)) /\ In (1%nat, r) (o_cons (last_out sh op pre c)) /\
            In (3%nat, r) (o_cons (last_out sh op pre c)) /\
            r_valid r = true /\ r_mod r = true /\ r_lmt r = c_t c /\ r_vals r = tval (spec_tgt sh j (pre ++ [c])).
Proof. exact RefFacts.wakes_on_target_tick_l. Qed.
Print Assumptions wakes_on_target_tick.

(* retarget_ticks_same_cycle: a retarget to a VALID target — which need NOT tick in this
   cycle — evaluates every active consumer in that same cycle; it sees modified = true
   at the retarget time, the new target's current value, and (scalar) that value as
   the delta. *)
Theorem retarget_ticks_same_cycle : forall sh op pre c j,
  wf (pre ++ [c]) ->
  spec_sel op (pre ++ [c]) = Some j -> spec_sel op pre <> Some j ->
  tvalid (spec_tgt sh j (pre ++ [c])) = true ->
  exists r, In (0%nat, r) (o_cons (last_out sh op pre c)) /\ In (1%nat, r) (o_cons (last_out sh op pre c)) /\
            In (3%nat, r) (o_cons (last_out sh op pre c)) /\
            o_ref (last_out sh op pre c) = true /\
            r_valid r = true /\ r_mod r = true /\ r_lmt r = c_t c /\
            r_vals r = tval (spec_tgt sh j (pre ++ [c])) /\
            (sh = ShTS -> r_upd r = tval (spec_tgt sh j (pre ++ [c])) /\ r_rem r = []).
Proof. exact RefFacts.retarget_ticks_same_cycle_l. Qed.
Print Assumptions retarget_ticks_same_cycle.

(* keyed_retarget_is_diff.
   FULL STATEMENT (the property): on a retarget of a set / dictionary reference to a
   valid target the delta is the difference between the old contents (what the
   consumer saw before this cycle) and the new contents:
       (r_upd r, r_rem r) = sample_delta sh (old_view ..) (tval (spec_tgt sh j (pre ++ [c])))
   It is FALSE of the faithful model and of the code (theorem _refuted, finding
   C13-stale-removed in docs/notes-ref.md).  Proved instead:
     _partial : it holds when the old target's last tick removed nothing or is in this cycle;
     _added   : the added / modified side holds unconditionally;
     _exact   : what is computed in general (the removed side also repeats the keys the
                old target removed in its last tick, unless the new target holds them). *)
Theorem keyed_retarget_is_diff_partial : forall sh op pre c j,
  wf (pre ++ [c]) -> is_keyed sh = true ->
  spec_sel op (pre ++ [c]) = Some j -> spec_sel op pre <> Some j ->
  tvalid (spec_tgt sh j (pre ++ [c])) = true ->
  old_stale sh (spec_sel op pre) pre c = [] ->
  exists r, In (0%nat, r) (o_cons (last_out sh op pre c)) /\ r_mod r = true /\
            (r_upd r, r_rem r) = sample_delta sh (old_view sh (spec_sel op pre) pre) (tval (spec_tgt sh j (pre ++ [c]))).
Proof. exact RefFacts.keyed_retarget_is_diff_partial_l. Qed.
Print Assumptions keyed_retarget_is_diff_partial.

Theorem keyed_retarget_added_is_diff : forall sh op pre c j,
  wf (pre ++ [c]) -> is_keyed sh = true ->
  spec_sel op (pre ++ [c]) = Some j -> spec_sel op pre <> Some j ->
  tvalid (spec_tgt sh j (pre ++ [c])) = true ->
  exists r, In (0%nat, r) (o_cons (last_out sh op pre c)) /\
            r_upd r = fst (sample_delta sh (old_view sh (spec_sel op pre) pre) (tval (spec_tgt sh j (pre ++ [c])))).
Proof. exact RefFacts.keyed_retarget_added_is_diff_l. Qed.
Print Assumptions keyed_retarget_added_is_diff.

Theorem keyed_retarget_exact : forall sh op pre c j,
  wf (pre ++ [c]) -> is_keyed sh = true ->
  spec_sel op (pre ++ [c]) = Some j -> spec_sel op pre <> Some j ->
  tvalid (spec_tgt sh j (pre ++ [c])) = true ->
  exists r, In (0%nat, r) (o_cons (last_out sh op pre c)) /\ r_mod r = true /\
            r_upd r = fst (sample_delta sh (old_view sh (spec_sel op pre) pre) (tval (spec_tgt sh j (pre ++ [c])))) /\
            r_rem r = kv_keys (kv_minus (add_stale (old_stale sh (spec_sel op pre) pre c) (old_view sh (spec_sel op pre) pre))
                                        (tval (spec_tgt sh j (pre ++ [c])))).
Proof. exact RefFacts.keyed_retarget_exact_l. Qed.
Print Assumptions keyed_retarget_exact.

Theorem keyed_retarget_is_diff_refuted :
  exists sh op pre c j,
    wf (pre ++ [c]) /\ is_keyed sh = true /\
    spec_sel op (pre ++ [c]) = Some j /\ spec_sel op pre <> Some j /\
    tvalid (spec_tgt sh j (pre ++ [c])) = true /\
    forall r, In (0%nat, r) (o_cons (last_out sh op pre c)) ->
              (r_upd r, r_rem r) <> sample_delta sh (old_view sh (spec_sel op pre) pre) (tval (spec_tgt sh j (pre ++ [c]))).
Proof. exact RefFacts.keyed_retarget_is_diff_refuted_l. Qed.
Print Assumptions keyed_retarget_is_diff_refuted.

(* same_reference_no_tick: a selector tick that designates the target already designated
   republishes nothing — the reference output does not tick — and unless that target
   itself ticks nothing reaches the consumers. *)
Theorem same_reference_no_tick : forall sh op pre c v,
  wf (pre ++ [c]) -> chained op = false ->
  c_sel c = Some v -> spec_sel op pre = Some (sel_target op v) ->
  o_ref (last_out sh op pre c) = false /\
  (ticks c (sel_target op v) = false ->
   forall cid r, In (cid, r) (o_cons (last_out sh op pre c)) ->
     (c_force c = true \/ (c_poke c = true /\ (cid = 1%nat \/ cid = 2%nat \/ c_nest c = true))) /\
     r_mod r = false /\ r_upd r = [] /\ r_rem r = []).
Proof. exact RefFacts.same_reference_no_tick_l. Qed.
Print Assumptions same_reference_no_tick.

(* the same for ANY selector activity, chained ops included (e.g. the inner selector
   flipping while the outer one designates C; if_cmp going from EQ to GT, both C): as long
   as the designation is unchanged the reference does not tick and nothing reaches *)
Theorem same_designation_no_tick : forall sh op pre c,
  wf (pre ++ [c]) ->
  spec_sel op (pre ++ [c]) = spec_sel op pre ->
  o_ref (last_out sh op pre c) = false /\
  ((forall j, spec_sel op pre = Some j -> ticks c j = false) ->
   forall cid r, In (cid, r) (o_cons (last_out sh op pre c)) ->
     (c_force c = true \/ (c_poke c = true /\ (cid = 1%nat \/ cid = 2%nat \/ c_nest c = true))) /\
     r_mod r = false /\ r_upd r = [] /\ r_rem r = []).
Proof. exact RefFacts.same_designation_no_tick_l. Qed.
Print Assumptions same_designation_no_tick.

(* what spec_sel is: plain ops *)
Theorem plain_designation : forall op pre c v,
  chained op = false -> c_sel c = Some v -> spec_sel op (pre ++ [c]) = Some (sel_target op v).
Proof. exact RefFacts.plain_designation. Qed.
Print Assumptions plain_designation.

(* what spec_sel is: chained ops.  (1) the OUTER selector is quiet and designates the
   inner branch, the INNER selector flips: the consumer-side reference is retargeted to the
   inner selector's new target in this very cycle — with link_follows_selection and
   retarget_ticks_same_cycle (which hold for every op) the consumers are evaluated in that
   cycle, see the new target as modified, and by unselected_never_reaches no longer see
   the de-selected one.  (2), (3) the outer selector switching branches. *)
Theorem chained_inner_flip_retargets : forall op pre c v v2,
  chained op = true ->
  c_sel2 c = None -> s_c2 (spec_selst op pre) = Some v2 -> picks_inner op v2 = true ->
  c_sel c = Some v ->
  s_in (spec_selst op pre) <> Some (sel_target 0 v) ->
  spec_sel op (pre ++ [c]) = Some (sel_target 0 v).
Proof. exact RefFacts.chained_inner_flip_retargets_l. Qed.
Print Assumptions chained_inner_flip_retargets.

Theorem chained_outer_to_inner : forall op pre c v2 j,
  chained op = true -> c_sel c = None ->
  c_sel2 c = Some v2 -> picks_inner op v2 = true -> s_in (spec_selst op pre) = Some j ->
  spec_sel op (pre ++ [c]) = Some j.
Proof. exact RefFacts.chained_outer_to_inner_l. Qed.
Print Assumptions chained_outer_to_inner.

Theorem chained_outer_to_c : forall op pre c v2,
  chained op = true -> c_sel2 c = Some v2 -> picks_inner op v2 = false ->
  spec_sel op (pre ++ [c]) = Some 2%nat.
Proof. exact RefFacts.chained_outer_to_c_l. Qed.
Print Assumptions chained_outer_to_c.

Theorem reference_ticks_iff_retarget : forall sh op pre c,
  wf (pre ++ [c]) ->
  (o_ref (last_out sh op pre c) = true <-> spec_sel op (pre ++ [c]) <> spec_sel op pre).
Proof. exact RefFacts.ref_ticks_iff_retarget_l. Qed.
Print Assumptions reference_ticks_iff_retarget.

(* unselected_never_reaches: in a cycle without retarget in which the designated target
   does not tick, whatever the OTHER targets do, no active consumer is evaluated; a
   consumer evaluated for another reason (its poke input; or c_force: the first cycle
   of the nested graph holding the consumers, op 3/5, which evaluates all its nodes; or
   c_nest, op 5: the reference itself crosses into the nested graph and every evaluation
   of the nested node — here its poke input — also runs the active consumers inside:
   finding KF-C13-nested-ref-param-spurious-eval) sees modified = false, an empty delta
   and the unchanged value of the designated target. *)
Theorem unselected_never_reaches : forall sh op pre c cid r,
  wf (pre ++ [c]) ->
  spec_sel op (pre ++ [c]) = spec_sel op pre ->
  (forall j, spec_sel op pre = Some j -> ticks c j = false) ->
  In (cid, r) (o_cons (last_out sh op pre c)) ->
  (c_force c = true \/ (c_poke c = true /\ (cid = 1%nat \/ cid = 2%nat \/ c_nest c = true))) /\
  r_mod r = false /\ r_upd r = [] /\ r_rem r = [] /\
  match spec_sel op pre with
  | Some j => r_valid r = tvalid (spec_tgt sh j pre) /\
              r_vals r = (if tvalid (spec_tgt sh j pre) then tval (spec_tgt sh j pre) else [])
  | None => r_valid r = false /\ r_vals r = []
  end.
Proof. exact RefFacts.unselected_never_reaches_l. Qed.
Print Assumptions unselected_never_reaches.

(* the passive consumer is never woken through the reference *)
Theorem passive_only_poked : forall sh op pre c r,
  wf (pre ++ [c]) -> In (2%nat, r) (o_cons (last_out sh op pre c)) -> c_poke c = true \/ c_force c = true.
Proof. exact RefFacts.passive_only_poked_l. Qed.
Print Assumptions passive_only_poked.

(* the targets themselves are undisturbed: their direct readers see their own history *)
Theorem direct_readers_see_own_history : forall sh op pre c i r,
  wf (pre ++ [c]) -> In (i, r) (o_direct (last_out sh op pre c)) ->
  ticks c i = true /\ r = read_direct (spec_tgt sh i (pre ++ [c])).
Proof. exact RefFacts.direct_readers_l. Qed.
Print Assumptions direct_readers_see_own_history.

(* ------------------------------------------------------------------ targets that are sub-outputs of ONE node *)
(* The identity of a target is (owning node, path inside its output) — [tid], [tid_of].  With
   [same_producer op] the selectable targets are the fields of ONE producer node's bundle
   output.  Every theorem above is stated for every op, hence also for these; the three below
   spell out what that means for siblings. *)
Theorem sibling_identity : forall op i j,
  same_producer op = true -> i <> j ->
  t_node (tid_of op i) = t_node (tid_of op j) /\ tid_of op i <> tid_of op j /\ same_target op i j = false.
Proof. exact RefFacts.sibling_identity. Qed.
Print Assumptions sibling_identity.

(* a retarget between two sub-outputs of the same node IS a retarget: the consumers are
   evaluated in that cycle and see the new sibling's current value as modified *)
Theorem sibling_retarget_is_a_retarget : forall sh op pre c i j,
  wf (pre ++ [c]) -> same_producer op = true ->
  spec_sel op pre = Some i -> spec_sel op (pre ++ [c]) = Some j -> i <> j ->
  tvalid (spec_tgt sh j (pre ++ [c])) = true ->
  t_node (tid_of op i) = t_node (tid_of op j) /\
  exists r, In (0%nat, r) (o_cons (last_out sh op pre c)) /\ In (1%nat, r) (o_cons (last_out sh op pre c)) /\
            In (3%nat, r) (o_cons (last_out sh op pre c)) /\
            o_ref (last_out sh op pre c) = true /\
            r_valid r = true /\ r_mod r = true /\ r_lmt r = c_t c /\
            r_vals r = tval (spec_tgt sh j (pre ++ [c])) /\
            (sh = ShTS -> r_upd r = tval (spec_tgt sh j (pre ++ [c])) /\ r_rem r = []).
Proof. exact RefFacts.sibling_retarget_l. Qed.
Print Assumptions sibling_retarget_is_a_retarget.

(* ticks of the de-selected sibling never reach the consumers *)
Theorem sibling_tick_never_reaches : forall sh op pre c i j cid r,
  wf (pre ++ [c]) -> same_producer op = true ->
  spec_sel op pre = Some j -> spec_sel op (pre ++ [c]) = Some j ->
  i <> j -> ticks c i = true -> ticks c j = false ->
  In (cid, r) (o_cons (last_out sh op pre c)) ->
  t_node (tid_of op i) = t_node (tid_of op j) /\
  (c_force c = true \/ (c_poke c = true /\ (cid = 1%nat \/ cid = 2%nat \/ c_nest c = true))) /\
  r_mod r = false /\ r_upd r = [] /\ r_rem r = [] /\
  r_valid r = tvalid (spec_tgt sh j pre) /\
  r_vals r = (if tvalid (spec_tgt sh j pre) then tval (spec_tgt sh j pre) else []).
Proof. exact RefFacts.sibling_tick_never_reaches_l. Qed.
Print Assumptions sibling_tick_never_reaches.

(* ------------------------------------------------------------------ consumers in nested graphs *)
(* Consumers that sit in their OWN nested graph (ops 3, 5; [wrapped op]: behind a nested
   pass-through, where the re-bound export replays the new target's own, OLDER, modification
   time as the schedule request) are woken through graph.cpp nested_schedule_node_impl: the
   request time is clamped to the current time BEFORE the child's per-node slot is written, and
   the child runs exactly the nodes whose slot equals the current time ([wake], [nested_slot]).
   Every theorem above is stated for every op, so retarget_ticks_same_cycle already says that
   the retarget wakes such a consumer in the retarget cycle; the three below isolate why. *)
Theorem retarget_wakes_nested_consumer : forall op now when,
  when <= now -> wake op now when = true.
Proof. exact RefFacts.wake_true. Qed.
Print Assumptions retarget_wakes_nested_consumer.

(* ... at ANY nesting depth: one clamp per boundary crossed *)
Theorem retarget_wakes_nested_consumer_at_any_depth : forall d when now,
  when <= now -> Nat.iter (S d) (fun w => nested_slot w now) when = now.
Proof. exact RefFacts.nested_slot_iter. Qed.
Print Assumptions retarget_wakes_nested_consumer_at_any_depth.

(* the clamp must come before the slot write: an unclamped older request time never matches the
   exact-time evaluation loop (seeded change C13w3-clamp-after-child-slot-write) *)
Theorem unclamped_slot_never_runs : forall when now, when < now -> (when =? now) = false.
Proof. exact RefFacts.unclamped_slot_never_runs. Qed.
Print Assumptions unclamped_slot_never_runs.

(* ------------------------------------------------------------------ non-vacuity *)
(* A history with: selection of A, ticks of A and B, a same-value selector tick, a
   retarget to B (valid, not ticking in that cycle), a tick of the unselected A. *)
Definition ex_pre : list cyc :=
  [mkC 1 (Some 1) None [Some [1; 2]; None; None] false false false;
   mkC 2 None None [Some [3]; Some [2; 5]; None] true false false;
   mkC 4 (Some 1) None [None; Some [6]; None] false false false].
Definition ex_retarget : cyc := mkC 5 (Some 0) None [Some [7]; None; None] false false false.     (* to B; only A (old) ticks *)
Definition ex_tick : cyc := mkC 5 None None [Some [7]; None; None] true false false.              (* the designated A ticks *)
Definition ex_unsel : cyc := mkC 5 (Some 1) None [None; Some [-2]; None] true false false.        (* same selection; only B ticks *)

Example ex_wf : wf (ex_pre ++ [ex_retarget]) /\ wf (ex_pre ++ [ex_tick]) /\ wf (ex_pre ++ [ex_unsel]).
Proof. unfold wf; simpl; lia. Qed.

(* hypotheses of retarget_ticks_same_cycle / keyed_retarget_*: met, the new target does NOT
   tick in the retarget cycle, the consumer sees {2,5,6} with added {5,6} removed {1,3} *)
Example ex_retarget_hyps :
  spec_sel 0 (ex_pre ++ [ex_retarget]) = Some 1%nat /\ spec_sel 0 ex_pre <> Some 1%nat /\
  tvalid (spec_tgt ShTSS 1 (ex_pre ++ [ex_retarget])) = true /\ ticks ex_retarget 1 = false /\
  old_stale ShTSS (spec_sel 0 ex_pre) ex_pre ex_retarget = [] /\
  o_cons (last_out ShTSS 0 ex_pre ex_retarget) =
    let r := mkR true true 5 [(2, 0); (5, 0); (6, 0)] [(5, 0); (6, 0)] [1; 3] in [(0%nat, r); (1%nat, r); (3%nat, r)].
Proof. vm_compute. repeat split; try reflexivity; discriminate. Qed.

Example ex_retarget_scalar :
  o_cons (last_out ShTS 0 ex_pre ex_retarget) =
    let r := mkR true true 5 [(0, 6)] [(0, 6)] [] in [(0%nat, r); (1%nat, r); (3%nat, r)].
Proof. vm_compute. reflexivity. Qed.

(* hypotheses of deref_reads_target_delta / wakes_on_target_tick: met *)
Example ex_tick_hyps :
  spec_sel 0 (ex_pre ++ [ex_tick]) = spec_sel 0 ex_pre /\ spec_sel 0 ex_pre = Some 0%nat /\ ticks ex_tick 0 = true /\
  o_cons (last_out ShTSS 0 ex_pre ex_tick) =
    let r := mkR true true 5 [(1, 0); (2, 0); (3, 0); (7, 0)] [(7, 0)] [] in [(0%nat, r); (1%nat, r); (2%nat, r); (3%nat, r)].
Proof. vm_compute. repeat split; reflexivity. Qed.

(* hypotheses of same_reference_no_tick / unselected_never_reaches: met, and the poked
   consumers do read (so the conclusion is not about an empty list) *)
Example ex_unsel_hyps :
  c_sel ex_unsel = Some 1 /\ spec_sel 0 ex_pre = Some (sel_target 0 1) /\ ticks ex_unsel (sel_target 0 1) = false /\
  ticks ex_unsel 1 = true /\
  o_ref (last_out ShTSS 0 ex_pre ex_unsel) = false /\
  o_cons (last_out ShTSS 0 ex_pre ex_unsel) =
    let r := mkR true false 2 [(1, 0); (2, 0); (3, 0)] [] [] in [(1%nat, r); (2%nat, r)].
Proof. vm_compute. repeat split; reflexivity. Qed.

(* consumers INSIDE a nested graph (op 3): exactly as inlined (since /repo ed827a0 the first
   cycle of the nested graph no longer evaluates all its nodes) *)
Example ex_nested_consumers :
  run_ref [[1; 1; 10; 0; 3]; [2; 0; 2; 1]; [2; 1; 2; 100]; [2; 2; 3; 200]; [2; 0; 4; 0]] =
  [[21; 1; 2; 1; 1; 2; 1; 0; 100; 1; 0; 100; 0];
   [20; 0; 2; 1; 1; 2; 1; 0; 100; 1; 0; 100; 0]; [20; 1; 2; 1; 1; 2; 1; 0; 100; 1; 0; 100; 0];
   [20; 3; 2; 1; 1; 2; 1; 0; 100; 1; 0; 100; 0]; [22; 2];
   [21; 2; 3; 1; 1; 3; 1; 0; 200; 1; 0; 200; 0];
   [20; 0; 4; 1; 1; 4; 1; 0; 200; 1; 0; 200; 0]; [20; 1; 4; 1; 1; 4; 1; 0; 200; 1; 0; 200; 0];
   [20; 3; 4; 1; 1; 4; 1; 0; 200; 1; 0; 200; 0]; [22; 4]].
Proof. vm_compute. reflexivity. Qed.

(* the REFERENCE crosses into the nested graph (op 5): a poke of the nested node at t=3 also
   runs the active consumers 0 and 3, which read modified = false *)
Example ex_nested_ref_param :
  run_ref [[1; 1; 10; 0; 5]; [2; 0; 2; 1]; [2; 1; 2; 100]; [2; 7; 3; 1]; [2; 2; 4; 200]] =
  [[21; 1; 2; 1; 1; 2; 1; 0; 100; 1; 0; 100; 0];
   [20; 0; 2; 1; 1; 2; 1; 0; 100; 1; 0; 100; 0]; [20; 1; 2; 1; 1; 2; 1; 0; 100; 1; 0; 100; 0];
   [20; 3; 2; 1; 1; 2; 1; 0; 100; 1; 0; 100; 0]; [22; 2];
   [20; 0; 3; 1; 0; 2; 1; 0; 100; 0; 0]; [20; 1; 3; 1; 0; 2; 1; 0; 100; 0; 0];
   [20; 2; 3; 1; 0; 2; 1; 0; 100; 0; 0]; [20; 3; 3; 1; 0; 2; 1; 0; 100; 0; 0];
   [21; 2; 4; 1; 1; 4; 1; 0; 200; 1; 0; 200; 0]].
Proof. vm_compute. reflexivity. Qed.

(* CHAINED selection (op 6): c2 selects the inner branch at t=2 and stays quiet; c1 flips
   A -> B at t=4: the consumers are evaluated at t=4 and read B as modified; A's tick
   at t=5 no longer reaches them, B's tick at t=6 does *)
Definition ex_chain_pre : list cyc :=
  [mkC 1 None None [Some [100]; Some [200]; Some [300]] false false false;
   mkC 2 None (Some 1) [None; None; None] false false false;
   mkC 3 (Some 1) None [None; Some [201]; None] false false false].
Definition ex_chain_flip : cyc := mkC 4 (Some 0) None [None; None; None] false false false.
Example ex_chained_hyps :
  chained 6 = true /\ c_sel2 ex_chain_flip = None /\ s_c2 (spec_selst 6 ex_chain_pre) = Some 1 /\
  picks_inner 6 1 = true /\ s_in (spec_selst 6 ex_chain_pre) <> Some (sel_target 0 0) /\
  spec_sel 6 ex_chain_pre = Some 0%nat /\ spec_sel 6 (ex_chain_pre ++ [ex_chain_flip]) = Some 1%nat /\
  o_cons (last_out ShTS 6 ex_chain_pre ex_chain_flip) =
    let r := mkR true true 4 [(0, 201)] [(0, 201)] [] in [(0%nat, r); (1%nat, r); (3%nat, r)].
Proof. vm_compute. repeat split; try reflexivity; discriminate. Qed.

Example ex_chained_case_file :
  filter (fun l => hdz l =? 20) (filter (fun l => nthz 1 l =? 0)
    (run_ref [[1; 1; 10; 0; 6]; [2; 1; 1; 100]; [2; 2; 1; 200]; [2; 3; 1; 300]; [2; 4; 2; 1]; [2; 0; 3; 1];
              [2; 0; 4; 0]; [2; 1; 5; 101]; [2; 2; 6; 202]; [2; 4; 7; 0]; [2; 0; 8; 1]])) =
  [[20; 0; 3; 1; 1; 3; 1; 0; 100; 1; 0; 100; 0];
   [20; 0; 4; 1; 1; 4; 1; 0; 200; 1; 0; 200; 0];
   [20; 0; 6; 1; 1; 6; 1; 0; 202; 1; 0; 202; 0];
   [20; 0; 7; 1; 1; 7; 1; 0; 300; 1; 0; 300; 0]].
Proof. vm_compute. reflexivity. Qed.

(* targets = fields of ONE producer (sixth header field 1; op 10 in the model): retarget from
   field a to its sibling b at t=3 (b valid since t=1, not ticking), then a's tick at t=4 does
   not reach the consumers, b's tick at t=5 does *)
Example ex_sibling_hyps :
  same_producer 10 = true /\ spec_sel 10 ex_pre = Some 0%nat /\
  spec_sel 10 (ex_pre ++ [ex_retarget]) = Some 1%nat /\
  tvalid (spec_tgt ShTS 1 (ex_pre ++ [ex_retarget])) = true /\
  o_cons (last_out ShTS 10 ex_pre ex_retarget) =
    let r := mkR true true 5 [(0, 6)] [(0, 6)] [] in [(0%nat, r); (1%nat, r); (3%nat, r)].
Proof. vm_compute. repeat split; reflexivity. Qed.

Example ex_sibling_case_file :
  filter (fun l => (hdz l =? 20) && (nthz 1 l =? 0))
    (run_ref [[1; 1; 10; 0; 0; 1]; [2; 1; 1; 100]; [2; 2; 1; 200]; [2; 0; 2; 1]; [2; 0; 3; 0]; [2; 1; 4; 101]; [2; 2; 5; 201]]) =
  [[20; 0; 2; 1; 1; 2; 1; 0; 100; 1; 0; 100; 0];
   [20; 0; 3; 1; 1; 3; 1; 0; 200; 1; 0; 200; 0];
   [20; 0; 5; 1; 1; 5; 1; 0; 201; 1; 0; 201; 0]].
Proof. vm_compute. reflexivity. Qed.

(* wrapped (op 20: consumers in their own nested graph behind a nested pass-through): retarget to B,
   which ticked earlier (t = 4) while unselected and is quiet in the retarget cycle t = 5: the
   request time is B's old 4, the clamp makes it 5, the consumers run at 5 *)
Example ex_wrapped_hyps :
  wrapped 20 = true /\ in_nested 20 = true /\
  tlmt (spec_tgt ShTS 1 (ex_pre ++ [ex_retarget])) = 4 /\ c_t ex_retarget = 5 /\
  wake 20 5 4 = true /\ (4 =? 5) = false /\
  o_cons (last_out ShTS 20 ex_pre ex_retarget) =
    let r := mkR true true 5 [(0, 6)] [(0, 6)] [] in [(0%nat, r); (1%nat, r); (3%nat, r)].
Proof. vm_compute. repeat split; reflexivity. Qed.

(* the decoder meets the hypothesis of every theorem on a concrete case file, and the
   model prints the lines the driver prints for it (finding C13-stale-removed: key 1 is
   reported removed at t=2 and again at t=3) *)
Example ex_case_file :
  run_ref [[1; 1; 10; 1; 0]; [2; 0; 1; 1]; [2; 1; 1; 1; 2]; [2; 1; 2; -1]; [2; 2; 2; 5]; [2; 0; 3; 0]] =
  [[21; 1; 1; 1; 1; 1; 2; 1; 0; 2; 0; 2; 1; 0; 2; 0; 0];
   [20; 0; 1; 1; 1; 1; 2; 1; 0; 2; 0; 2; 1; 0; 2; 0; 0];
   [20; 1; 1; 1; 1; 1; 2; 1; 0; 2; 0; 2; 1; 0; 2; 0; 0];
   [20; 3; 1; 1; 1; 1; 2; 1; 0; 2; 0; 2; 1; 0; 2; 0; 0];
   [22; 1];
   [21; 1; 2; 1; 1; 2; 1; 2; 0; 0; 1; 1];
   [21; 2; 2; 1; 1; 2; 1; 5; 0; 1; 5; 0; 0];
   [20; 0; 2; 1; 1; 2; 1; 2; 0; 0; 1; 1];
   [20; 1; 2; 1; 1; 2; 1; 2; 0; 0; 1; 1];
   [20; 3; 2; 1; 1; 2; 1; 2; 0; 0; 1; 1];
   [20; 0; 3; 1; 1; 3; 1; 5; 0; 1; 5; 0; 2; 1; 2];
   [20; 1; 3; 1; 1; 3; 1; 5; 0; 1; 5; 0; 2; 1; 2];
   [20; 3; 3; 1; 1; 3; 1; 5; 0; 1; 5; 0; 2; 1; 2];
   [22; 3]].
Proof. vm_compute. reflexivity. Qed.
