(* Props/C01_rank.v — the WIRING half of property C01:
     "Nodes evaluate ... only after their producers ...  A wiring whose dependencies form a cycle
      that is not broken by a feedback edge is rejected when the graph is built, never run."
   The model is Rank.v, the mirror of build_ranked_graph (src/hgraph/types/graph_wiring.cpp).
   A graph is the instances in insertion order 0..n-1, their push-source flags, and the RANK edges
   (input edges with rank_dependency = true and explicit rank dependencies; rank-free edges — the
   backward links of capture/feedback-style pairs — are not rank edges).
   Statements only; every proof is one [exact].  The run-time half (forward scan) is the lead's. *)
Require Import Base Rank RankLemmas RankFacts Intern InternFacts InternWf.
From Coq Require Import Arith Permutation.

(* An accepted wiring is ranked soundly: the compiled order is a permutation of the nodes, every
   rank edge goes forward (so the evaluation scan reaches a producer before its consumers), and
   the push sources form a prefix. *)
Theorem kahn_sound : forall g o,
  rg_wf g -> kahn g = KOk o ->
  Permutation o (seq 0 (rg_n g)) /\
  (forall p c, In (p, c) (rg_edges g) -> (pos p o < pos c o)%nat) /\
  push_prefix g o.
Proof. exact RankFacts.kahn_sound. Qed.
Print Assumptions kahn_sound.

(* Rejection as a cycle happens exactly when the rank edges contain a cycle (and the push-source
   rule below did not fire first).  A loop that is closed only through a rank-free edge has no
   cycle in [rg_edges], so it is accepted; a loop not so broken is rejected. *)
Theorem kahn_complete : forall g,
  rg_wf g -> (kahn g = KCycle <-> cyclic g /\ ~ has_push_dep g).
Proof. exact RankFacts.kahn_complete. Qed.
Print Assumptions kahn_complete.

(* The third outcome of the code: a push source with a rank dependency is refused. *)
Theorem kahn_push_dep : forall g, rg_wf g -> (kahn g = KPushDep <-> has_push_dep g).
Proof. exact RankFacts.kahn_push_dep. Qed.
Print Assumptions kahn_push_dep.

(* Acceptance, in one line: built iff acyclic and no push source depends on anything. *)
Theorem kahn_accepts : forall g,
  rg_wf g -> ((exists o, kahn g = KOk o) <-> ~ cyclic g /\ ~ has_push_dep g).
Proof. exact RankFacts.kahn_accepts. Qed.
Print Assumptions kahn_accepts.

(* No valid ranking exists for a cyclic graph, whatever algorithm produced it. *)
Theorem ranking_acyclic : forall g o, is_ranking g o -> ~ cyclic g.
Proof. exact RankFacts.ranking_acyclic. Qed.
Print Assumptions ranking_acyclic.

(* The boolean acceptor run on the IMPLEMENTATION's node order is equivalent to the conclusion of
   kahn_sound: any order the code produces that is a valid ranking is accepted, nothing else is. *)
Theorem valid_ranking_accepts : forall g o, valid_ranking g o = true <-> is_ranking g o.
Proof. exact RankFacts.valid_ranking_accepts. Qed.
Print Assumptions valid_ranking_accepts.

Theorem wf_check : forall g, rg_wfb g = true <-> rg_wf g.
Proof. exact RankFacts.rg_wfb_spec. Qed.
Print Assumptions wf_check.

(* THE compiled order.  [kahn] is a function of the instances in insertion order, their push flags and the
   rank edges in discovery order - nothing else (no addresses, no hash order): ready lists seeded in
   insertion order and extended FIFO, push sources served first.  The correspondence requires the
   implementation's node order to EQUAL it (oracle kind order_not_canonical); that is a strengthening of
   the validity check, since kahn's order is itself accepted: *)
Theorem kahn_order_accepted : forall g o, rg_wf g -> kahn g = KOk o -> valid_ranking g o = true.
Proof. exact RankFacts.kahn_order_accepted. Qed.
Print Assumptions kahn_order_accepted.

(* --- explicit rank dependencies reach the ranking ---------------------------------------------- *)
(* The service / adaptor rank contract (register_service_rank_anchor, register_service_client_rank,
   apply_service_rank_dependencies): EVERY registered client — however many share a path and a
   direction — whose path has an anchor other than itself contributes a rank edge to the graph that
   finish ranks: anchor -> client for a receiving client, client -> anchor for a sending one ... *)
Theorem service_edges_ranked : forall prog order w sv g,
  wire_prog true prog order = Ok w -> collect_svc prog order (w_env w) svc0 = Ok sv ->
  rgraph_of (finalize w sv) = Some g ->
  forall p c rc a, In (p, c, rc) (s_clients sv) -> alookup p (s_anchors sv) = Some a -> a <> c ->
  In (if rc then (a, c) else (c, a)) (rg_edges g).
Proof. exact InternWf.service_edges_ranked. Qed.
Print Assumptions service_edges_ranked.

(* ... and whatever finish compiles is a valid ranking of that graph (so by [kahn_sound] a sending
   client is evaluated before the anchor that consumes its hand-over, a receiving client after it). *)
Theorem compiled_order_is_ranking : forall prog order w g o es,
  compile prog order = Built w g o es -> kahn g = KOk o /\ is_ranking g o.
Proof. exact InternWf.compile_ranked'. Qed.
Print Assumptions compiled_order_is_ranking.

(* ---- non-vacuity: concrete graphs meeting the hypotheses, evaluated by the kernel *)
(* diamond 0 -> {1,2} -> 3 declared as 3,1,2,0 would be wrong; here insertion order is 3 2 1 0
   reversed on purpose: node 3 is the source, node 0 the join; node 4 is a push source. *)
Definition ex_diamond : rgraph :=
  {| rg_n := 5; rg_push := [false; false; false; false; true];
     rg_edges := [(1, 0); (2, 0); (3, 1); (3, 2)]%nat |}.
Example ex_diamond_wf : rg_wfb ex_diamond = true. Proof. vm_compute. reflexivity. Qed.
Example ex_diamond_ok : kahn ex_diamond = KOk [4; 3; 1; 2; 0]%nat. Proof. vm_compute. reflexivity. Qed.
Example ex_diamond_valid : valid_ranking ex_diamond [4; 3; 2; 1; 0]%nat = true. Proof. vm_compute. reflexivity. Qed.
Example ex_diamond_invalid : valid_ranking ex_diamond [3; 4; 1; 2; 0]%nat = false. Proof. vm_compute. reflexivity. Qed.

(* a 3-cycle 0 -> 1 -> 2 -> 0: rejected; the same loop with the closing edge rank-free: accepted *)
Definition ex_loop : rgraph := {| rg_n := 3; rg_push := [false; false; false]; rg_edges := [(0, 1); (1, 2); (2, 0)]%nat |}.
Definition ex_loop_broken : rgraph := {| rg_n := 3; rg_push := [false; false; false]; rg_edges := [(0, 1); (1, 2)]%nat |}.
Example ex_loop_rejected : kahn ex_loop = KCycle. Proof. vm_compute. reflexivity. Qed.
Example ex_loop_cyclic : cyclic ex_loop.
Proof. exists 0%nat. eapply tcr_step; [|eapply tcr_step; [|apply tcr_one]]; simpl; eauto. Qed.
Example ex_loop_broken_ok : kahn ex_loop_broken = KOk [0; 1; 2]%nat. Proof. vm_compute. reflexivity. Qed.
Example ex_self_loop : kahn {| rg_n := 1; rg_push := [false]; rg_edges := [(0, 0)]%nat |} = KCycle.
Proof. vm_compute. reflexivity. Qed.
Example ex_push_dep : kahn {| rg_n := 2; rg_push := [false; true]; rg_edges := [(0, 1)]%nat |} = KPushDep.
Proof. vm_compute. reflexivity. Qed.

(* hub = statement 1 is the anchor of path 7; statements 2, 3 send to it, 4, 5 receive from it; the
   clients are wired on the wrong side of the hub by insertion order (receivers first, senders last) *)
Definition sv_src (k : Z) : ndef := {| nd_def := 0; nd_sch := [1]; nd_scal := Some [k]; nd_uniq := false; nd_push := false |}.
Definition sv_prog : list stmt :=
  [StNode (sv_src 4) []; StNode (sv_src 5) []; StNode (sv_src 1) []; StNode (sv_src 2) []; StNode (sv_src 3) [];
   StAnchor 7 2; StClient 7 3 false; StClient 7 4 false; StClient 7 0 true; StClient 7 1 true]%nat.
Example sv_order : match compile sv_prog [0; 1; 2; 3; 4; 5; 6; 7; 8; 9]%nat with Built _ _ o _ => o | Rejected _ => [] end
                   = [3; 4; 2; 0; 1]%nat.
Proof. vm_compute. reflexivity. Qed.
