(* Props/C02.v — property C02: simulation honours every scheduled wake-up at exactly
   its time, in order.  Statements only; every proof is one [exact].
   The model is coq/Engine.v (mirror of graph.cpp schedule_node_impl / start_impl /
   evaluate_impl, node.cpp evaluate_impl, executor.cpp run_storage + advance_simulation);
   user code is an arbitrary [behaviour]. *)
Require Import Base Sched SchedFacts Engine EngineFacts.
From Coq Require Import Sorted.

(* Evaluation time strictly increases from cycle to cycle, is never earlier than the
   start time and never reaches the end time - for every ranked graph, every user code
   and every run that ends without an exception escaping (fuel exhaustion is an error). *)
Theorem sim_times_strict : forall cfgs beh start end_ fuel,
  well_ranked cfgs -> start_ops_ok beh start -> start <= MAX_DT -> end_ <= MAX_DT ->
  g_err (run_sim cfgs beh start end_ fuel) = 0 ->
  (forall t, In t (cycle_times cfgs beh end_ fuel (start_graph cfgs beh start)) -> start <= t < end_) /\
  StronglySorted Z.lt (cycle_times cfgs beh end_ fuel (start_graph cfgs beh start)).
Proof. exact EngineFacts.sim_times_strict_l. Qed.
Print Assumptions sim_times_strict.

(* ... and those cycle times are exactly the cycle lines of the observable trace, the
   lines the implementation's lifecycle observer is compared against. *)
Theorem cycles_are_observed : forall cfgs beh start end_ fuel,
  g_err (run_sim cfgs beh start end_ fuel) = 0 ->
  rev (log10 (run_sim cfgs beh start end_ fuel)) =
  map (fun t => [10; t]) (cycle_times cfgs beh end_ fuel (start_graph cfgs beh start)).
Proof. exact EngineFacts.observed_cycles. Qed.
Print Assumptions cycles_are_observed.

(* The scheduling invariant holds at the first cycle boundary and at the end of every
   run prefix (fuel is the number of cycles allowed, so this is "after any number of cycles"). *)
Theorem boundary_invariant_always : forall cfgs beh start end_ fuel,
  well_ranked cfgs -> start_ops_ok beh start -> start <= MAX_DT -> end_ <= MAX_DT ->
  g_err (run_sim cfgs beh start end_ fuel) = 0 ->
  boundary cfgs (start_graph cfgs beh start) /\ boundary cfgs (run_sim cfgs beh start end_ fuel).
Proof. exact EngineFacts.boundary_always_l. Qed.
Print Assumptions boundary_invariant_always.

(* Never dropped, never late: at every cycle boundary the time of the next cycle is no
   later than any wake-up still pending in any node's scheduler. *)
Theorem next_cycle_not_after_any_pending_wakeup : forall cfgs g i e,
  boundary cfgs g -> (i < length cfgs)%nat -> c_sched (cfg cfgs i) = true -> In e (pending g i) ->
  g_nst g <= fst e.
Proof. exact EngineFacts.no_pending_skipped. Qed.
Print Assumptions next_cycle_not_after_any_pending_wakeup.

(* Exactly at its time: when the next cycle is a pending wake-up's time, the node's
   graph slot holds exactly that time, which is the condition under which the scan
   evaluates the node in that cycle. *)
Theorem due_node_is_armed_for_that_cycle : forall cfgs g i e,
  boundary cfgs g -> (i < length cfgs)%nat -> c_sched (cfg cfgs i) = true -> In e (pending g i) ->
  fst e = g_nst g -> slot_at i g = g_nst g.
Proof. exact EngineFacts.due_slot_is_now. Qed.
Print Assumptions due_node_is_armed_for_that_cycle.

(* ... and after that cycle no wake-up with a time up to the cycle's time is pending any
   more: it was consumed by the evaluation of its node. *)
Theorem due_wakeups_are_consumed_by_their_cycle : forall cfgs beh g,
  well_ranked cfgs -> boundary cfgs g -> g_err g = 0 -> g_nst g < MAX_DT ->
  g_err (evaluate_graph cfgs beh (g_nst g) g) = 0 ->
  forall i e, (i < length cfgs)%nat -> c_sched (cfg cfgs i) = true ->
  In e (pending (evaluate_graph cfgs beh (g_nst g) g) i) -> g_nst g < fst e.
Proof. exact EngineFacts.due_events_consumed. Qed.
Print Assumptions due_wakeups_are_consumed_by_their_cycle.

(* One cycle preserves the invariant, advances time to exactly the cached next time,
   and leaves the new cached next time strictly later. *)
Theorem cycle_step : forall cfgs beh g,
  well_ranked cfgs -> boundary cfgs g -> g_err g = 0 -> g_nst g < MAX_DT ->
  g_err (evaluate_graph cfgs beh (g_nst g) g) = 0 ->
  boundary cfgs (evaluate_graph cfgs beh (g_nst g) g) /\
  g_now (evaluate_graph cfgs beh (g_nst g) g) = g_nst g /\
  g_now (evaluate_graph cfgs beh (g_nst g) g) < g_nst (evaluate_graph cfgs beh (g_nst g) g).
Proof. exact EngineFacts.evaluate_graph_boundary. Qed.
Print Assumptions cycle_step.

(* The run loop terminates: with fuel (end - start) + 1 a run never runs out of fuel, for any
   ranked graph and user code (cycle times strictly increase, so there are at most end - start
   cycles).  The error code 9 is the model's out-of-fuel value; user errors are 2 and 3. *)
Theorem run_terminates : forall cfgs beh start end_,
  well_ranked cfgs -> start_ops_ok beh start -> start <= MAX_DT -> end_ <= MAX_DT ->
  g_err (run_sim cfgs beh start end_ (Z.to_nat (end_ - start) + 1)) <> 9.
Proof. exact EngineFacts.sim_run_terminates. Qed.
Print Assumptions run_terminates.

(* ---- non-vacuity: a concrete ranked program with two scheduler nodes, tags, a
   replacement and an input edge meets every hypothesis and runs 6 cycles. ---- *)
Definition ex_case : wire :=
  [[1; 1; 20];
   [2; 0; 1; 1; 1; 0; 0];
   [2; 1; 1; 0; 1; 1; 0; 0; 1; 1];
   [3; 0; -2; 6; 5; 0]; [3; 0; 0; 1; 3; 1]; [3; 0; 0; 1; 6; 2]; [3; 0; 1; 1; 2; 1];
   [3; 1; -1; 1; 2; 3]; [3; 1; -2; 6; 100; 0]].

Definition ex_beh : behaviour :=
  fun i k now ivs s => if (i <? 2)%nat then script_beh ex_case i k now ivs s else [].

Example ex_hypotheses_hold :
  let cfgs := parse_cfgs ex_case in
  g_err (run_sim cfgs ex_beh 1 20 20) = 0 /\
  cycle_times cfgs ex_beh 20 20 (start_graph cfgs ex_beh 1) = [1; 3; 4; 6; 7].
Proof. vm_compute. split; reflexivity. Qed.

Example ex_well_ranked : well_ranked (parse_cfgs ex_case).
Proof.
  intros i s Hi Hin. simpl in Hi.
  destruct i as [|[|i]]; [| |vm_compute in Hi; lia]; unfold cfg in Hin; vm_compute in Hin.
  - destruct Hin.
  - destruct Hin as [<-|[]]. vm_compute. lia.
Qed.

Example ex_start_ops_ok : start_ops_ok ex_beh 1.
Proof.
  intros i ivs s o Hin. unfold ex_beh in Hin.
  destruct i as [|[|i]]; [vm_compute in Hin; destruct Hin| |simpl in Hin; destruct Hin].
  vm_compute in Hin. destruct Hin as [<-|[]]. vm_compute. reflexivity.
Qed.
