(* C09 — a sub-graph behaves the same inlined or nested, at any depth. (in progress) *)
Require Import Base Sched Nested NestedWitness NestedFacts.

Theorem placeholder_c09 :
  rec_ticks 0 2 (run_nest_rule true boom_ident_case) = [(1, 101); (3, 103); (4, 104)]
  /\ rec_ticks 0 3 (run_nest_rule true boom_ident_case) = [(2, 107)].
Proof. exact repaired_rule_delivers_tick. Qed.
Print Assumptions placeholder_c09.
