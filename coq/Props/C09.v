(* C09 — a sub-graph behaves the same inlined or nested, at any depth.

   Model: Nested.v, a mirror of graph.cpp (schedule_node_impl, nested_schedule_node_impl, start_impl,
   evaluate_impl, propagate_nested_parent_schedule), nested_graph_node.cpp (start / evaluate / bind /
   propagate_schedule), nested_bindings.h (sampled consumers, forwarding outputs) over a TREE of graphs
   of arbitrary depth, with arbitrary user code ([behaviour]).  Every statement below is universal over
   trees [T], behaviours [beh], worlds [w] (and run parameters); [wf_tree T] says only that parent ids
   are smaller than child ids, a nested node's child points back at it and graph 0 is the root. *)
Require Import Base Sched Nested NestedWitness NestedFacts NestedInv.

(* ---------------------------------------------------------------- child_never_early *)
(* (a) The only evaluation a nested / try_except node ever requests of its child graph is at the
       current time of its own graph: the node's result depends on the child evaluator at that one
       point only. *)
Theorem child_evaluated_at_parent_time :
  forall T ev ev' g i w,
    (forall w', ev (c_child (ncfg_at T g i)) (now_of g w) w' = ev' (c_child (ncfg_at T g i)) (now_of g w) w') ->
    eval_nested T ev g i w = eval_nested T ev' g i w.
Proof. exact eval_nested_time. Qed.
Print Assumptions child_evaluated_at_parent_time.

(* (b) Evaluating any graph, at any depth, at a time that is not before its own clock and not after its
       parent's clock keeps EVERY child clock in the tree at or below its parent's clock: no graph is
       ever moved back in time, none runs ahead of its parent (by induction over the nesting depth). *)
Theorem child_never_early_step :
  forall T beh rr, wf_tree T -> forall f g t w,
    clocks_ok T w -> now_of g w <= t ->
    (forall pg pn, gc_parent (gcfg_at T g) = Some (pg, pn) -> t <= now_of pg w) ->
    clocks_ok T (eval_graph f T beh rr g t w).
Proof. intros T beh rr HT f. exact (clocks_eval_graph T beh HT rr f). Qed.
Print Assumptions child_never_early_step.

(* (c) ... hence in every state a simulation run goes through (after start, after every root cycle), for
       every program and every user code: every child's clock <= its parent's clock, and the root's next
       cycle is never in the root's past. *)
Theorem child_never_early :
  forall T beh rr start end_ fuel, wf_tree T -> 0 <= start <= MAX_DT -> end_ <= MAX_DT ->
    clocks_ok T (run_sim T beh rr start end_ fuel) /\ root_cache (run_sim T beh rr start end_ fuel).
Proof. intros T beh rr start end_ fuel HT Hs He. exact (run_sim_inv T beh rr HT start end_ fuel Hs He). Qed.
Print Assumptions child_never_early.

(* evaluating / starting a graph never touches the clock of a graph with a smaller id - in particular of
   none of its ancestors *)
Theorem child_start_keeps_ancestor_clocks :
  forall T beh, wf_tree T -> forall f c t w g', (g' < c)%nat -> now_of g' (start_graph f T beh c t w) = now_of g' w.
Proof. intros T beh HT f. exact (low_start_graph T beh HT f). Qed.
Print Assumptions child_start_keeps_ancestor_clocks.

(* ---------------------------------------------------------------- parent_due_no_later *)
(* FULL STATEMENT (not proved in general; see docs/notes-nest.md):
     for every wf tree, every behaviour, every state w reached by run_sim in which no exception has been
     captured so far, every nested node (pg,pn) with child c and every node j of c:
        now_of c w < slot_at j (gat c w)  ->  now_of pg w < slot_at pn (gat pg w) <= slot_at j (gat c w).
   It is FALSE once a try_except has captured an exception (finding KF-wakeup-lost-after-captured-error-C15).
   What is proved, for all trees / worlds, are the two mechanisms that establish it: *)

(* the PUSH: an out-of-band schedule on an idle child arms the owner node no later than that time,
   clamped to the clocks above; the push is itself a nested schedule on the parent graph, so the
   statement applies again one level up, at every depth. *)
Theorem parent_due_no_later_push :
  forall T, parents_lt T -> forall g i when w pg pn,
    gc_parent (gcfg_at T g) = Some (pg, pn) ->
    w_err w = 0 -> idle g w = true -> now_of g w <= when ->
    (pg < length (w_gs w))%nat -> (pn < length (g_slots (gat pg w)))%nat ->
    slot_at pn (gat pg (sched_at (length T) T g i when w)) <= clamp T pg (Z.max (Z.max when (now_of pg w)) (now_of 0 w)) w.
Proof. exact push_arms_owner. Qed.
Print Assumptions parent_due_no_later_push.

(* THE CLAMP (as repaired: to the ROOT's evaluation time): a schedule request on a nested graph, at whatever depth
   and however stale the clocks in between, either leaves the node's slot alone or leaves it at a time that is NOT
   BEFORE THE ENGINE'S CURRENT TIME - a child is never scheduled in the root's past. *)
Theorem child_never_scheduled_before_root_time :
  forall T, parents_lt T -> forall d g i when w pg pn,
    gc_parent (gcfg_at T g) = Some (pg, pn) ->
    let w' := sched_at (S d) T g i when w in
    slot_at i (gat g w') = slot_at i (gat g w) \/ now_of 0 w <= slot_at i (gat g w').
Proof. exact nested_schedule_not_before_root. Qed.
Print Assumptions child_never_scheduled_before_root_time.

(* the PULL: after a child cycle the owner is armed no later than the child's cached next time *)
Theorem parent_due_no_later_pull :
  forall T, parents_lt T -> forall g i c w,
    g_nst (gat c w) <> MAX_DT -> now_of g w <= g_nst (gat c w) ->
    (g < length (w_gs w))%nat -> (i < length (g_slots (gat g w)))%nat ->
    slot_at i (gat g (pull T g i c w)) <= clamp T g (g_nst (gat c w)) w.
Proof. exact pull_arms_owner. Qed.
Print Assumptions parent_due_no_later_pull.

(* WHOLE-RUN INVARIANT, cache half of `parent_due_no_later` (the tree version of EngineFacts.boundary):
   for every well-formed tree WITHOUT try_except nodes (no exception is ever captured at graph level; with
   one the statement is false - finding F1, corpus/nest/kf_wake_lost_*.case), every user code, every
   state the simulation loop reaches without an error (after start, after every root cycle), at EVERY depth:
   no graph is in the middle of a cycle, every graph's cursor is at rest, and the cached next time of every
   started graph is <= every armed slot inside it.  By induction over the run loop, the nesting depth and
   the forward scan (NestedInv.v: scan_good / eval_graph_good / start_graph_good). *)
Theorem parent_due_no_later_cache :
  forall T beh rr start end_ fuel,
    wf_tree T -> no_try T -> (0 < length T)%nat -> 0 <= start <= MAX_DT -> end_ <= MAX_DT ->
    let w := run_sim T beh rr start end_ fuel in
    ok w = true ->
    forall g, g_evaluating (gat g w) = false
      /\ (g_cursor (gat g w) = 0 \/ g_cursor (gat g w) = -1)
      /\ (g_started (gat g w) = true ->
          forall j, (j < length (gc_nodes (gcfg_at T g)))%nat -> (j < length (g_slots (gat g w)))%nat ->
                    g_now (gat g w) < slot_at j (gat g w) -> g_nst (gat g w) <= slot_at j (gat g w)).
Proof.
  intros T beh rr start end_ fuel HT HN HL Hs He w Hok g.
  destruct (run_sim_good T beh rr HT HN HL start end_ fuel Hs He Hok) as (C & Q & _).
  assert (E : g_evaluating (gat g w) = false) by (apply Q; lia).
  destruct (C g E) as [A B]. split; [exact E|split; [exact A|]]. intros S j Hj Hsl Harm. exact (B S j Hj Hsl Harm).
Qed.
Print Assumptions parent_due_no_later_cache.

(* the same for one completed cycle of any graph at any depth, from any good state (the inductive step) *)
Theorem parent_due_no_later_cycle :
  forall T beh rr, wf_tree T -> no_try T -> forall f c t w,
    Good T c w -> (c < length T)%nat -> ok (eval_graph f T beh rr c t w) = true ->
    Good T c (eval_graph f T beh rr c t w).
Proof. intros T beh rr HT HN f c t w. exact (proj2 (proj2 (eval_graph_good T beh HT HN rr f c t w))). Qed.
Print Assumptions parent_due_no_later_cycle.

(* NOT PROVED as a whole-run invariant: the owner half "owner slot armed and <= the child's cached next
   time".  It is established locally by the push and the pull (next two theorems) but is only invariant for
   RANKED trees (every producer evaluated before its consumers' owners): in an unranked tree a same-cycle
   notification arriving after the owner was scanned overwrites the owner's future slot with the current
   time (schedule_node_impl: `when < scheduled`) and the child's wake-up is lost.  Proving it needs the
   invariant "the evaluating graphs form the owner chain of the node being evaluated" over the recursion;
   the correspondence and the oracle's timer check (`wake_lost`) carry it. *)

(* ---------------------------------------------------------------- no_child_wake_lost *)
(* FULL STATEMENT: from parent_due_no_later and the root's C02.wake_exact: every pending slot of every
   node at every depth is the time of a root cycle in which the chain of owners evaluates down to it.
   Proved part: a request is recorded no later than asked in the node's own slot, at any depth, and it
   can never raise "schedule in the past" when it is not before the graph's clock. *)
Theorem no_child_wake_lost_recorded :
  forall T, parents_lt T -> forall g i when w,
    (g < length (w_gs w))%nat -> (i < length (g_slots (gat g w)))%nat -> now_of g w <= when ->
    slot_at i (gat g (sched_at (length T) T g i when w)) <= clamp T g when w
    /\ w_err (sched_at (length T) T g i when w) = w_err w.
Proof.
  intros T HT g i when w Lg Li Hn. split.
  - apply sched_at_own_slot; auto.
    destruct (gc_parent (gcfg_at T g)) as [[pg pn]|] eqn:Hp; auto. left. eapply has_parent_in_range; eauto.
  - apply sched_at_top_err; auto.
Qed.
Print Assumptions no_child_wake_lost_recorded.

(* no_child_wake_lost, PARTIAL: in every good boundary state (previous theorem), if the owners of graph c
   up to the root are due (each owner slot armed and <= the cached next time of the child it owns - what
   push and pull establish), the root's next cycle is no later than ANY armed slot inside c, at any depth *)
Theorem no_child_wake_lost_partial :
  forall T d c j w,
    Cov T w -> Quiet 0 w -> g_started (gat c w) = true ->
    (j < length (gc_nodes (gcfg_at T c)))%nat -> (j < length (g_slots (gat c w)))%nat ->
    g_now (gat c w) < slot_at j (gat c w) ->
    owners_due d T c w ->
    g_nst (gat 0 w) <= slot_at j (gat c w).
Proof. exact root_next_le_child_slot. Qed.
Print Assumptions no_child_wake_lost_partial.

(* notifications (an outer producer ticking an input bound into a child, at any depth) never fail *)
Theorem notification_never_in_the_past :
  forall T, parents_lt T -> forall p now w, w_err (notify T p now w) = w_err w.
Proof. exact notify_err. Qed.
Print Assumptions notification_never_in_the_past.

(* ---------------------------------------------------------------- nested_eq_inlined *)
(* FULL STATEMENT (not proved; carried by the correspondence + the oracle's stream comparison):
     for every body B over arbitrary node behaviours (internal sources, schedulers, state, pass-through
     outputs, captured outer ports), every depth d >= 1 and every outer program P, the stream of
     (time, value) ticks at the outer output of nest^d(B) in P equals that of B inlined into P.
   What is missing: a simulation between the flat engine run on the inlined program and the tree engine
   (relation: equal node states and slots for the body's nodes; the owner chain's slots = min of the
   child's pending slots; extra root cycles of one side evaluate nothing in the body).  It is also
   literally false for the phantom `modified` tick of finding KF-phantom-tick-forwarding-rebind-C09.
   Proved: boundaries are bindings at every depth - the reading half of the simulation. *)
Theorem nested_eq_inlined_partial_inputs :
  forall f T g n slot s pg pn b,
    nth_error (c_ins (ncfg_at T g n)) slot = Some s -> i_src s < 0 ->
    gc_parent (gcfg_at T g) = Some (pg, pn) ->
    find (fun b => (b_node b =? n)%nat && (b_slot b =? slot)%nat) (c_binds (ncfg_at T pg pn)) = Some b ->
    res_in (S f) T g n slot = res_in f T pg pn (b_outer b).
Proof. exact res_in_bound. Qed.
Print Assumptions nested_eq_inlined_partial_inputs.

Theorem nested_eq_inlined_partial_output :
  forall f T g n,
    is_nested (ncfg_at T g n) = true -> 0 <= c_outn (ncfg_at T g n) ->
    res_out (S f) T g n 0 = res_out f T (c_child (ncfg_at T g n)) (Z.to_nat (c_outn (ncfg_at T g n))) 0.
Proof. exact res_out_forward. Qed.
Print Assumptions nested_eq_inlined_partial_output.

(* ---------------------------------------------------------------- non-vacuity *)
(* a decoded generated program is a well-formed tree; its run satisfies the invariant *)
Example wf_tree_inhabited : wf_tree (decode boom_ident_case).
Proof. exact wf_boom_ident. Qed.

Example run_clocks_example :
  clocks_ok (decode boom_ident_case) (run_sim (decode boom_ident_case) (script_beh boom_ident_case) true 1 8 8).
Proof. apply child_never_early; [exact wf_boom_ident| |]; unfold MAX_DT; lia. Qed.

(* the hypotheses of the push theorem are met by a reachable state: after the run the child graph 1 of
   the witness is idle (started, not evaluating) and has an owner *)
Example push_hypotheses_inhabited :
  let T := decode boom_ident_case in
  let w := run_sim T (script_beh boom_ident_case) true 1 8 8 in
  gc_parent (gcfg_at T 1) = Some (0%nat, 1%nat) /\ w_err w = 0 /\ idle 1 w = true /\ now_of 1 w <= 9
  /\ (0 < length (w_gs w))%nat /\ (1 < length (g_slots (gat 0 w)))%nat.
Proof. vm_compute. repeat split; try reflexivity; try lia; intros H; discriminate. Qed.

(* the whole-run invariant is not vacuous: a depth-2 nest without try_except, run to the end without error;
   in its final state the owner chain of the innermost graph is as the theorem says *)
Example whole_run_invariant_inhabited :
  let T := decode nest2_case in
  let w := run_sim T (script_beh nest2_case) true 1 8 8 in
  wf_tree T /\ no_try T /\ (0 < length T)%nat /\ ok w = true
  /\ g_started (gat 2 w) = true /\ g_now (gat 2 w) = 5.
Proof.
  split; [exact wf_nest2|split; [exact no_try_nest2|]]. vm_compute. repeat split; try reflexivity; lia.
Qed.

