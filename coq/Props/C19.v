(* Props/C19.v — property C19: operator resolution picks the unique most specific
   match, consistently.  Statements only; every proof is one [exact].

   Model: Resolve.v (mirror of OperatorRegistry::resolve, try_match, the pattern
   matchers of type_pattern.cpp, ResolutionMap::bind_*, RankAccumulator).
   "Specificity" is the effective rank the code computes (candidate rank +
   adaptation adjustments); lower is more specific. *)
Require Import Base Resolve ResolveFacts ResolveMatchFacts ResolveSubstFacts ResolveCompleteFacts ResolveInheritFacts.
From Coq Require Import ZifyBool Permutation.

(* ---- registration order does not matter ------------------------------------------------ *)

(* For the same registered overloads (any permutation of the overload list) and the same
   query, resolution gives the same outcome: the same selected candidate with the same
   bindings and rank, or no match, or an ambiguity with the same tied set, or the same
   escaping exception. *)
Theorem resolve_perm_invariant : forall cs cs' q,
  Permutation cs cs' -> outcome_equiv (resolve cs q) (resolve cs' q).
Proof. exact ResolveFacts.resolve_perm_invariant_lemma. Qed.
Print Assumptions resolve_perm_invariant.

(* the same theorem under the name used in the seeded-change report: the verdict of the model's
   resolve (selected overload with bindings and effective rank — which includes the
   defaults-used term —, ambiguity with its tied set, no match, escaping exception) is invariant
   under EVERY permutation of the registration order *)
Theorem resolve_permutation_invariant : forall cs cs' q,
  Permutation cs cs' -> outcome_equiv (resolve cs q) (resolve cs' q).
Proof. exact ResolveFacts.resolve_perm_invariant_lemma. Qed.
Print Assumptions resolve_permutation_invariant.

(* a candidate's verdict (accept with map and effective rank / reject / raise) is a function of the
   candidate and the query alone: nothing is carried over from the candidates tried before it.
   (This is what makes the theorem above possible; in the code it is the freshness of
   NormalizedCall / ResolutionMap / rank_adjustment per loop iteration.) *)
Theorem survivor_verdict_is_local : forall cs1 cs2 c q l,
  collect (cs1 ++ c :: cs2) q = Some l ->
  forall m k, try_match c q = TMOk m k -> In (c, m, k) l.
Proof. exact ResolveFacts.collect_local. Qed.
Print Assumptions survivor_verdict_is_local.

(* ---- which outcome ---------------------------------------------------------------------- *)

(* s is selected iff it is a surviving candidate whose rank is strictly below the rank of
   every other surviving candidate (other = any other position of the survivor list). *)
Theorem selects_unique_min_rank : forall cs q s,
  resolve cs q = OSel s <->
  exists l l1 l2, collect cs q = Some l /\ l = l1 ++ s :: l2 /\ forall x, In x (l1 ++ l2) -> s_rank s < s_rank x.
Proof. exact ResolveFacts.selects_unique_min_rank_lemma. Qed.
Print Assumptions selects_unique_min_rank.

(* the survivor list is exactly the matching candidates, each with the map / rank of its own match *)
Theorem survivors_are_the_matching_candidates : forall cs q l,
  collect cs q = Some l ->
  forall s, In s l <-> (In (s_cand s) cs /\ try_match (s_cand s) q = TMOk (s_map s) (s_rank s)).
Proof. exact ResolveFacts.collect_in. Qed.
Print Assumptions survivors_are_the_matching_candidates.

Theorem nomatch_iff_none_matches : forall cs q,
  resolve cs q = ONoMatch <-> forall c, In c cs -> try_match c q = TMRej.
Proof. exact ResolveFacts.nomatch_iff_none_matches_lemma. Qed.
Print Assumptions nomatch_iff_none_matches.

(* ambiguity iff the best (least) rank among the survivors is shared; the reported tied set is
   all survivors of that rank, in registration order *)
Theorem ambiguous_iff_best_shared : forall cs q tied,
  resolve cs q = OAmb tied <->
  exists l r, collect cs q = Some l /\ is_min r l /\ tied = filter (rank_is r) l /\ (2 <= length tied)%nat.
Proof. exact ResolveFacts.ambiguous_iff_best_shared_lemma. Qed.
Print Assumptions ambiguous_iff_best_shared.

(* the only other outcome: an exception that is not a resolution error escapes iff some
   candidate's caller-pinned size hint contradicts the caller-supplied resolution *)
Theorem error_iff_some_candidate_raises : forall cs q,
  resolve cs q = OErr <-> exists c, In c cs /\ try_match c q = TMErr.
Proof. exact ResolveFacts.error_iff_some_candidate_raises_lemma. Qed.
Print Assumptions error_iff_some_candidate_raises.

(* ---- the matchers ------------------------------------------------------------------------ *)

(* A successful match (in each direction the code has) extends the map it was given — no
   existing binding is changed — and under the resulting map, used as ONE substitution for
   the whole pattern, the pattern accepts the argument type.  [sinst]/[tinst]/[iinst]/[oinst]
   are the acceptance checks with the state threading removed (ResolveMatchFacts.v). *)
Theorem match_sound :
  (forall p s m m', smatch p s m = Some m' -> extends m m' /\ sinst m' p s = true) /\
  (forall p t m m', tmatch p t m = Some m' -> extends m m' /\ tinst m' p t = true) /\
  (forall p t m m', imatch p t m = Some m' -> extends m m' /\ iinst m' p t = true) /\
  (forall p t m m', omatch p t m = Some m' -> extends m m' /\ oinst m' p t = true).
Proof.
  exact (conj ResolveMatchFacts.smatch_sound (conj ResolveMatchFacts.tmatch_sound
        (conj ResolveMatchFacts.imatch_sound ResolveMatchFacts.omatch_sound))).
Qed.
Print Assumptions match_sound.

(* Completeness: whenever SOME substitution sg above the current map makes the pattern an
   instance of the argument, the matcher succeeds and its result stays below sg — it is the least
   consistent assignment.  So a failed match means that no consistent assignment exists.
   ([no_bv]: no TSB schema variable, which compares up to bundle names.  [no_bundle_binding]: no scalar
   variable bound to a named bundle — the input direction lets such a variable take any descendant bundle,
   which makes f(TS[~T], TS[~T]) accept (TS[Base], TS[Derived]) but not (TS[Derived], TS[Base]).) *)
Theorem match_complete :
  (forall p s m sg, extends m sg -> sinst sg p s = true -> exists m', smatch p s m = Some m' /\ extends m' sg) /\
  (forall p, no_bv p = true -> forall t m sg, extends m sg -> tinst sg p t = true ->
             exists m', tmatch p t m = Some m' /\ extends m' sg) /\
  (forall p, no_bv p = true -> forall t m sg, no_bundle_binding sg -> extends m sg -> iinst sg p t = true ->
             exists m', imatch p t m = Some m' /\ extends m' sg).
Proof.
  exact (conj ResolveCompleteFacts.smatch_complete (conj ResolveCompleteFacts.tmatch_complete
        ResolveCompleteFacts.imatch_complete)).
Qed.
Print Assumptions match_complete.

(* acceptance is stable under extension, so the final map of a candidate serves all positions *)
Theorem instance_stable_under_extension : forall m m', extends m m' ->
  (forall p s, sinst m p s = true -> sinst m' p s = true) /\
  (forall p t, tinst m p t = true -> tinst m' p t = true) /\
  (forall p t, iinst m p t = true -> iinst m' p t = true) /\
  (forall p t, oinst m p t = true -> oinst m' p t = true).
Proof.
  exact (fun m m' X => conj (ResolveMatchFacts.sinst_mono m m' X) (conj (ResolveMatchFacts.tinst_mono m m' X)
        (conj (ResolveMatchFacts.iinst_mono m m' X) (ResolveMatchFacts.oinst_mono m m' X)))).
Qed.
Print Assumptions instance_stable_under_extension.

(* ResolutionMap::bind_*: the first binding wins; the same binding again is accepted; a second,
   different binding is rejected (std::logic_error); an accepted bind only extends the map *)
Theorem bind_rejects_inconsistent_rebinding :
  (forall m v t b, afind v (r_ts m) = Some b -> b <> t -> bind_ts m v t = None) /\
  (forall m v s b, afind v (r_sc m) = Some b -> b <> s -> bind_sc m v s = None) /\
  (forall m v n b, afind v (r_sz m) = Some b -> b <> n -> bind_sz m v n = None) /\
  (forall m v t m', bind_ts m v t = Some m' -> extends m m' /\ afind v (r_ts m') = Some t) /\
  (forall m v s m', bind_sc m v s = Some m' -> extends m m' /\ afind v (r_sc m') = Some s) /\
  (forall m v n m', bind_sz m v n = Some m' -> extends m m' /\ afind v (r_sz m') = Some n).
Proof.
  exact (conj ResolveMatchFacts.bind_ts_rejects (conj ResolveMatchFacts.bind_sc_rejects
        (conj ResolveMatchFacts.bind_sz_rejects (conj ResolveMatchFacts.bind_ts_extends
        (conj ResolveMatchFacts.bind_sc_extends ResolveMatchFacts.bind_sz_extends))))).
Qed.
Print Assumptions bind_rejects_inconsistent_rebinding.

(* ---- the selected candidate really matches ------------------------------------------------- *)

(* Whatever try_match accepts: the caller's initial resolution is kept; every parameter
   accepts its argument under the one final map (every type variable has one type across
   all positions); a requested output is accepted by the output pattern; the output
   pattern resolves; the output_required flag is honoured; the effective rank is the
   candidate's rank plus the number of defaults used plus, per argument ([arg_cost]): the inheritance
   distance for a concrete TS[Base] leaf taking a TS[Derived], 1 for a promoted constant, 1 for a coerced scalar.
   [nargs] is the normalised call (see [normalize_call_spec]). *)
Theorem accepted_candidate_matches : forall c q m k,
  try_match c q = TMOk m k ->
  exists nargs dused,
  normalize (c_defaults c) (q_args q) = Some (nargs, dused) /\
  extends (q_init q) m /\
  Forall2 (arg_inst m) (c_params c) nargs /\
  (c_has_out c = true -> exists t, tresolve (c_out c) m = Some t) /\
  (c_has_out c = true -> forall e, q_expected q = Some e -> oinst m (c_out c) e = true) /\
  (forall b, q_outreq q = Some b -> c_has_out c = b) /\
  k = c_rank c + dused + args_cost (c_params c) nargs.
Proof. exact ResolveMatchFacts.try_match_sound_lemma. Qed.
Print Assumptions accepted_candidate_matches.

(* normalize_call: the normalised call is the supplied arguments followed by the declared
   defaults of the omitted trailing parameters — one argument per parameter — and defaults_used
   is exactly the number of omitted parameters *)
Theorem normalize_call_spec : forall defs al nargs k,
  normalize defs al = Some (nargs, k) ->
  exists suffix, nargs = al ++ suffix /\ k = Z.of_nat (length suffix) /\ length nargs = length defs /\
                 Forall (fun a => In (Some a) defs) suffix.
Proof. exact ResolveMatchFacts.normalize_spec. Qed.
Print Assumptions normalize_call_spec.

(* the selection is a registered candidate together with the result of its own match *)
Theorem selected_is_a_matching_candidate : forall cs q s,
  resolve cs q = OSel s -> In (s_cand s) cs /\ try_match (s_cand s) q = TMOk (s_map s) (s_rank s).
Proof. exact ResolveFacts.resolve_sel_in. Qed.
Print Assumptions selected_is_a_matching_candidate.

(* the resulting output type is the substitution of the selection's bindings into its output
   pattern, and it exists whenever the candidate has an output *)
Theorem output_is_substitution : forall cs q s,
  resolve cs q = OSel s -> c_has_out (s_cand s) = true ->
  exists t, output_of s = Some t /\ tresolve (c_out (s_cand s)) (s_map s) = Some t.
Proof. exact ResolveMatchFacts.output_is_substitution_lemma. Qed.
Print Assumptions output_is_substitution.

(* ---- substitution gives the argument type -------------------------------------------------- *)

(* Substituting the bindings into a pattern gives the argument type up to exactly the slack
   the matcher allows: [srel] (a tuple[T, ...] pattern also takes a fixed tuple of equal
   fields), [accepts_in t' t] = [drel (deref t') (deref t)] (REF wrappers transparent,
   bundle names ignored, SIGNAL accepts anything, TSL size 0 accepts any size). *)
Theorem substitution_gives_argument_type :
  (forall m p s s', sinst m p s = true -> sresolve p m = Some s' -> srel s' s = true) /\
  (forall m p t t', tinst m p t = true -> tresolve p m = Some t' -> drel (deref t') (deref t) = true) /\
  (forall m p t t', iinst m p t = true -> tresolve p m = Some t' -> accepts_in t' t = true) /\
  (forall m p t t', oinst m p t = true -> tresolve p m = Some t' -> accepts_in t' t = true).
Proof.
  exact (conj ResolveSubstFacts.s_subst_rel (conj ResolveSubstFacts.t_subst_rel
        (conj ResolveSubstFacts.i_subst_rel ResolveSubstFacts.o_subst_rel))).
Qed.
Print Assumptions substitution_gives_argument_type.

(* for an accepted candidate: each substituted parameter pattern accepts its argument *)
Theorem selected_params_accept_arguments : forall c q m k,
  try_match c q = TMOk m k ->
  exists nargs dused, normalize (c_defaults c) (q_args q) = Some (nargs, dused) /\
  Forall2 (fun pr a => match pr, a with
                       | PIn p, ATs t => forall t', tresolve p m = Some t' -> accepts_in t' t = true
                       | PScal sp, ASc v => forall s', sresolve sp m = Some s' -> srel s' v = true \/ coercible v s' = true
                       | _, _ => True
                       end) (c_params c) nargs.
Proof. exact ResolveSubstFacts.selected_params_accept_arguments_lemma. Qed.
Print Assumptions selected_params_accept_arguments.

(* the resolved output of the selection accepts the output the caller requested *)
Theorem selected_output_satisfies_request : forall cs q s e,
  resolve cs q = OSel s -> c_has_out (s_cand s) = true -> q_expected q = Some e ->
  exists t, output_of s = Some t /\ accepts_in t e = true.
Proof. exact ResolveSubstFacts.selected_output_satisfies_request_lemma. Qed.
Print Assumptions selected_output_satisfies_request.

(* the relations are not trivial *)
Example c19_relations_discriminate :
  srel (SList (SAtom 1)) (STuple [SAtom 1; SAtom 1]) = true /\
  srel (SList (SAtom 1)) (STuple [SAtom 1; SAtom 3]) = false /\
  srel (SAtom 1) (SAtom 3) = false /\
  accepts_in (TTsl (TTs (SAtom 1)) 0) (TRef (TTsl (TRef (TTs (SAtom 1))) 2)) = true /\
  accepts_in (TTsl (TTs (SAtom 1)) 3) (TTsl (TTs (SAtom 1)) 2) = false /\
  accepts_in (TTs (SAtom 1)) (TTs (SAtom 3)) = false /\
  accepts_in (TTs (SAtom 1)) TSignal = false /\ accepts_in TSignal (TTs (SAtom 1)) = true.
Proof. vm_compute. repeat split; reflexivity. Qed.

(* ---- a statement that is FALSE of the faithful model (finding S1, docs/notes-resolve.md) ----

   "If candidate A accepts a subset of what candidate B accepts (A is strictly more
    specific) and both match, A is selected."  Refuted for scalar parameters: the generic
   Scalar[~T] (rank 1) is selected over Scalar[Map[~K, ~V]] (rank 3) for a mapping
   argument.  The witness is replayed on the implementation (corpus/resolve/S1-*.case). *)
Theorem specific_scalar_pattern_wins_refuted :
  exists generic specific q s,
    c_params generic = [PScal (PSVar 1 [])] /\
    c_params specific = [PScal (PSMap (PSVar 2 []) (PSVar 3 []))] /\
    (forall v, exists m', smatch (PSVar 1 []) v empty_rmap = Some m') /\
    smatch (PSMap (PSVar 2 []) (PSVar 3 [])) (SAtom 1) empty_rmap = None /\
    (exists m k, try_match specific q = TMOk m k) /\
    c_rank generic < c_rank specific /\
    resolve [specific; generic] q = OSel s /\ s_cand s = generic.
Proof. exact ResolveSubstFacts.specific_scalar_pattern_wins_refuted_lemma. Qed.
Print Assumptions specific_scalar_pattern_wins_refuted.

(* the same inversion inside a time-series parameter: TS[~T] (101) is selected over
   TS[Mapping[~K, ~V]] (102) for a TS[Mapping[int, str]] argument *)
Theorem specific_ts_pattern_wins_refuted :
  exists generic specific q s,
    c_params generic = [PIn (PTs (PSVar 1 []))] /\
    c_params specific = [PIn (PTs (PSMap (PSVar 2 []) (PSVar 3 [])))] /\
    (forall t m m', imatch (PTs (PSMap (PSVar 2 []) (PSVar 3 []))) t m = Some m' -> exists m'', imatch (PTs (PSVar 1 [])) t empty_rmap = Some m'') /\
    imatch (PTs (PSMap (PSVar 2 []) (PSVar 3 []))) (TTs (SAtom 1)) empty_rmap = None /\
    imatch (PTs (PSVar 1 [])) (TTs (SAtom 1)) empty_rmap <> None /\
    (exists m k, try_match specific q = TMOk m k) /\
    c_rank generic = 101 /\ c_rank specific = 102 /\
    resolve [specific; generic] q = OSel s /\ s_cand s = generic.
Proof. exact ResolveSubstFacts.specific_ts_pattern_wins_refuted_lemma. Qed.
Print Assumptions specific_ts_pattern_wins_refuted.

(* ---- nominal bundle inheritance -------------------------------------------------------------- *)

(* bundle_inheritance_distance does not depend on the order in which any bundle of the ancestry declares
   its parents ([hsame]: the same hierarchy up to parent order at every level); so neither do bundle_is_a
   and the adaptation rank built from it *)
Theorem inheritance_distance_order_independent : forall b c c',
  hsame c c' ->
  bdist b c = bdist b c' /\
  (forall base, bundle_id base = Some b -> bundle_is_a c base = bundle_is_a c' base /\
                                            bundle_distance c base = bundle_distance c' base).
Proof. exact ResolveInheritFacts.inheritance_distance_order_independent_lemma. Qed.
Print Assumptions inheritance_distance_order_independent.

(* ... and it is the length of the SHORTEST chain of parent edges ([bpath b k c]: a chain of k parent
   edges from c up to the bundle named b); None exactly when there is no chain *)
Theorem inheritance_distance_is_shortest_path : forall b c,
  (forall k, bdist b c = Some k -> bpath b k c /\ forall j, bpath b j c -> (k <= j)%nat) /\
  (bdist b c = None -> forall j, ~ bpath b j c).
Proof. exact ResolveInheritFacts.inheritance_distance_is_shortest_path_lemma. Qed.
Print Assumptions inheritance_distance_is_shortest_path.

(* the hierarchy of seeded change C19w3-inheritance-distance-first-path: two paths of different length to
   the shared ancestor Tradable; ListedOption(Listed, Option) and its mirror OptionListed(Option, Listed) *)
Definition h_instrument := SBundle 1 [].
Definition h_tradable := SBundle 2 [h_instrument].
Definition h_derivative := SBundle 3 [h_tradable].
Definition h_option := SBundle 4 [h_derivative].
Definition h_record := SBundle 5 [].
Definition h_reportable := SBundle 6 [h_record].
Definition h_regulated := SBundle 7 [h_reportable].
Definition h_listed := SBundle 8 [h_tradable; h_regulated].
Definition h_listed_option := SBundle 9 [h_listed; h_option].
Definition h_option_listed := SBundle 10 [h_option; h_listed].
Example c19_diamond_distances :
  map (fun leaf => map (fun b => bdist b leaf) [1; 2; 6; 5; 3; 9; 10]) [h_listed_option; h_option_listed] =
    [[Some 3; Some 2; Some 3; Some 4; Some 2; Some 0; None]; [Some 3; Some 2; Some 3; Some 4; Some 2; None; Some 0]]%nat /\
  (forall leaf, In leaf [h_listed_option; h_option_listed] ->
     let on (label : Z) (b : sty) := mk_cand label false PSignal [PIn (PConc (TTs b))] in
     let call := mkQuery None None empty_rmap [] [ATs (TTs leaf)] in
     (* Instrument (3) and Reportable (3) tie; Record (4) loses; Tradable (2) beats Instrument (3) *)
     (exists tied, resolve [on 1 h_instrument; on 2 h_reportable; on 3 h_record] call = OAmb tied /\ length tied = 2%nat) /\
     (exists s, resolve [on 1 h_instrument; on 2 h_tradable; on 3 h_record] call = OSel s /\ c_label (s_cand s) = 2 /\ s_rank s = 2) /\
     resolve [on 1 (SBundle 11 [])] call = ONoMatch).
Proof.
  split; [vm_compute; reflexivity|]. intros leaf [<-|[<-|[]]]; vm_compute;
    (split; [eexists; split; reflexivity | split; [eexists; repeat split; reflexivity | reflexivity]]).
Qed.

(* ---- rank ---------------------------------------------------------------------------------------- *)

(* RankAccumulator::total sums an unordered_map: the iteration order is irrelevant *)
Theorem rank_total_order_independent : forall st vs vs',
  Permutation vs vs' -> racc_total (mkA st vs) = racc_total (mkA st vs').
Proof. exact ResolveFacts.rank_total_order_independent_lemma. Qed.
Print Assumptions rank_total_order_independent.

(* ---- non-vacuity ------------------------------------------------------------------------------- *)

Definition ts_int : tty := TTs (SAtom 1).
Definition ex_concrete : cand := mk_cand 1 true (PConc ts_int) [PIn (PConc ts_int)].
Definition ex_generic_scalar : cand := mk_cand 2 true (PTs (PSVar 1 [])) [PIn (PTs (PSVar 1 []))].
Definition ex_generic_ts : cand := mk_cand 3 true (PVar 1 []) [PIn (PVar 1 [])].
Definition ex_query : query := mkQuery None None empty_rmap [] [ATs ts_int].

(* the probe of DESIGN.md: concrete (rank 0) beats TS[~T] (101) beats ~T (10000), in any order *)
Example c19_selects_most_specific :
  map c_rank [ex_concrete; ex_generic_scalar; ex_generic_ts] = [0; 101; 10000] /\
  (forall cs, In cs [[ex_concrete; ex_generic_scalar; ex_generic_ts]; [ex_generic_ts; ex_generic_scalar; ex_concrete];
                     [ex_generic_scalar; ex_generic_ts; ex_concrete]] ->
              resolve cs ex_query = OSel (ex_concrete, empty_rmap, 0)) /\
  resolve [ex_generic_ts; ex_generic_scalar] ex_query = OSel (ex_generic_scalar, mkR [] [(1, SAtom 1)] [], 101) /\
  output_of (ex_generic_scalar, mkR [] [(1, SAtom 1)] [], 101) = Some ts_int.
Proof. vm_compute. repeat split; auto. intros cs [<-|[<-|[<-|[]]]]; reflexivity. Qed.

(* defaulted parameters (the family of seeded change C19w2-defaults-counter-leaks-across-candidates):
   X(ts), Y(ts, k: int = 1), D(ts, a: int = 1, b: int = 2); each default used costs 1, so a call
   (TS[int]) selects X (ranks 0 / 1 / 2), (TS[int], 5) selects Y (X takes no second argument;
   Y 0, D 1), (TS[int], 5, 6) selects D — in all six registration orders *)
Definition ex_int_default : param * option arg := (PScal (PSConc (SAtom 1)), Some (ASc (SAtom 1))).
Definition ex_X : cand := mk_cand_d 1 true (PConc ts_int) [(PIn (PConc ts_int), None)].
Definition ex_Y : cand := mk_cand_d 2 true (PConc ts_int) [(PIn (PConc ts_int), None); ex_int_default].
Definition ex_D : cand := mk_cand_d 3 true (PConc ts_int) [(PIn (PConc ts_int), None); ex_int_default; ex_int_default].
Example c19_defaults_all_six_orders :
  forall cs, In cs [[ex_X; ex_Y; ex_D]; [ex_X; ex_D; ex_Y]; [ex_Y; ex_X; ex_D]; [ex_Y; ex_D; ex_X]; [ex_D; ex_X; ex_Y]; [ex_D; ex_Y; ex_X]] ->
    resolve cs (mkQuery (Some true) None empty_rmap [] [ATs ts_int]) = OSel (ex_X, empty_rmap, 0) /\
    resolve cs (mkQuery (Some true) None empty_rmap [] [ATs ts_int; ASc (SAtom 1)]) = OSel (ex_Y, empty_rmap, 0) /\
    resolve cs (mkQuery (Some true) None empty_rmap [] [ATs ts_int; ASc (SAtom 1); ASc (SAtom 1)]) = OSel (ex_D, empty_rmap, 0) /\
    resolve cs (mkQuery (Some true) None empty_rmap [] [ATs (TTs (SAtom 3))]) = ONoMatch /\
    try_match ex_D (mkQuery (Some true) None empty_rmap [] [ATs ts_int]) = TMOk empty_rmap 2.
Proof. intros cs H. repeat (destruct H as [<-|H]; [vm_compute; repeat split; reflexivity|]). destruct H. Qed.

(* an ambiguity (two overloads equal up to variable renaming), a no-match, and the escaping exception *)
Example c19_ambiguous_nomatch_error :
  let g1 := mk_cand 4 false PSignal [PIn (PTs (PSVar 1 [])); PIn (PTs (PSVar 1 []))] in
  let g2 := mk_cand 5 false PSignal [PIn (PTs (PSVar 2 [])); PIn (PTs (PSVar 2 []))] in
  let sz := mk_cand 6 false PSignal [PIn (PTsl (SzVar 1 []) (PVar 1 []))] in
  (exists tied, resolve [g1; g2] (mkQuery None None empty_rmap [] [ATs ts_int; ATs ts_int]) = OAmb tied /\ length tied = 2%nat) /\
  resolve [g1; g2] (mkQuery None None empty_rmap [] [ATs ts_int; ATs (TTs (SAtom 3))]) = ONoMatch /\
  resolve [sz] (mkQuery None None (mkR [] [] [(1, 3)]) [2] [ATs (TTsl ts_int 2)]) = OErr.
Proof. vm_compute. split; [eexists; split; reflexivity | split; reflexivity]. Qed.

(* REF transparency in the input direction, a repeated variable, a size variable, and the
   substitution: TSL[REF[TS[int]], 2] against TSL[TS[~T], ~N] binds T = int, N = 2 *)
Example c19_match_binds_consistently :
  imatch (PTsl (SzVar 7 []) (PTs (PSVar 1 []))) (TTsl (TRef ts_int) 2) empty_rmap = Some (mkR [] [(1, SAtom 1)] [(7, 2)]) /\
  tresolve (PTsl (SzVar 7 []) (PTs (PSVar 1 []))) (mkR [] [(1, SAtom 1)] [(7, 2)]) = Some (TTsl ts_int 2) /\
  iinst (mkR [] [(1, SAtom 1)] [(7, 2)]) (PTsl (SzVar 7 []) (PTs (PSVar 1 []))) (TTsl (TRef ts_int) 2) = true /\
  bind_sc (mkR [] [(1, SAtom 1)] []) 1 (SAtom 3) = None /\
  tmatch (PRef (PVar 1 [])) ts_int empty_rmap = None /\
  imatch (PRef (PVar 1 [])) ts_int empty_rmap = Some (mkR [(1, ts_int)] [] []).
Proof. vm_compute. repeat split; reflexivity. Qed.
