(* Props/C01.v — property C01, run-time half: within one engine cycle every node is
   evaluated at most once, and only after the nodes whose outputs it reads have had
   their turn.  (The build-time half - ranking and rejection of unbroken cycles - is
   Props/C01_rank.v.)  Statements only.  Model: coq/Engine.v (graph.cpp evaluate_impl:
   one forward scan of the node array; a node runs iff its slot equals the cycle time). *)
Require Import Base Sched Engine EngineFacts.

(* [n_evals] counts the graph-level evaluations of a node (the lifecycle observer's
   before_node_evaluation events, which the correspondence check compares). *)
Theorem evaluated_at_most_once_per_cycle : forall cfgs beh t g p,
  (p < length (g_nodes g))%nat ->
  n_evals (node_at p g) <= n_evals (node_at p (evaluate_graph cfgs beh t g)) <= n_evals (node_at p g) + 1.
Proof. exact EngineFacts.evaluated_at_most_once_l. Qed.
Print Assumptions evaluated_at_most_once_per_cycle.

(* A node that has had its turn keeps its state - output value, last-modified time,
   counters - until the cycle ends: nothing evaluated later in the scan touches it. *)
Theorem earlier_nodes_are_final : forall cfgs beh m k g p,
  (p < k)%nat -> node_at p (scan cfgs beh k m g) = node_at p g.
Proof. intros cfgs beh m. exact (EngineFacts.scan_prefix_final cfgs beh m). Qed.
Print Assumptions earlier_nodes_are_final.

(* Producers first: under the ranking the wiring layer establishes (every input's
   producer has a smaller index), when the scan reaches node i every producer it reads
   has already had its turn and its output is final for the cycle - whatever happens in
   the rest of the scan. *)
Theorem producers_had_their_turn : forall cfgs beh i s m g,
  well_ranked cfgs -> (i < length cfgs)%nat -> In s (c_ins (cfg cfgs i)) ->
  node_at (i_src s) (scan cfgs beh i m g) = node_at (i_src s) g.
Proof. exact EngineFacts.producers_final_l. Qed.
Print Assumptions producers_had_their_turn.

(* Same-cycle scheduling only reaches nodes the scan has not passed: a write by node
   [src] changes the slot only of nodes with an active input bound to it, which the
   ranking places after [src]. *)
Theorem same_cycle_wakes_only_later_nodes : forall cfgs src g k,
  well_ranked cfgs ->
  slot_at k (notify_from cfgs 0 src g) <> slot_at k g -> (src < k)%nat.
Proof. exact EngineFacts.notify_only_later_l. Qed.
Print Assumptions same_cycle_wakes_only_later_nodes.
