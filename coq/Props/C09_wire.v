(* C09, wiring level — the acceptor used by the nestw family (the same sub-graph body wired inlined and through
   nested_<G> at depth 1 and 2 by the public Wiring API) is sound and complete for "the outer output stream of
   every nested variant equals that of the inlined one" - at root level (variants 0, 1, 2) and inside a switch_
   branch, where the nested node starts mid-run (variants 3, 4). *)
Require Import Base Nestw NestwFacts.

Theorem wire_acceptor_sound_and_complete :
  forall w, run_nestw w = [[1]] <->
    let out := after_marker w in
    completed 0 out = true /\ completed 1 out = true /\ completed 2 out = true
    /\ stream_of 1 out = stream_of 0 out /\ stream_of 2 out = stream_of 0 out
    /\ completed 3 out = completed 4 out /\ stream_of 4 out = stream_of 3 out.
Proof. intros w. rewrite run_nestw_spec. apply accept_spec. Qed.
Print Assumptions wire_acceptor_sound_and_complete.

Example acceptor_accepts :
  run_nestw [[1; 1; 5]; [-1]; [30; 0; 1; 7]; [31; 0]; [30; 1; 1; 7]; [31; 1]; [30; 2; 1; 7]; [31; 2]] = [[1]].
Proof. reflexivity. Qed.
Example acceptor_rejects :
  run_nestw [[1; 1; 5]; [-1]; [30; 0; 1; 7]; [31; 0]; [30; 1; 1; 0]; [31; 1]; [30; 2; 1; 7]; [31; 2]] = [[0]].
Proof. reflexivity. Qed.
