(* Props/C18.v — property C18: the node scheduler wakes the node at every pending
   time and its queries agree.  Statements only; every proof is one [exact]. *)
Require Import Base Sched SchedFacts.
From Coq Require Import ZifyBool.

(* Every reachable scheduler state is well formed: the event set is strictly
   ordered (so duplicate free) and the tag index is exactly the set of tagged
   pending events. *)
Theorem sched_inv : forall ops, Inv (reach ops).
Proof. exact SchedFacts.reach_inv_gen. Qed.
Print Assumptions sched_inv.

(* A tag holds at most one pending time, in every reachable state. *)
Theorem tag_holds_one_time : forall ops t w1 w2,
  t <> 0 -> In (w1, t) (events (reach ops)) -> In (w2, t) (events (reach ops)) -> w1 = w2.
Proof. exact SchedFacts.reach_tag_unique. Qed.
Print Assumptions tag_holds_one_time.

(* Scheduling a tag again replaces the old request: afterwards the pending set
   is the old one without that tag's event, plus the new event; everything else
   is untouched. *)
Theorem reschedule_replaces : forall ops now (started : bool) when tag x,
  ~ (if started then when <= now else when < now) ->
  (In x (events (fst (schedule now started when tag (reach ops)))) <->
   x = (when, tag) \/ (In x (events (reach ops)) /\ (tag = 0 \/ snd x <> tag))).
Proof. exact SchedFacts.reach_schedule_pending. Qed.
Print Assumptions reschedule_replaces.

(* Requests for the current or a past time made after start (and for a past
   time made during start) leave the state untouched and push nothing. *)
Theorem past_or_now_ignored : forall now (started : bool) when tag s,
  (if started then when <= now else when < now) ->
  schedule now started when tag s = (s, None).
Proof. exact SchedFacts.schedule_ignored. Qed.
Print Assumptions past_or_now_ignored.

(* A request for the current time made during start is honoured. *)
Theorem now_honoured_during_start : forall ops now tag,
  In (now, tag) (events (fst (schedule now false now tag (reach ops)))).
Proof. exact SchedFacts.reach_now_during_start. Qed.
Print Assumptions now_honoured_during_start.

(* The scheduler's answers agree with the pending set. *)
Theorem queries_agree : forall ops now t,
  let s := reach ops in
  (is_scheduled s = true <-> exists e, In e (events s)) /\
  (forall e, In e (events s) -> next_scheduled_time s <= fst e) /\
  (is_scheduled s = true -> exists tg, In (next_scheduled_time s, tg) (events s)) /\
  (is_scheduled s = false -> next_scheduled_time s = MIN_DT) /\
  (is_scheduled_now now s = true <-> (exists tg, In (now, tg) (events s)) /\ forall e, In e (events s) -> now <= fst e) /\
  (t <> 0 -> (has_tag t s = true <-> exists w, In (w, t) (events s))) /\
  (t <> 0 -> forall w, In (w, t) (events s) -> tag_time t MIN_DT s = w) /\
  (t <> 0 -> (tag_is_scheduled_now now t s = true <-> In (now, t) (events s))).
Proof. exact SchedFacts.reach_queries_agree. Qed.
Print Assumptions queries_agree.

(* advance consumes exactly the due events. *)
Theorem advance_consumes_due_only : forall ops now,
  events (fst (advance now (reach ops))) = filter (fun e => now <? fst e) (events (reach ops)).
Proof. exact SchedFacts.reach_advance. Qed.
Print Assumptions advance_consumes_due_only.

(* The earliest pending time is pushed to the graph exactly when it moved earlier. *)
Theorem earliest_pushed_when_it_moves_earlier : forall ops now (started : bool) when tag,
  ~ (if started then when <= now else when < now) ->
  let s := reach ops in
  let s' := fst (schedule now started when tag s) in
  match snd (schedule now started when tag s) with
  | Some w => w = when /\ next_scheduled_time s' = when
  | None => True
  end.
Proof. exact SchedFacts.reach_push_is_new_earliest. Qed.
Print Assumptions earliest_pushed_when_it_moves_earlier.

(* Non-vacuity: a concrete operation sequence with two tags, a replacement, a
   cancellation and an advance reaches a non-trivial state. *)
Example c18_reachable_nontrivial :
  let ops := [SSchedule 1 true 4 1; SSchedule 1 true 6 2; SSchedule 1 true 9 1; SSchedule 1 true 3 0;
              SAdvance 3; SUnschedTag 2] in
  events (reach ops) = [(9, 1)] /\ tags (reach ops) = [(1, 9)].
Proof. vm_compute. split; reflexivity. Qed.
