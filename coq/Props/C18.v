(* Props/C18.v — property C18: the node scheduler wakes the node at every pending
   time and its queries agree.  Statements only; every proof is one [exact]. *)
Require Import Base Sched SchedFacts.
From Coq Require Import ZifyBool.

(* Every reachable scheduler state is well formed: the event set is strictly
   ordered (so duplicate free) and the tag index is exactly the set of tagged
   pending events. *)
Theorem sched_inv : forall ops, Inv (reach ops).
Proof. exact SchedFacts.reach_inv_gen. Qed.
Print Assumptions sched_inv.

(* A tag holds at most one pending time, in every reachable state. *)
Theorem tag_holds_one_time : forall ops t w1 w2,
  t <> 0 -> In (w1, t) (events (reach ops)) -> In (w2, t) (events (reach ops)) -> w1 = w2.
Proof. exact SchedFacts.reach_tag_unique. Qed.
Print Assumptions tag_holds_one_time.

(* Scheduling a tag again replaces the old request: afterwards the pending set
   is the old one without that tag's event, plus the new event; everything else
   is untouched. *)
Theorem reschedule_replaces : forall ops now (started : bool) when tag x,
  ~ (if started then when <= now else when < now) ->
  (In x (events (fst (schedule now started when tag (reach ops)))) <->
   x = (when, tag) \/ (In x (events (reach ops)) /\ (tag = 0 \/ snd x <> tag))).
Proof. exact SchedFacts.reach_schedule_pending. Qed.
Print Assumptions reschedule_replaces.

(* Requests for the current or a past time made after start (and for a past
   time made during start) leave the state untouched and push nothing. *)
Theorem past_or_now_ignored : forall now (started : bool) when tag s,
  (if started then when <= now else when < now) ->
  schedule now started when tag s = (s, None).
Proof. exact SchedFacts.schedule_ignored. Qed.
Print Assumptions past_or_now_ignored.

(* A request for the current time made during start is honoured. *)
Theorem now_honoured_during_start : forall ops now tag,
  In (now, tag) (events (fst (schedule now false now tag (reach ops)))).
Proof. exact SchedFacts.reach_now_during_start. Qed.
Print Assumptions now_honoured_during_start.

(* The scheduler's answers agree with the pending set. *)
Theorem queries_agree : forall ops now t,
  let s := reach ops in
  (is_scheduled s = true <-> exists e, In e (events s)) /\
  (forall e, In e (events s) -> next_scheduled_time s <= fst e) /\
  (is_scheduled s = true -> exists tg, In (next_scheduled_time s, tg) (events s)) /\
  (is_scheduled s = false -> next_scheduled_time s = MIN_DT) /\
  (is_scheduled_now now s = true <-> (exists tg, In (now, tg) (events s)) /\ forall e, In e (events s) -> now <= fst e) /\
  (t <> 0 -> (has_tag t s = true <-> exists w, In (w, t) (events s))) /\
  (t <> 0 -> forall w, In (w, t) (events s) -> tag_time t MIN_DT s = w) /\
  (t <> 0 -> (tag_is_scheduled_now now t s = true <-> In (now, t) (events s))).
Proof. exact SchedFacts.reach_queries_agree. Qed.
Print Assumptions queries_agree.

(* advance consumes exactly the due events. *)
Theorem advance_consumes_due_only : forall ops now,
  events (fst (advance now (reach ops))) = filter (fun e => now <? fst e) (events (reach ops)).
Proof. exact SchedFacts.reach_advance. Qed.
Print Assumptions advance_consumes_due_only.

(* The earliest pending time is pushed to the graph exactly when it moved earlier. *)
Theorem earliest_pushed_when_it_moves_earlier : forall ops now (started : bool) when tag,
  ~ (if started then when <= now else when < now) ->
  let s := reach ops in
  let s' := fst (schedule now started when tag s) in
  match snd (schedule now started when tag s) with
  | Some w => w = when /\ next_scheduled_time s' = when
  | None => True
  end.
Proof. exact SchedFacts.reach_push_is_new_earliest. Qed.
Print Assumptions earliest_pushed_when_it_moves_earlier.

(* Non-vacuity: a concrete operation sequence with two tags, a replacement, a
   cancellation and an advance reaches a non-trivial state. *)
Example c18_reachable_nontrivial :
  let ops := [SSchedule 1 true 4 1; SSchedule 1 true 6 2; SSchedule 1 true 9 1; SSchedule 1 true 3 0;
              SAdvance 3; SUnschedTag 2] in
  events (reach ops) = [(9, 1)] /\ tags (reach ops) = [(1, 9)].
Proof. vm_compute. split; reflexivity. Qed.

(* ---------------------------------------------------------------------------
   The scheduler inside the running engine (coq/Engine.v): the node is woken at
   every time that is still pending.  [boundary] is the scheduling invariant that
   Props/C02.v proves to hold after start and after every cycle of every run.
   --------------------------------------------------------------------------- *)
Require Import Engine EngineFacts EngineWitness.

(* never later than requested: the next cycle is no later than any pending time *)
Theorem next_cycle_not_after_pending : forall cfgs g i e,
  boundary cfgs g -> (i < length cfgs)%nat -> c_sched (cfg cfgs i) = true -> In e (pending g i) ->
  g_nst g <= fst e.
Proof. exact EngineFacts.no_pending_skipped. Qed.
Print Assumptions next_cycle_not_after_pending.

(* woken at it: in the cycle whose time is a pending time the node's slot is that time *)
Theorem woken_at_pending_time : forall cfgs g i e,
  boundary cfgs g -> (i < length cfgs)%nat -> c_sched (cfg cfgs i) = true -> In e (pending g i) ->
  fst e = g_nst g -> slot_at i g = g_nst g.
Proof. exact EngineFacts.due_slot_is_now. Qed.
Print Assumptions woken_at_pending_time.

(* never in the past, never left behind: after the cycle at t nothing with time <= t is pending *)
Theorem nothing_due_left_pending : forall cfgs beh g,
  well_ranked cfgs -> boundary cfgs g -> g_err g = 0 -> g_nst g < MAX_DT ->
  g_err (evaluate_graph cfgs beh (g_nst g) g) = 0 ->
  forall i e, (i < length cfgs)%nat -> c_sched (cfg cfgs i) = true ->
  In e (pending (evaluate_graph cfgs beh (g_nst g) g) i) -> g_nst g < fst e.
Proof. exact EngineFacts.due_events_consumed. Qed.
Print Assumptions nothing_due_left_pending.

(* The converse direction is FALSE of the faithful model (and of the code): a node is
   also woken at a time it has cancelled or replaced, because the graph slot is only
   ever moved earlier.  Witness: node 0 schedules tag a at +3 then re-schedules tag a at
   +6 in one evaluation; its user code runs at t=4 with nothing due (line 12 0 4 1 0 7:
   run 1 at time 4, is_scheduled_now = 0, next pending = 7).  Recorded as a known
   finding (known_findings.json, DESIGN.md 8.2). *)
Theorem woken_only_at_pending_refuted :
  exists case : wire, In [12; 0; 4; 1; 0; 7] (run_core case).
Proof. exact Engine_witness.abandoned_wakeup. Qed.
Print Assumptions woken_only_at_pending_refuted.
