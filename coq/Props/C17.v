(* Props/C17.v — property C17: the real-time loop never runs early, never drops a
   wake-up, always stops.  Statements only; every proof is one [exact].

   The object: [run c w0 ls s] — the label list [ls] is a run of the labelled
   transition system of RTLoop.v (run_storage + advance_realtime, request_stop,
   mark_push_update_pending, NodeScheduler::schedule with on_wall_clock) from the
   state after run_storage's prologue to [s].  The labels are chosen by the
   adversary: every clock reading (non-decreasing), where each push / stop
   critical section and each notify_all lands, every time-out of a wait slice,
   every request of the (abstract) graph.  [cycles s] is the ghost record of the
   results of advance_realtime, newest first: time returned, clock reading used,
   target, previous evaluation time.  [wfc c] is validate_times. *)
Require Import Base RTLoop RTLoopFacts.
From Coq Require Import ZifyBool.

(* ---- evaluation time strictly increases ---- *)
(* The times of the cycles of a run ([eval_times ls]: the times of its LEvalBegin labels, in order)
   strictly increase, and lie in [start_time, end_time). *)
Theorem rt_cycle_times_strict : forall c w0 ls s, wfc c -> run c w0 ls s ->
  decreasing (rev (eval_times ls)) /\ (forall t, In t (eval_times ls) -> c_start c <= t /\ t < c_end c).
Proof. exact RTLoopFacts.cycle_times_strict_l. Qed.
Print Assumptions rt_cycle_times_strict.

(* The times advance_realtime returns strictly increase, from start_time on.  Every
   evaluated cycle is evaluated at the latest of them (second theorem), so cycle
   times strictly increase. *)
Theorem rt_times_strict : forall c w0 ls s, wfc c -> run c w0 ls s ->
  decreasing (map ct (cycles s)) /\ Forall (fun a => c_start c <= ct a) (cycles s).
Proof. exact RTLoopFacts.rt_times_strict_l. Qed.
Print Assumptions rt_times_strict.

Theorem rt_cycle_is_latest_advance : forall c w0 ls s t s', wfc c -> run c w0 ls s ->
  gstep c s (LEvalBegin t) = Some s' ->
  exists a rest, cycles s = a :: rest /\ ct a = t /\ ph s' = PEvalPre t /\ cycles s' = cycles s.
Proof. exact RTLoopFacts.rt_cycle_is_latest_advance_l. Qed.
Print Assumptions rt_cycle_is_latest_advance.

(* ---- the defining rule ---- *)
(* evaluation_time = min(target, max(wall, previous + MIN_TD)) for every advance that was
   evaluated as a cycle (all but the newest), and for the newest too unless it is the drain cut;
   target = min(next_scheduled, end) <= end; and the wait is left before the target only with a
   push or a stop flagged. *)
Theorem eval_time_formula : forall c w0 ls s, wfc c -> run c w0 ls s ->
  Forall (fun a => ct a = Z.min (ctgt a) (Z.max (cw a) (cprev a + MIN_TD))) (tl (cycles s)) /\
  (cut s = false -> Forall (fun a => ct a = Z.min (ctgt a) (Z.max (cw a) (cprev a + MIN_TD))) (cycles s)) /\
  Forall (fun a => ctgt a <= c_end c /\ (cw a < ctgt a -> cwk a = true)) (cycles s).
Proof. exact RTLoopFacts.eval_time_formula_l. Qed.
Print Assumptions eval_time_formula.

(* ---- never early, never skipped ---- *)
(* A cycle's time is never past its target, hence never past a pending wake-up time or the end;
   it is never ahead of the wall clock reading used unless it is the smallest step after the
   previous cycle: a cycle more than MIN_TD after its predecessor has cw >= ct (the wall clock had
   reached the scheduled time); a cycle with the wall clock at or past the target is at exactly
   the target. *)
Theorem rt_never_early : forall c w0 ls s a, wfc c -> run c w0 ls s ->
  In a (tl (cycles s)) \/ (cut s = false /\ In a (cycles s)) ->
  ct a <= ctgt a /\ ct a <= Z.max (cw a) (cprev a + MIN_TD) /\
  (cprev a + MIN_TD < ct a -> ct a <= cw a) /\
  (ctgt a <= cw a -> cprev a < ctgt a -> ct a = ctgt a).
Proof. exact RTLoopFacts.rt_never_early_l. Qed.
Print Assumptions rt_never_early.

(* In every reachable state outside the drain cut, no pending wake-up time has been passed... *)
Theorem rt_never_skips : forall c w0 ls s p, wfc c -> run c w0 ls s -> cut s = false ->
  In p (pend s) -> ev s <= p.
Proof. exact RTLoopFacts.rt_never_skips_l. Qed.
Print Assumptions rt_never_skips.

(* ... and a wake-up time leaves the pending set only by a cycle at exactly that time. *)
Theorem rt_evaluated_at_exactly_its_time : forall c w0 ls s l s' p, wfc c -> run c w0 ls s ->
  gstep c s l = Some s' -> In p (pend s) -> ~ In p (pend s') ->
  l = LEvalEnd /\ ev s = p /\ (ph s = PEval p \/ ph s = PEvalPre p).
Proof. exact RTLoopFacts.rt_evaluated_at_exactly_its_time_l. Qed.
Print Assumptions rt_evaluated_at_exactly_its_time.

(* ---- never dropped ---- *)
(* When the run has returned without a stop request and without the drain cut, nothing due
   before end_time is left pending (late delivery happens, dropping does not)... *)
Theorem rt_no_drop : forall c w0 ls s p, wfc c -> run c w0 ls s ->
  ph s = PDone -> stop s = false -> cut s = false -> In p (pend s) -> c_end c <= p.
Proof. exact RTLoopFacts.rt_no_drop_l. Qed.
Print Assumptions rt_no_drop.

(* ... so every wake-up time that was pending at some point of such a run and is before end_time
   was evaluated, in a cycle at exactly that time. *)
Theorem rt_every_due_wakeup_evaluated : forall c w0 ls1 s1 ls2 s2 p, wfc c ->
  run c w0 ls1 s1 -> exec c s1 ls2 = Some s2 ->
  In p (pend s1) -> p < c_end c -> ph s2 = PDone -> stop s2 = false -> cut s2 = false ->
  exists la sm lb, ls2 = la ++ LEvalEnd :: lb /\ exec c s1 la = Some sm /\ ev sm = p /\
                   (ph sm = PEval p \/ ph sm = PEvalPre p).
Proof. exact RTLoopFacts.rt_every_due_wakeup_evaluated_l. Qed.
Print Assumptions rt_every_due_wakeup_evaluated.

(* The exception: the drain cut is taken only with the wall clock at or past end_time, when the
   rule would advance by no more than the smallest step, after MAX_DRAIN = 1024 consecutive cycles
   that each advanced by exactly the smallest step. *)
Theorem drain_cut_only_then : forall c w0 ls s, wfc c -> run c w0 ls s -> cut s = true ->
  exists a rest, cycles s = a :: rest /\ ct a = c_end c /\ c_end c <= cw a /\
    Z.min (ctgt a) (Z.max (cw a) (cprev a + MIN_TD)) <= cprev a + MIN_TD /\
    (1024 <= length rest)%nat /\ Forall (fun b => ct b = cprev b + MIN_TD) (firstn 1024 rest).
Proof. exact RTLoopFacts.drain_cut_only_then_l. Qed.
Print Assumptions drain_cut_only_then.

(* ---- wall-clock alarms ---- *)
(* NodeScheduler::schedule(when, tag, on_wall_clock = true) never ignores the request; an alarm
   that is already due (when <= max(now, wall)) is entered for max(now + MIN_TD, wall): after the
   current cycle, at the next evaluatable time; a future alarm is entered at its own time. *)
Theorem already_due_alarm_next_cycle : forall now w when,
  (exists e, sched_abs true now w when true = Some e) /\
  (when <= Z.max now w -> sched_abs true now w when true = Some (Z.max (now + MIN_TD) w)) /\
  (Z.max now w < when -> sched_abs true now w when true = Some when).
Proof. exact RTLoopFacts.already_due_alarm_l. Qed.
Print Assumptions already_due_alarm_next_cycle.

(* A request entered during the cycle at t is pending afterwards under a time after t (so it is
   subject to the never-skipped / never-dropped theorems above). *)
Theorem request_enters_pending : forall c w0 ls s k a w1 w2 e s' t, run c w0 ls s ->
  gstep c s (LReq k a w1 w2 e) = Some s' -> ph s = PEval t -> e <> 0 ->
  sched_eff true (ev s) k a w1 w2 = Some e /\ ev s < e /\ In e (pend s') /\ ev s' = ev s.
Proof. exact RTLoopFacts.request_enters_pending_l. Qed.
Print Assumptions request_enters_pending.

(* ---- always stops ---- *)
(* Once a stop request has landed it stays; the loop body is not entered again, no wait is begun,
   no cycle is begun (a cycle in progress completes). *)
Theorem stop_ends_after_current : forall c w0 ls s ls' s', run c w0 ls s -> stop s = true ->
  exec c s ls' = Some s' ->
  stop s' = true /\ ~ In LTop ls' /\ ~ In LWaitBefore ls' /\ (forall t, ~ In (LEvalBegin t) ls').
Proof. exact RTLoopFacts.stop_ends_after_current_l. Qed.
Print Assumptions stop_ends_after_current.

(* The start phase is covered: run_storage clears the flag BEFORE graph.start, so a stop that lands while the
   nodes are starting (from a start hook or from another thread) stays; the run then makes no advance and no
   cycle at all: when start returns the first loop test leaves the loop. *)
Theorem stop_during_start_zero_cycles : forall c w0 ls s ls' s', wfc c -> run c w0 ls s ->
  ph s = PStart -> stop s = true -> exec c s ls' = Some s' ->
  stop s' = true /\ cycles s' = [] /\ (ph s' = PStart \/ ph s' = PTop \/ ph s' = PDone) /\
  ~ In LTop ls' /\ (forall t, ~ In (LEvalBegin t) ls') /\ (forall t, ~ In (LAdv t) ls').
Proof. exact RTLoopFacts.stop_during_start_l. Qed.
Print Assumptions stop_during_start_zero_cycles.

(* From any point of the loop's own code the loop thread is out after at most togo <= 4 of its own
   steps (leave the wait, re-read the clock, return from advance_realtime, break), whatever the
   other threads do in between. *)
Theorem stop_exits_within_four_steps : forall c w0 ls s ls' s', run c w0 ls s -> stop s = true ->
  in_loop_code (ph s) = true -> exec c s ls' = Some s' ->
  loop_len ls' <= togo (ph s) /\ togo (ph s) <= 4 /\ (loop_len ls' = togo (ph s) -> ph s' = PDone).
Proof. exact RTLoopFacts.stop_exits_within_l. Qed.
Print Assumptions stop_exits_within_four_steps.

(* Reaching the end: when advance_realtime returns end_time or later, the loop's next step is the exit. *)
Theorem end_time_ends_run : forall c s l s' prev t,
  gstep c s l = Some s' -> ph s = PAdv prev t -> c_end c <= t -> loop_label l = true ->
  l = LExit /\ ph s' = PDone.
Proof. exact RTLoopFacts.end_reached_exits. Qed.
Print Assumptions end_time_ends_run.

(* ---- nothing is missed while the loop waits ---- *)
(* No reachable state has the loop blocked in wait_for with a push or a stop flagged unless a
   notify_all is still owed or has already reached the waiter (flag set under the mutex before the
   notify; predicate tested under the mutex before blocking). *)
Theorem no_missed_push_or_stop_while_waiting : forall c w0 ls s tgt sg, run c w0 ls s ->
  ph s = PWait tgt sg -> wake_requested s = true -> 0 < notif s \/ sg = true.
Proof. exact RTLoopFacts.no_missed_l. Qed.
Print Assumptions no_missed_push_or_stop_while_waiting.

(* The wait is entered only with both flags clear. *)
Theorem wait_only_without_flags : forall c s s', gstep c s LWaitBefore = Some s' -> wake_requested s = false.
Proof. exact RTLoopFacts.wait_only_without_flags_l. Qed.
Print Assumptions wait_only_without_flags.

(* A flagged push stays flagged, and the loop cannot go (back) to wait, until a cycle evaluates the
   push sources; and a cycle begun with the push flagged does evaluate them. *)
Theorem push_not_missed : forall c ls s s', exec c s ls = Some s' -> push s = true ->
  ~ In LPushNode ls -> push s' = true /\ ~ In LWaitBefore ls.
Proof. exact RTLoopFacts.push_exec. Qed.
Print Assumptions push_not_missed.

Theorem push_delivered_in_next_cycle : forall c s l s' t,
  gstep c s l = Some s' -> ph s = PEvalPre t -> push s = true -> loop_label l = true ->
  l = LPushNode /\ push s' = false.
Proof. exact RTLoopFacts.push_cycle_delivers. Qed.
Print Assumptions push_delivered_in_next_cycle.

(* ---- the acceptor ---- *)
(* The acceptor used by the correspondence check on hook-mode histories is the transition function:
   it accepts exactly the runs of the model. *)
Theorem acceptor_sound : forall c ls s s',
  exec_ix c s ls 0 = (-1, s') <-> exec c s ls = Some s'.
Proof. exact RTLoopFacts.acceptor_sound_l. Qed.
Print Assumptions acceptor_sound.

(* With reports of graph.next_scheduled_time() in the history: an accepted history is a run of the model and every
   reported value equals the minimum of the pending set (-1: nothing pending) — checked by [accept_ix] itself. *)
Theorem acceptor_with_next_sound : forall c os s i s',
  fst (accept_ix c s os i) = -1 -> 0 <= i -> snd (accept_ix c s os i) = s' -> exec c s (labels_of os) = Some s'.
Proof. exact RTLoopFacts.accept_ix_run. Qed.
Print Assumptions acceptor_with_next_sound.

(* ---- the cached next_scheduled_time (what the loop takes its target from) ---- *)
(* Mirror of the root scan of evaluate_impl (graph.cpp): after a cycle at t the cached next_scheduled_time is at
   or below EVERY future slot — of the push-source prefix as of the ordinary nodes, whether or not the node was
   evaluated in the cycle (a push evaluates every prefix node, also one that holds a future timer). *)
Theorem root_scan_next_le_future_slots : forall t pushp beh prefix rest slots' next',
  root_scan t pushp beh prefix rest = (slots', next') ->
  forall s, In s slots' -> t < s -> s < MAX_DT -> next' <= s.
Proof. exact RTLoopFacts.root_scan_next_le_future_slots_l. Qed.
Print Assumptions root_scan_next_le_future_slots.

(* What the free-running acceptor checks of one cycle holds of every cycle of the model whatever
   the unobserved reading w was (wlast: an earlier reading, wobs: a later one). *)
Theorem free_running_cycle_check_sound : forall (first : bool) start endt prev wlast tgt w wobs t,
  t = eval_time tgt w prev -> wlast <= w -> w <= wobs -> t < endt ->
  (if first then start <= tgt /\ prev = start else prev < tgt) ->
  fr_cycle_ok first start endt prev wlast tgt t wobs = true.
Proof. exact RTLoopFacts.fr_cycle_sound. Qed.
Print Assumptions free_running_cycle_check_sound.

(* ================================================================== *)
(* Non-vacuity: concrete runs. *)
Definition ex_cfg : cfg := mkCfg 100 200.

(* a timer at 130 set during start; a wait with two slice time-outs; a push landing inside the wait
   (flag, then notify), a wake-up cycle stamped by the clock (112), the timer cycle at exactly 130
   with the wall clock late (141), an already-due wall-clock alarm entered for max(130+1, 145) = 145,
   delivered late at exactly 145, a stop landing in the last wait, the exit. *)
Definition ex_run : list label :=
  [LReq 1 30 0 0 130; LStarted;
   LTop; LRead 90; LWaitBefore; LWaitAfter; LRead 95; LWaitBefore; XPushSet; XPushNotify; LWaitAfter; LRead 112;
   LAdv 112; LEvalBegin 112; LPushNode; LEvalEnd;
   LTop; LRead 113; LWaitBefore; LWaitAfter; LRead 141; LAdv 130; LEvalBegin 130; LNode;
   LReq 2 120 145 0 145; LEvalEnd;
   LTop; LRead 150; LAdv 145; LEvalBegin 145; LNode; LEvalEnd;
   LTop; LRead 151; LWaitBefore; XStopSet; LWaitAfter; XStopNotify; LRead 152; LAdv 152; LExit].

Example ex_run_is_a_run :
  match exec ex_cfg (init ex_cfg 80) ex_run with
  | Some s => ph s = PDone /\ map ct (cycles s) = [152; 145; 130; 112] /\ map cw (cycles s) = [152; 150; 141; 112] /\
              pend s = [] /\ stop s = true /\ cut s = false
  | None => False
  end.
Proof. vm_compute. repeat split; reflexivity. Qed.

Example ex_cycle_times : eval_times ex_run = [112; 130; 145].
Proof. vm_compute. reflexivity. Qed.

(* a stop landing during the start phase (between two start hooks): the run returns without a cycle *)
Example ex_stop_during_start :
  match exec ex_cfg (init ex_cfg 80) [LNode; LReq 1 30 0 0 130; XStopSet; XStopNotify] with
  | Some s => ph s = PStart /\ stop s = true /\
      match exec ex_cfg s [LNode; LStarted; LExit] with
      | Some s' => ph s' = PDone /\ cycles s' = [] /\ pend s' = [130]
      | None => False
      end /\ exec ex_cfg s [LNode; LStarted; LTop] = None
  | None => False
  end.
Proof. vm_compute. repeat split; reflexivity. Qed.

(* the scan on a push cycle at 10: prefix = [a push source without timer; a push-kind heartbeat holding 50],
   ordinary nodes [due now, re-arming at 70; idle at 30]: the heartbeat is evaluated (push pending), asks for nothing,
   and its 50 is still folded in; the result is min(50, 70, 30) = 30 *)
Example ex_root_scan :
  root_scan 10 true (fun i => if Nat.eqb i 2 then [70] else []) [0; 50] [10; 30] = ([0; 50; 70; 30], 30) /\
  root_scan 10 true (fun i => []) [0; 50] [5] = ([0; 50; 5], 50).
Proof. vm_compute. split; reflexivity. Qed.

Example ex_wfc : wfc ex_cfg.
Proof. unfold wfc, ex_cfg, MAX_DT; simpl; lia. Qed.

(* the hypothesis of no_missed_push_or_stop_while_waiting is met: blocked, push flagged, notify owed *)
Example ex_waiting_with_flag :
  match exec ex_cfg (init ex_cfg 80) (firstn 9 ex_run) with
  | Some s => ph s = PWait 130 false /\ wake_requested s = true /\ notif s = 1
  | None => False
  end.
Proof. vm_compute. repeat split; reflexivity. Qed.

(* the drain cut is reachable: wall clock (5000) past end (2000), a graph re-scheduling itself every
   smallest step from 10 on: cut after the cycles 11..1034 *)
Fixpoint drain_cycles (n : nat) (t : Z) : list label :=
  match n with
  | O => []
  | S k => [LTop; LRead 5000; LAdv t; LEvalBegin t; LNode; LReq 1 1 0 0 (t + 1); LEvalEnd] ++ drain_cycles k (t + 1)
  end.
Definition drain_cfg : cfg := mkCfg 10 2000.
Definition drain_run : list label :=
  [LReq 1 0 0 0 10; LStarted] ++ drain_cycles 1025 10 ++ [LTop; LRead 5000; LAdv 2000; LExit].

Example ex_drain_cut :
  match exec drain_cfg (init drain_cfg 5000) drain_run with
  | Some s => ph s = PDone /\ cut s = true /\ stop s = false /\ pend s = [1035] /\ length (cycles s) = 1026%nat
  | None => False
  end.
Proof. vm_compute. repeat split; reflexivity. Qed.

(* a run that ends by reaching end_time with nothing dropped (hypotheses of rt_no_drop) *)
Example ex_no_drop_hyps :
  match exec ex_cfg (init ex_cfg 80)
             [LReq 1 30 0 0 130; LStarted; LTop; LRead 300; LAdv 130; LEvalBegin 130; LNode; LReq 1 90 0 0 220; LEvalEnd;
              LTop; LRead 301; LAdv 200; LExit] with
  | Some s => ph s = PDone /\ stop s = false /\ cut s = false /\ pend s = [220]
  | None => False
  end.
Proof. vm_compute. repeat split; reflexivity. Qed.
