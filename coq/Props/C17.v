(* Props/C17.v — property C17 (placeholder while the development is being built). *)
Require Import Base RTLoop RTLoopFacts.
From Coq Require Import ZifyBool.

Theorem eval_time_never_past_target : forall tgt w prev, eval_time tgt w prev <= tgt.
Proof. exact RTLoopFacts.eval_time_le_target. Qed.
Print Assumptions eval_time_never_past_target.
