(* Props/C12.v — property C12: the output of switch_ follows only the branch
   selected by the current key, which starts fresh.

   [mirror_run]/[reach] are the mirror of src/hgraph/runtime/switch_node.cpp
   (two graph slots, parent/child schedule slots, push/pull scheduling,
   sampled binding); [spec_run] is "the selected branch, alone".  Everything is
   universal over the branch set [sp] (arbitrary user code [b_step]), the key
   and input history [h], the window and the number of cycles.  Hypotheses
   common to all statements: at most two time-series arguments (what the
   driver wires), start >= MIN_ST, and times stay below MAX_DT (end_ + the
   largest timer delay a body asks for).  Statements only; proofs are [exact]. *)
Require Import Base Sched Switch SwitchFacts.

(* 1. The output stream of the switch (the recorder lines: value, and for a TSS
      output value and delta, of every tick) — and the output container, its error,
      its cycle times, and the live instance — is that of the specification: at every moment the one
      selected branch, running alone from the fresh instance created when it was
      selected.  For every fuel (length of the run). *)
Theorem switch_follows_active : forall sp h D start end_ fuel,
  (s_nts sp <= 2)%nat -> sp_bounded D sp -> 1 <= start -> end_ <= MAX_DT -> end_ + D <= MAX_DT ->
  let m := mirror_run sp h start end_ fuel in
  let s := spec_run sp h start end_ fuel in
  outs_of (m_log m) = s_outs s /\ cycles_of (m_log m) = s_cycles s /\ m_err m = s_err s /\
  active_inst m = s_cur s /\ m_out m = s_out s.
Proof. exact SwitchFacts.follows_active_gen. Qed.
Print Assumptions switch_follows_active.

(* the whole abstraction, as one equation *)
Theorem mirror_refines_alone_branch : forall sp h D start end_ fuel,
  (s_nts sp <= 2)%nat -> sp_bounded D sp -> 1 <= start -> end_ <= MAX_DT -> end_ + D <= MAX_DT ->
  abs (mirror_run sp h start end_ fuel) = spec_run sp h start end_ fuel.
Proof. exact SwitchFacts.refines. Qed.
Print Assumptions mirror_refines_alone_branch.

(* 2. In every reachable state, a key tick that selects (a different key, or any
      key tick under reload_on_ticked, or the first key) leaves as the live
      instance exactly: a FRESH instance of the selected branch (state 0, empty
      scheduler, new id), started, and run once alone at the switch time on the
      held inputs.  Nothing of the state before the switch enters the right-hand
      side except the instance counter and the held inputs. *)
Theorem new_branch_fresh_and_sampled : forall sp h D start end_,
  (s_nts sp <= 2)%nat -> sp_bounded D sp -> 1 <= start -> end_ <= MAX_DT -> end_ + D <= MAX_DT ->
  forall n k br,
  let m := reach sp h start end_ n in
  cycle_due sp h end_ m ->
  let t := mirror_next sp h m in
  tick_of sp h 0 t = Some k -> need_switch sp (w_akey (m_w m)) k = true -> select_branch sp k = Some br ->
  let srcs' := apply_ticks t (m_srcs m) (ticks_at sp h t) in
  let m' := mirror_cycle sp h t m in
  let run := alone_cycle sp t srcs' (fst (inst_start t (fresh_inst br (m_ninst m) t))) in
  let emptied := match active_inst m with Some _ => reset_out (s_set sp) t (m_out m) | None => m_out m end in
  m_err m' = 0 /\ m_ninst m' = m_ninst m + 1 /\
  active_inst m' = Some (k, fst run) /\
  m_out m' = match snd run with Some v => emit_out (s_set sp) t v emptied | None => emptied end.
Proof. exact SwitchFacts.new_branch_reach. Qed.
Print Assumptions new_branch_fresh_and_sampled.

(* 2b. Collection-shaped (TSS) output owned by the switch: after ANY selection —
      another branch, the same branch re-selected, reload_on_ticked on a key
      re-tick, another unmatched key falling to the same default branch — the
      set holds exactly what the NEW instance published at the switch time;
      nothing the replaced instance published survives.  The output ticks at the
      switch time whenever an instance was replaced, and the delta of that tick
      is taken against the members the replaced instance had published. *)
Theorem reselected_container_is_fresh : forall sp h D start end_,
  (s_nts sp <= 2)%nat -> sp_bounded D sp -> 1 <= start -> end_ <= MAX_DT -> end_ + D <= MAX_DT ->
  forall n k br,
  let m := reach sp h start end_ n in
  cycle_due sp h end_ m ->
  let t := mirror_next sp h m in
  tick_of sp h 0 t = Some k -> need_switch sp (w_akey (m_w m)) k = true -> select_branch sp k = Some br ->
  s_set sp = true ->
  let srcs' := apply_ticks t (m_srcs m) (ticks_at sp h t) in
  let m' := mirror_cycle sp h t m in
  let run := alone_cycle sp t srcs' (fst (inst_start t (fresh_inst br (m_ninst m) t))) in
  o_set (m_out m') = opt_list (snd run) /\
  o_lmt (m_out m') = (if is_some (active_inst m) || is_some (snd run) then t else o_lmt (m_out m)) /\
  (is_some (active_inst m) = true -> o_old (m_out m') = o_set (m_out m)).
Proof. exact SwitchFacts.fresh_container_reach. Qed.
Print Assumptions reselected_container_is_fresh.

(* ... and what that fresh instance is and sees at the switch time: state 0, only
   its start-hook timer pending, every held input presented as modified with its
   current value; it is evaluated at the switch time iff it armed itself in
   start or some held input is valid. *)
Theorem fresh_instance_sees_held_inputs : forall sp br id t srcs,
  0 <= b_sd (br_body br) -> t + b_sd (br_body br) < MAX_DT ->
  let i0 := fst (inst_start t (fresh_inst br id t)) in
  i_state i0 = 0 /\ i_id i0 = id /\ i_br i0 = br /\ i_samp i0 = t /\
  events (i_sch i0) = (if b_sos (br_body br) then [(t + b_sd (br_body br), 0)] else []) /\
  views sp t srcs i0 = map (fun s => mkIv (is_some (fst s)) true (match fst s with Some v => v | None => 0 end))
                           (bound_srcs sp br srcs) /\
  due t (views sp t srcs i0) i0 =
    (b_sos (br_body br) && (b_sd (br_body br) =? 0)) || existsb (fun s => is_some (fst s)) (bound_srcs sp br srcs).
Proof. exact SwitchFacts.fresh_sees_held. Qed.
Print Assumptions fresh_instance_sees_held_inputs.

(* 3. The previous branch: in every reachable state the graph in the non-active
      slot is stopped; a stopped graph receives no notification, is not touched
      by the evaluation of the switch (only the active slot is evaluated), and
      the runtime would refuse to evaluate it.  That its pending timers neither
      wake the parent nor reach the output is part of theorem 1: the cycle times
      and the output ticks of the mirror are those of the specification, which
      keeps nothing of a replaced instance. *)
Theorem old_branch_silent : forall sp h D start end_ n,
  (s_nts sp <= 2)%nat -> sp_bounded D sp -> 1 <= start -> end_ <= MAX_DT -> end_ + D <= MAX_DT ->
  let m := reach sp h start end_ n in
  m_err m = 0 ->
  forall a, w_active (m_w m) = Some a ->
  forall c', getg (negb a) (m_w m) = Some c' ->
    c_started c' = false /\
    (forall t tks, notify_child sp t tks (negb a) m = m) /\
    (forall t, getg (negb a) (m_w (eval_phase sp t m)) = Some c') /\
    (forall t ivs, cr_err (child_evaluate t ivs c') = 5 /\ cr_emit (child_evaluate t ivs c') = None).
Proof. exact SwitchFacts.old_silent_gen. Qed.
Print Assumptions old_branch_silent.

(* 4. Selecting a key again — whatever was selected before, including this very
      key — creates a new instance: its id is the instance counter, strictly
      above the id of the instance it replaces (and, by theorem 2, its state is
      computed from a fresh instance, not from any retired graph). *)
Theorem reselect_is_new_instance : forall sp h D start end_,
  (s_nts sp <= 2)%nat -> sp_bounded D sp -> 1 <= start -> end_ <= MAX_DT -> end_ + D <= MAX_DT ->
  forall n k br,
  let m := reach sp h start end_ n in
  cycle_due sp h end_ m ->
  let t := mirror_next sp h m in
  tick_of sp h 0 t = Some k -> need_switch sp (w_akey (m_w m)) k = true -> select_branch sp k = Some br ->
  let m' := mirror_cycle sp h t m in
  exists i', active_inst m' = Some (k, i') /\ i_id i' = m_ninst m /\
             (forall k0 i0, active_inst m = Some (k0, i0) -> i_id i0 < i_id i').
Proof. exact SwitchFacts.reselect_reach. Qed.
Print Assumptions reselect_is_new_instance.

(* 5. A cycle ends in the "no branch registered" error exactly when the key
      ticked with a value that has to be selected, matches no case, and there
      is no default branch. *)
Theorem unmatched_is_error : forall sp h D start end_,
  (s_nts sp <= 2)%nat -> sp_bounded D sp -> 1 <= start -> end_ <= MAX_DT -> end_ + D <= MAX_DT ->
  forall n,
  let m := reach sp h start end_ n in
  cycle_due sp h end_ m ->
  let t := mirror_next sp h m in
  (m_err (mirror_cycle sp h t m) = 2 <->
   exists k, tick_of sp h 0 t = Some k /\ need_switch sp (w_akey (m_w m)) k = true /\
             (forall b, ~ In (k, b) (s_cases sp)) /\ s_default sp = None).
Proof. exact SwitchFacts.unmatched_reach. Qed.
Print Assumptions unmatched_is_error.

(* 6. The A/B slot protocol, over all key histories: the mirror never raises
      "previous graph does not occupy the reusable slot" (4) nor destroys a
      running graph (6); in every reachable state the slot the next switch will
      reuse holds nothing or a stopped graph, and is the recorded previous slot. *)
Theorem slot_protocol_safe : forall sp h D start end_ n,
  (s_nts sp <= 2)%nat -> sp_bounded D sp -> 1 <= start -> end_ <= MAX_DT -> end_ + D <= MAX_DT ->
  let m := reach sp h start end_ n in
  m_err m <> 4 /\ m_err m <> 6 /\
  (m_err m = 0 ->
   slots_ok (m_w m) /\
   match getg (reuse_slot (m_w m)) (m_w m) with Some c => c_started c = false | None => True end /\
   match w_prev (m_w m) with Some p => p = reuse_slot (m_w m) | None => True end).
Proof. exact SwitchFacts.slot_protocol_safe_gen. Qed.
Print Assumptions slot_protocol_safe.

(* The only errors a run can end with are "unmatched key" and (for [mirror_run]) fuel. *)
Theorem reachable_errors : forall sp h D start end_ n,
  (s_nts sp <= 2)%nat -> sp_bounded D sp -> 1 <= start -> end_ <= MAX_DT -> end_ + D <= MAX_DT ->
  (m_err (reach sp h start end_ n) = 0 -> Good D (reach sp h start end_ n)) /\
  (m_err (reach sp h start end_ n) = 0 \/ m_err (reach sp h start end_ n) = 2).
Proof. exact SwitchFacts.reach_good. Qed.
Print Assumptions reachable_errors.

(* The boundedness hypothesis holds of every case the correspondence check runs. *)
Theorem harness_cases_are_covered : forall D d,
  1 <= D -> Forall (fun p => p_d p <= D /\ 0 <= p_sd p <= D) (d_tab d) -> sp_bounded D (spec_of d).
Proof. exact SwitchFacts.spec_of_bounded. Qed.
Print Assumptions harness_cases_are_covered.

(* ------------------------------------------------------------------ *)
(*  Non-vacuity                                                        *)
(* ------------------------------------------------------------------ *)
(* key 1 -> a running sum, key 2 -> a timer body (arms now+3 on every tick, emits
   when it fires), default -> a self-scheduling ticker taking the key. *)
Definition ex_acc    : bparams := mkBP false true false false false 1 0 1 0 1 0 0 false 0.
Definition ex_timer  : bparams := mkBP false false true true false 3 100 1 0 1 0 0 false 0.
Definition ex_ticker : bparams := mkBP true true true false true 2 200 1 1 0 0 1 false 0.
Definition ex_sp : swspec :=
  mkSw 1 false [(1, mkBr false (table_body ex_acc)); (2, mkBr false (table_body ex_timer))]
       (Some (mkBr true (table_body ex_ticker))) false.
Definition ex_sp_nodefault : swspec := mkSw 1 false (s_cases ex_sp) None false.
(* a ticks at 1,3,5,7; key: 1 at 2, 2 at 4 (timer armed for 7), 1 at 6 (third
   activation: slot 0 is reused, the timer of the stopped instance is pending),
   9 at 8 (default / unmatched) *)
Definition ex_h : hist :=
  [(1, 1, 5); (0, 2, 1); (1, 3, 6); (0, 4, 2); (1, 5, 7); (0, 6, 1); (1, 7, 8); (0, 8, 9); (1, 9, 1)].

Example ex_bounded : sp_bounded 3 ex_sp /\ sp_bounded 3 ex_sp_nodefault.
Proof.
  split; apply sp_bounded_intro; simpl;
    try (repeat (apply Forall_cons; [apply table_bounded; simpl; lia|]); apply Forall_nil);
    try (apply table_bounded; simpl; lia); exact I.
Qed.

(* the hypotheses of theorems 2, 4, 5 are met: after 5 cycles the third selection
   (key 1 again, re-using slot 0) is due *)
Example ex_third_switch_due :
  let m := reach ex_sp ex_h 1 20 5 in
  cycle_due ex_sp ex_h 20 m /\ mirror_next ex_sp ex_h m = 6 /\
  tick_of ex_sp ex_h 0 6 = Some 1 /\ need_switch ex_sp (w_akey (m_w m)) 1 = true /\
  w_active (m_w m) = Some true /\ w_prev (m_w m) = Some false /\ reuse_slot (m_w m) = false /\
  (exists c, getg true (m_w m) = Some c /\ events (i_sch (c_inst c)) = [(7, 0); (8, 0)]) /\
  (exists k0 i0, active_inst m = Some (k0, i0) /\ k0 = 2 /\ i_id i0 = 1).
Proof.
  vm_compute. repeat split; try discriminate; try reflexivity.
  - eexists. split; reflexivity.
  - eexists _, _. repeat split; reflexivity.
Qed.

(* the run: output ticks 5, 11 (branch 1), nothing from the timer branch before it
   is replaced at 6 (its timers at 7 and 8 never fire), then the FRESH running sum
   7, 15 (not 18, 26), then the default branch; mirror and specification agree *)
Example ex_run :
  map (fun l => (nthz 1 l, nthz 4 l)) (rev (outs_of (m_log (mirror_run ex_sp ex_h 1 20 30)))) =
    [(2, 5); (3, 11); (6, 7); (7, 15); (8, 218); (9, 211); (10, 212); (12, 213); (14, 214); (16, 215); (18, 216)] /\
  s_outs (spec_run ex_sp ex_h 1 20 30) = outs_of (m_log (mirror_run ex_sp ex_h 1 20 30)) /\
  m_err (mirror_run ex_sp ex_h 1 20 30) = 0.
Proof. vm_compute. repeat split; reflexivity. Qed.

(* TSS output, reload_on_ticked, ONE branch that publishes its input: the key re-ticks at 4
   while the set is {1,2,3} and the held input is 3.  The same branch graph is rebuilt; the
   hypotheses of theorem 2b hold there, the output at 4 is {3} with removed {1,2} (3 is
   re-published, so it is in neither added nor removed), and 4 joins at 5. *)
Definition ex_pub : bparams := mkBP false true false false false 1 0 0 1 0 0 0 false 0.
Definition ex_set_sp : swspec := mkSw 1 true [(1, mkBr false (table_body ex_pub))] None true.
Definition ex_set_h : hist := [(0, 1, 1); (1, 1, 1); (1, 2, 2); (1, 3, 3); (0, 4, 1); (1, 5, 4)].
Example ex_same_branch_rebuilt :
  let m := reach ex_set_sp ex_set_h 1 10 3 in
  cycle_due ex_set_sp ex_set_h 10 m /\ mirror_next ex_set_sp ex_set_h m = 4 /\
  tick_of ex_set_sp ex_set_h 0 4 = Some 1 /\ need_switch ex_set_sp (w_akey (m_w m)) 1 = true /\
  w_akey (m_w m) = Some 1 /\ o_set (m_out m) = [1; 2; 3] /\
  o_set (m_out (mirror_cycle ex_set_sp ex_set_h 4 m)) = [3] /\
  rev (outs_of (m_log (mirror_run ex_set_sp ex_set_h 1 10 30))) =
    [[21; 1; 1; 1; 1; 1; 0; 1; 1]; [21; 2; 1; 1; 2; 1; 0; 1; 2; 2]; [21; 3; 1; 1; 3; 1; 0; 1; 2; 3; 3];
     [21; 4; 1; 1; 1; 0; 2; 3; 1; 2]; [21; 5; 1; 1; 2; 1; 0; 3; 4; 4]].
Proof. vm_compute. repeat split; try discriminate; reflexivity. Qed.

(* an unmatched key without default: the error case of theorem 5 is reachable *)
Example ex_unmatched :
  let m := reach ex_sp_nodefault ex_h 1 20 7 in
  cycle_due ex_sp_nodefault ex_h 20 m /\ tick_of ex_sp_nodefault ex_h 0 (mirror_next ex_sp_nodefault ex_h m) = Some 9 /\
  m_err (mirror_cycle ex_sp_nodefault ex_h (mirror_next ex_sp_nodefault ex_h m) m) = 2 /\
  m_err (mirror_run ex_sp_nodefault ex_h 1 20 30) = 2.
Proof. vm_compute. repeat split; try discriminate; reflexivity. Qed.

(* a body whose START hook arms a LATER timer (now + 3) and which reads a held input: it is
   evaluated in the selection cycle (3) on the sampled input, and again when its timer fires (6) *)
Definition ex_startarm : bparams := mkBP true true true false false 1 0 0 1 0 0 0 false 3.
Definition ex_sa_sp : swspec := mkSw 1 false [(1, mkBr false (table_body ex_startarm))] None false.
Example ex_start_armed_timer_does_not_hide_sampling :
  rev (outs_of (m_log (mirror_run ex_sa_sp [(1, 1, 5); (0, 3, 1)] 1 10 30))) = [[20; 3; 1; 1; 5]; [20; 6; 1; 1; 5]] /\
  sp_bounded 3 ex_sa_sp.
Proof.
  split; [vm_compute; reflexivity|].
  apply sp_bounded_intro; simpl; [repeat (apply Forall_cons; [apply table_bounded; simpl; lia|]); apply Forall_nil|exact I].
Qed.
