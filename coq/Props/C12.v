(* Props/C12.v — placeholder while the development is being built. *)
Require Import Base Sched Switch SwitchFacts.

Theorem select_unmatched : forall k cs, find_case k cs = None <-> forall b, ~ In (k, b) cs.
Proof. exact SwitchFacts.find_case_none. Qed.
Print Assumptions select_unmatched.
