(* Props/C11.v — property C11: "reduce equals the fold over exactly the currently
   valid elements".  Statements only; every proof is one [exact].

   The objects: Reduce.v mirrors runtime/reduce_node.cpp (dense leaf maps, power-of-two
   capacity, heap-indexed combine points, resolve_aggregate with its alias descent,
   rebuild_structure's structural pass, the evaluation pass).  Positions are written in
   coordinates: [pos k j u] is the combine point of height j (its subtree spans 2^j
   dense leaves, starting at leaf u * 2^j) in a tree of capacity 2^k.

   FULL STATEMENT AIMED AT (reduce_eq_fold): for every history of add / remove / update
   cycles and every associative f, after every cycle the published root is
   [spec_result f cf vals], vals = the values of the live leaves in dense order.
   WHAT IS PROVED HERE (for the lifted-kernel combiner, c_lifted cf = true): exactly that -
   [reduce_eq_fold] over every list of cycles from the empty reduction, by induction with
   fold_left over [reduce_eq_fold_cycle], which covers EVERY evaluated cycle of the model's own
   [reduce_cycle] (first observation, collection not yet valid, steady state, partial rebuild,
   full rebuild, growth with bank swap), the capacity arithmetic (bit_ceil) being proved
   ([capacity_is_a_power_of_two]); [reduce_order_independent] over whole histories.  The
   hypotheses of the history theorem are about the SOURCE collection only and are kept as the
   explicit predicate [hist_ok]/[src_ok] (property C05: every leaf the reconciliation keeps has a
   value in the new store; values of leaves neither structural nor ticked are unchanged unless the
   tree is rebuilt in full).  WHAT IS STILL MISSING: (1) [src_ok] is not derived from the
   slot-store model of the TSD (it is inhabited by a concrete history, c11_history_inhabited);
   (2) the scheduling argument for generic (node / sub-graph) combiners, which re-evaluate only
   when notified - the generic mode is in the model and in the differential (operand logs line by
   line) but not in a theorem; (3) unreachability of the modelled "inactive bank still occupied" error. *)
Require Import Base Reduce ReduceFacts.
From Coq Require Import PeanoNat Permutation.
Local Open Scope nat_scope.

(* ---- the mechanism ---------------------------------------------------------------- *)

(* resolve_aggregate, read recursively: nothing live under it -> Empty; one live leaf -> that
   leaf; live leaves only in the left half -> whatever the LEFT child resolves to (the alias);
   otherwise this combine point. *)
Theorem aggregate_alias_rule : forall k j u live, 1 <= j -> j <= k -> u < 2 ^ (k - j) ->
  resolve (2 ^ k) live (pos k j u) =
    if live <=? u * 2 ^ j then AEmpty
    else if live =? u * 2 ^ j + 1 then ALeaf (u * 2 ^ j)
    else if live <=? u * 2 ^ j + 2 ^ (j - 1) then resolve (2 ^ k) live (pos k (j - 1) (2 * u))
    else ANode (pos k j u).
Proof. exact ReduceFacts.resolve_rec. Qed.
Print Assumptions aggregate_alias_rule.

(* The path re-evaluated for dense leaf i is exactly the set of combine points whose interval
   contains i. *)
Theorem path_is_the_ancestors : forall k i j u, i < 2 ^ k -> 1 <= j -> j <= k -> u < 2 ^ (k - j) ->
  (In (pos k j u) (leaf_path (2 ^ k) (internals (2 ^ k)) i) <-> u * 2 ^ j <= i /\ i < (u + 1) * 2 ^ j).
Proof. exact ReduceFacts.leaf_path_iff. Qed.
Print Assumptions path_is_the_ancestors.

(* The structural pass touches only the positions it is given, and there makes "a combiner is
   present" equal to "both halves are non-empty (or: root, zero given, one live)". *)
Theorem structural_pass_sets_presence : forall cf C live positions combs cr rt combs1 cr1 rt1,
  fold_left (phase1_at cf C live) positions (combs, cr, rt) = (combs1, cr1, rt1) ->
  length combs1 = length combs /\
  (forall p, ~ In p positions -> nth_opt p combs1 = nth_opt p combs) /\
  (forall p, In p positions -> p < length combs -> present combs1 p = needed cf C live p) /\
  (forall p c, nth_opt p combs1 = Some (Some c) -> nth_opt p combs = Some (Some c) \/ (c = fresh_comb /\ In p positions)).
Proof. exact ReduceFacts.phase1_spec. Qed.
Print Assumptions structural_pass_sets_presence.

(* ---- reduce = fold ------------------------------------------------------------------ *)

(* Static form, for every capacity, live count, leaves, store and ASSOCIATIVE combiner: in a tree
   whose combiners are locally consistent (each holds f of its two child aggregates), the
   aggregate of the subtree (j, u) is the fold of f over exactly its live leaves, in dense order.
   With j = k, u = 0 this is the root. *)
Theorem reduce_eq_fold_static : forall f cf,
  (forall a b c, f (f a b) c = f a (f b c)) ->
  forall st L combs vals k, leaf_vals st L vals -> tree_ok f cf st L combs k ->
  forall j u, j <= k -> u < 2 ^ (k - j) -> u * 2 ^ j < length L ->
    aval cf st L combs (resolve (2 ^ k) (length L) (pos k j u)) =
    fold1 f (seg vals (u * 2 ^ j) (Nat.min (2 ^ j) (length L - u * 2 ^ j))).
Proof. exact ReduceFacts.aval_resolve. Qed.
Print Assumptions reduce_eq_fold_static.

(* What the invariant gives: the published root aggregate is the fold over the live values, with
   the zero rules by live count (spec_result). *)
Theorem invariant_gives_fold : forall f cf, (forall a b c, f (f a b) c = f a (f b c)) -> c_lifted cf = true -> (c_has_zero cf = true -> c_zero_valid cf = true) ->
  forall st L vals k combs, tree_inv f cf st L vals k combs ->
  src_value cf st combs (agg_src cf L combs (root_aggregate (c_has_zero cf) (2 ^ k) (length L) (length combs)))
  = spec_result f cf vals.
Proof. intros f cf Ha Hl Hz. exact (ReduceFacts.tree_inv_result f cf Hz). Qed.
Print Assumptions invariant_gives_fold.

(* The evaluation pass: visiting positions in descending heap order, when every present combine
   point that is NOT visited already holds the fold of its interval, leaves every present
   combine point holding the fold of its interval. *)
Theorem evaluation_pass_correct : forall f cf, (forall a b c, f (f a b) c = f a (f b c)) -> c_lifted cf = true -> (c_has_zero cf = true -> c_zero_valid cf = true) ->
  forall st L vals k, leaf_vals st L vals -> length L <= 2 ^ k ->
  forall R combs log w, desc_sorted R -> wf_presence cf L k combs ->
  (forall p, p < internals (2 ^ k) -> ~ In p R -> present combs p = true -> good f cf L vals k combs p) ->
  exists combs' log' w', fold_left (eval_at f cf st L (2 ^ k)) R (combs, log, w) = (combs', log', w') /\
    wf_presence cf L k combs' /\
    (forall p, p < internals (2 ^ k) -> present combs' p = true -> good f cf L vals k combs' p).
Proof. exact ReduceFacts.eval_loop. Qed.
Print Assumptions evaluation_pass_correct.

(* One cycle without growth (adds, removes by swap-last, value ticks; several per cycle): if the
   leaf maps changed only at the recorded structural leaves [sleaves] and values changed only
   there or at the ticked leaves [dm], then the structural pass over the paths of [sleaves]
   followed by the evaluation pass over (structural positions holding a combiner) + (paths of
   [dm]) re-establishes the invariant for the new leaves: the root is again the fold.  Positions
   outside those paths are neither rebuilt nor re-evaluated, and need not be. *)
Theorem reduce_eq_fold_partial : forall f cf, (forall a b c, f (f a b) c = f a (f b c)) -> c_lifted cf = true -> (c_has_zero cf = true -> c_zero_valid cf = true) ->
  forall st st' k L vals L' vals' combs sleaves dm extra combs1 cr rt,
  tree_inv f cf st L vals k combs ->
  leaf_vals st' L' vals' -> length L' <= 2 ^ k ->
  (forall i, ~ In i sleaves -> nth_opt i L' = nth_opt i L) ->
  (forall i, ~ In i sleaves -> ~ In i dm -> nth_opt i vals' = nth_opt i vals) ->
  let spos := sort_desc_unique (concat (map (leaf_path (2 ^ k) (length combs)) sleaves)) in
  fold_left (phase1_at cf (2 ^ k) (length L')) spos (combs, [], []) = (combs1, cr, rt) ->
  exists combs2 log w,
    fold_left (eval_at f cf st' L' (2 ^ k)) (visited k combs1 spos dm extra) (combs1, [], []) = (combs2, log, w) /\
    tree_inv f cf st' L' vals' k combs2 /\ (forall p, present combs2 p = present combs1 p).
Proof. exact ReduceFacts.cycle_partial. Qed.
Print Assumptions reduce_eq_fold_partial.

(* One cycle with a full rebuild: first publication, or growth into the other bank with every
   combine point created afresh ("any capacity history"): no assumption on the old tree. *)
Theorem reduce_eq_fold_growth_partial : forall f cf, (forall a b c, f (f a b) c = f a (f b c)) -> c_lifted cf = true -> (c_has_zero cf = true -> c_zero_valid cf = true) ->
  forall st' k L' vals' combs0 combs1 cr rt dm extra,
  leaf_vals st' L' vals' -> length L' <= 2 ^ k -> (c_has_zero cf = true -> 1 <= k) ->
  length combs0 = internals (2 ^ k) ->
  let spos := down_from (length combs0) in
  fold_left (phase1_at cf (2 ^ k) (length L')) spos (combs0, [], []) = (combs1, cr, rt) ->
  exists combs2 log w,
    fold_left (eval_at f cf st' L' (2 ^ k)) (visited k combs1 spos dm extra) (combs1, [], []) = (combs2, log, w) /\
    tree_inv f cf st' L' vals' k combs2 /\ (forall p, present combs2 p = present combs1 p).
Proof. exact ReduceFacts.cycle_full. Qed.
Print Assumptions reduce_eq_fold_growth_partial.

(* ---- the dense leaf maps ------------------------------------------------------------------ *)

(* erase by moving the last leaf into the hole: every index other than the hole and the last one
   keeps its leaf; the moved leaf lands in the hole and the map is one shorter *)
Theorem swap_last_erase : forall (l : list leaf) i,
  (forall j, i < length l -> j <> i -> j <> length l - 1 -> nth_opt j (remove_leaf_at i l) = nth_opt j l) /\
  (i < length l - 1 -> nth_opt i (remove_leaf_at i l) = nth_opt (length l - 1) l /\
                       length (remove_leaf_at i l) = length l - 1).
Proof. intros l i. split; [intros j; exact (ReduceFacts.remove_leaf_at_frame l i j)|exact (ReduceFacts.remove_leaf_at_moved l i)]. Qed.
Print Assumptions swap_last_erase.

(* reconcile_leaf_state, for ANY store and ANY delta (coherent or not), any number of removals, adds
   and modifications in one cycle: a dense index that is not recorded in structural_leaves still
   holds the leaf it held before, and "not structural" means nothing moved.  This is the first
   hypothesis of reduce_eq_fold_partial, discharged for the model's own reconciliation. *)
Theorem structural_leaf_record_complete : forall st d L,
  let '(L', sl, stc) := reconcile_sparse st d L in
  (forall j, ~ In j sl -> nth_opt j L' = nth_opt j L) /\ (stc = false -> L' = L /\ sl = []).
Proof. exact ReduceFacts.reconcile_sparse_frame. Qed.
Print Assumptions structural_leaf_record_complete.

(* rebuild_structure's capacity: from a power of two (or 0 = never grown) to a power of two (or 0)
   that holds the live leaves, and at least 2 when a zero is given *)
Theorem capacity_is_a_power_of_two : forall cf cap live k0, capk cap k0 ->
  exists k, capk (next_capacity cf cap live) k /\ live <= 2 ^ k /\ (c_has_zero cf = true -> 1 <= k).
Proof. exact ReduceFacts.next_capacity_spec. Qed.
Print Assumptions capacity_is_a_power_of_two.

(* EVERY evaluated cycle of the model's OWN top-level step [reduce_cycle] (the function that is
   extracted and compared with the C++): whatever branch reduce_reconcile takes - first observation,
   collection not yet valid, sparse reconciliation with any number of swap-last removals, adds and
   value ticks, no rebuild / partial rebuild / full rebuild / growth into the other bank - the
   invariant is re-established for the reconciled leaves L', the node is published, and the result
   is the fold (with the zero rules) over the new live values.  Hypotheses about the cycle concern
   the source collection only. *)
Theorem reduce_eq_fold_cycle : forall f cf, (forall a b c, f (f a b) c = f a (f b c)) -> c_lifted cf = true -> (c_has_zero cf = true -> c_zero_valid cf = true) ->
  forall st0 st d coll zero s vals L' sl stc full pr vals',
  cycle_inv f cf st0 s vals -> coll || zero = true ->
  reconcile_leaves cf st d coll s = (L', sl, stc, full, pr) ->
  leaf_vals st L' vals' ->
  (full && (stc || negb (r_published s)) = false ->
     forall i, ~ In i sl -> ~ In i (ticked_eff cf st d coll L') -> nth_opt i vals' = nth_opt i vals) ->
  let s2 := o_state (reduce_cycle f cf st d coll zero s) in
  r_published s2 = true /\ r_leaves s2 = L' /\ pub_inv f cf st s2 vals' /\ result_of cf st s2 = spec_result f cf vals'.
Proof. exact ReduceFacts.reduce_cycle_correct. Qed.
Print Assumptions reduce_eq_fold_cycle.

(* reduce_eq_fold: for every history (list of cycles: adds, swap-last removes, updates, several per
   cycle, empty ticks, zero ticks, shrink to empty and regrow, any capacity growth) from the empty
   reduction and every associative combiner, once the node has published - which every evaluated
   cycle makes it do (published_after_evaluation) - the published root is the fold of f over the
   values of the live leaves in dense order, with the zero rules.  [hist_ok] is the explicit
   source-collection hypothesis (C05), cycle by cycle. *)
Theorem reduce_eq_fold : forall f cf, (forall a b c, f (f a b) c = f a (f b c)) -> c_lifted cf = true -> (c_has_zero cf = true -> c_zero_valid cf = true) ->
  forall h, hist_ok f cf rstate0 [] h -> r_published (run f cf h) = true ->
  result_of cf (fst (final (store0, []) h)) (run f cf h) = spec_result f cf (snd (final (store0, []) h)).
Proof. exact ReduceFacts.run_eq_fold. Qed.
Print Assumptions reduce_eq_fold.

Theorem published_after_evaluation : forall f cf, (forall a b c, f (f a b) c = f a (f b c)) -> c_lifted cf = true -> (c_has_zero cf = true -> c_zero_valid cf = true) ->
  forall st s vals c, cycle_inv f cf st s vals -> src_ok cf s vals c ->
  (cy_coll c || cy_zero c = true \/ r_published s = true) -> r_published (step f cf s c) = true.
Proof. exact ReduceFacts.step_published. Qed.
Print Assumptions published_after_evaluation.

(* ---- order independence --------------------------------------------------------------- *)

(* For an associative-commutative combiner the result depends only on the multiset of live
   values: two trees (any add / remove / tick order, any capacity, any dense order) whose live
   values are permutations of each other publish the same result. *)
Theorem reduce_order_independent : forall f cf,
  (forall a b c, f (f a b) c = f a (f b c)) -> (forall a b, f a b = f b a) -> c_lifted cf = true -> (c_has_zero cf = true -> c_zero_valid cf = true) ->
  forall st1 L1 vals1 k1 combs1 st2 L2 vals2 k2 combs2,
  tree_inv f cf st1 L1 vals1 k1 combs1 -> tree_inv f cf st2 L2 vals2 k2 combs2 ->
  Permutation vals1 vals2 ->
  src_value cf st1 combs1 (agg_src cf L1 combs1 (root_aggregate (c_has_zero cf) (2 ^ k1) (length L1) (length combs1))) =
  src_value cf st2 combs2 (agg_src cf L2 combs2 (root_aggregate (c_has_zero cf) (2 ^ k2) (length L2) (length combs2))).
Proof. exact ReduceFacts.order_independent. Qed.
Print Assumptions reduce_order_independent.

(* ... and over whole histories: two histories (any order of adds / removes / ticks, any capacity
   history) whose final live values are permutations of each other publish the same result *)
Theorem reduce_order_independent_histories : forall f cf,
  (forall a b c, f (f a b) c = f a (f b c)) -> (forall a b, f a b = f b a) -> c_lifted cf = true -> (c_has_zero cf = true -> c_zero_valid cf = true) ->
  forall h1 h2, hist_ok f cf rstate0 [] h1 -> hist_ok f cf rstate0 [] h2 ->
  r_published (run f cf h1) = true -> r_published (run f cf h2) = true ->
  Permutation (snd (final (store0, []) h1)) (snd (final (store0, []) h2)) ->
  result_of cf (fst (final (store0, []) h1)) (run f cf h1) = result_of cf (fst (final (store0, []) h2)) (run f cf h2).
Proof. exact ReduceFacts.run_order_independent. Qed.
Print Assumptions reduce_order_independent_histories.

(* ---- zero rules ----------------------------------------------------------------------- *)

(* invalid when empty without zero; the zero when empty with zero; f value zero for a singleton
   with zero (the value itself without); the plain fold, zero not involved, once two are live *)
Theorem zero_rules : forall f cf,
  (spec_result f cf [] = if c_has_zero cf then Some (c_zero cf) else None) /\
  (forall v, spec_result f cf [v] = if c_has_zero cf then Some (f v (c_zero cf)) else Some v) /\
  (forall vals, 2 <= length vals -> spec_result f cf vals = fold1 f vals).
Proof. exact ReduceFacts.spec_result_rules. Qed.
Print Assumptions zero_rules.

(* ... and inside the tree: once two are live, every combiner that exists holds the fold of a
   segment of the live values; the zero is an operand of none. *)
Theorem zero_not_an_operand_once_two_live : forall f cf st L vals k combs,
  tree_inv f cf st L vals k combs -> 2 <= length L ->
  forall j u, 1 <= j -> j <= k -> u < 2 ^ (k - j) -> present combs (pos k j u) = true ->
    sem_at f L vals k combs j u.
Proof. exact ReduceFacts.zero_not_in_tree. Qed.
Print Assumptions zero_not_an_operand_once_two_live.

(* a combiner exists exactly where both halves are non-empty, or at the root of a singleton with
   a zero (the count n - 1, resp. 1, follows: one combiner per live leaf index 1 .. n-1, namely
   the one whose right half starts there; the count itself is checked on every generated case) *)
Theorem combiner_presence : forall cf (L : list leaf) k, length L <= 2 ^ k ->
  forall j u, 1 <= j -> j <= k -> u < 2 ^ (k - j) ->
  (needed cf (2 ^ k) (length L) (pos k j u) = true <->
   (pos k j u = 0 /\ c_has_zero cf = true /\ length L = 1) \/ u * 2 ^ j + 2 ^ (j - 1) < length L).
Proof. exact ReduceFacts.needed_iff. Qed.
Print Assumptions combiner_presence.

(* combiner_count: in every state satisfying the invariant (after every evaluated cycle, by
   reduce_eq_fold_cycle): n >= 2 live leaves use exactly n - 1 combiners, a singleton with a zero one,
   an empty collection or a singleton without zero none - whatever the capacity history *)
Theorem combiner_count : forall f cf st s vals, pub_inv f cf st s vals ->
  Reduce.combiner_count s =
    if 2 <=? length (r_leaves s) then length (r_leaves s) - 1
    else if c_has_zero cf && (length (r_leaves s) =? 1) then 1 else 0.
Proof. exact ReduceFacts.state_combiner_count. Qed.
Print Assumptions combiner_count.

(* ---- non-vacuity ---------------------------------------------------------------------- *)

Local Open Scope Z_scope.

(* the mirror, executed on a history that adds five keys over two cycles (growth 2 -> 8), updates,
   removes a middle key (swap-last) and empties the dictionary: node combiner, no zero *)
Example c11_model_runs :
  run_reduce [[1; 0; 1; 0; 0; 5]; [2; 0; 10; 1]; [2; 0; 11; 2]; [2; 1; 12; 4]; [2; 1; 13; 8]; [2; 1; 14; 16];
              [2; 2; 10; 32]; [3; 3; 12]; [3; 4; 10]; [3; 4; 11]; [3; 4; 13]; [3; 4; 14]] =
  [[20; 1]; [21; 1; 0; 10; 1; 11]; [22; 1; 0; 10; 1; 11]; [30; 1; 1; 2]; [32; 1; 2; 1; 1; 3; 1]; [31; 1; 1; 3];
   [20; 2]; [21; 2; 2; 12; 3; 13; 4; 14]; [22; 2; 2; 12; 3; 13; 4; 14];
   [30; 2; 4; 8]; [30; 2; 1; 2]; [30; 2; 3; 12]; [30; 2; 15; 16]; [32; 2; 5; 4; 1; 31; 1]; [31; 2; 1; 31];
   [20; 3]; [21; 3]; [22; 3; 0; 10]; [30; 3; 32; 2]; [30; 3; 34; 12]; [30; 3; 46; 16]; [32; 3; 5; 4; 1; 62; 1]; [31; 3; 1; 62];
   [20; 4; 2; 12]; [21; 4]; [22; 4]; [30; 4; 16; 8]; [30; 4; 34; 24]; [32; 4; 4; 3; 1; 58; 1]; [31; 4; 1; 58];
   [20; 5; 0; 10; 1; 11; 3; 13; 4; 14]; [21; 5]; [22; 5]; [32; 5; 0; 0; 0; 0; 1]; [31; 5; 0; 0]].
Proof. vm_compute. reflexivity. Qed.

(* a concrete state satisfying the invariant (two live leaves, one combiner holding their sum) and
   a concrete instance of every hypothesis of reduce_eq_fold_partial (a value tick of leaf 1) *)
Example c11_invariant_inhabited : ReduceFacts.example_inv.
Proof. exact ReduceFacts.example_inv_holds. Qed.

Example c11_cycle_hypotheses_inhabited : ReduceFacts.example_cycle.
Proof. exact ReduceFacts.example_cycle_holds. Qed.

(* a concrete history produced by the slot-store model ({10:1, 11:2} added; 11 ticks to 64; 10 removed
   by swap-last) satisfies the source hypotheses of reduce_eq_fold, publishes, and yields 64 *)
Example c11_history_inhabited : hist_ok Z.add ReduceFacts.exh_cf rstate0 [] ReduceFacts.exh_hist.
Proof. exact ReduceFacts.exh_ok. Qed.

Example c11_history_result :
  r_published (run Z.add ReduceFacts.exh_cf ReduceFacts.exh_hist) = true /\
  result_of ReduceFacts.exh_cf (fst (final (store0, []) ReduceFacts.exh_hist)) (run Z.add ReduceFacts.exh_cf ReduceFacts.exh_hist) = Some 64.
Proof. exact ReduceFacts.exh_result. Qed.
