(* Props/C11.v — property C11 (placeholder while the development is being built). *)
Require Import Base Reduce ReduceFacts.

Theorem c11_placeholder : True.
Proof. exact ReduceFacts.placeholder_true. Qed.
Print Assumptions c11_placeholder.
