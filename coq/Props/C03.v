(* Props/C03.v — property C03: user code runs exactly when an active input ticked (or a
   wake-up it asked for falls due) and the required inputs are valid; it then reads the
   latest values.  Statements only.  Model: coq/Engine.v. *)
Require Import Base Sched SchedFacts Engine EngineFacts EngineWitness.

(* When the graph evaluates a node, its user code runs exactly when the node is started
   and every input it requires holds a value (a node without inputs is always ready);
   and it runs at most once per evaluation. *)
Theorem user_code_runs_iff_started_and_ready : forall cfgs beh i g,
  let c := nth i cfgs dflt_cfg in
  (i < length (g_nodes g))%nat ->
  (n_runs (node_at i (eval_node cfgs beh i g)) = n_runs (node_at i g) + 1 <->
     n_started (node_at i g) = true /\ (c_ins c = [] \/ ready c g = true)) /\
  (n_runs (node_at i (eval_node cfgs beh i g)) = n_runs (node_at i g) \/
   n_runs (node_at i (eval_node cfgs beh i g)) = n_runs (node_at i g) + 1).
Proof. exact EngineFacts.eval_node_runs_iff. Qed.
Print Assumptions user_code_runs_iff_started_and_ready.

(* "ready" is: every input slot the node requires to be valid (all of them by default, the selected ones
   with an explicit valid selector) has a producer that holds a value - for a list-shaped slot
   (TSL<TS<int>,2>, two producers) at least one of its two producers - and every element of a slot
   listed in the all-valid selector holds a value. *)
Theorem ready_means_required_inputs_valid : forall c g,
  ready c g = true <->
  forall s, In s (c_ins c) ->
    ((c_vmode c = 0 \/ i_req s = true) -> slot_has_value g s) /\
    (i_all s = true -> n_val (node_at (i_src s) g) <> None).
Proof. exact EngineFacts.ready_iff. Qed.
Print Assumptions ready_means_required_inputs_valid.

(* the all-valid selector: user code does not run while ANY element of such a slot holds no value *)
Theorem unset_element_of_all_valid_slot_blocks_user_code : forall c g s,
  In s (c_ins c) -> i_all s = true -> n_val (node_at (i_src s) g) = None -> ready c g = false.
Proof. exact EngineFacts.unset_element_blocks_user_code. Qed.
Print Assumptions unset_element_of_all_valid_slot_blocks_user_code.

(* A producer that invalidates its output withdraws the value, and a consumer requiring that
   input is then not ready: its user code does not run (first theorem above) until the
   producer writes again. *)
Theorem invalidation_withdraws_the_value : forall cfgs i opi g,
  g_err g = 0 -> c_out (nth i cfgs dflt_cfg) = true -> (i < length (g_nodes g))%nat ->
  n_val (node_at i (do_op cfgs i true opi OInvalidate g)) = None.
Proof. exact EngineFacts.invalidate_withdraws. Qed.
Print Assumptions invalidation_withdraws_the_value.

Theorem invalid_required_input_blocks_user_code : forall c g s,
  In s (c_ins c) -> (c_vmode c = 0 \/ i_req s = true) -> i_mate s = None ->
  n_val (node_at (i_src s) g) = None -> ready c g = false.
Proof. exact EngineFacts.invalid_input_blocks_user_code. Qed.
Print Assumptions invalid_required_input_blocks_user_code.

(* Ticks reach a node only through its ACTIVE inputs: when a producer writes, the only
   nodes whose graph slot changes are those with an input bound to it that is active at
   that moment (an invalidation notifies exactly like a write) (declared active and not made passive since, or made active at run time). *)
Theorem ticks_wake_only_through_active_inputs : forall cfgs src g k,
  slot_at k (notify_from cfgs 0 src g) <> slot_at k g ->
  exists m c, nth_error cfgs m = Some c /\ k = (0 + m)%nat /\
              exists s a, In (s, a) (combine (c_ins c) (n_act (node_at k g))) /\ i_src s = src /\ a = true.
Proof. intros cfgs. exact (EngineFacts.notify_only_active cfgs 0%nat). Qed.
Print Assumptions ticks_wake_only_through_active_inputs.

(* What the user code reads for an input is the producer's current output: valid iff the
   producer has a value (written and not invalidated since), and for a valid input: modified
   iff the producer wrote in this cycle, the value is the producer's; the last-modified time
   is that of the last notification (write or invalidation). *)
Theorem reads_latest : forall g s,
  let p := node_at (i_src s) g in
  let v := read_input g s in
  (v_valid v = true <-> n_val p <> None) /\
  (v_valid v = true -> v_mod v = true <-> n_lmt p = g_now g) /\
  (forall x, n_val p = Some x -> v_val v = x) /\ v_lmt v = n_lmt p.
Proof. exact EngineFacts.read_input_spec. Qed.
Print Assumptions reads_latest.

(* The evaluation gate, both directions: in the cycle at t the graph evaluates node i exactly
   when (a) its slot held t when the cycle began - a wake-up it asked for itself (scheduler
   event, start request, raw request; Props/C02.v shows the slot of a scheduler node is its
   earliest pending time - or, the recorded finding, a time it has since cancelled), or
   (b) the node is started and some node before it wrote (or invalidated), in this cycle, an
   output that one of its inputs ACTIVE at that moment is bound to.  Ticks on passive inputs alone never
   evaluate it; and it is evaluated at most once.  For every graph, user code and state. *)
Theorem evaluated_exactly_when_due_or_active_input_ticked : forall cfgs beh t g,
  length (g_slots g) = length cfgs -> length (g_nodes g) = length cfgs ->
  (forall p, (p < length cfgs)%nat -> n_lmt (node_at p g) < t) ->
  g_err (evaluate_graph cfgs beh t g) = 0 ->
  forall i, (i < length cfgs)%nat ->
    (n_evals (node_at i (evaluate_graph cfgs beh t g)) = n_evals (node_at i g) + 1 <->
       slot_at i g = t \/
       (n_started (node_at i g) = true /\
        exists p, (p < i)%nat /\ n_lmt (node_at p (evaluate_graph cfgs beh t g)) = t /\ act_from cfgs g i p = true)) /\
    (n_evals (node_at i (evaluate_graph cfgs beh t g)) = n_evals (node_at i g) \/
     n_evals (node_at i (evaluate_graph cfgs beh t g)) = n_evals (node_at i g) + 1).
Proof. exact EngineFacts.evaluated_iff_cause. Qed.
Print Assumptions evaluated_exactly_when_due_or_active_input_ticked.

(* A node that asked for a wake-up through its scheduler is evaluated at it (shared with
   C02 / C18): its slot is the cycle's time whenever the cycle is a pending time. *)
Theorem own_wakeup_falls_due : forall cfgs g i e,
  boundary cfgs g -> (i < length cfgs)%nat -> c_sched (cfg cfgs i) = true -> In e (pending g i) ->
  fst e = g_nst g -> slot_at i g = g_nst g.
Proof. exact EngineFacts.due_slot_is_now. Qed.
Print Assumptions own_wakeup_falls_due.

(* The full biconditional of the property ("runs EXACTLY when ...") is FALSE of the
   faithful model and of the code: user code also runs at an abandoned wake-up time with
   no input modified and nothing due.  Witness (DESIGN.md 8.2; known finding):
   line 12 0 4 1 0 7 = node 0, time 4, run 1, is_scheduled_now 0, next pending 7. *)
Theorem runs_exactly_when_refuted :
  exists case : wire, In [12; 0; 4; 1; 0; 7] (run_core case).
Proof. exact Engine_witness.abandoned_wakeup. Qed.
Print Assumptions runs_exactly_when_refuted.

(* non-vacuity of the boundary hypothesis is shown in Props/C02.v (ex_hypotheses_hold) *)
