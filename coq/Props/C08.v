(* Props/C08.v — property C08: a feedback edge delivers to its reader exactly the sequence
   of values written to it, each one smallest time step (MIN_TD) after the cycle in which it
   was written (a declared initial value at the start time), without loss, duplication or
   reordering; the reader never observes a value in the cycle that produced it; a loop closed
   through a feedback whose reader is passive becomes quiescent.
   Statements only; every proof is one [exact].

   The model is coq/Feedback.v: the flat engine of coq/Engine.v (graph slots with the
   min-semantics of schedule_node, the node evaluate gate, notification of active inputs,
   the scan, the simulation run loop) extended by mirrors of
   evaluate_feedback_source / evaluate_feedback_sink / start_feedback_source_with_initial_delta
   (src/hgraph/runtime/feedback_node.cpp).  User code of every other node is an arbitrary
   [behaviour]; graphs are arbitrary lists of node configurations subject to [fb_wf], which
   says what the wiring layer guarantees: edges point forward in rank order (so a source is
   ranked before its readers and before its sink, and the sink after the producer), the two
   node kinds have the schemas make_feedback_*_node give them, a source is bound once.

   Vocabulary: [ticks_of i sts] is the stream of (cycle time, value) in which node i's output
   was modified, over the cycle-end states [sts] of a run - what a recorder bound to that
   output sees.  For a pair (sink k, producer p, source s): [ticks_of p] are the writes,
   [ticks_of s] is the reader side. *)
Require Import Base Sched Engine EngineFacts Feedback FeedbackFacts.

(* ---- the shift ---------------------------------------------------------------------- *)
(* For every graph, every user code, every pair, every run that ends without an escaping
   exception (fuel exhaustion is an error): the reader-side stream is EXACTLY the declared
   initial value at the start time followed by the stream of writes moved by one smallest
   step - same values, same order, same multiplicity; only a write whose delivery time is
   not before the end time is cut off.  Writes in consecutive smallest steps, gaps, any
   number of pairs ticking together are all instances. *)
Theorem feedback_shift : forall cfgs kinds beh, fb_wf cfgs kinds ->
  forall k p s init, kind_at kinds k = FSink -> cfg cfgs k = sink_cfg p s -> kind_at kinds s = FSource init ->
  forall start end_ fuel, MIN_DT < start -> end_ <= MAX_DT ->
  g_err (f_g (fsim cfgs kinds beh start end_ fuel)) = 0 ->
  let sts := fstates cfgs kinds beh end_ fuel (fstart cfgs kinds beh start) in
  ticks_of s sts =
  (match init with Some v => if start <? end_ then [(start, v)] else [] | None => [] end) ++
  map shift (filter (deliverable end_) (ticks_of p sts)).
Proof. exact FeedbackFacts.feedback_shift_l. Qed.
Print Assumptions feedback_shift.

(* no loss, spelled out *)
Theorem every_write_is_delivered_one_step_later : forall cfgs kinds beh, fb_wf cfgs kinds ->
  forall k p s init start end_ fuel,
  kind_at kinds k = FSink -> cfg cfgs k = sink_cfg p s -> kind_at kinds s = FSource init ->
  MIN_DT < start -> end_ <= MAX_DT ->
  g_err (f_g (fsim cfgs kinds beh start end_ fuel)) = 0 ->
  let sts := fstates cfgs kinds beh end_ fuel (fstart cfgs kinds beh start) in
  forall t v, In (t, v) (ticks_of p sts) -> t + MIN_TD < end_ -> In (t + MIN_TD, v) (ticks_of s sts).
Proof. exact FeedbackFacts.no_loss_l. Qed.
Print Assumptions every_write_is_delivered_one_step_later.

(* never in the cycle that produced it: whatever the reader side shows at t was written at
   t - MIN_TD (or is the initial value at the start time) *)
Theorem never_same_cycle : forall cfgs kinds beh, fb_wf cfgs kinds ->
  forall k p s init start end_ fuel,
  kind_at kinds k = FSink -> cfg cfgs k = sink_cfg p s -> kind_at kinds s = FSource init ->
  MIN_DT < start -> end_ <= MAX_DT ->
  g_err (f_g (fsim cfgs kinds beh start end_ fuel)) = 0 ->
  let sts := fstates cfgs kinds beh end_ fuel (fstart cfgs kinds beh start) in
  forall t v, In (t, v) (ticks_of s sts) ->
    (t = start /\ init = Some v) \/ In (t - MIN_TD, v) (ticks_of p sts).
Proof. exact FeedbackFacts.never_same_cycle_l. Qed.
Print Assumptions never_same_cycle.

(* the mechanism behind it: evaluating the sink changes no output at all *)
Theorem sink_leaves_outputs_untouched : forall cfgs i x,
  g_nodes (f_g (eval_sink cfgs i x)) = g_nodes (f_g x).
Proof. exact FeedbackFacts.eval_sink_nodes. Qed.
Print Assumptions sink_leaves_outputs_untouched.

(* invalidation: a producer may also WITHDRAW its value (out.invalidate(), Engine.OInvalidate).  That
   notifies the sink, but the sink's callback sits behind the node gate valid_inputs = {0} and does
   not run: nothing is captured, nothing is scheduled.  An invalidation is therefore not a write
   ([ticks_of p] lists the cycles in which p's output was modified AND holds a value) and, by
   [feedback_shift], produces nothing on the reader side: the feedback keeps the last delivered value. *)
Theorem sink_ignores_invalid_producer : forall cfgs j x p s,
  cfg cfgs j = sink_cfg p s -> n_val (node_at p (f_g x)) = None ->
  let x' := eval_sink cfgs j x in
  g_nodes (f_g x') = g_nodes (f_g x) /\ f_st x' = f_st x /\ g_slots (f_g x') = g_slots (f_g x) /\
  g_nst (f_g x') = g_nst (f_g x).
Proof. exact FeedbackFacts.sink_ignores_invalid_producer_l. Qed.
Print Assumptions sink_ignores_invalid_producer.

(* ---- one engine cycle ---------------------------------------------------------------- *)
(* [FB pend x] is the invariant between two cycles ([pend] = the value captured and not yet
   delivered; the next cycle is at g_nst).  One cycle: the source ticks exactly [pend]; what
   the producer writes becomes the new [pend]; and in that case the engine's next scheduled
   time is exactly one smallest step later - from the scheduling mechanics alone (the sink's
   raw request lowers the cached next time), whatever else is or is not scheduled. *)
Theorem cycle_step_pair : forall cfgs kinds beh, fb_wf cfgs kinds ->
  forall k p s init, kind_at kinds k = FSink -> cfg cfgs k = sink_cfg p s -> kind_at kinds s = FSource init ->
  forall pend x, FB cfgs k p s pend x -> g_nst (f_g x) < MAX_DT ->
  let t := g_nst (f_g x) in
  let x' := fcycle cfgs kinds beh t x in
  g_err (f_g x') = 0 ->
  g_now (f_g x') = t /\ tick_now s (f_g x') = pend /\ FB cfgs k p s (tick_now p (f_g x')) x' /\
  t < g_nst (f_g x') /\ (tick_now p (f_g x') <> None -> g_nst (f_g x') = t + MIN_TD).
Proof. exact FeedbackFacts.fcycle_pair. Qed.
Print Assumptions cycle_step_pair.

(* the invariant holds after the start phase, with [pend] = the declared initial value *)
Theorem invariant_after_start : forall cfgs kinds beh, fb_wf cfgs kinds ->
  forall k p s init, kind_at kinds k = FSink -> cfg cfgs k = sink_cfg p s -> kind_at kinds s = FSource init ->
  forall start, MIN_DT < start -> start <= MAX_DT -> g_err (f_g (fstart cfgs kinds beh start)) = 0 ->
  FB cfgs k p s init (fstart cfgs kinds beh start) /\ g_now (f_g (fstart cfgs kinds beh start)) = start /\
  start <= g_nst (f_g (fstart cfgs kinds beh start)) /\
  (init <> None -> g_nst (f_g (fstart cfgs kinds beh start)) = start).
Proof. exact FeedbackFacts.fstart_FB. Qed.
Print Assumptions invariant_after_start.

(* the cycle of the delivery exists: the run loop's next cycle is the one at t + MIN_TD *)
Theorem delivery_cycle_exists : forall cfgs kinds beh, fb_wf cfgs kinds ->
  forall k p s init pend x end_ f w,
  kind_at kinds k = FSink -> cfg cfgs k = sink_cfg p s -> kind_at kinds s = FSource init ->
  FB cfgs k p s pend x -> g_nst (f_g x) < MAX_DT -> end_ <= MAX_DT ->
  let t := g_nst (f_g x) in
  let x' := fcycle cfgs kinds beh t x in
  g_err (f_g x') = 0 -> tick_now p (f_g x') = Some w -> t + MIN_TD < end_ ->
  exists rest, fstates cfgs kinds beh end_ (S f) x' = fcycle cfgs kinds beh (t + MIN_TD) x' :: rest.
Proof. exact FeedbackFacts.delivery_cycle_exists_l. Qed.
Print Assumptions delivery_cycle_exists.

(* ---- the ranking is needed ------------------------------------------------------------- *)
(* The shift is FALSE of the same mechanism when the source is ranked after its sink (every
   other hypothesis kept): with writes in consecutive smallest steps the sink overwrites the
   captured value before the source emitted it, and its raw request - finding the slot "due
   now" - moves the slot one step on, so the source is not even evaluated.  Witness: writes
   10, 20, 30 at 1, 2, 3; the reader side shows only (4, 30). *)
Theorem needs_source_before_sink_refuted :
  exists cfgs kinds beh k p s start end_ fuel,
    kind_at kinds k = FSink /\ cfg cfgs k = sink_cfg p s /\ kind_at kinds s = FSource None /\
    (p < k)%nat /\ (k < s)%nat /\ MIN_DT < start /\ end_ <= MAX_DT /\
    g_err (f_g (fsim cfgs kinds beh start end_ fuel)) = 0 /\
    let sts := fstates cfgs kinds beh end_ fuel (fstart cfgs kinds beh start) in
    ticks_of s sts <> map shift (filter (deliverable end_) (ticks_of p sts)).
Proof. exact FeedbackFacts.needs_source_before_sink_refuted_l. Qed.
Print Assumptions needs_source_before_sink_refuted.

Theorem needs_source_before_sink_witness :
  let '(cfgs, kinds) := graph_of cm_case in
  let '(x, sts) := run_of cm_case in
  kind_at kinds 1 = FSink /\ cfg cfgs 1 = sink_cfg 0 2 /\ kind_at kinds 2 = FSource None /\
  g_err (f_g x) = 0 /\
  ticks_of 0 sts = [(1, 10); (2, 20); (3, 30)] /\
  ticks_of 2 sts = [(4, 30)].
Proof. exact FeedbackFacts.source_after_sink_loses. Qed.
Print Assumptions needs_source_before_sink_witness.

(* ---- quiescence ------------------------------------------------------------------------ *)
(* If everything due at the next cycle is a feedback source to which no node is SUBSCRIBED
   ([unread_source g i]: in state g every reader's input bound to i is passive at run time -
   n_act, which is the declared i_active unless user code called make_passive / make_active),
   and nothing is armed later, then that cycle delivers the
   values, evaluates nothing but those sources (no other node's state changes, nothing is
   captured), leaves the engine with no scheduled time, and the run loop stops there -
   whatever the end time.  (With an active reader the loop re-ticks every smallest step up
   to the end time: example below.) *)
Theorem passive_loop_quiesces : forall cfgs kinds beh x,
  let T := g_nst (f_g x) in
  (forall i, (i < length cfgs)%nat -> slot_at i (f_g x) <= T) ->
  (forall i, (i < length cfgs)%nat -> slot_at i (f_g x) = T -> unread_source cfgs kinds (f_g x) i) ->
  let x' := fcycle cfgs kinds beh T x in
  g_nst (f_g x') = MAX_DT /\
  (forall end_ fuel, frun cfgs kinds beh end_ (S fuel) x' = x') /\
  (forall m, (forall init, kind_at kinds m <> FSource init) -> node_at m (f_g x') = node_at m (f_g x)) /\
  f_st x' = f_st x.
Proof. exact FeedbackFacts.passive_quiesce_l. Qed.
Print Assumptions passive_loop_quiesces.

(* ======================= non-vacuity ======================= *)
(* acc = emit(trig + fb(acc)) with initial value 7; trig writes at 1, 2 (back-to-back) and 5
   (after a gap); a recorder on the feedback.  [active] selects the reader's mode. *)
Definition loop_case (active : Z) : wire :=
  [[1;1;12]; [2;0;1;0;1;0;0]; [4;1;1;7]; [2;2;0;0;1;2;1;0;1;1;1;active;0]; [5;3;2;1]; [2;4;0;0;0;1;1;1;1;0];
   [3;0;-1;1;0;0]; [3;0;0;6;1;0]; [3;0;0;1;1;0]; [3;0;1;6;2;0]; [3;0;1;1;3;0]; [3;0;2;6;3;0]; [3;2;-2;6;0;0]].

Example ex_wf : forall a, fb_wf (fst (graph_of (loop_case a))) (snd (graph_of (loop_case a))).
Proof.
  intros a. constructor.
  - reflexivity.
  - intros i s Hi Hin. unfold cfg in Hin.
    destruct i as [|[|[|[|[|i]]]]]; simpl in Hin;
      repeat (destruct Hin as [<-|Hin]; [simpl; lia|]); try (destruct Hin).
    simpl in Hi. lia.
  - intros i init H. destruct i as [|[|[|[|[|i]]]]]; vm_compute in H; try discriminate H; try reflexivity.
    destruct i; discriminate H.
  - intros i H. destruct i as [|[|[|[|[|i]]]]]; vm_compute in H; try discriminate H.
    + exists 2%nat, 1%nat, (Some 7). split; reflexivity.
    + destruct i; discriminate H.
  - intros k k' H H'.
    destruct k as [|[|[|[|[|k]]]]]; vm_compute in H; try discriminate H; [|destruct k; discriminate H].
    destruct k' as [|[|[|[|[|k']]]]]; vm_compute in H'; try discriminate H'; [reflexivity|destruct k'; discriminate H'].
Qed.

(* the hypotheses of the run theorems hold of it, and the streams are not trivial:
   active reader - the loop is self-sustaining, one cycle per smallest step up to the end *)
Example ex_active_loop :
  let '(x, sts) := run_of (loop_case 1) in
  g_err (f_g x) = 0 /\
  ticks_of 2 sts = [(1, 8); (2, 10); (3, 12); (4, 14); (5, 17); (6, 20); (7, 23); (8, 26); (9, 29); (10, 32); (11, 35)] /\
  ticks_of 1 sts = [(1, 7); (2, 8); (3, 10); (4, 12); (5, 14); (6, 17); (7, 20); (8, 23); (9, 26); (10, 29); (11, 32)].
Proof. vm_compute. split; [reflexivity|]. split; reflexivity. Qed.

(* passive reader - the same graph goes quiet: cycles 1, 2, 3, 5, 6 only, no scheduled time left *)
Example ex_passive_loop :
  let '(x, sts) := run_of (loop_case 0) in
  g_err (f_g x) = 0 /\
  ticks_of 2 sts = [(1, 8); (2, 10); (5, 13)] /\
  ticks_of 1 sts = [(1, 7); (2, 8); (3, 10); (6, 13)] /\
  map (fun x => g_now (f_g x)) sts = [1; 2; 3; 5; 6] /\ g_nst (f_g x) = MAX_DT.
Proof. vm_compute. split; [reflexivity|]. split; [reflexivity|]. split; [reflexivity|]. split; reflexivity. Qed.

(* a run with an invalidation: the producer writes 10 at 1, invalidates at 2, writes 30 at 3; the
   reader side shows (2,10) and (4,30), nothing at 3 *)
Definition inval_case : wire :=
  [[1;1;8]; [4;0;0;0]; [2;1;1;0;1;0;0]; [5;2;1;0];
   [3;1;-1;1;0;0]; [3;1;0;6;10;0]; [3;1;0;1;1;0]; [3;1;1;11;0;0]; [3;1;1;1;1;0]; [3;1;2;6;30;0]].

Example ex_invalidation :
  let '(x, sts) := run_of inval_case in
  g_err (f_g x) = 0 /\ ticks_of 1 sts = [(1, 10); (3, 30)] /\ ticks_of 0 sts = [(2, 10); (4, 30)].
Proof. vm_compute. split; [reflexivity|]. split; reflexivity. Qed.

(* the hypotheses of [passive_loop_quiesces] are met by the state after the cycle of the last
   external write (t = 5) of the passive accumulator (the same graph without the recorder,
   which is an active reader): only the passively read source is due, at 6, nothing else is armed *)
Definition quiet_case : wire :=
  [[1;1;12]; [2;0;1;0;1;0;0]; [4;1;1;7]; [2;2;0;0;1;2;1;0;1;1;1;0;0]; [5;3;2;1];
   [3;0;-1;1;0;0]; [3;0;0;6;1;0]; [3;0;0;1;1;0]; [3;0;1;6;2;0]; [3;0;1;1;3;0]; [3;0;2;6;3;0]; [3;2;-2;6;0;0]].

Example ex_passive_hypotheses :
  let '(cfgs, kinds) := graph_of quiet_case in
  let x := nth 3 (snd (run_of quiet_case)) (fstart cfgs kinds (script_beh quiet_case) 1) in
  g_nst (f_g x) = 6 /\
  (forall i, (i < length cfgs)%nat -> slot_at i (f_g x) <= g_nst (f_g x)) /\
  (forall i, (i < length cfgs)%nat -> slot_at i (f_g x) = g_nst (f_g x) -> unread_source cfgs kinds (f_g x) i).
Proof.
  cbv beta iota zeta delta [graph_of].
  set (cfgs := map fst (parse_fnodes quiet_case)). set (kinds := map snd (parse_fnodes quiet_case)).
  set (x := nth 3 (snd (run_of quiet_case)) (fstart cfgs kinds (script_beh quiet_case) 1)).
  assert (Hs : map (fun i => slot_at i (f_g x)) [0;1;2;3]%nat = [5; 6; 5; 5] /\ g_nst (f_g x) = 6) by (vm_compute; split; reflexivity).
  assert (Ha : map (fun i => n_act (node_at i (f_g x))) [0;1;2;3]%nat = [[]; []; [true; false]; [true; false]]) by (vm_compute; reflexivity).
  clearbody x. destruct Hs as [Hs Hn]. cbn [map] in Hs. injection Hs as S0 S1 S2 S3.
  cbn [map] in Ha. injection Ha as A0 A1 A2 A3.
  split; [exact Hn|]. rewrite Hn. split.
  - intros i Hi. destruct i as [|[|[|[|i]]]]; try lia. vm_compute in Hi. lia.
  - intros i Hi He. destruct i as [|[|[|[|i]]]]; try lia; [|vm_compute in Hi; lia].
    split; [exists (Some 7); reflexivity|].
    intros j. unfold ract.
    destruct j as [|[|[|[|j]]]]; [rewrite A0|rewrite A1|rewrite A2|rewrite A3|]; try reflexivity.
    unfold cfg. simpl. destruct j; reflexivity.
Qed.
