(* Props/C08.v — property C08 (placeholder while the development is being built). *)
Require Import Base Sched Engine EngineFacts Feedback FeedbackFacts.

Theorem sink_leaves_outputs_untouched : forall cfgs i x,
  g_nodes (f_g (eval_sink cfgs i x)) = g_nodes (f_g x).
Proof. exact FeedbackFacts.eval_sink_nodes. Qed.
Print Assumptions sink_leaves_outputs_untouched.
