(* C01, child-graph half — "each node is evaluated at most once per engine cycle ... for every nested child
   graph", INCLUDING cycles that pause and resume.

   Model: Nested.v.  evaluate_impl<Storage> (graph.cpp) = [eval_graph]; one call = one [entry].  A node whose
   evaluate returns false (kind 5; mesh_subscribe in the library) PAUSES the cycle: the error slot carries
   PAUSED, every enclosing evaluate returns false, the cursor stays on that node, evaluation_failed stays
   clear; the owner that resolves the pause (kind 4; mesh_ in the library) re-enters the SAME cycle
   ([resume_loop] = [reenter]) and `resuming` makes the scan continue at the cursor.
   Evaluations are counted on the lifecycle trace: [cnt g j w] = number of lines [11; g; j; _]
   (before_node_evaluation of node j of graph g) logged so far.  All statements are universal over trees,
   user code, graphs (any depth: [entry] is the same function at every level), times and worlds. *)
Require Import Base Sched Nested NestedWitness NestedFacts NestedOnce.

(* one entry (fresh or resumed) evaluates every node of the graph at most once *)
Theorem entry_evaluates_each_node_at_most_once :
  forall T beh, wf_tree T -> forall f rr g t w j,
    (cnt g j (entry T beh f rr g t w) <= cnt g j w + 1)%nat.
Proof. intros T beh HT. exact (entry_once T beh HT). Qed.
Print Assumptions entry_evaluates_each_node_at_most_once.

(* ... and never a node of a graph with a smaller id: no ancestor is evaluated from inside a child *)
Theorem entry_never_evaluates_ancestors :
  forall T beh, wf_tree T -> forall f rr c t w g' j, (g' < c)%nat ->
    cnt g' j (eval_graph f T beh rr c t w) = cnt g' j w.
Proof. intros T beh HT f rr c t w g' j Hg. exact (proj2 (proj2 (fr_eval_graph T beh HT rr f c t w) g' Hg) j). Qed.
Print Assumptions entry_never_evaluates_ancestors.

(* a PAUSED entry leaves the cursor ON the node whose evaluate returned false (or on the nested node below
   which the pause happened), evaluation_failed clear, and has evaluated no node after it *)
Theorem paused_entry_publishes_cursor :
  forall T beh, wf_tree T -> forall f rr g t w,
    (g < length (w_gs w))%nat -> ok w = true -> w_err (entry T beh f rr g t w) = PAUSED ->
    g_failed (gat g (entry T beh f rr g t w)) = false
    /\ exists c, g_cursor (gat g (entry T beh f rr g t w)) = Z.of_nat c
                 /\ forall j, (c < j)%nat -> (cnt g j (entry T beh f rr g t w) <= cnt g j w)%nat.
Proof. intros T beh HT. exact (entry_suspended T beh HT). Qed.
Print Assumptions paused_entry_publishes_cursor.

(* a RESUMED entry evaluates no node before the cursor again *)
Theorem resumed_entry_skips_evaluated_nodes :
  forall T beh, wf_tree T -> forall f rr g t w k j,
    (g < length (w_gs w))%nat -> g_failed (gat g w) = false -> g_cursor (gat g w) = Z.of_nat k -> k <> 0%nat ->
    (j < k)%nat -> (cnt g j (entry T beh f rr g t w) <= cnt g j w)%nat.
Proof. intros T beh HT. exact (resume_skips_evaluated T beh HT). Qed.
Print Assumptions resumed_entry_skips_evaluated_nodes.

(* THE PROPERTY for a pause and its resume: over both entries of the same engine cycle, every node other than
   the one the cycle was suspended on is evaluated at most once *)
Theorem at_most_once_across_pause_and_resume :
  forall T beh, wf_tree T -> forall f f' rr g t w j,
    (g < length (w_gs w))%nat -> ok w = true ->
    let w' := entry T beh f rr g t w in
    w_err w' = PAUSED ->
    j <> Z.to_nat (g_cursor (gat g w')) ->
    (cnt g j (entry T beh f' rr g t (set_err 0 w')) <= cnt g j w + 1)%nat.
Proof. intros T beh HT. exact (pause_resume_once T beh HT). Qed.
Print Assumptions at_most_once_across_pause_and_resume.

(* ANY NUMBER OF RESUMES: once the cursor of a suspended cycle has passed node j, no number of re-entries of
   that cycle evaluates node j again *)
Theorem at_most_once_any_number_of_resumes :
  forall T beh, wf_tree T -> forall f rr g t j n w k,
    (g < length (w_gs w))%nat -> g_failed (gat g w) = false -> g_cursor (gat g w) = Z.of_nat k -> (j < k)%nat ->
    (cnt g j (resume_loop T beh f rr g t n w) <= cnt g j w)%nat.
Proof. intros T beh HT. exact (passed_never_again T beh HT). Qed.
Print Assumptions at_most_once_any_number_of_resumes.

(* ---------------------------------------------------------------- non-vacuity *)
(* a graph [plain node; pausing node (pauses twice per run)], both scheduled at start: the first entry pauses
   with the cursor on node 1; re-entering twice completes the cycle; node 0 was evaluated once, node 1 three
   times (two pauses + the completing evaluation) *)
Example pause_and_resume_inhabited :
  let T := [mkGC None [mkCfg 0 false true true 0 [] 0 (-1) [] (fun _ => 0);
                       mkCfg 5 false true true 0 [] 0 (-1) [] (fun _ => 2)]] in
  let beh : behaviour := fun _ _ _ _ _ _ => [OEmit 1] in
  let w := start_graph 2 T beh 0 1 (init_world T) in
  let w1 := entry T beh 1 true 0 1 w in
  let w3 := resume_loop T beh 1 true 0 1 5 w1 in
  wf_tree T /\ ok w = true /\ w_err w1 = PAUSED /\ g_cursor (gat 0 w1) = 1 /\ g_failed (gat 0 w1) = false
  /\ ok w3 = true /\ cnt 0 0 w3 = 1%nat /\ cnt 0 1 w3 = 3%nat /\ g_cursor (gat 0 w3) = 0.
Proof.
  split.
  - repeat split.
    + intros g pg pn. destruct g as [|[|g]]; vm_compute; intros H; discriminate.
    + intros g i. destruct g as [|[|g]]; destruct i as [|[|[|i]]]; vm_compute; intros H; discriminate.
  - vm_compute. repeat split; reflexivity.
Qed.
