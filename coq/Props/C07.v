(* Props/C07.v — property C07 (work in progress; see the final version below in git history). *)
Require Import Base Sched Engine Repro ReproFacts.

Theorem run_deterministic : forall wall1 wall2 cfgs beh start end_ fuel,
  x_g (xrun wall1 cfgs beh start end_ fuel) = x_g (xrun wall2 cfgs beh start end_ fuel).
Proof. exact ReproFacts.run_deterministic_l. Qed.
Print Assumptions run_deterministic.
