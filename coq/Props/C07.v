(* Props/C07.v — property C07: simulation runs are reproducible and isolated from each other.

   "Running the same graph on the same inputs in simulation always produces the same outputs,
    cycle for cycle, regardless of wall-clock speed, of how often the builder has been reused,
    of which other graphs were built or run earlier in the process, and of other executors
    running at the same time on other threads.  State written by one run (node state, global
    state, recorded buffers, dynamic children) is never visible to another run."

   Statements only; every proof is one [exact].  Models: coq/Engine.v (the engine: mirror of
   graph.cpp / node.cpp / executor.cpp) and coq/Repro.v (the simulation clock, the run's
   GlobalState and node State, the process: builders, executors, heap, intern table).

   WHAT IS PROVED (the protocol / ownership discipline, for every history):
     - the evaluation is a function of (program, inputs, start, end): the wall clock is read once
       per cycle and never fed back                                   [run_deterministic];
     - in a process in which builders are created and their seeds written, executors are made from
       them, cycles of the executors are run in ANY interleaving (= executors running on different
       threads, at the granularity of one engine cycle) and further types are interned, every
       executor is at all times in the state that its own cycles produce from its own recipe and
       the seed as it was when the executor was made - the state of the same recipe run alone in
       a fresh process                                                [runs_independent,
                                                                       later_history_only_own_steps,
                                                                       engine_runs_independent];
     - a builder's seed is never written by any run                   [seed_untouched_by_runs];
     - after a run its GlobalState holds exactly the seed keys plus the keys the run wrote
       (minus what it erased itself)                                  [global_state_isolated];
     - interning more types never changes what an already interned id resolves to, nor the id
       an already interned key is found under                         [registry_growth_unobservable,
                                                                       built_types_still_resolve].
   WHAT IS ASSUMED, NOT PROVED (stated in gen/props.d/C07.json, checked only by the
   correspondence test of cxx/repro_driver.cpp and, as supporting evidence, ThreadSanitizer):
     - the C++ really has no mutable state shared between runs other than what the model's heap
       describes (that [step] of executor k touches only its own cell is the TYPE of [step] here;
       in C++ it is a discipline);
     - no data races: executors on different threads interleave in the model only at whole cycles,
       and a Gallina function cannot exhibit a torn read;
     - user code is a function of what a node can observe ([behaviour]); a node that reads the
       wall clock (evaluation_clock.now()) is outside the property. *)
Require Import Base Sched Engine Repro ReproFacts.

(* ---- 1. regardless of wall-clock speed ---- *)
(* Two runs of the same program over the same window that see ARBITRARY, different streams of
   wall-clock readings end in the same engine state (trace, outputs, schedulers), which is the
   state of the clock-free engine model. *)
Theorem run_deterministic : forall wall1 wall2 cfgs beh start end_ fuel,
  x_g (xrun wall1 cfgs beh start end_ fuel) = x_g (xrun wall2 cfgs beh start end_ fuel) /\
  x_g (xrun wall1 cfgs beh start end_ fuel) = run_sim cfgs beh start end_ fuel.
Proof. exact ReproFacts.run_deterministic_full. Qed.
Print Assumptions run_deterministic.

(* ---- 2. regardless of builder reuse, of earlier builds and runs, of concurrently running executors ---- *)
(* For EVERY run semantics (what a run owns, how it is initialised from recipe + seed copy, what one
   cycle does to it) and EVERY history of the process: executor k is in the state of executor 0 of a
   fresh process that only creates one builder with the same recipe, writes the same seed, makes one
   executor and runs as many cycles. *)
Theorem runs_independent : forall (rstate : Type) (init : wire -> gsmap -> rstate) (step : wire -> rstate -> rstate)
    (types_of : wire -> list Z) (ops : list pop) (k : nat) (e : exec) (sets : list (Z * Z)),
  nth_error (p_execs rstate (prun rstate init step types_of ops)) k = Some e ->
  apply_sets sets [] = e_seed0 e ->
  exec_state rstate (prun rstate init step types_of ops) k =
  exec_state rstate (prun rstate init step types_of (alone_ops (e_recipe e) sets (e_steps e))) 0.
Proof. exact ReproFacts.runs_independent_l. Qed.
Print Assumptions runs_independent.

(* The ghost fields used above mean what they say: whatever happens later in the process, executor k
   keeps its recipe, its seed snapshot, its storage location and its types; its cycle count grows by
   exactly the number of its own PStep operations. *)
Theorem later_history_only_own_steps : forall (rstate : Type) init step types_of (ops ops' : list pop) k e,
  nth_error (p_execs rstate (prun rstate init step types_of ops)) k = Some e ->
  exists e', nth_error (p_execs rstate (prun rstate init step types_of (ops ++ ops'))) k = Some e' /\
             e_recipe e' = e_recipe e /\ e_seed0 e' = e_seed0 e /\ e_loc e' = e_loc e /\ e_types e' = e_types e /\
             e_steps e' = (e_steps e + count_steps k ops')%nat.
Proof. exact ReproFacts.later_history_only_own_steps. Qed.
Print Assumptions later_history_only_own_steps.

(* Runs, builds and interning never write a builder's seed: the next executor made from the builder
   starts from the same seed, however many runs came before. *)
Theorem seed_untouched_by_runs : forall (rstate : Type) init step types_of (ops ops' : list pop) b m,
  forallb (fun o => negb (is_seed_write o)) ops' = true ->
  builder_seed rstate (prun rstate init step types_of ops) b = Some m ->
  builder_seed rstate (prun rstate init step types_of (ops ++ ops')) b = Some m.
Proof. exact ReproFacts.seed_untouched_by_runs_l. Qed.
Print Assumptions seed_untouched_by_runs.

(* The same for the engine model of Engine.v + the GlobalState / State extension: an executor of ANY
   process history that has finished shows (trace, final outputs, GlobalState dump) exactly
   [run_prog_seeded recipe seed] - the observation of that program run alone from that seed, which is
   what [run_repro] replicates per repetition and the driver is compared against. *)
Theorem engine_runs_independent : forall (ops : list pop) k e,
  nth_error (p_execs (gst * gsmap) (prun (gst * gsmap) eng_init eng_step eng_types ops)) k = Some e ->
  eng_finished (snd (window (e_recipe e))) (fst (own_state _ eng_init eng_step e)) = true ->
  (e_steps e <= Z.to_nat (snd (window (e_recipe e)) - fst (window (e_recipe e))))%nat ->
  option_map (eng_obs (e_recipe e)) (exec_state (gst * gsmap) (prun (gst * gsmap) eng_init eng_step eng_types ops) k)
  = Some (run_prog_seeded (e_recipe e) (e_seed0 e)).
Proof. exact ReproFacts.engine_runs_independent_l. Qed.
Print Assumptions engine_runs_independent.

(* ---- 3. the run's GlobalState: exactly the seed keys plus what the run wrote ---- *)
Theorem global_state_isolated : forall sec tr seed,
  (* nothing in it but seed keys and keys the program's own operations write *)
  (forall k, In k (gs_keys (final_gs sec tr seed)) -> In k (gs_keys seed) \/ In k (written_keys sec)) /\
  (* every seed key is still there unless the program itself erases that key *)
  (forall k, In k (gs_keys seed) -> ~ In k (erased_keys sec) -> In k (gs_keys (final_gs sec tr seed))) /\
  (* every key written by a node whose user code ran is there unless the program itself erases that key *)
  (forall i t rest mode key val, In (12 :: i :: t :: rest) tr -> In (mode, key, val) (gsops_of sec i) ->
     (mode =? 0) || (mode =? 2) = true -> ~ In key (erased_keys sec) -> In key (gs_keys (final_gs sec tr seed))).
Proof. exact ReproFacts.global_state_isolated_l. Qed.
Print Assumptions global_state_isolated.

(* Erased keys (the copy-back chain: run k+1 is seeded with run k's FINAL state, i.e. copy-back REPLACES the selected
   state): a key that a node of run 1 erased, and that run 1 never writes, is not in run 1's final state - so it is not in
   the seed of a run chained after it, nor (if that run does not write it either) in that run's final state.  A copy-back
   that merges instead of replacing is outside this model; the driver's one-context chain (units 48) tests it. *)
Theorem erased_key_gone : forall sec1 tr1 seed i t rest k val,
  In (12 :: i :: t :: rest) tr1 -> In (3, k, val) (gsops_of sec1 i) -> ~ In k (written_keys sec1) ->
  ~ In k (gs_keys (final_gs sec1 tr1 seed)) /\
  (forall sec2 tr2, ~ In k (written_keys sec2) -> ~ In k (gs_keys (final_gs sec2 tr2 (final_gs sec1 tr1 seed)))).
Proof. exact ReproFacts.erased_key_gone_l. Qed.
Print Assumptions erased_key_gone.

(* non-vacuity: a program whose node 0 erases key 3 (seeded, never written) *)
Example ex_erased_key :
  let sec := [[1; 1; 4]; [2; 0; 0; 1; 1; 0; 0]; [3; 0; -2; 6; 1; 0]; [4; 0; 3; 3; 0]; [4; 0; 2; 1; 5]; [6; 3; 9]; [6; 1; 2]] in
  In [12; 0; 1; 0; 0; 0] (run_core0 sec) /\ In (3, 3, 0) (gsops_of sec 0) /\ ~ In 3 (written_keys sec) /\
  gs_keys (seed_of sec) = [1; 3] /\ gs_keys (final_gs sec (run_core0 sec) (seed_of sec)) = [1].
Proof. vm_compute. repeat split; auto. intros [H|H]; [discriminate|destruct H]. Qed.

(* ---- 4. the registries only grow, and growth is unobservable ---- *)
Theorem registry_growth_unobservable : forall (more : list Z) (tbl : list Z),
  (forall id v, resolve tbl id = Some v -> resolve (fst (intern_all more tbl)) id = Some v) /\
  (forall k i, find_index k tbl = Some i -> find_index k (fst (intern_all more tbl)) = Some i) /\
  (forall k, resolve (fst (intern k tbl)) (snd (intern k tbl)) = Some k).
Proof. exact ReproFacts.registry_growth_unobservable_l. Qed.
Print Assumptions registry_growth_unobservable.

(* In every process history the type ids an executor was built with still resolve to the schemas of
   its recipe. *)
Theorem built_types_still_resolve : forall (rstate : Type) init step types_of (ops : list pop) k e,
  nth_error (p_execs rstate (prun rstate init step types_of ops)) k = Some e ->
  map (resolve (p_reg rstate (prun rstate init step types_of ops))) (e_types e) = map Some (types_of (e_recipe e)).
Proof. exact ReproFacts.types_still_resolve_l. Qed.
Print Assumptions built_types_still_resolve.

(* ---- non-vacuity ---- *)
(* a program with two nodes, a GlobalState counter, a read, node State and a seed *)
Definition ex_prog : wire :=
  [[1; 1; 8];
   [2; 0; 0; 1; 1; 0; 0];
   [2; 1; 0; 0; 1; 1; 0; 0; 1; 1];
   [3; 0; -2; 6; 5; 0]; [3; 0; -2; 7; 2; 0]; [3; 1; -2; 6; 100; 0];
   [4; 0; 2; 1; 3]; [4; 1; 1; 1; 0]; [4; 1; 0; 2; 10]; [5; 1; 4];
   [6; 1; 50]; [6; 3; 7]].

Definition ex_noise : wire :=
  [[1; 2; 9]; [2; 0; 1; 1; 1; 0; 0]; [3; 0; -2; 6; 1; 0]; [3; 0; -2; 1; 2; 0]; [4; 0; 2; 100; 1]; [6; 100; 5]].

(* a history: two builders, the main builder's seed is written, two executors from the SAME builder and
   one of the noise program, their cycles interleaved, types interned in between, a second seed write
   after the first build *)
Definition ex_history : list pop :=
  [PNewBuilder ex_prog; PSeed 0 1 50; PSeed 0 3 7; PNewBuilder ex_noise; PSeed 1 100 5;
   PBuild 0; PBuild 1; PSeed 0 1 51; PBuild 0;
   PStep 0; PStep 1; PIntern 77; PStep 2; PStep 0; PStep 2; PStep 1; PStep 0; PStep 0; PStep 2; PStep 0; PStep 1;
   PStep 2; PStep 2; PStep 1; PStep 1].

Example ex_three_executors_exist :
  map (fun e => (e_loc e, e_steps e, e_seed0 e))
      (p_execs _ (prun (gst * gsmap) eng_init eng_step eng_types ex_history))
  = [(2%nat, 5%nat, [(1, 50); (3, 7)]); (3%nat, 5%nat, [(100, 5)]); (4%nat, 5%nat, [(1, 51); (3, 7)])].
Proof. vm_compute. reflexivity. Qed.

(* the hypotheses of runs_independent are met (executor 2 of the history: made from builder 0 AFTER its seed was
   written again, so its snapshot differs from executor 0's), and the fresh process of its conclusion really is in
   that state *)
Example ex_runs_independent_instance :
  match nth_error (p_execs _ (prun (gst * gsmap) eng_init eng_step eng_types ex_history)) 2 with
  | Some e => apply_sets [(1, 51); (3, 7)] [] = e_seed0 e /\ e_recipe e = ex_prog /\ e_steps e = 5%nat
  | None => False
  end /\
  exec_state _ (prun (gst * gsmap) eng_init eng_step eng_types ex_history) 2 =
  exec_state _ (prun (gst * gsmap) eng_init eng_step eng_types (alone_ops ex_prog [(1, 51); (3, 7)] 5)) 0.
Proof. vm_compute. repeat split; reflexivity. Qed.

(* the hypotheses of engine_runs_independent hold for executor 0 of that history (it finished in 5 cycles) *)
Example ex_hypotheses_hold :
  match nth_error (p_execs _ (prun (gst * gsmap) eng_init eng_step eng_types ex_history)) 0 with
  | Some e => eng_finished (snd (window (e_recipe e))) (fst (own_state _ eng_init eng_step e)) = true /\
              (e_steps e <= Z.to_nat (snd (window (e_recipe e)) - fst (window (e_recipe e))))%nat
  | None => False
  end.
Proof. vm_compute. split; [reflexivity|]. repeat constructor. Qed.

(* ... and its observation is the 4-cycle trace of the program alone, GlobalState {1, 2, 3} at the end *)
Example ex_observation :
  option_map (fun w => (length w, skipn (length w - 4) w))
    (option_map (eng_obs ex_prog) (exec_state _ (prun (gst * gsmap) eng_init eng_step eng_types ex_history) 0))
  = Some (50%nat, [[24; 1; 62]; [24; 2; 17]; [24; 3; 7]; [25; 3]]).
Proof. vm_compute. reflexivity. Qed.

(* the wall clock: two different reading streams, same engine state, different now() *)
Example ex_wall_clock :
  let cfgs := parse_cfgs ex_prog in
  let x1 := xrun (fun n => Z.of_nat n * 1000) cfgs (script_beh ex_prog) 1 8 10 in
  let x2 := xrun (fun n => Z.of_nat (n * n) * 7) cfgs (script_beh ex_prog) 1 8 10 in
  x_g x1 = x_g x2 /\ x_cws x1 <> x_cws x2 /\ x_reads x1 = 5%nat.
Proof. vm_compute. split; [reflexivity|]. split; [discriminate|reflexivity]. Qed.

(* the intern table: ids are stable under growth *)
Example ex_intern :
  let '(t1, ids) := intern_all [3; 1; 3; 2] [] in
  let t2 := fst (intern_all [9; 1; 8] t1) in
  ids = [0; 1; 0; 2]%nat /\ map (resolve t2) ids = [Some 3; Some 1; Some 3; Some 2] /\ t2 = [3; 1; 2; 9; 8].
Proof. vm_compute. repeat split; reflexivity. Qed.
