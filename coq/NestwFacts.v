Require Import Base Nestw.
From Coq Require Import ZifyBool.

Lemma stream_eqb_spec a : forall b, stream_eqb a b = true <-> a = b.
Proof.
  induction a as [|[t x] r IH]; intros [|[t' x'] r']; simpl; split; intros H; try discriminate; auto.
  - apply andb_prop in H as [H H3]. apply andb_prop in H as [H1 H2]. apply IH in H3. f_equal; [f_equal; lia|auto].
  - inversion H; subst. rewrite !Z.eqb_refl. simpl. apply IH. reflexivity.
Qed.

(* the acceptor says yes exactly when every variant completed and the nested streams equal the inlined one *)
Lemma accept_spec out :
  accept out = true <->
  completed 0 out = true /\ completed 1 out = true /\ completed 2 out = true
  /\ stream_of 1 out = stream_of 0 out /\ stream_of 2 out = stream_of 0 out
  /\ completed 3 out = completed 4 out /\ stream_of 4 out = stream_of 3 out.
Proof.
  unfold accept. rewrite !andb_true_iff, !stream_eqb_spec, Bool.eqb_true_iff. tauto.
Qed.

Lemma run_nestw_spec w : run_nestw w = [[1]] <-> accept (after_marker w) = true.
Proof. unfold run_nestw. destruct (accept _); split; intros H; auto; discriminate. Qed.
