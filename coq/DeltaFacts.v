(* DeltaFacts.v — lemmas and proofs about the C20 model (Delta.v).

   Main results (restated in Props/C20.v):
     apply_capture / capture_apply : for every shape, every clean pre-state and every coherent,
       effective tick [live] of it, applying the captured delta to the pre-state re-creates
       the tick: same committed value, same delta when captured again, same validity/ticks.
     replay_record_id : recording any such tick history (with gaps) and replaying the buffer
       reproduces the same cycles, deltas and values.
     refuted statements: each side condition of [tick] is necessary (witnesses replayed on the
       implementation, see docs/notes-delta.md). *)
Require Import Base DeltaLib DeltaLibFacts Delta.
From Coq Require Import ZifyBool.

(* ------------------------------------------------------------------ lists *)
Lemma fold_ins_mem l acc k : mem k (fold_left (fun s x => ins x s) l acc) = mem k l || mem k acc.
Proof.
  revert acc; induction l as [|x r IH]; intros acc; cbn [fold_left mem]; [reflexivity|].
  rewrite IH, mem_ins. destruct (k =? x), (mem k r), (mem k acc); reflexivity.
Qed.

Lemma fold_ins_sorted l acc : sorted acc -> sorted (fold_left (fun s x => ins x s) l acc).
Proof. revert acc; induction l as [|x r IH]; intros acc H; cbn [fold_left]; [exact H|]. apply IH, sorted_ins, H. Qed.

Lemma fold_ins_id l : sorted l -> fold_left (fun s x => ins x s) l [] = l.
Proof.
  intros H. apply sorted_ext; [apply fold_ins_sorted; exact I|exact H|].
  intros k. rewrite fold_ins_mem. cbn [mem]. apply orb_false_r.
Qed.

Lemma fold_del_sorted l acc : sorted acc -> sorted (fold_left (fun s x => del x s) l acc).
Proof. revert acc; induction l as [|x r IH]; intros acc H; cbn [fold_left]; [exact H|]. apply IH, sorted_del, H. Qed.

Lemma fold_del_mem l acc k : sorted acc -> mem k (fold_left (fun s x => del x s) l acc) = negb (mem k l) && mem k acc.
Proof.
  revert acc; induction l as [|x r IH]; intros acc H; cbn [fold_left mem]; [reflexivity|].
  rewrite IH by (apply sorted_del; exact H). rewrite mem_del by exact H.
  destruct (k =? x), (mem k r), (mem k acc); reflexivity.
Qed.

Lemma sorted_nodup_head x r : sorted (x :: r) -> mem x r = false.
Proof. intros H. destruct (sorted_cons_inv _ _ H) as [_ Hlb]. apply mem_lb_false with (x := x); [exact Hlb|lia]. Qed.

Lemma sorted_tail x r : sorted (x :: r) -> sorted r.
Proof. intros H; apply (sorted_cons_inv _ _ H). Qed.

(* ------------------------------------------------------------------ association lists *)
Section Assoc.
  Context {A : Type}.
  Implicit Types l : list (Z * A).

  Lemma ksorted_nil : ksorted (@nil (Z * A)).
  Proof. exact I. Qed.

  Lemma ksorted_cons_tail x v l : ksorted ((x, v) :: l) -> ksorted l.
  Proof. intros H; apply (ksorted_tail _ _ _ H). Qed.

  Lemma get_head_none x v l : ksorted ((x, v) :: l) -> get x l = None.
  Proof. intros H. destruct (ksorted_tail _ _ _ H) as [_ Hlb]. apply get_none_lb with (x := x); [exact Hlb|lia]. Qed.

  (* filter then map on the payload keeps an association list sorted, and [get] sees through *)
  Definition fm {B} (p : Z * A -> bool) (g : Z * A -> B) l : list (Z * B) :=
    map (fun kv => (fst kv, g kv)) (filter p l).

  Lemma mem_keys_filter p l y : mem y (keys (filter p l)) = true -> mem y (keys l) = true.
  Proof.
    induction l as [|[k v] r IH]; cbn [filter keys map fst mem]; [auto|].
    destruct (p (k, v)); cbn [keys map fst mem]; intros H.
    - apply orb_true_iff in H. apply orb_true_iff. destruct H as [H|H]; [left; exact H|right; apply IH, H].
    - apply orb_true_iff. right. apply IH, H.
  Qed.

  Lemma lb_filter_keys x p l : lb x (keys l) -> lb x (keys (filter p l)).
  Proof. intros H y Hy. apply H. apply mem_keys_filter with (p := p). exact Hy. Qed.

  Lemma ksorted_filter p l : ksorted l -> ksorted (filter p l).
  Proof.
    induction l as [|[k v] r IH]; intros H; cbn [filter]; [exact I|].
    destruct (ksorted_tail _ _ _ H) as [Hr Hlb].
    destruct (p (k, v)); [|apply IH; exact Hr].
    unfold ksorted; cbn [keys map fst]. apply sorted_cons; [apply IH; exact Hr|].
    apply lb_filter_keys; exact Hlb.
  Qed.

  Lemma keys_fm {B} p (g : Z * A -> B) l : keys (fm p g l) = keys (filter p l).
  Proof. unfold fm, keys. rewrite map_map. reflexivity. Qed.

  Lemma ksorted_fm {B} p (g : Z * A -> B) l : ksorted l -> ksorted (fm p g l).
  Proof. intros H. unfold ksorted. rewrite keys_fm. apply ksorted_filter; exact H. Qed.

  Lemma get_fm {B} p (g : Z * A -> B) l k : ksorted l ->
    get k (fm p g l) = match get k l with Some v => if p (k, v) then Some (g (k, v)) else None | None => None end.
  Proof.
    induction l as [|[x v] r IH]; intros H; [reflexivity|].
    destruct (ksorted_tail _ _ _ H) as [Hr Hlb].
    unfold fm in *. cbn [filter get].
    destruct (k =? x) eqn:E.
    - apply Z.eqb_eq in E; subst x.
      destruct (p (k, v)) eqn:Ep; cbn [map get fst]; [rewrite Z.eqb_refl; reflexivity|].
      rewrite IH by exact Hr. rewrite (get_none_lb k r k Hlb) by lia. reflexivity.
    - destruct (p (x, v)); cbn [map get fst]; [rewrite E|]; apply IH; exact Hr.
  Qed.

  Lemma Forall_get (P : Z * A -> Prop) l k v : Forall P l -> get k l = Some v -> P (k, v).
  Proof. intros HF Hg. apply get_In in Hg. rewrite Forall_forall in HF. apply HF, Hg. Qed.

  Lemma has_get_some k l : has k l = true -> exists v, get k l = Some v.
  Proof. unfold has. destruct (get k l) as [v|]; [eauto|discriminate]. Qed.

  Lemma In_keys_get k l : ksorted l -> In k (keys l) -> exists v, get k l = Some v.
  Proof.
    intros Hs Hin. apply mem_In in Hin. rewrite <- has_mem in Hin. apply has_get_some, Hin.
  Qed.
End Assoc.

(* two filtered/mapped views of two sorted association lists are equal when they agree pointwise *)
Lemma fm_ext {A A' B} (p : Z * A -> bool) (g : Z * A -> B) (p' : Z * A' -> bool) (g' : Z * A' -> B) l l' :
  ksorted l -> ksorted l' ->
  (forall k, match get k l with Some v => if p (k, v) then Some (g (k, v)) else None | None => None end =
             match get k l' with Some v => if p' (k, v) then Some (g' (k, v)) else None | None => None end) ->
  fm p g l = fm p' g' l'.
Proof.
  intros H H' He. apply ksorted_ext; [apply ksorted_fm, H|apply ksorted_fm, H'|].
  intros k. rewrite !get_fm by assumption. apply He.
Qed.

(* ------------------------------------------------------------------ induction on shapes *)
Lemma shape_ind' (P : shape -> Prop) :
  P TS -> P SIGNAL -> (forall p m, P (TSW p m)) -> P TSS ->
  (forall e, P e -> P (TSD e)) -> (forall n e, P e -> P (TSL n e)) ->
  (forall fs, Forall P fs -> P (TSB fs)) -> forall sh, P sh.
Proof.
  intros Hts Hsig Hw Hss Hd Hl Hb.
  fix IH 1. intros [| |p m| |e|n e|fs].
  - exact Hts.
  - exact Hsig.
  - apply Hw.
  - exact Hss.
  - apply Hd, IH.
  - apply Hl, IH.
  - apply Hb. induction fs as [|f r IHr]; constructor; [apply IH|exact IHr].
Qed.

(* ------------------------------------------------------------------ clean states and ticks *)
Definition clean_flags : sflags := mkF true false false false true.

(* [good sh n]: a committed state (between cycles) all of whose dictionary keys carry a valid,
   published child — what every replayable history maintains *)
Fixpoint good (sh : shape) (n : node) : Prop :=
  match sh, n with
  | TS, NLeaf m _ | SIGNAL, NLeaf m _ => m = false
  | TSW p _, NWin m _ => m = false /\ (1 <= p)%nat
  | TSS, NSet m _ el ad rm => m = false /\ sorted el /\ ad = [] /\ rm = []
  | TSD e, NDict m _ items =>
      m = false /\ ksorted items /\
      Forall (fun kv => fst (snd kv) = clean_flags /\ nvalid (snd (snd kv)) = true /\ good e (snd (snd kv))) items
  | TSL n e, NIdx m _ kids => m = false /\ length kids = n /\ Forall (good e) kids
  | TSB fs, NIdx m _ kids =>
      m = false /\
      (fix go (fs : list shape) (kids : list node) : Prop :=
         match fs, kids with
         | f :: fs', c :: kids' => good f c /\ go fs' kids'
         | [], [] => True
         | _, _ => False
         end) fs kids
  | _, _ => False
  end.

(* one slot of a ticking dictionary against the pre-tick dictionary *)
Definition slot_tick (tk : node -> node -> Prop) (fr : node) (o0 : option (sflags * node)) (f : sflags) (c : node) : Prop :=
  match o0 with
  | Some (_, c0) =>
      if f_live f then
        f_removed f = false /\ f_published f = true /\ (if f_modified f then tk c0 c else c = c0)
      else f_removed f = true
  | None =>
      if f_live f then f_removed f = false /\ f_modified f = true /\ f_published f = true /\ tk fr c
      else f_removed f = false
  end.

(* [tick sh pre live]: [live] is [pre] after one cycle of mutations, its delta surface
   (added/removed elements, removed keys, modified slots, modified flags) tells the truth about
   the change, and every ticking collection node either changed or became valid (no ineffective
   empty tick), and no bundle leaves a never-ticked set/dict field unset beside a ticking one *)
Fixpoint tick (sh : shape) (pre live : node) : Prop :=
  match sh, pre, live with
  | TS, NLeaf _ _, NLeaf m v => m = true /\ exists z, v = Some z
  | SIGNAL, NLeaf _ _, NLeaf m v => m = true /\ v = Some 1
  | TSW p _, NWin _ v0, NWin m v1 => m = true /\ exists z, v1 = lastn p (v0 ++ [z])
  | TSS, NSet _ v0 el0 _ _, NSet m v el ad rm =>
      m = true /\ v = true /\ sorted ad /\ sorted rm /\
      Forall (fun k => mem k el0 = false) ad /\
      Forall (fun k => mem k el0 = true) rm /\
      el = fold_left (fun s k => ins k s) ad (fold_left (fun s k => del k s) rm el0) /\
      (ad <> [] \/ rm <> [] \/ v0 = false)
  | TSD e, NDict _ v0 items0, NDict m v items =>
      m = true /\ v = true /\ ksorted items /\
      Forall (fun kv => slot_tick (tick e) (fresh e) (get (fst kv) items0) (fst (snd kv)) (snd (snd kv))) items /\
      Forall (fun kv => has (fst kv) items = true) items0 /\
      (Exists (fun kv => f_removed (fst (snd kv)) = true \/ (f_live (fst (snd kv)) = true /\ f_modified (fst (snd kv)) = true)) items
       \/ v0 = false)
  | TSL n e, NIdx _ _ kids0, NIdx m v kids =>
      m = true /\ v = true /\
      Forall2 (fun c0 c => (nmod c = true /\ tick e c0 c) \/ c = c0) kids0 kids /\
      Exists (fun c => nmod c = true) kids
  | TSB fs, NIdx _ _ kids0, NIdx m v kids =>
      m = true /\ v = true /\
      (fix go (fs : list shape) (kids0 kids : list node) : Prop :=
         match fs, kids0, kids with
         | f :: fs', c0 :: k0', c :: k' =>
             ((nmod c = true /\ tick f c0 c) \/ (c = c0 /\ has_effect f c0 (field_default f) = false)) /\ go fs' k0' k'
         | [], [], [] => True
         | _, _, _ => False
         end) fs kids0 kids /\
      Exists (fun c => nmod c = true) kids
  | _, _, _ => False
  end.

(* what "re-creates the tick" means *)
Definition recreates (sh : shape) (pre live : node) : Prop :=
  let out := apply sh pre (capture sh live) in
  nmod out = true /\ nvalid out = true /\ nmod live = true /\ nvalid live = true /\
  commit sh out = commit sh live /\
  capture sh out = capture sh live /\
  good sh (commit sh live).

(* ------------------------------------------------------------------ leaves, windows *)
Lemma recreates_ts pre live : good TS pre -> tick TS pre live -> recreates TS pre live.
Proof.
  destruct pre as [m0 v0| | | |]; try contradiction. destruct live as [m v| | | |]; try contradiction.
  intros _ [-> [z ->]]. unfold recreates. cbn. repeat split; reflexivity.
Qed.

Lemma recreates_signal pre live : good SIGNAL pre -> tick SIGNAL pre live -> recreates SIGNAL pre live.
Proof.
  destruct pre as [m0 v0| | | |]; try contradiction. destruct live as [m v| | | |]; try contradiction.
  intros _ [-> ->]. unfold recreates. cbn. repeat split; reflexivity.
Qed.

Lemma lastn_length k l : (length (lastn k l) <= length l)%nat.
Proof.
  induction l as [|x r IH]; cbn [lastn length]; [destruct (0 <=? k)%nat; cbn; lia|].
  destruct (S (length r) <=? k)%nat; cbn [length]; lia.
Qed.

Lemma last_opt_app l z : last_opt (l ++ [z]) = Some z.
Proof.
  induction l as [|x r IH]; [reflexivity|]. cbn [app last_opt].
  destruct (r ++ [z]) eqn:E; [destruct r; discriminate|]. exact IH.
Qed.

Lemma lastn_app_last k l z : (1 <= k)%nat -> exists l', lastn k (l ++ [z]) = l' ++ [z].
Proof.
  intros Hk. induction l as [|x r IH].
  - exists []. cbn. destruct k; [lia|reflexivity].
  - cbn [app lastn]. destruct (length (x :: r ++ [z]) <=? k)%nat.
    + exists (x :: r). reflexivity.
    + exact IH.
Qed.

Lemma recreates_tsw p mn pre live : good (TSW p mn) pre -> tick (TSW p mn) pre live -> recreates (TSW p mn) pre live.
Proof.
  destruct pre as [|m0 v0| | |]; try contradiction. destruct live as [|m v| | |]; try contradiction.
  intros [-> Hp] [-> [z ->]]. unfold recreates.
  destruct (lastn_app_last p v0 z Hp) as [l' Hl].
  assert (Hlast : last_opt (lastn p (v0 ++ [z])) = Some z) by (rewrite Hl; apply last_opt_app).
  assert (Hne : lastn p (v0 ++ [z]) <> []) by (rewrite Hl; destruct l'; discriminate).
  cbn [capture]. rewrite Hlast. cbn [apply has_effect win_push nmod nvalid commit capture].
  rewrite Hlast. destruct (lastn p (v0 ++ [z])) eqn:E; [congruence|].
  repeat split; try reflexivity. exact Hp.
Qed.

(* ------------------------------------------------------------------ sets *)
Lemma fold_set_remove rm : forall m v el ad rmacc,
  sorted el -> sorted rmacc ->
  (forall k, mem k rm = true -> mem k el = true) -> NoDup rm -> ad = [] ->
  rm <> [] ->
  fold_left (fun s k => set_remove k s) rm (NSet m v el ad rmacc) =
  NSet true true (fold_left (fun s k => del k s) rm el) [] (fold_left (fun s k => ins k s) rm rmacc).
Proof.
  induction rm as [|x r IH]; intros m v el ad rmacc Hel Hacc Hin Hnd -> Hne; [congruence|].
  cbn [fold_left]. unfold set_remove at 2.
  rewrite (Hin x) by (cbn [mem]; rewrite Z.eqb_refl; reflexivity). cbn [mem].
  inversion Hnd as [|? ? Hnotin Hnd']; subst.
  destruct r as [|y r'].
  - reflexivity.
  - apply IH; try assumption; try reflexivity; try discriminate.
    + apply sorted_del, Hel.
    + apply sorted_ins, Hacc.
    + intros k Hk. rewrite mem_del by exact Hel. rewrite (Hin k) by (cbn [mem] in *; rewrite Hk; apply orb_true_r).
      rewrite andb_true_r. apply negb_true_iff. apply Z.eqb_neq. intros ->.
      apply Hnotin. apply mem_In, Hk.
Qed.

Lemma sorted_NoDup l : sorted l -> NoDup l.
Proof.
  induction l as [|x r IH]; intros H; constructor.
  - intros Hin. apply mem_In in Hin. rewrite sorted_nodup_head in Hin by exact H. discriminate.
  - apply IH, (sorted_tail _ _ H).
Qed.

Lemma fold_set_add ad : forall m v el adacc rm,
  sorted el -> sorted adacc ->
  (forall k, mem k ad = true -> mem k el = false) -> (forall k, mem k ad = true -> mem k rm = false) -> NoDup ad ->
  ad <> [] ->
  fold_left (fun s k => set_add k s) ad (NSet m v el adacc rm) =
  NSet true true (fold_left (fun s k => ins k s) ad el) (fold_left (fun s k => ins k s) ad adacc) rm.
Proof.
  induction ad as [|x r IH]; intros m v el adacc rm Hel Hacc Hout Hrm Hnd Hne; [congruence|].
  cbn [fold_left]. unfold set_add at 2.
  rewrite (Hout x), (Hrm x) by (cbn [mem]; rewrite Z.eqb_refl; reflexivity).
  inversion Hnd as [|? ? Hnotin Hnd']; subst.
  destruct r as [|y r'].
  - reflexivity.
  - apply IH; try assumption; try discriminate.
    + apply sorted_ins, Hel.
    + apply sorted_ins, Hacc.
    + intros k Hk. rewrite mem_ins. rewrite (Hout k) by (cbn [mem] in *; rewrite Hk; apply orb_true_r).
      rewrite orb_false_r. apply Z.eqb_neq. intros ->. apply Hnotin. apply mem_In, Hk.
    + intros k Hk. apply Hrm. cbn [mem] in *. rewrite Hk. apply orb_true_r.
Qed.

Lemma recreates_tss pre live : good TSS pre -> tick TSS pre live -> recreates TSS pre live.
Proof.
  destruct pre as [| |m0 v0 el0 ad0 rm0| |]; try contradiction.
  destruct live as [| |m v el ad rm| |]; try contradiction.
  intros (-> & Hel0 & -> & ->) (-> & -> & Had & Hrm & Hadout' & Hrmin' & -> & Heff).
  assert (Hadout : forall k, mem k ad = true -> mem k el0 = false).
  { intros k Hk. rewrite Forall_forall in Hadout'. apply Hadout', mem_In, Hk. }
  assert (Hrmin : forall k, mem k rm = true -> mem k el0 = true).
  { intros k Hk. rewrite Forall_forall in Hrmin'. apply Hrmin', mem_In, Hk. }
  unfold recreates. cbn [capture].
  assert (Heffb : has_effect TSS (NSet false v0 el0 [] []) (DSet ad rm) = true).
  { cbn [has_effect nvalid]. destruct Heff as [H|[H|H]].
    - destruct ad; [congruence|reflexivity].
    - destruct rm; [congruence|]. destruct ad; reflexivity.
    - subst v0. destruct ad, rm; reflexivity. }
  cbn [apply]. rewrite Heffb.
  (* the removals *)
  assert (Hrem : exists m1 v1, fold_left (fun s k => set_remove k s) rm (NSet false v0 el0 [] []) =
                 NSet m1 v1 (fold_left (fun s k => del k s) rm el0) [] rm).
  { destruct rm as [|x r] eqn:Er; [cbn; eauto|]. rewrite <- Er in *.
    exists true, true.
    assert (Hne : rm <> []) by (subst rm; discriminate).
    rewrite (fold_set_remove rm false v0 el0 [] [] Hel0 I Hrmin (sorted_NoDup _ Hrm) eq_refl Hne).
    rewrite fold_ins_id by exact Hrm. reflexivity. }
  destruct Hrem as (m1 & v1 & ->).
  assert (Hadd : exists m2 v2, fold_left (fun s k => set_add k s) ad
                   (NSet m1 v1 (fold_left (fun s k => del k s) rm el0) [] rm) =
                 NSet m2 v2 (fold_left (fun s k => ins k s) ad (fold_left (fun s k => del k s) rm el0)) ad rm).
  { destruct ad as [|x r] eqn:Ea; [cbn; eauto|]. rewrite <- Ea in *.
    exists true, true.
    assert (Hne : ad <> []) by (subst ad; discriminate).
    assert (H1 : forall k, mem k ad = true -> mem k (fold_left (fun s k0 => del k0 s) rm el0) = false).
    { intros k Hk. rewrite fold_del_mem by exact Hel0. rewrite (Hadout k Hk). apply andb_false_r. }
    assert (H2 : forall k, mem k ad = true -> mem k rm = false).
    { intros k Hk. destruct (mem k rm) eqn:E; [|reflexivity].
      pose proof (Hrmin k E) as Hx. rewrite (Hadout k Hk) in Hx. discriminate. }
    rewrite (fold_set_add ad m1 v1 _ [] rm (fold_del_sorted _ _ Hel0) I H1 H2 (sorted_NoDup _ Had) Hne).
    rewrite fold_ins_id by exact Had. reflexivity. }
  destruct Hadd as (m2 & v2 & ->).
  cbn [set_touch nmod nvalid commit capture good].
  repeat split; try reflexivity.
  apply fold_ins_sorted, fold_del_sorted, Hel0.
Qed.

(* ------------------------------------------------------------------ general facts *)
Fixpoint wf_shape (sh : shape) : Prop :=
  match sh with
  | TSW p _ => (1 <= p)%nat
  | TSD e => wf_shape e
  | TSL _ e => wf_shape e
  | TSB fs => (fix go (fs : list shape) : Prop := match fs with [] => True | f :: r => wf_shape f /\ go r end) fs
  | _ => True
  end.

Lemma wf_tsb_forall fs : wf_shape (TSB fs) -> Forall wf_shape fs.
Proof. induction fs as [|f r IH]; cbn; intros H; constructor; [apply H|apply IH, H]. Qed.

Lemma good_nmod sh n : good sh n -> nmod n = false.
Proof.
  destruct sh, n; cbn; try contradiction; try tauto; intros H; try exact H; try (destruct H as [H _]; exact H).
Qed.

Definition good_tsb := (fix go (fs : list shape) (kids : list node) : Prop :=
         match fs, kids with
         | f :: fs', c :: kids' => good f c /\ go fs' kids'
         | [], [] => True
         | _, _ => False
         end).

Lemma good_tsb_unfold fs m v kids : good (TSB fs) (NIdx m v kids) = (m = false /\ good_tsb fs kids).
Proof. reflexivity. Qed.

Lemma nvalid_commit sh n : nvalid (commit sh n) = nvalid n.
Proof. destruct sh, n; reflexivity. Qed.

Lemma good_fresh : forall sh, wf_shape sh -> good sh (fresh sh).
Proof.
  induction sh as [| |p m| |e IH|n e IH|fs IH] using shape_ind'; intros Hwf; cbn [good fresh].
  - reflexivity.
  - reflexivity.
  - split; [reflexivity|exact Hwf].
  - repeat split; exact I.
  - repeat split; try exact I; constructor.
  - repeat split; [apply repeat_length|]. apply Forall_forall. intros x Hx. apply repeat_spec in Hx. subst x. apply IH, Hwf.
  - split; [reflexivity|]. apply wf_tsb_forall in Hwf.
    induction fs as [|f r IHr]; cbn; [exact I|].
    inversion IH as [|? ? Hf Hr]; subst. inversion Hwf as [|? ? Wf Wr]; subst.
    split; [apply Hf, Wf|apply IHr; assumption].
Qed.

Lemma commit_good : forall sh n, good sh n -> commit sh n = n.
Proof.
  induction sh as [| |p m| |e IH|n e IH|fs IH] using shape_ind'; intros nd Hg; destruct nd; cbn [good] in Hg; try contradiction; cbn [commit].
  - subst; reflexivity.
  - subst; reflexivity.
  - destruct Hg as [-> _]; reflexivity.
  - destruct Hg as (-> & _ & -> & ->); reflexivity.
  - destruct Hg as (-> & Hs & HF). f_equal.
    induction items as [|[k [f c]] r IHr]; [reflexivity|].
    inversion HF as [|? ? [Hf [Hv Hgc]] HF']; subst. cbn in Hf, Hv, Hgc. subst f.
    cbn [filter slot_live fst snd clean_flags f_live map].
    rewrite IH by exact Hgc. unfold clear_flags; cbn. f_equal.
    apply IHr; [apply (ksorted_cons_tail _ _ _ Hs)|exact HF'].
  - destruct Hg as (-> & _ & HF). f_equal.
    induction kids as [|c r IHr]; [reflexivity|]. inversion HF; subst. cbn [map]. f_equal; auto.
  - destruct Hg as (-> & HG). f_equal. revert kids HG.
    induction fs as [|f r IHr]; intros kids HG; destruct kids as [|c kids']; cbn in HG; try contradiction; [reflexivity|].
    inversion IH; subst. cbn [zipw]. destruct HG as [Hc Hr]. f_equal; [auto|apply IHr; assumption].
Qed.

(* ------------------------------------------------------------------ unfolding equations *)
Lemma apply_eq sh out d : apply sh out d = if has_effect sh out d then
    match sh, d with
    | TS, DVal z => leaf_set z out
    | SIGNAL, DVal _ => leaf_set 1 out
    | TSW p _, DVal z => win_push p z out
    | TSS, DSet ad rm =>
        set_touch (fold_left (fun s k => set_add k s) ad (fold_left (fun s k => set_remove k s) rm out))
    | TSD e, DDict rm md =>
        dict_touch (fold_left (fun s kd => dict_child e (fst kd) (fun c => apply e c (snd kd)) s) md
                              (fold_left (fun s k => dict_erase k s) rm out))
    | TSL _ e, DList items =>
        fold_left (fun s kd => idx_child (Z.to_nat (fst kd)) (fun c => apply e c (snd kd)) s) items out
    | TSB fs, DBundle ds =>
        match out with
        | NIdx _ _ kids => idx_set_kids out (zipw3 apply fs kids ds)
        | _ => out
        end
    | _, _ => out
    end else out.
Proof. destruct sh; reflexivity. Qed.

Lemma apply_no_effect sh out d : has_effect sh out d = false -> apply sh out d = out.
Proof. intros H. rewrite apply_eq, H. reflexivity. Qed.

Definition tick_tsb := (fix go (fs : list shape) (kids0 kids : list node) : Prop :=
         match fs, kids0, kids with
         | f :: fs', c0 :: k0', c :: k' =>
             ((nmod c = true /\ tick f c0 c) \/ (c = c0 /\ has_effect f c0 (field_default f) = false)) /\ go fs' k0' k'
         | [], [], [] => True
         | _, _, _ => False
         end).

Definition cap_field (f : shape) (c : node) : delta := if nmod c && nvalid c then capture f c else field_default f.

Definition Recreates (f : shape) : Prop := forall pre live, good f pre -> tick f pre live -> recreates f pre live.

Lemma recreates_has_effect f c0 c : good f c0 -> recreates f c0 c -> has_effect f c0 (capture f c) = true.
Proof.
  intros Hg (Hm & _). destruct (has_effect f c0 (capture f c)) eqn:E; [reflexivity|].
  rewrite apply_no_effect in Hm by exact E. rewrite (good_nmod _ _ Hg) in Hm. discriminate.
Qed.

Lemma tsb_pointwise fs : Forall Recreates fs -> forall kids0 kids,
  good_tsb fs kids0 -> tick_tsb fs kids0 kids ->
  let ds := zipw cap_field fs kids in
  let outk := zipw3 apply fs kids0 ds in
  zipw commit fs outk = zipw commit fs kids /\
  zipw cap_field fs outk = ds /\
  existsb (fun b => b) (zipw3 has_effect fs kids0 ds) = existsb nmod kids /\
  existsb (fun b => b) (zipw newly kids0 outk) = existsb nmod kids /\
  good_tsb fs (zipw commit fs kids).
Proof.
  intros IHs. induction IHs as [|f r Hf Hr IH]; intros kids0 kids Hg Ht;
    destruct kids0 as [|c0 k0]; destruct kids as [|c k]; cbn in Hg, Ht; try contradiction.
  - cbn. repeat split; reflexivity.
  - destruct Hg as [Hgc Hgr]. destruct Ht as [Hc Htr].
    specialize (IH k0 k Hgr Htr). cbn zeta in IH. destruct IH as (I1 & I2 & I3 & I4 & I5).
    cbn [zipw zipw3 existsb]. cbn zeta.
    pose proof (good_nmod _ _ Hgc) as Hm0.
    destruct Hc as [[Hm Htk]|[-> Hne]].
    + pose proof (Hf c0 c Hgc Htk) as HR. pose proof (recreates_has_effect _ _ _ Hgc HR) as He.
      destruct HR as (Rm & Rv & _ & Rlv & Rc & Rcap & Rg).
      assert (Hcf : cap_field f c = capture f c) by (unfold cap_field; rewrite Hm, Rlv; reflexivity).
      rewrite !Hcf.
      assert (Hcf2 : cap_field f (apply f c0 (capture f c)) = capture f c)
        by (unfold cap_field; rewrite Rm, Rv; exact Rcap).
      rewrite Hcf2, He, Rc, I1, I2. unfold newly at 1. rewrite Hm0, Rm, Hm. cbn [negb andb orb].
      repeat split; try reflexivity; assumption.
    + assert (Hcf : cap_field f c0 = field_default f) by (unfold cap_field; rewrite Hm0; reflexivity).
      rewrite !Hcf. rewrite (apply_no_effect _ _ _ Hne), Hne, Hcf.
      rewrite I1, I2, I3. unfold newly at 1. rewrite Hm0. cbn [negb andb orb].
      rewrite I4. repeat split; try reflexivity; [rewrite (commit_good _ _ Hgc); exact Hgc|exact I5].
Qed.

Lemma Exists_existsb {A} (p : A -> bool) l : Exists (fun x => p x = true) l -> existsb p l = true.
Proof. intros H. apply existsb_exists. apply Exists_exists in H. exact H. Qed.

Lemma recreates_tsb fs : Forall Recreates fs -> Recreates (TSB fs).
Proof.
  intros IHs pre live Hg Ht.
  destruct pre as [| | | |m0 v0 kids0]; try contradiction. destruct live as [| | | |m v kids]; try contradiction.
  destruct Hg as [-> Hg]. destruct Ht as (-> & -> & Ht & Hex).
  destruct (tsb_pointwise fs IHs kids0 kids Hg Ht) as (P1 & P2 & P3 & P4 & P5).
  apply Exists_existsb in Hex.
  unfold recreates. change (capture (TSB fs) (NIdx true true kids)) with (DBundle (zipw cap_field fs kids)).
  rewrite apply_eq. cbn [has_effect]. rewrite P3, Hex.
  unfold idx_set_kids. rewrite P4, Hex.
  cbn [nmod nvalid]. change (commit (TSB fs) (NIdx true true ?k)) with (NIdx false true (zipw commit fs k)).
  change (capture (TSB fs) (NIdx true true ?k)) with (DBundle (zipw cap_field fs k)).
  rewrite P1, P2. repeat split; try reflexivity. exact P5.
Qed.

(* ------------------------------------------------------------------ fixed lists *)
Lemma set_nth_app {A} (pfx : list A) x y r : set_nth (length pfx) x (pfx ++ y :: r) = pfx ++ x :: r.
Proof. unfold set_nth. induction pfx as [|a p IH]; cbn; [reflexivity|]. f_equal. exact IH. Qed.

Lemma nth_error_app_len {A} (pfx : list A) y r : nth_error (pfx ++ y :: r) (length pfx) = Some y.
Proof. induction pfx as [|a p IH]; cbn; [reflexivity|exact IH]. Qed.

Definition tsl_items (e : shape) (o : Z) (kids : list node) : list (Z * delta) :=
  map (fun ic => (fst ic, capture e (snd ic))) (filter (fun ic => nmod (snd ic) && nvalid (snd ic)) (index_from o kids)).

Definition tsl_step (e : shape) := fun s (kd : Z * delta) => idx_child (Z.to_nat (fst kd)) (fun c => apply e c (snd kd)) s.

Definition tsl_out (e : shape) : list node -> list node -> list node :=
  zipw (fun c0 c => if nmod c then apply e c0 (capture e c) else c0).

Lemma tsl_fold e : Recreates e -> forall kids0 kids,
  Forall2 (fun c0 c => (nmod c = true /\ tick e c0 c) \/ c = c0) kids0 kids -> Forall (good e) kids0 ->
  forall pfx m v,
  fold_left (tsl_step e) (tsl_items e (Z.of_nat (length pfx)) kids) (NIdx m v (pfx ++ kids0)) =
    NIdx (m || existsb nmod kids) (v || existsb nmod kids) (pfx ++ tsl_out e kids0 kids) /\
  map (commit e) (tsl_out e kids0 kids) = map (commit e) kids /\
  tsl_items e (Z.of_nat (length pfx)) (tsl_out e kids0 kids) = tsl_items e (Z.of_nat (length pfx)) kids /\
  Forall (good e) (map (commit e) kids).
Proof.
  intros He kids0 kids HF. induction HF as [|c0 c k0 k Hc HF IH]; intros Hg pfx m v.
  - cbn. rewrite !orb_false_r. repeat split; constructor.
  - inversion Hg as [|? ? Hgc Hgr]; subst.
    pose proof (good_nmod _ _ Hgc) as Hm0.
    unfold tsl_items, tsl_out. cbn [index_from filter zipw snd fst map].
    assert (Hoff : Z.of_nat (length pfx) + 1 = Z.of_nat (length (pfx ++ [c0]))).
    { rewrite app_length. cbn [length]. lia. }
    destruct Hc as [[Hm Htk]|Heq].
    + pose proof (He c0 c Hgc Htk) as (Rm & Rv & _ & Rlv & Rc & Rcap & Rg).
      rewrite Hm, Rlv, Rm, Rv. cbn [andb map fold_left fst snd existsb orb].
      unfold tsl_step at 2. cbn [fst snd]. rewrite Nat2Z.id. unfold idx_child.
      rewrite nth_error_app_len. rewrite Hm0, Rm. cbn [negb andb].
      rewrite set_nth_app.
      assert (Hoff' : Z.of_nat (length pfx) + 1 = Z.of_nat (length (pfx ++ [apply e c0 (capture e c)]))).
      { rewrite app_length. cbn [length]. lia. }
      specialize (IH Hgr (pfx ++ [apply e c0 (capture e c)]) true true).
      rewrite <- Hoff' in IH. rewrite <- !app_assoc in IH. cbn [app] in IH.
      destruct IH as (I1 & I2 & I3 & I4).
      fold (tsl_items e (Z.of_nat (length pfx) + 1) k). fold (tsl_out e k0 k).
      fold (tsl_items e (Z.of_nat (length pfx) + 1) (tsl_out e k0 k)).
      rewrite I1, I2, I3, Rc, Rcap, Hm. cbn [orb]. rewrite !orb_true_r. repeat split; try reflexivity.
      constructor; assumption.
    + subst c. rewrite ?Hm0. cbn [andb map fold_left existsb orb]. rewrite ?Hm0. cbn [andb orb].
      specialize (IH Hgr (pfx ++ [c0]) m v).
      rewrite <- Hoff in IH. rewrite <- !app_assoc in IH. cbn [app] in IH.
      destruct IH as (I1 & I2 & I3 & I4).
      fold (tsl_items e (Z.of_nat (length pfx) + 1) k). fold (tsl_out e k0 k).
      fold (tsl_items e (Z.of_nat (length pfx) + 1) (tsl_out e k0 k)).
      rewrite I1, I2, I3. repeat split; try reflexivity.
      constructor; [rewrite (commit_good _ _ Hgc); exact Hgc|exact I4].
Qed.

Lemma tsl_items_nonempty e o kids : Forall (fun c => nmod c = true -> nvalid c = true) kids ->
  Exists (fun c => nmod c = true) kids -> tsl_items e o kids <> [].
Proof.
  intros Hv Hex. revert o. induction Hex as [c k Hm|c k Hex IH]; intros o; inversion Hv as [|? ? Hvc Hvr]; subst;
    unfold tsl_items; cbn [index_from filter snd].
  - rewrite Hm, (Hvc Hm). cbn. discriminate.
  - destruct (nmod c && nvalid c); cbn [map]; [discriminate|]. apply IH, Hvr.
Qed.

Lemma Forall2_len {A B} (R : A -> B -> Prop) l l' : Forall2 R l l' -> length l = length l'.
Proof. induction 1; cbn; congruence. Qed.

Lemma recreates_tsl n e : Recreates e -> Recreates (TSL n e).
Proof.
  intros He pre live Hg Ht.
  destruct pre as [| | | |m0 v0 kids0]; try contradiction. destruct live as [| | | |m v kids]; try contradiction.
  destruct Hg as (-> & Hlen & Hg). destruct Ht as (-> & -> & HF & Hex).
  destruct (tsl_fold e He kids0 kids HF Hg [] false v0) as (F1 & F2 & F3 & F4).
  cbn [length app Z.of_nat] in F1, F3.
  assert (Hvalid : Forall (fun c => nmod c = true -> nvalid c = true) kids).
  { clear - HF He Hg. induction HF as [|c0 c k0 k Hc HF IH]; constructor.
    - inversion Hg; subst. destruct Hc as [[Hm Htk]|Heq]; [|subst c].
      + intros _. apply (He c0 c); assumption.
      + intros Hm. rewrite (good_nmod e c0) in Hm by assumption. discriminate.
    - inversion Hg; subst. apply IH; assumption. }
  pose proof (tsl_items_nonempty e 0 kids Hvalid Hex) as Hne.
  apply Exists_existsb in Hex.
  unfold recreates. change (capture (TSL n e) (NIdx true true kids)) with (DList (tsl_items e 0 kids)).
  rewrite apply_eq. cbn [has_effect].
  destruct (tsl_items e 0 kids) as [|it its] eqn:Eit; [congruence|]. cbn [is_nil negb].
  rewrite <- Eit in *. fold (tsl_step e). rewrite F1, Hex, !orb_true_r.
  cbn [nmod nvalid]. change (commit (TSL n e) (NIdx true true ?k)) with (NIdx false true (map (commit e) k)).
  change (capture (TSL n e) (NIdx true true ?k)) with (DList (tsl_items e 0 k)).
  rewrite F2, F3. repeat split; try reflexivity.
  - rewrite map_length. apply Forall2_len in HF. lia.
  - exact F4.
Qed.

(* ------------------------------------------------------------------ dictionaries *)
Definition erased_flags : sflags := mkF false false true false false.

Definition erase_items (k : Z) (items : list (Z * (sflags * node))) : list (Z * (sflags * node)) :=
  match get k items with
  | Some (f, c) =>
      if f_live f then
        put k (if f_published f then
                 if f_added f then mkF false false (f_removed f) false false
                 else mkF false (f_added f) true false false
               else mkF false (f_added f) (f_removed f) false false, c) items
      else items
  | None => items
  end.

Lemma dict_erase_items k m v items : dict_erase k (NDict m v items) = NDict true true (erase_items k items).
Proof.
  unfold dict_erase, erase_items. destruct (get k items) as [[f c]|]; [|reflexivity].
  destruct (f_live f); reflexivity.
Qed.

Lemma fold_erase_node rm : forall m v items,
  fold_left (fun s k => dict_erase k s) rm (NDict m v items) =
  NDict (m || negb (is_nil rm)) (v || negb (is_nil rm)) (fold_left (fun it k => erase_items k it) rm items).
Proof.
  induction rm as [|x r IH]; intros m v items; cbn [fold_left is_nil negb].
  - rewrite !orb_false_r. reflexivity.
  - rewrite dict_erase_items, IH. cbn [orb]. rewrite !orb_true_r. reflexivity.
Qed.

Lemma fold_erase_get rm : forall items, ksorted items -> NoDup rm ->
  (forall k, In k rm -> exists c, get k items = Some (clean_flags, c)) ->
  ksorted (fold_left (fun it k => erase_items k it) rm items) /\
  forall j, get j (fold_left (fun it k => erase_items k it) rm items) =
            if mem j rm then match get j items with Some (_, c) => Some (erased_flags, c) | None => None end
            else get j items.
Proof.
  induction rm as [|x r IH]; intros items Hs Hnd Hin; cbn [fold_left mem].
  - split; [exact Hs|reflexivity].
  - inversion Hnd as [|? ? Hnotin Hnd']; subst.
    destruct (Hin x (or_introl eq_refl)) as [cx Hx].
    assert (He : erase_items x items = put x (erased_flags, cx) items).
    { unfold erase_items. rewrite Hx. reflexivity. }
    rewrite He.
    assert (Hs' : ksorted (put x (erased_flags, cx) items)) by (apply ksorted_put, Hs).
    assert (Hin' : forall k, In k r -> exists c, get k (put x (erased_flags, cx) items) = Some (clean_flags, c)).
    { intros k Hk. rewrite get_put. destruct (k =? x) eqn:E.
      - apply Z.eqb_eq in E; subst k. contradiction.
      - apply Hin. right; exact Hk. }
    destruct (IH _ Hs' Hnd' Hin') as [I1 I2]. split; [exact I1|].
    intros j. rewrite I2, get_put.
    destruct (j =? x) eqn:E.
    + apply Z.eqb_eq in E; subst j. rewrite Hx. cbn [orb].
      destruct (mem x r) eqn:Em; [|reflexivity]. apply mem_In in Em. contradiction.
    + cbn [orb]. reflexivity.
Qed.

Definition at_items (e : shape) (k : Z) (items : list (Z * (sflags * node))) : list (Z * (sflags * node)) :=
  match get k items with
  | Some (f, c) =>
      if f_live f then items
      else put k (if f_removed f then mkF true (f_added f) false (f_modified f) true
                  else if nvalid c then mkF true true false (f_modified f) true
                  else mkF true (f_added f) false (f_modified f) (f_published f), c) items
  | None => put k (flags0, fresh e) items
  end.

(* the two situations apply_delta meets on a clean, erased dictionary: an untouched clean slot, or no slot *)
Lemma dict_child_clean e k g m v items c0 :
  get k items = Some (clean_flags, c0) -> nmod c0 = false -> nmod (g c0) = true -> nvalid (g c0) = true ->
  dict_child e k g (NDict m v items) = NDict true true (put k (mkF true false false true true, g c0) items).
Proof.
  intros Hg Hm0 Hm Hv. unfold dict_child, dict_at. rewrite Hg. cbn [f_live clean_flags].
  rewrite Hg. rewrite Hm0, Hm. cbn [negb andb]. unfold slot_child_modified. rewrite Hv. reflexivity.
Qed.

Lemma put_put {A} k (v w : A) l : put k v (put k w l) = put k v l.
Proof.
  induction l as [|[x u] r IH]; cbn [put].
  - rewrite Z.ltb_irrefl, Z.eqb_refl. reflexivity.
  - destruct (k <? x) eqn:E1; cbn [put].
    + rewrite Z.ltb_irrefl, Z.eqb_refl. reflexivity.
    + destruct (k =? x) eqn:E2; cbn [put].
      * rewrite Z.ltb_irrefl, Z.eqb_refl. reflexivity.
      * rewrite E1, E2. f_equal. exact IH.
Qed.

Lemma dict_child_new e k g m v items :
  get k items = None -> nmod (g (fresh e)) = true -> nvalid (g (fresh e)) = true -> nmod (fresh e) = false ->
  dict_child e k g (NDict m v items) = NDict true true (put k (mkF true true false true true, g (fresh e)) items).
Proof.
  intros Hg Hm Hv Hm0. unfold dict_child, dict_at. rewrite Hg.
  rewrite get_put, Z.eqb_refl. rewrite Hm0, Hm. cbn [negb andb]. unfold slot_child_modified. rewrite Hv.
  cbn [f_published flags0 f_removed]. rewrite put_put. reflexivity.
Qed.

Lemma fresh_nmod e : nmod (fresh e) = false.
Proof. destruct e; reflexivity. Qed.

Definition child_put (e : shape) (items : list (Z * (sflags * node))) (kd : Z * delta) :=
  match get (fst kd) items with
  | Some (_, c0) => put (fst kd) (mkF true false false true true, apply e c0 (snd kd)) items
  | None => put (fst kd) (mkF true true false true true, apply e (fresh e) (snd kd)) items
  end.

Definition child_ready (e : shape) (items : list (Z * (sflags * node))) (kd : Z * delta) : Prop :=
  match get (fst kd) items with
  | Some (f, c0) => f = clean_flags /\ nmod c0 = false /\
                    nmod (apply e c0 (snd kd)) = true /\ nvalid (apply e c0 (snd kd)) = true
  | None => nmod (apply e (fresh e) (snd kd)) = true /\ nvalid (apply e (fresh e) (snd kd)) = true
  end.

Lemma fold_child e md : forall items m v, ksorted items -> NoDup (map fst md) ->
  Forall (child_ready e items) md ->
  fold_left (fun s kd => dict_child e (fst kd) (fun c => apply e c (snd kd)) s) md (NDict m v items) =
    NDict (m || negb (is_nil md)) (v || negb (is_nil md)) (fold_left (child_put e) md items) /\
  ksorted (fold_left (child_put e) md items) /\
  forall j, get j (fold_left (child_put e) md items) =
            match get j md with
            | Some cd => match get j items with
                         | Some (_, c0) => Some (mkF true false false true true, apply e c0 cd)
                         | None => Some (mkF true true false true true, apply e (fresh e) cd)
                         end
            | None => get j items
            end.
Proof.
  induction md as [|[x cd] r IH]; intros items m v Hs Hnd HF; cbn [fold_left is_nil negb].
  - rewrite !orb_false_r. split; [reflexivity|]. split; [exact Hs|]. reflexivity.
  - inversion Hnd as [|? ? Hnotin Hnd']; subst. inversion HF as [|? ? Hx HF']; subst.
    cbn [map fst] in Hnotin.
    assert (Hstep : dict_child e x (fun c => apply e c cd) (NDict m v items) = NDict true true (child_put e items (x, cd))).
    { unfold child_ready in Hx. unfold child_put. cbn [fst snd] in Hx |- *.
      destruct (get x items) as [[f c0]|] eqn:Eg.
      - destruct Hx as (-> & Hm0 & Hm & Hv).
        apply (dict_child_clean e x (fun c => apply e c cd) m v items c0); assumption.
      - destruct Hx as (Hm & Hv).
        apply (dict_child_new e x (fun c => apply e c cd) m v items); try assumption. apply fresh_nmod. }
    cbn [fst snd]. rewrite Hstep.
    assert (Hs' : ksorted (child_put e items (x, cd))).
    { unfold child_put. cbn [fst snd]. destruct (get x items) as [[f c0]|]; apply ksorted_put, Hs. }
    assert (Hget' : forall k, k <> x -> get k (child_put e items (x, cd)) = get k items).
    { intros k Hk. unfold child_put. cbn [fst snd].
      destruct (get x items) as [[f c0]|]; rewrite get_put; destruct (k =? x) eqn:E; try reflexivity;
        apply Z.eqb_eq in E; contradiction. }
    assert (HF'' : Forall (child_ready e (child_put e items (x, cd))) r).
    { apply Forall_forall. intros [k d] Hin. rewrite Forall_forall in HF'. specialize (HF' _ Hin).
      unfold child_ready in *. cbn [fst snd] in *. rewrite Hget'; [exact HF'|].
      intros ->. apply Hnotin. apply in_map_iff. exists (x, d). split; [reflexivity|exact Hin]. }
    destruct (IH _ true true Hs' Hnd' HF'') as (I1 & I2 & I3).
    rewrite I1. cbn [orb]. rewrite !orb_true_r. split; [reflexivity|]. split; [exact I2|].
    intros j. rewrite I3. cbn [get].
    destruct (j =? x) eqn:E.
    + apply Z.eqb_eq in E; subst j.
      assert (Hnone : get x r = None).
      { destruct (get x r) eqn:Eg; [|reflexivity]. apply get_In in Eg. exfalso. apply Hnotin.
        apply in_map_iff. exists (x, d). split; [reflexivity|exact Eg]. }
      rewrite Hnone. unfold child_put. cbn [fst snd].
      destruct (get x items) as [[f c0]|]; rewrite get_put, Z.eqb_refl; reflexivity.
    + rewrite Hget' by (apply Z.eqb_neq, E). reflexivity.
Qed.

Definition live_mod (kv : Z * (sflags * node)) : bool :=
  f_live (fst (snd kv)) && f_modified (fst (snd kv)) && nvalid (snd (snd kv)).
Definition is_removed (kv : Z * (sflags * node)) : bool := f_removed (fst (snd kv)).
Definition rm_keys (items : list (Z * (sflags * node))) : list Z := map fst (filter is_removed items).
Definition md_of (e : shape) (items : list (Z * (sflags * node))) : list (Z * delta) :=
  fm live_mod (fun kv => capture e (snd (snd kv))) items.
Definition commit_items (e : shape) (items : list (Z * (sflags * node))) :=
  fm slot_live (fun kv => (clear_flags (fst (snd kv)), commit e (snd (snd kv)))) items.

Lemma capture_tsd e m v items : capture (TSD e) (NDict m v items) = DDict (rm_keys items) (md_of e items).
Proof. reflexivity. Qed.
Lemma commit_tsd e m v items : commit (TSD e) (NDict m v items) = NDict false v (commit_items e items).
Proof. reflexivity. Qed.

Lemma mem_keys_filter_get {A} (p : Z * A -> bool) l j : ksorted l ->
  mem j (keys (filter p l)) = match get j l with Some v => p (j, v) | None => false end.
Proof.
  intros Hs. rewrite <- (keys_fm p (fun _ => tt)). rewrite <- has_mem. unfold has.
  rewrite get_fm by exact Hs. destruct (get j l) as [v|]; [|reflexivity]. destruct (p (j, v)); reflexivity.
Qed.

Lemma sorted_keys_filter {A} (p : Z * A -> bool) l : ksorted l -> sorted (keys (filter p l)).
Proof. intros H. apply (ksorted_filter p l H). Qed.

(* the slot relation, pointwise *)
Lemma tick_slot_at e items0 items j f c :
  Forall (fun kv => slot_tick (tick e) (fresh e) (get (fst kv) items0) (fst (snd kv)) (snd (snd kv))) items ->
  get j items = Some (f, c) -> slot_tick (tick e) (fresh e) (get j items0) f c.
Proof. intros HT Hg. apply (Forall_get _ _ _ _ HT Hg). Qed.

Section DictCase.
  Variable e : shape.
  Hypothesis He : Recreates e.
  Hypothesis Hfresh : good e (fresh e).
  Variables items0 items : list (Z * (sflags * node)).
  Hypothesis Hs0 : ksorted items0.
  Hypothesis HG0 : Forall (fun kv => fst (snd kv) = clean_flags /\ nvalid (snd (snd kv)) = true /\ good e (snd (snd kv))) items0.
  Hypothesis Hs : ksorted items.
  Hypothesis HT : Forall (fun kv => slot_tick (tick e) (fresh e) (get (fst kv) items0) (fst (snd kv)) (snd (snd kv))) items.
  Hypothesis HH : Forall (fun kv => has (fst kv) items = true) items0.

  Let rm := rm_keys items.
  Let md := md_of e items.
  Let items1 := fold_left (fun it k => erase_items k it) rm items0.
  Let items2 := fold_left (child_put e) md items1.

  Lemma pre_slot j f0 c0 : get j items0 = Some (f0, c0) -> f0 = clean_flags /\ nvalid c0 = true /\ good e c0.
  Proof. intros Hg. apply (Forall_get _ _ _ _ HG0 Hg). Qed.

  Lemma pre_has j fc : get j items0 = Some fc -> exists f c, get j items = Some (f, c).
  Proof.
    intros Hg. pose proof (Forall_get _ _ _ _ HH Hg) as Hh. cbn in Hh.
    apply has_get_some in Hh. destruct Hh as [[f c] Hh]. eauto.
  Qed.

  Lemma mem_rm j : mem j rm = match get j items with Some (f, _) => f_removed f | None => false end.
  Proof.
    unfold rm, rm_keys. change (map fst (filter is_removed items)) with (keys (filter is_removed items)).
    rewrite mem_keys_filter_get by exact Hs. destruct (get j items) as [[f c]|]; reflexivity.
  Qed.

  Lemma rm_in_pre k : In k rm -> exists c, get k items0 = Some (clean_flags, c).
  Proof.
    intros Hin. apply mem_In in Hin. rewrite mem_rm in Hin.
    destruct (get k items) as [[f c]|] eqn:Eg; [|discriminate].
    pose proof (tick_slot_at _ _ _ _ _ _ HT Eg) as St. unfold slot_tick in St.
    destruct (get k items0) as [[f0 c0]|] eqn:E0.
    - destruct (pre_slot _ _ _ E0) as (-> & _). eauto.
    - destruct (f_live f); [destruct St as (Hr & _)|]; congruence.
  Qed.

  Lemma rm_nodup : NoDup rm.
  Proof. apply sorted_NoDup. apply (sorted_keys_filter is_removed items Hs). Qed.

  Lemma items1_facts : ksorted items1 /\
    forall j, get j items1 = if mem j rm then match get j items0 with Some (_, c) => Some (erased_flags, c) | None => None end
                             else get j items0.
  Proof. apply fold_erase_get; [exact Hs0|exact rm_nodup|exact rm_in_pre]. Qed.

  Lemma get_md j : get j md = match get j items with
                              | Some (f, c) => if f_live f && f_modified f && nvalid c then Some (capture e c) else None
                              | None => None end.
  Proof.
    unfold md, md_of. rewrite get_fm by exact Hs. destruct (get j items) as [[f c]|]; reflexivity.
  Qed.

  (* a ticking child is valid and re-created *)
  Lemma child_recreated c0 c : good e c0 -> tick e c0 c ->
    nmod (apply e c0 (capture e c)) = true /\ nvalid (apply e c0 (capture e c)) = true /\ nvalid c = true /\
    commit e (apply e c0 (capture e c)) = commit e c /\ capture e (apply e c0 (capture e c)) = capture e c /\
    good e (commit e c).
  Proof. intros Hg Ht. destruct (He c0 c Hg Ht) as (A & B & _ & D & E & F & G). auto 10. Qed.

  Lemma md_ready : Forall (child_ready e items1) md.
  Proof.
    apply Forall_forall. intros [k cd] Hin. unfold child_ready. cbn [fst snd].
    assert (Hk : get k md = Some cd).
    { apply In_get; [apply ksorted_fm, Hs|exact Hin]. }
    rewrite get_md in Hk. destruct (get k items) as [[f c]|] eqn:Eg; [|discriminate].
    destruct (f_live f) eqn:El; [|discriminate]. destruct (f_modified f) eqn:Em; [|discriminate].
    destruct (nvalid c) eqn:Ev; [|discriminate]. injection Hk as <-.
    pose proof (tick_slot_at _ _ _ _ _ _ HT Eg) as St. unfold slot_tick in St. rewrite El in St.
    destruct items1_facts as [_ H1]. rewrite H1, mem_rm, Eg.
    destruct (get k items0) as [[f0 c0]|] eqn:E0.
    - destruct St as (Hr & Hp & Htk). rewrite Em in Htk. rewrite Hr.
      destruct (pre_slot _ _ _ E0) as (-> & Hv0 & Hg0).
      destruct (child_recreated c0 c Hg0 Htk) as (A & B & _).
      repeat split; try assumption. apply (good_nmod _ _ Hg0).
    - destruct St as (Hr & _ & _ & Htk). rewrite Hr.
      destruct (child_recreated (fresh e) c Hfresh Htk) as (A & B & _). split; assumption.
  Qed.

  Lemma md_nodup : NoDup (map fst md).
  Proof.
    change (map fst md) with (keys md). apply sorted_NoDup. apply (ksorted_fm live_mod _ items Hs).
  Qed.

  Lemma items2_facts : ksorted items2 /\
    forall j, get j items2 =
      match get j md with
      | Some cd => match get j items1 with
                   | Some (_, c0) => Some (mkF true false false true true, apply e c0 cd)
                   | None => Some (mkF true true false true true, apply e (fresh e) cd)
                   end
      | None => get j items1
      end.
  Proof.
    destruct items1_facts as [Hs1 _].
    destruct (fold_child e md items1 false false Hs1 md_nodup md_ready) as (_ & A & B). split; assumption.
  Qed.

  (* the heart: slot by slot, the re-created dictionary shows what the ticking one shows *)
  Lemma slot_views j :
    match get j items2 with Some v => if slot_live (j, v) then Some (clear_flags (fst v), commit e (snd v)) else None | None => None end =
    match get j items with Some v => if slot_live (j, v) then Some (clear_flags (fst v), commit e (snd v)) else None | None => None end /\
    match get j items2 with Some v => if is_removed (j, v) then Some tt else None | None => None end =
    match get j items with Some v => if is_removed (j, v) then Some tt else None | None => None end /\
    match get j items2 with Some v => if live_mod (j, v) then Some (capture e (snd v)) else None | None => None end =
    match get j items with Some v => if live_mod (j, v) then Some (capture e (snd v)) else None | None => None end /\
    (forall f c, get j items = Some (f, c) -> f_live f = true ->
       clear_flags f = clean_flags /\ nvalid (commit e c) = true /\ good e (commit e c)).
  Proof.
    destruct items2_facts as [_ H2]. destruct items1_facts as [_ H1].
    rewrite H2, get_md, H1, mem_rm.
    unfold slot_live, is_removed, live_mod. cbn [fst snd].
    destruct (get j items) as [[f c]|] eqn:Eg.
    - pose proof (tick_slot_at _ _ _ _ _ _ HT Eg) as St. unfold slot_tick in St.
      destruct (get j items0) as [[f0 c0]|] eqn:E0.
      + destruct (pre_slot _ _ _ E0) as (-> & Hv0 & Hg0).
        destruct (f_live f) eqn:El.
        * destruct St as (Hr & Hp & Htk).
          destruct (f_modified f) eqn:Em.
          -- destruct (child_recreated c0 c Hg0 Htk) as (A & B & C & D & E & F).
             rewrite ?El, ?Em, ?Hr, ?C. cbn [andb fst snd f_live f_removed f_modified].
             rewrite ?El, ?Em, ?Hr, ?C, ?A, ?B, ?D, ?E. cbn [andb].
             unfold clear_flags. cbn [f_published]. rewrite Hp.
             split; [reflexivity|]. split; [reflexivity|]. split; [reflexivity|].
             intros f' c' Heq _. injection Heq as <- <-. rewrite nvalid_commit.
             split; [unfold clear_flags; rewrite Hp; reflexivity|]. split; assumption.
          -- subst c. rewrite ?El, ?Em, ?Hr. cbn [andb fst snd clean_flags f_live f_removed f_modified].
             rewrite ?El, ?Em, ?Hr. cbn [andb].
             unfold clear_flags. cbn [f_published]. rewrite Hp.
             split; [reflexivity|]. split; [reflexivity|]. split; [reflexivity|].
             intros f' c' Heq _. injection Heq as <- <-.
             rewrite nvalid_commit, (commit_good _ _ Hg0).
             split; [unfold clear_flags; rewrite Hp; reflexivity|]. split; assumption.
        * rewrite ?El, ?St. cbn [andb fst snd erased_flags f_live f_removed f_modified].
          rewrite ?El, ?St. cbn [andb].
          split; [reflexivity|]. split; [reflexivity|]. split; [reflexivity|].
          intros f' c' Heq. injection Heq as <- <-. congruence.
      + destruct (f_live f) eqn:El.
        * destruct St as (Hr & Hm & Hp & Htk).
          destruct (child_recreated (fresh e) c Hfresh Htk) as (A & B & C & D & E & F).
          rewrite ?El, ?Hm, ?Hr, ?C. cbn [andb fst snd f_live f_removed f_modified].
          rewrite ?El, ?Hm, ?Hr, ?C, ?A, ?B, ?D, ?E. cbn [andb].
          unfold clear_flags. cbn [f_published]. rewrite Hp.
          split; [reflexivity|]. split; [reflexivity|]. split; [reflexivity|].
          intros f' c' Heq _. injection Heq as <- <-. rewrite nvalid_commit.
          split; [unfold clear_flags; rewrite Hp; reflexivity|]. split; assumption.
        * rewrite ?El, ?St. cbn [andb fst snd]. rewrite ?El, ?St. cbn [andb].
          split; [reflexivity|]. split; [reflexivity|]. split; [reflexivity|].
          intros f' c' Heq. injection Heq as <- <-. congruence.
    - destruct (get j items0) as [[f0 c0]|] eqn:E0.
      + destruct (pre_has _ _ E0) as (f & c & Hc). congruence.
      + split; [reflexivity|]. split; [reflexivity|]. split; [reflexivity|]. intros; discriminate.
  Qed.

  Lemma tsd_commit_eq : commit_items e items2 = commit_items e items.
  Proof.
    destruct items2_facts as [Hs2 _]. apply fm_ext; [exact Hs2|exact Hs|]. intros k. apply (slot_views k).
  Qed.

  Lemma tsd_rm_eq : rm_keys items2 = rm_keys items.
  Proof.
    destruct items2_facts as [Hs2 _]. unfold rm_keys.
    change (map fst (filter is_removed ?l)) with (keys (filter is_removed l)).
    rewrite <- !(keys_fm is_removed (fun _ => tt)). f_equal.
    apply fm_ext; [exact Hs2|exact Hs|]. intros k. apply (slot_views k).
  Qed.

  Lemma tsd_md_eq : md_of e items2 = md_of e items.
  Proof.
    destruct items2_facts as [Hs2 _]. apply fm_ext; [exact Hs2|exact Hs|]. intros k. apply (slot_views k).
  Qed.

  Lemma tsd_good_commit : ksorted (commit_items e items) /\
    Forall (fun kv => fst (snd kv) = clean_flags /\ nvalid (snd (snd kv)) = true /\ good e (snd (snd kv))) (commit_items e items).
  Proof.
    split; [apply ksorted_fm, Hs|]. apply Forall_forall. intros [k [f c]] Hin.
    apply In_get in Hin; [|apply ksorted_fm, Hs]. unfold commit_items in Hin. rewrite get_fm in Hin by exact Hs.
    destruct (get k items) as [[f' c']|] eqn:Eg; [|discriminate]. unfold slot_live in Hin. cbn [fst snd] in Hin.
    destruct (f_live f') eqn:El; [|discriminate]. injection Hin as <- <-.
    destruct (slot_views k) as (_ & _ & _ & H). cbn [fst snd]. apply (H f' c' Eg El).
  Qed.
End DictCase.

Lemma recreates_tsd e : good e (fresh e) -> Recreates e -> Recreates (TSD e).
Proof.
  intros Hfresh He pre live Hg Ht.
  destruct pre as [| | |m0 v0 items0|]; try contradiction. destruct live as [| | |m v items|]; try contradiction.
  destruct Hg as (-> & Hs0 & HG0). destruct Ht as (-> & -> & Hs & HT & HH & Heff).
  assert (Hmem : forall j, mem j (rm_keys items) = match get j items with Some (f, _) => f_removed f | None => false end)
    by (intros j; apply mem_rm; assumption).
  assert (Hgmd : forall j, get j (md_of e items) = match get j items with
                              | Some (f, c) => if f_live f && f_modified f && nvalid c then Some (capture e c) else None
                              | None => None end)
    by (intros j; apply get_md; assumption).
  assert (Hrmpre : forall k, In k (rm_keys items) -> exists c, get k items0 = Some (clean_flags, c))
    by (intros k; eapply rm_in_pre; eassumption).
  assert (Heffb : has_effect (TSD e) (NDict false v0 items0) (DDict (rm_keys items) (md_of e items)) = true).
  { cbn [has_effect]. destruct (md_of e items) as [|kd mdr] eqn:Emd; [|reflexivity]. cbn [is_nil negb].
    destruct (rm_keys items) as [|k r] eqn:Erm.
    - cbn [is_nil negb nvalid]. destruct Heff as [Hex| ->]; [|reflexivity]. exfalso.
      apply Exists_exists in Hex. destruct Hex as ([k [f c]] & Hin & Hcase). cbn [fst snd] in Hcase.
      apply In_get in Hin; [|exact Hs].
      destruct Hcase as [Hr|[Hl Hm]].
      + specialize (Hmem k). rewrite Hin, Hr in Hmem. discriminate.
      + pose proof (tick_slot_at _ _ _ _ _ _ HT Hin) as St. unfold slot_tick in St. rewrite Hl in St.
        assert (Hv : nvalid c = true).
        { destruct (get k items0) as [[f0 c0]|] eqn:E0.
          - destruct St as (_ & _ & Htk). rewrite Hm in Htk.
            assert (Hg0 : good e c0) by (eapply pre_slot; eassumption).
            eapply child_recreated; eassumption.
          - destruct St as (_ & _ & _ & Htk). eapply child_recreated; eassumption. }
        specialize (Hgmd k). rewrite Hin, Hl, Hm, Hv in Hgmd. discriminate.
    - cbn [is_nil negb existsb]. destruct (Hrmpre k) as [c Hc]; [left; reflexivity|].
      unfold dict_contains. rewrite Hc. reflexivity. }
  unfold recreates. rewrite capture_tsd, apply_eq, Heffb, fold_erase_node.
  assert (Hs1 : ksorted (fold_left (fun it k => erase_items k it) (rm_keys items) items0))
    by (eapply items1_facts; eassumption).
  assert (Hnd : NoDup (map fst (md_of e items))) by (apply md_nodup; assumption).
  assert (Hrdy : Forall (child_ready e (fold_left (fun it k => erase_items k it) (rm_keys items) items0)) (md_of e items))
    by (eapply md_ready; eassumption).
  destruct (fold_child e (md_of e items) _ (false || negb (is_nil (rm_keys items))) (v0 || negb (is_nil (rm_keys items)))
              Hs1 Hnd Hrdy) as (F1 & _ & _).
  rewrite F1. cbn [dict_touch nmod nvalid]. rewrite !commit_tsd, !capture_tsd.
  erewrite tsd_commit_eq; try eassumption. erewrite tsd_rm_eq; try eassumption. erewrite tsd_md_eq; try eassumption.
  assert (HGC : ksorted (commit_items e items) /\
    Forall (fun kv => fst (snd kv) = clean_flags /\ nvalid (snd (snd kv)) = true /\ good e (snd (snd kv))) (commit_items e items))
    by (eapply tsd_good_commit with (items0 := items0); eassumption).
  destruct HGC as [G1 G2]. cbn [good]. repeat split; try reflexivity; assumption.
Qed.

(* ------------------------------------------------------------------ the round trip, every shape *)
Theorem recreates_all : forall sh, wf_shape sh -> Recreates sh.
Proof.
  induction sh as [| |p m| |e IH|n e IH|fs IH] using shape_ind'; intros Hwf.
  - intros pre live; apply recreates_ts.
  - intros pre live; apply recreates_signal.
  - intros pre live; apply recreates_tsw.
  - intros pre live; apply recreates_tss.
  - apply recreates_tsd; [apply good_fresh, Hwf|apply IH, Hwf].
  - apply recreates_tsl, IH, Hwf.
  - apply recreates_tsb. apply wf_tsb_forall in Hwf.
    induction IH as [|f r Hf Hr IHr]; constructor; inversion Hwf; subst; auto.
Qed.

(* the property's two sentences about one tick *)
Corollary apply_capture_value sh pre live : wf_shape sh -> good sh pre -> tick sh pre live ->
  commit sh (apply sh pre (capture sh live)) = commit sh live /\
  nvalid (apply sh pre (capture sh live)) = nvalid live /\ nmod (apply sh pre (capture sh live)) = nmod live.
Proof.
  intros Hwf Hg Ht. destruct (recreates_all sh Hwf pre live Hg Ht) as (A & B & C & D & E & _).
  repeat split; congruence.
Qed.

Corollary capture_apply_delta sh pre live : wf_shape sh -> good sh pre -> tick sh pre live ->
  capture sh (apply sh pre (capture sh live)) = capture sh live.
Proof. intros Hwf Hg Ht. apply (recreates_all sh Hwf pre live Hg Ht). Qed.

Lemma good_commit_tick sh pre live : wf_shape sh -> good sh pre -> tick sh pre live -> good sh (commit sh live).
Proof. intros Hwf Hg Ht. apply (recreates_all sh Hwf pre live Hg Ht). Qed.

(* ------------------------------------------------------------------ every tick is observable (so it is recorded) *)
Lemma tick_flags : forall sh, wf_shape sh -> forall pre live, good sh pre -> tick sh pre live -> nmod live = true /\ nvalid live = true.
Proof. intros sh Hwf pre live Hg Ht. destruct (recreates_all sh Hwf pre live Hg Ht) as (_ & _ & C & D & _). auto. Qed.

Lemma tick_observable : forall sh, wf_shape sh -> forall pre live, good sh pre -> tick sh pre live ->
  observable sh live (capture sh live) = true.
Proof.
  induction sh as [| |p m| |e IH|n e IH|fs IH] using shape_ind'; intros Hwf pre live Hg Ht.
  - destruct pre; try contradiction; destruct live; try contradiction. destruct Ht as [-> [z ->]]. reflexivity.
  - destruct pre; try contradiction; destruct live; try contradiction. destruct Ht as [-> ->]. reflexivity.
  - destruct (tick_flags _ Hwf _ _ Hg Ht) as [Hm Hv].
    destruct pre as [|m0 v0| | |]; try contradiction; destruct live as [|m1 v1| | |]; try contradiction.
    destruct Hg as [_ Hp]. destruct Ht as [-> [z ->]].
    destruct (lastn_app_last p v0 z Hp) as [l' Hl]. cbn [observable capture nmod]. rewrite Hl, last_opt_app. reflexivity.
  - destruct pre; try contradiction; destruct live; try contradiction.
    destruct Ht as (-> & -> & _). reflexivity.
  - destruct pre; try contradiction; destruct live; try contradiction.
    destruct Ht as (-> & -> & _). reflexivity.
  - destruct (tick_flags _ Hwf _ _ Hg Ht) as [Hm Hv].
    destruct pre as [| | | |m0 v0 kids0]; try contradiction; destruct live as [| | | |m1 v1 kids]; try contradiction.
    destruct Hg as (-> & Hlen & Hg). destruct Ht as (-> & -> & HF & Hex).
    change (capture (TSL n e) (NIdx true true kids)) with (DList (tsl_items e 0 kids)).
    cbn [observable nmod andb].
    assert (Hvalid : Forall (fun c => nmod c = true -> nvalid c = true) kids).
    { clear - HF Hwf Hg. induction HF as [|c0 c k0 k Hc HF IHF]; constructor.
      - inversion Hg; subst. destruct Hc as [[Hm Htk]|Heq]; [|subst c].
        + intros _. apply (tick_flags e Hwf c0 c); assumption.
        + intros Hm. rewrite (good_nmod e c0) in Hm by assumption. discriminate.
      - inversion Hg; subst. apply IHF; assumption. }
    pose proof (tsl_items_nonempty e 0 kids Hvalid Hex) as Hne.
    destruct (tsl_items e 0 kids); [congruence|reflexivity].
  - destruct pre as [| | | |m0 v0 kids0]; try contradiction; destruct live as [| | | |m1 v1 kids]; try contradiction.
    destruct Hg as (-> & Hg). destruct Ht as (-> & -> & Ht & Hex).
    change (capture (TSB fs) (NIdx true true kids)) with (DBundle (zipw cap_field fs kids)).
    cbn [observable andb]. apply wf_tsb_forall in Hwf.
    revert kids0 kids Hg Ht Hex. induction IH as [|f r Hf Hr IHr]; intros kids0 kids Hg Ht Hex;
      destruct kids0 as [|c0 k0]; destruct kids as [|c k]; cbn in Hg, Ht; try contradiction.
    + inversion Hex.
    + inversion Hwf as [|? ? Wf Wr]; subst. destruct Hg as [Hgc Hgr]. destruct Ht as [Hc Htr].
      cbn [zipw zipw3 existsb].
      destruct Hc as [[Hm Htk]|[-> Hne]].
      * destruct (tick_flags f Wf c0 c Hgc Htk) as [_ Hv].
        unfold cap_field at 1. rewrite Hm, Hv. cbn [andb]. rewrite (Hf Wf c0 c Hgc Htk). reflexivity.
      * rewrite (good_nmod _ _ Hgc). cbn [andb orb]. apply (IHr Wr k0 k Hgr Htr).
        inversion Hex as [? ? Hm|? ? Hex']; subst; [|exact Hex'].
        rewrite (good_nmod _ _ Hgc) in Hm. discriminate.
Qed.

(* ------------------------------------------------------------------ record, then replay *)
(* the replay node, entry by entry (replay_step at cursor i reads entry i) *)
Definition step_entry (sh : shape) (en : option delta) (out : node) : node :=
  match en with Some d => apply sh (commit sh out) d | None => commit sh out end.

Fixpoint replay_list (sh : shape) (ens : buffer) (out : node) : list node :=
  match ens with [] => [] | en :: r => step_entry sh en out :: replay_list sh r (step_entry sh en out) end.

Fixpoint replay_last (sh : shape) (ens : buffer) (out : node) : node :=
  match ens with [] => out | en :: r => replay_last sh r (step_entry sh en out) end.

Lemma replay_step_entry sh buf i out : (i < length buf)%nat ->
  replay_step sh buf i out = step_entry sh (nth i buf None) out.
Proof.
  intros Hi. unfold replay_step, step_entry. rewrite (nth_error_nth' buf None Hi).
  destruct (nth i buf None); reflexivity.
Qed.

Lemma replay_list_app sh a b out :
  replay_list sh (a ++ b) out = replay_list sh a out ++ replay_list sh b (replay_last sh a out).
Proof. revert out; induction a as [|en r IH]; intros out; cbn; [reflexivity|]. f_equal. apply IH. Qed.

Lemma replay_last_app sh a b out : replay_last sh (a ++ b) out = replay_last sh b (replay_last sh a out).
Proof. revert out; induction a as [|en r IH]; intros out; cbn; [reflexivity|]. apply IH. Qed.

(* what a consumer of the replayed output sees, cycle by cycle: a delta when it ticks *)
Definition stream (sh : shape) (outs : list node) : buffer :=
  map (fun o => if nmod o then Some (capture sh o) else None) outs.

(* holes: the output just sits there *)
Lemma replay_holes sh s : good sh s -> forall k out, commit sh out = s ->
  replay_list sh (repeat None k) out = repeat s k /\ commit sh (replay_last sh (repeat None k) out) = s.
Proof.
  intros Hg. induction k as [|k IH]; intros out Ho; cbn [repeat replay_list replay_last step_entry].
  - split; [reflexivity|exact Ho].
  - rewrite Ho. destruct (IH s (commit_good _ _ Hg)) as [I1 I2]. rewrite I1, I2. split; reflexivity.
Qed.

Lemma stream_holes sh s k : good sh s -> stream sh (repeat s k) = repeat None k.
Proof.
  intros Hg. unfold stream. induction k as [|k IH]; cbn [repeat map]; [reflexivity|].
  rewrite (good_nmod _ _ Hg), IH. reflexivity.
Qed.

Lemma filter_nmod_holes sh s k : good sh s -> filter nmod (repeat s k) = [].
Proof. intros Hg. induction k as [|k IH]; cbn [repeat filter]; [reflexivity|]. rewrite (good_nmod _ _ Hg). exact IH. Qed.

(* a history: at strictly increasing cycle times, the successive post-tick states of a
   time-series, each a coherent effective tick of the committed previous one;  [len] is the
   length the cycle-aligned buffer has reached *)
Fixpoint chain (sh : shape) (s : node) (len : nat) (h : list (Z * node)) : Prop :=
  match h with
  | [] => True
  | (t, live) :: r =>
      MIN_ST + Z.of_nat len <= t /\ tick sh s live /\ chain sh (commit sh live) (S (Z.to_nat (t - MIN_ST))) r
  end.

Definition rec_hist (sh : shape) (h : list (Z * node)) (buf : buffer) : buffer :=
  fold_left (fun b tl => recorder sh (fst tl) (snd tl) b) h buf.

Lemma replay_record_gen sh : wf_shape sh -> forall h s out buf0,
  good sh s -> commit sh out = s -> chain sh s (length buf0) h ->
  exists suffix,
    rec_hist sh h buf0 = buf0 ++ suffix /\
    stream sh (replay_list sh suffix out) = suffix /\
    map (commit sh) (filter nmod (replay_list sh suffix out)) = map (fun tl => commit sh (snd tl)) h /\
    Forall2 (fun tl o => nth_error (buf0 ++ suffix) (Z.to_nat (fst tl - MIN_ST)) = Some (Some (capture sh (snd tl))))
            h (filter nmod (replay_list sh suffix out)).
Proof.
  intros Hwf. induction h as [|[t live] r IH]; intros s out buf0 Hg Ho Hc.
  - exists []. cbn. rewrite app_nil_r. repeat split; constructor.
  - cbn [chain] in Hc. destruct Hc as (Ht & Htk & Hc).
    destruct (recreates_all sh Hwf s live Hg Htk) as (Rm & Rv & Lm & Lv & Rc & Rcap & Rg).
    pose proof (tick_observable sh Hwf s live Hg Htk) as Hobs.
    set (d := capture sh live) in *.
    set (k := (Z.to_nat (t - MIN_ST) - length buf0)%nat).
    assert (Hrec : recorder sh t live buf0 = buf0 ++ repeat None k ++ [Some d]).
    { unfold recorder. rewrite Lm. fold d. rewrite Hobs. reflexivity. }
    assert (Hlen : length (buf0 ++ repeat None k ++ [Some d]) = S (Z.to_nat (t - MIN_ST))).
    { rewrite !app_length, repeat_length. cbn [length]. unfold k, MIN_ST in *. lia. }
    cbn [rec_hist fold_left fst snd]. rewrite Hrec.
    destruct (replay_holes sh s Hg k out Ho) as [Hh1 Hh2].
    set (o1 := replay_last sh (repeat None k) out) in *.
    set (o2 := apply sh (commit sh o1) d).
    assert (Ho2 : commit sh o2 = commit sh live) by (unfold o2; rewrite Hh2; exact Rc).
    rewrite <- Hlen in Hc.
    destruct (IH (commit sh live) o2 (buf0 ++ repeat None k ++ [Some d]) Rg Ho2 Hc) as (suf & S1 & S2 & S3 & S4).
    exists (repeat None k ++ [Some d] ++ suf).
    fold (rec_hist sh r (buf0 ++ repeat None k ++ [Some d])). rewrite S1.
    assert (Hrl : replay_list sh (repeat None k ++ [Some d] ++ suf) out = repeat s k ++ o2 :: replay_list sh suf o2).
    { rewrite replay_list_app, Hh1. reflexivity. }
    rewrite Hrl.
    assert (Hm2 : nmod o2 = true) by (unfold o2; rewrite Hh2; exact Rm).
    assert (Hc2 : capture sh o2 = d) by (unfold o2; rewrite Hh2; exact Rcap).
    split; [rewrite <- !app_assoc; reflexivity|]. split; [|split].
    + unfold stream in *. rewrite map_app. fold (stream sh (repeat s k)). rewrite (stream_holes _ _ _ Hg).
      cbn [map]. rewrite Hm2, Hc2, S2. reflexivity.
    + rewrite filter_app, (filter_nmod_holes _ _ _ Hg). cbn [app filter]. rewrite Hm2. cbn [map snd].
      rewrite Ho2, S3. reflexivity.
    + rewrite filter_app, (filter_nmod_holes _ _ _ Hg). cbn [app filter]. rewrite Hm2.
      constructor.
      * cbn [fst snd]. fold d.
        assert (Hpos : Z.to_nat (t - MIN_ST) = length (buf0 ++ repeat None k)).
        { rewrite app_length, repeat_length. unfold k, MIN_ST in *. lia. }
        cbn [app]. rewrite app_assoc. rewrite Hpos. apply nth_error_app_len.
      * assert (Heq : (buf0 ++ repeat None k ++ [Some d]) ++ suf = buf0 ++ repeat None k ++ [Some d] ++ suf)
          by (rewrite <- !app_assoc; reflexivity).
        rewrite Heq in S4. exact S4.
Qed.

(* the cursor-driven loop of the replay node (run_replay without the run's end) is [replay_list] *)
Fixpoint replay_cursor (sh : shape) (buf : buffer) (fuel i : nat) (out : node) : list node :=
  match fuel with
  | O => []
  | S f => if (length buf <=? i)%nat then []
           else replay_step sh buf i out :: replay_cursor sh buf f (S i) (replay_step sh buf i out)
  end.

Lemma replay_cursor_list sh suf : forall pfx out,
  replay_cursor sh (pfx ++ suf) (length suf) (length pfx) out = replay_list sh suf out.
Proof.
  induction suf as [|en r IH]; intros pfx out; cbn [length replay_cursor replay_list]; [reflexivity|].
  assert (Hlt : (length pfx < length (pfx ++ en :: r))%nat) by (rewrite app_length; cbn; lia).
  destruct (length (pfx ++ en :: r) <=? length pfx)%nat eqn:E; [apply Nat.leb_le in E; lia|].
  rewrite replay_step_entry by exact Hlt.
  assert (Hn : nth (length pfx) (pfx ++ en :: r) None = en).
  { rewrite app_nth2 by lia. rewrite Nat.sub_diag. reflexivity. }
  rewrite Hn. f_equal.
  specialize (IH (pfx ++ [en]) (step_entry sh en out)).
  rewrite <- app_assoc in IH. cbn [app] in IH. rewrite app_length in IH. cbn [length] in IH.
  rewrite Nat.add_1_r in IH. exact IH.
Qed.

Theorem replay_record_id_gen sh h : wf_shape sh -> chain sh (fresh sh) 0 h ->
  let buf := rec_hist sh h [] in
  let outs := replay_cursor sh buf (length buf) 0 (fresh sh) in
  stream sh outs = buf /\
  map (commit sh) (filter nmod outs) = map (fun tl => commit sh (snd tl)) h /\
  Forall2 (fun tl o => nth_error buf (Z.to_nat (fst tl - MIN_ST)) = Some (Some (capture sh (snd tl)))) h (filter nmod outs).
Proof.
  intros Hwf Hc. pose proof (good_fresh sh Hwf) as Hg.
  destruct (replay_record_gen sh Hwf h (fresh sh) (fresh sh) [] Hg (commit_good _ _ Hg) Hc) as (suf & S1 & S2 & S3 & S4).
  cbn [app] in S1, S4. cbn zeta. rewrite S1.
  pose proof (replay_cursor_list sh suf [] (fresh sh)) as Hrc. cbn [app length] in Hrc. rewrite Hrc.
  repeat split; assumption.
Qed.

(* ------------------------------------------------------------------ the sparse, absolute-time recording *)
Definition srec_hist (sh : shape) (h : list (Z * node)) (buf : sbuffer) : sbuffer :=
  fold_left (fun b tl => srecorder sh (fst tl) (snd tl) b) h buf.

Definition entries_of (sh : shape) (h : list (Z * node)) : sbuffer :=
  map (fun tl => (fst tl, capture sh (snd tl))) h.

(* the evaluations of the sparse replay node in which its output ticks (run_sreplay of Delta.v
   without the end of the run and the printing) *)
Fixpoint sreplay_run (sh : shape) (fuel : nat) (now : Z) (ents : sbuffer) (out : node) : list (Z * node) :=
  match fuel with
  | O => []
  | S f =>
      let (ents', out') := sparse_scan sh now ents (commit sh out) in
      let here := if nmod out' then [(now, out')] else [] in
      match ents' with
      | (w, _) :: _ => if now <? w then here ++ sreplay_run sh f w ents' out' else here
      | [] => here
      end
  end.

Lemma srec_hist_chain sh : wf_shape sh -> forall h s len buf, good sh s -> chain sh s len h ->
  srec_hist sh h buf = buf ++ entries_of sh h.
Proof.
  intros Hwf. induction h as [|[t live] r IH]; intros s len buf Hg Hc; cbn [srec_hist fold_left entries_of map].
  - rewrite app_nil_r. reflexivity.
  - destruct Hc as (_ & Htk & Hc). destruct (tick_flags sh Hwf s live Hg Htk) as [Hm _].
    unfold srecorder at 2. cbn [fst snd]. rewrite Hm.
    fold (srec_hist sh r (buf ++ [(t, capture sh live)])).
    rewrite (IH (commit sh live) _ _ (good_commit_tick sh s live Hwf Hg Htk) Hc).
    rewrite <- app_assoc. reflexivity.
Qed.

(* replaying from the time of the first remaining entry *)
Lemma sreplay_at sh : wf_shape sh -> forall h s out len t live fuel,
  good sh s -> commit sh out = s -> chain sh s len ((t, live) :: h) -> MIN_ST <= t -> (length h < fuel)%nat ->
  let run := sreplay_run sh fuel t (entries_of sh ((t, live) :: h)) out in
  map fst run = map fst ((t, live) :: h) /\
  map (fun to => capture sh (snd to)) run = map (fun tl => capture sh (snd tl)) ((t, live) :: h) /\
  map (fun to => commit sh (snd to)) run = map (fun tl => commit sh (snd tl)) ((t, live) :: h).
Proof.
  intros Hwf. induction h as [|[t2 live2] r IH]; intros s out len t live fuel Hg Ho Hc Ht Hf;
    destruct fuel as [|f]; try lia; destruct Hc as (Hlen & Htk & Hc);
    destruct (recreates_all sh Hwf s live Hg Htk) as (Rm & Rv & Lm & Lv & Rc & Rcap & Rg).
  - cbn [entries_of map fst snd sreplay_run sparse_scan]. rewrite Z.ltb_irrefl. rewrite Ho.
    cbn [sparse_scan]. rewrite Rm. cbn. rewrite Rcap, Rc. repeat split; reflexivity.
  - assert (Ht2 : t < t2).
    { destruct Hc as (Hl2 & _). unfold MIN_ST in *. lia. }
    cbn [entries_of map fst snd sreplay_run sparse_scan]. rewrite Z.ltb_irrefl. rewrite Ho.
    cbn [sparse_scan]. assert (E1 : (t2 <? t) = false) by lia. assert (E2 : (t <? t2) = true) by lia.
    rewrite E1, E2, Rm.
    specialize (IH (commit sh live) (apply sh s (capture sh live)) _ t2 live2 f Rg Rc Hc).
    cbn zeta in IH. cbn [entries_of map fst snd] in IH.
    destruct IH as (I1 & I2 & I3); [unfold MIN_ST in *; lia|cbn [length] in Hf; lia|].
    rewrite ?E2. cbn [app map fst snd]. rewrite I1, I2, I3, Rcap, Rc. repeat split; reflexivity.
Qed.

(* Recording a history into the sparse (time, delta) list and replaying it from any start time
   not later than the first tick reproduces the ticks at their absolute times, with the same
   deltas and values. *)
Theorem sparse_replay_record_id_gen sh h rs : wf_shape sh -> chain sh (fresh sh) 0 h ->
  match h with (t, _) :: _ => rs <= t | [] => True end ->
  let ents := srec_hist sh h [] in
  let run := sreplay_run sh (S (length ents)) rs ents (fresh sh) in
  ents = entries_of sh h /\
  map fst run = map fst h /\
  map (fun to => capture sh (snd to)) run = map snd ents /\
  map (fun to => commit sh (snd to)) run = map (fun tl => commit sh (snd tl)) h.
Proof.
  intros Hwf Hc Hrs. pose proof (good_fresh sh Hwf) as Hg. cbn zeta.
  rewrite (srec_hist_chain sh Hwf h (fresh sh) 0 [] Hg Hc). cbn [app].
  split; [reflexivity|].
  assert (Hlen : length (entries_of sh h) = length h) by (unfold entries_of; apply map_length).
  assert (Hsnd : map snd (entries_of sh h) = map (fun tl => capture sh (snd tl)) h).
  { unfold entries_of. rewrite map_map. reflexivity. }
  rewrite Hlen, Hsnd.
  destruct h as [|[t live] r].
  - cbn [length entries_of map sreplay_run sparse_scan]. rewrite (commit_good _ _ Hg), (good_nmod _ _ Hg).
    repeat split; reflexivity.
  - assert (Ht : MIN_ST <= t) by (destruct Hc as (H & _); cbn in H; unfold MIN_ST in *; lia).
    destruct (Z.eq_dec rs t) as [->|Hne].
    + apply (sreplay_at sh Hwf r (fresh sh) (fresh sh) 0%nat t live (S (length ((t, live) :: r))) Hg (commit_good _ _ Hg) Hc Ht).
      cbn [length]. lia.
    + (* the node first wakes at rs < t, finds nothing due and re-arms for t *)
      cbn [sreplay_run entries_of map fst snd sparse_scan].
      assert (E1 : (t <? rs) = false) by lia. assert (E2 : (rs <? t) = true) by lia.
      rewrite E1. rewrite (commit_good _ _ Hg). rewrite E2. rewrite E2. rewrite (good_nmod _ _ Hg). cbn [app].
      apply (sreplay_at sh Hwf r (fresh sh) (fresh sh) 0%nat t live (length ((t, live) :: r)) Hg (commit_good _ _ Hg) Hc Ht).
      cbn [length]. lia.
Qed.

(* ------------------------------------------------------------------ RECOVER: the seed is the state *)
Definition recover_from (sh : shape) (ents : sbuffer) (T : Z) (out : node) : node :=
  fold_left (fun out td => if fst td <=? T then apply sh (commit sh out) (snd td) else out) ents out.
Definition last_state_from (h : list (Z * node)) (T : Z) (acc : node) : node :=
  fold_left (fun acc tl => if fst tl <=? T then snd tl else acc) h acc.

Lemma recover_unfold sh ents T : recover sh ents T = recover_from sh ents T (fresh sh).
Proof. reflexivity. Qed.

(* entries later than T are not folded (the recording is in time order) *)
Lemma recover_later sh : forall h s len T out acc, chain sh s len h -> T < MIN_ST + Z.of_nat len ->
  recover_from sh (entries_of sh h) T out = out /\ last_state_from h T acc = acc.
Proof.
  induction h as [|[t live] r IH]; intros s len T out acc Hc HT; [split; reflexivity|].
  destruct Hc as (Ht & _ & Hc). cbn [entries_of map fst snd recover_from last_state_from fold_left].
  assert (E : (t <=? T) = false) by lia. rewrite E.
  apply (IH (commit sh live) _ T out acc Hc). unfold MIN_ST in *. lia.
Qed.

Lemma recover_gen sh : wf_shape sh -> forall h s len T out acc,
  good sh s -> commit sh out = s -> commit sh acc = s -> chain sh s len h ->
  commit sh (recover_from sh (entries_of sh h) T out) = commit sh (last_state_from h T acc).
Proof.
  intros Hwf. induction h as [|[t live] r IH]; intros s len T out acc Hg Ho Ha Hc.
  - cbn. congruence.
  - pose proof Hc as Hc0. destruct Hc as (Ht & Htk & Hc).
    cbn [entries_of map fst snd recover_from last_state_from fold_left].
    destruct (t <=? T) eqn:E.
    + destruct (recreates_all sh Hwf s live Hg Htk) as (_ & _ & _ & _ & Rc & _ & Rg).
      rewrite Ho.
      change (commit sh (recover_from sh (entries_of sh r) T (apply sh s (capture sh live))) = commit sh (last_state_from r T live)).
      apply (IH (commit sh live) _ T _ live Rg Rc eq_refl Hc).
    + destruct (recover_later sh r (commit sh live) _ T out acc Hc) as [R1 R2]; [unfold MIN_ST in *; lia|].
      change (commit sh (recover_from sh (entries_of sh r) T out) = commit sh (last_state_from r T acc)).
      rewrite R1, R2. congruence.
Qed.

(* The RECOVER seed as of any time T - the fold of the recorded deltas up to T, each applied at its
   own evaluation time - is the state the recorded time-series had at T: the value of its last
   tick at or before T (nothing, if there is none). *)
Theorem recover_state_gen sh h T : wf_shape sh -> chain sh (fresh sh) 0 h ->
  commit sh (recover sh (srec_hist sh h []) T) = commit sh (last_state_from h T (fresh sh)).
Proof.
  intros Hwf Hc. pose proof (good_fresh sh Hwf) as Hg.
  rewrite (srec_hist_chain sh Hwf h (fresh sh) 0 [] Hg Hc). cbn [app]. rewrite recover_unfold.
  apply (recover_gen sh Hwf h (fresh sh) 0%nat T (fresh sh) (fresh sh) Hg (commit_good _ _ Hg) (commit_good _ _ Hg) Hc).
Qed.

(* a second run that finds the first run's recording in the GlobalState appends to it *)
Theorem continued_recording_gen sh h1 h2 len2 : wf_shape sh ->
  chain sh (fresh sh) 0 h1 -> chain sh (fresh sh) len2 h2 ->
  srec_hist sh h2 (srec_hist sh h1 []) = entries_of sh h1 ++ entries_of sh h2.
Proof.
  intros Hwf H1 H2. pose proof (good_fresh sh Hwf) as Hg.
  rewrite (srec_hist_chain sh Hwf h1 (fresh sh) 0 [] Hg H1). cbn [app].
  apply (srec_hist_chain sh Hwf h2 (fresh sh) len2 _ Hg H2).
Qed.

(* ------------------------------------------------------------------ the side conditions are necessary *)
(* Each statement below is the unconditional version of the round trip, refuted on a concrete
   history; every witness is replayed on the implementation (docs/notes-delta.md). *)

(* A. a bundle with a never-ticked set field beside a ticking scalar field: apply_delta validates
      the set field (initialize_tsb_delta_defaults + the empty-tick validation rule) *)
Definition wA_shape := TSB [TSS; TS].
Definition wA_live := run_ops wA_shape [mkOp [1] 1 5] (fresh wA_shape).
Lemma apply_capture_unconditional_refuted_tsb :
  exists sh pre ops, good sh pre /\
    let live := run_ops sh ops pre in
    veq sh live (apply sh pre (capture sh live)) = false.
Proof. exists wA_shape, (fresh wA_shape), [mkOp [1] 1 5]. split; [apply good_fresh; cbn; auto|vm_compute; reflexivity]. Qed.

(* B. a tick with an empty delta on an already valid set (remove + add of one element): it is
      observable, so it is recorded, but apply_delta drops it *)
Definition wB_pre := commit TSS (run_ops TSS [mkOp [] 3 1] (fresh TSS)).
Lemma replay_same_cycles_unconditional_refuted_empty_tick :
  exists sh pre ops, good sh pre /\
    let live := run_ops sh ops pre in
    nmod live = true /\ observable sh live (capture sh live) = true /\
    nmod (apply sh pre (capture sh live)) = false.
Proof.
  exists TSS, wB_pre, [mkOp [] 4 1; mkOp [] 3 1]. split; [vm_compute; repeat split; exact I|].
  vm_compute. repeat split.
Qed.

(* C. a dictionary key whose child never became valid is in the value but not in the delta *)
Lemma apply_capture_unconditional_refuted_unset_child :
  exists sh pre ops, good sh pre /\
    let live := run_ops sh ops pre in
    veq sh live (apply sh pre (capture sh live)) = false.
Proof. exists (TSD TS), (fresh (TSD TS)), [mkOp [] 8 3]. split; [apply good_fresh; exact I|vm_compute; reflexivity]. Qed.

(* D (repaired in the tree; kept as a named variant).  The insert_key rule BEFORE the repair:
   a resurrected slot is not marked modified again.  Child changed, key erased, key re-inserted
   in one cycle: remove_key cleared the slot's modified_ bit, the child (already marked this
   cycle) does not notify twice, so the delta omitted the change. *)
Definition dict_at_old (e : shape) (k : Z) (n : node) : node :=
  match n with
  | NDict _ _ items =>
      match get k items with
      | Some (f, c) => if f_live f then n else NDict true true (put k (resurrect_flags f c, c) items)
      | None => NDict true true (put k (flags0, fresh e) items)
      end
  | _ => n
  end.
Definition dict_child_old (e : shape) (k : Z) (g : node -> node) (n : node) : node :=
  match dict_at_old e k n with
  | NDict m v items =>
      match get k items with
      | Some (f, c) =>
          let c' := g c in
          if negb (nmod c) && nmod c' then NDict true true (put k (slot_child_modified f c', c') items)
          else NDict m v (put k (f, c') items)
      | None => NDict m v items
      end
  | x => x
  end.
Definition leaf_op_old (sh : shape) (code arg : Z) (n : node) : node :=
  match sh with
  | TSD e => if code =? 5 then dict_touch n else if code =? 6 then dict_clear n
             else if code =? 7 then dict_erase arg n else dict_at_old e arg n
  | _ => leaf_op sh code arg n
  end.
Fixpoint do_op_old (path : list Z) (sh : shape) (code arg : Z) (n : node) : node :=
  match path with
  | [] => leaf_op_old sh code arg n
  | p :: rest =>
      match child_shape sh p with
      | Some c =>
          match sh with
          | TSD e => dict_child_old e p (do_op_old rest c code arg) n
          | _ => idx_child (Z.to_nat p) (do_op_old rest c code arg) n
          end
      | None => n
      end
  end.
Definition run_ops_old (sh : shape) (ops : list sop) (n : node) : node :=
  fold_left (fun s o => do_op_old (o_path o) sh (o_code o) (o_arg o) s) ops n.

Definition wD_pre := commit (TSD TSS) (run_ops (TSD TSS) [mkOp [1] 3 10] (fresh (TSD TSS))).
Definition wD_ops := [mkOp [1] 3 12; mkOp [] 7 1; mkOp [] 8 1].

Lemma wD_pre_good : good (TSD TSS) wD_pre.
Proof. vm_compute. repeat split; try exact I. constructor; [|constructor]. cbn. repeat split; exact I. Qed.

Lemma apply_capture_old_rule_refuted_reinserted_key :
  exists sh pre ops, good sh pre /\
    let live := run_ops_old sh ops pre in
    veq sh live (apply sh pre (capture sh live)) = false.
Proof. exists (TSD TSS), wD_pre, wD_ops. split; [exact wD_pre_good|vm_compute; reflexivity]. Qed.

(* ------------------------------------------------------------------ erase + re-create in one cycle nets out *)
Lemma put_same {A} k (v : A) l : ksorted l -> get k l = Some v -> put k v l = l.
Proof.
  intros Hs Hg. apply ksorted_ext; [apply ksorted_put, Hs|exact Hs|].
  intros j. rewrite get_put. destruct (j =? k) eqn:E; [|reflexivity].
  apply Z.eqb_eq in E; subst j. symmetry; exact Hg.
Qed.

(* Intended netting (time_series.rst "Slot lifetime": reinsertion within the cycle resurrects the
   same slot without reconstructing its payload): erasing a key of a good dictionary and
   re-creating it in the same cycle leaves exactly the dictionary it was - same keys, the SAME
   child with its contents, nothing added, nothing removed, nothing modified - only marked as
   touched this cycle.  Value and delta agree (nothing happened to the key), and what ticks is an
   empty structural delta. *)
Lemma erase_recreate_nets e m v items k c :
  ksorted items -> get k items = Some (clean_flags, c) -> nmod c = false ->
  dict_at e k (dict_erase k (NDict m v items)) = NDict true true items.
Proof.
  intros Hs Hg Hm. unfold dict_erase. rewrite Hg. cbn [f_live clean_flags f_published f_added].
  unfold dict_at. rewrite get_put, Z.eqb_refl. cbn [f_live].
  unfold resurrect_flags, restore_modified. cbn [f_removed f_added f_modified f_published f_live].
  rewrite Hm. cbn [andb]. rewrite put_put. f_equal. apply put_same; assumption.
Qed.

Corollary erase_recreate_delta_empty e m v items k c :
  good (TSD e) (NDict m v items) -> get k items = Some (clean_flags, c) ->
  let live := dict_at e k (dict_erase k (NDict m v items)) in
  capture (TSD e) live = DDict [] [] /\ commit (TSD e) live = NDict false true items.
Proof.
  intros (-> & Hs & HG) Hg.
  assert (Hgc : good e c) by (apply (Forall_get _ _ _ _ HG Hg)).
  cbn zeta. rewrite (erase_recreate_nets e false v items k c Hs Hg (good_nmod _ _ Hgc)).
  pose proof (commit_good (TSD e) (NDict false true items)) as Hc.
  assert (Hgood : good (TSD e) (NDict false true items)) by (cbn [good]; auto).
  specialize (Hc Hgood). split; [|cbn [commit] in Hc |- *; injection Hc as Hc; rewrite Hc; reflexivity].
  rewrite capture_tsd. f_equal.
  - unfold rm_keys. clear - HG. induction items as [|[j [f x]] r IH]; [reflexivity|].
    inversion HG as [|? ? [Hf _] HG']; subst. cbn in Hf. subst f. cbn [filter is_removed fst snd clean_flags f_removed]. apply IH, HG'.
  - unfold md_of, fm. clear - HG. induction items as [|[j [f x]] r IH]; [reflexivity|].
    inversion HG as [|? ? [Hf _] HG']; subst. cbn in Hf. subst f. cbn [filter live_mod fst snd clean_flags f_live f_modified andb]. apply IH, HG'.
Qed.

(* ------------------------------------------------------------------ sets: EVERY mutation script *)
(* the slot-storage invariant of a set during a cycle, against its pre-tick elements *)
Definition set_inv (el0 : list Z) (n : node) : Prop :=
  match n with
  | NSet _ _ el ad rm =>
      sorted el /\ sorted ad /\ sorted rm /\
      (forall k, mem k ad = true -> mem k el0 = false) /\
      (forall k, mem k rm = true -> mem k el0 = true) /\
      (forall k, mem k el = (mem k el0 && negb (mem k rm)) || mem k ad)
  | _ => False
  end.

Lemma set_inv_add el0 k n : sorted el0 -> set_inv el0 n -> set_inv el0 (set_add k n).
Proof.
  destruct n as [| |m v el ad rm| |]; try contradiction.
  intros Hs0 (Hel & Had & Hrm & Hout & Hin & Heq). unfold set_add.
  destruct (mem k el) eqn:Ekel; [repeat split; assumption|].
  destruct (mem k rm) eqn:Ekrm; cbn [set_inv].
  - repeat split; try assumption; try (apply sorted_ins; assumption); try (apply sorted_del; assumption).
    + intros j Hj. rewrite mem_del in Hj by exact Hrm. apply andb_true_iff in Hj. apply Hin, Hj.
    + intros j. rewrite mem_ins, mem_del by exact Hrm. rewrite Heq.
      destruct (j =? k) eqn:E; cbn [negb andb orb]; [|reflexivity].
      apply Z.eqb_eq in E; subst j. rewrite (Hin k Ekrm). reflexivity.
  - assert (Hk0 : mem k el0 = false).
    { pose proof (Heq k) as H. rewrite Ekel, Ekrm in H. cbn [negb] in H. rewrite andb_true_r in H.
      symmetry in H. apply orb_false_iff in H. apply H. }
    repeat split; try assumption; try (apply sorted_ins; assumption).
    + intros j Hj. rewrite mem_ins in Hj. destruct (j =? k) eqn:E.
      * apply Z.eqb_eq in E; subst j. exact Hk0.
      * apply Hout, Hj.
    + intros j. rewrite !mem_ins, Heq. destruct (j =? k) eqn:E; cbn [orb]; [|reflexivity].
      rewrite orb_true_r. reflexivity.
Qed.

Lemma set_inv_remove el0 k n : sorted el0 -> set_inv el0 n -> set_inv el0 (set_remove k n).
Proof.
  destruct n as [| |m v el ad rm| |]; try contradiction.
  intros Hs0 (Hel & Had & Hrm & Hout & Hin & Heq). unfold set_remove.
  destruct (mem k el) eqn:Ekel; [|repeat split; assumption].
  destruct (mem k ad) eqn:Ekad; cbn [set_inv].
  - repeat split; try assumption; try (apply sorted_del; assumption).
    + intros j Hj. rewrite mem_del in Hj by exact Had. apply andb_true_iff in Hj. apply Hout, Hj.
    + intros j. rewrite !mem_del by assumption. rewrite Heq.
      destruct (j =? k) eqn:E; cbn [negb andb]; [|reflexivity].
      apply Z.eqb_eq in E; subst j. rewrite (Hout k Ekad). reflexivity.
  - assert (Hk0 : mem k el0 = true /\ mem k rm = false).
    { pose proof (Heq k) as H. rewrite Ekel, Ekad in H. rewrite orb_false_r in H. symmetry in H.
      apply andb_true_iff in H. destruct H as [H1 H2]. apply negb_true_iff in H2. auto. }
    destruct Hk0 as [Hk0 Hkrm].
    repeat split; try assumption; try (apply sorted_del; assumption); try (apply sorted_ins; assumption).
    + intros j Hj. rewrite mem_ins in Hj. destruct (j =? k) eqn:E.
      * apply Z.eqb_eq in E; subst j. exact Hk0.
      * apply Hin, Hj.
    + intros j. rewrite mem_del by exact Hel. rewrite mem_ins, Heq.
      destruct (j =? k) eqn:E; cbn [negb andb orb]; [|reflexivity].
      apply Z.eqb_eq in E; subst j. rewrite Ekad, andb_false_r. reflexivity.
Qed.

Lemma set_inv_touch el0 n : set_inv el0 n -> set_inv el0 (set_touch n).
Proof. destruct n; try contradiction. intros H; exact H. Qed.

Lemma set_inv_fold_remove el0 l : forall n, sorted el0 -> set_inv el0 n ->
  set_inv el0 (fold_left (fun s k => set_remove k s) l n).
Proof. induction l as [|x r IH]; intros n Hs H; cbn [fold_left]; [exact H|]. apply IH; [exact Hs|]. apply set_inv_remove; assumption. Qed.

Lemma set_inv_clear el0 n : sorted el0 -> set_inv el0 n -> set_inv el0 (set_clear n).
Proof.
  intros Hs H. destruct n as [| |m v el ad rm| |]; try contradiction. unfold set_clear.
  apply set_inv_touch, set_inv_fold_remove; assumption.
Qed.

Definition set_script := list (Z * Z).    (* (code, arg): 3 add, 4 remove, 5 touch, otherwise clear *)
Definition run_set (ops : set_script) (n : node) : node :=
  fold_left (fun s o => leaf_op TSS (fst o) (snd o) s) ops n.

Lemma set_inv_run el0 ops : forall n, sorted el0 -> set_inv el0 n -> set_inv el0 (run_set ops n).
Proof.
  induction ops as [|[c a] r IH]; intros n Hs H; cbn [run_set fold_left]; [exact H|].
  apply IH; [exact Hs|]. cbn [leaf_op fst snd].
  destruct (c =? 3); [apply set_inv_add; assumption|].
  destruct (c =? 4); [apply set_inv_remove; assumption|].
  destruct (c =? 5); [apply set_inv_touch; assumption|apply set_inv_clear; assumption].
Qed.

Definition is_set (n : node) : Prop := match n with NSet _ _ _ _ _ => True | _ => False end.
Definition is_marked (n : node) : Prop := match n with NSet m v _ _ _ => m = true /\ v = true | _ => False end.

Lemma set_remove_is_set k n : is_set n -> is_set (set_remove k n).
Proof. destruct n as [| |m v el ad rm| |]; try contradiction. intros _. unfold set_remove. destruct (mem k el); [destruct (mem k ad)|]; exact I. Qed.

Lemma fold_remove_is_set l : forall n, is_set n -> is_set (fold_left (fun s k => set_remove k s) l n).
Proof. induction l as [|x r IH]; intros n H; cbn [fold_left]; [exact H|]. apply IH, set_remove_is_set, H. Qed.

Lemma set_touch_marks n : is_set n -> is_marked (set_touch n).
Proof. destruct n; try contradiction. intros _. cbn. auto. Qed.

Lemma set_op_marks c a n : is_set n -> is_marked (leaf_op TSS c a n).
Proof.
  intros Hn. cbn [leaf_op].
  destruct (c =? 3).
  { destruct n as [| |m v el ad rm| |]; try contradiction. unfold set_add.
    destruct (mem a el); [|destruct (mem a rm)]; cbn; auto. }
  destruct (c =? 4).
  { destruct n as [| |m v el ad rm| |]; try contradiction. unfold set_remove.
    destruct (mem a el); [destruct (mem a ad)|]; cbn; auto. }
  destruct (c =? 5); [apply set_touch_marks, Hn|].
  destruct n as [| |m v el ad rm| |]; try contradiction. unfold set_clear.
  apply set_touch_marks, fold_remove_is_set. exact I.
Qed.

Lemma marked_is_set n : is_marked n -> is_set n.
Proof. destruct n; try contradiction. intros _; exact I. Qed.

Lemma run_set_marks ops : forall n, is_set n -> ops <> [] -> is_marked (run_set ops n).
Proof.
  induction ops as [|[c a] r IH]; intros n Hn Hne; [congruence|]. cbn [run_set fold_left fst snd].
  pose proof (set_op_marks c a n Hn) as Hm. destruct r as [|o r'].
  - exact Hm.
  - apply IH; [apply marked_is_set, Hm|discriminate].
Qed.

(* For sets the hypothesis [tick] is not an assumption on the script: EVERY non-empty sequence of
   add / remove / touch / clear calls on a good state is a [tick], or is precisely finding B (an
   empty tick on an already valid set). *)
Theorem tss_every_script pre ops : good TSS pre -> ops <> [] ->
  let live := run_set ops pre in
  tick TSS pre live \/
  (exists el, pre = NSet false true el [] [] /\ live = NSet true true el [] []).
Proof.
  destruct pre as [| |m0 v0 el0 ad0 rm0| |]; try contradiction.
  intros (-> & Hel0 & -> & ->) Hne. cbn zeta.
  assert (Hinv0 : set_inv el0 (NSet false v0 el0 [] [])).
  { cbn. repeat split; try exact Hel0; try exact I; try discriminate.
    intros k. cbn [mem negb]. rewrite andb_true_r, orb_false_r. reflexivity. }
  pose proof (set_inv_run el0 ops _ Hel0 Hinv0) as Hinv.
  pose proof (run_set_marks ops (NSet false v0 el0 [] []) I Hne) as Hmk.
  destruct (run_set ops (NSet false v0 el0 [] [])) as [| |m v el ad rm| |]; try contradiction.
  destruct Hmk as [-> ->]. destruct Hinv as (Hel & Had & Hrm & Hout & Hin & Heq).
  assert (Hcanon : el = fold_left (fun s k => ins k s) ad (fold_left (fun s k => del k s) rm el0)).
  { apply sorted_ext; [exact Hel|apply fold_ins_sorted, fold_del_sorted, Hel0|].
    intros k. rewrite fold_ins_mem, fold_del_mem by exact Hel0. rewrite Heq.
    destruct (mem k el0), (mem k rm), (mem k ad); reflexivity. }
  destruct ad as [|a ad'] eqn:Ea; [destruct rm as [|r rm'] eqn:Er; [destruct v0 eqn:Ev|]|].
  - right. exists el0. cbn [fold_left] in Hcanon. subst el. split; reflexivity.
  - left. cbn [tick]. repeat split; try exact I; try apply Forall_nil; try exact Hcanon. right; right; reflexivity.
  - left. rewrite <- Er in *. cbn [tick]. repeat split; try exact I; try apply Forall_nil; try assumption.
    + apply Forall_forall. intros k Hk. apply Hin, mem_In, Hk.
    + right; left. subst rm; discriminate.
  - left. rewrite <- Ea in *. cbn [tick]. repeat split; try assumption.
    + apply Forall_forall. intros k Hk. apply Hout, mem_In, Hk.
    + apply Forall_forall. intros k Hk. apply Hin, mem_In, Hk.
    + left. subst ad; discriminate.
Qed.

(* ------------------------------------------------------------------ the hypotheses are met *)
Ltac tick_solve :=
  repeat first
    [ exact I | reflexivity | discriminate
    | match goal with
      | |- _ /\ _ => split
      | |- exists _, _ => eexists; reflexivity
      | |- Forall _ [] => apply Forall_nil
      | |- Forall _ (_ :: _) => apply Forall_cons
      | |- Forall2 _ [] [] => apply Forall2_nil
      | |- Forall2 _ (_ :: _) (_ :: _) => apply Forall2_cons
      | |- _ <> _ => intro; discriminate
      | |- _ \/ _ => first [ solve [left; tick_solve] | solve [right; tick_solve] ]
      | |- Exists _ (_ :: _) => first [ solve [apply Exists_cons_hd; tick_solve] | apply Exists_cons_tl ]
      end ].

(* a dictionary of sets: two keys appear, then one is removed while the other changes (elements
   added and removed), a gap, then a third key; recorded at cycles 1, 3 and 6 *)
Definition ex1_sh := TSD TSS.
Definition ex1_l1 := run_ops ex1_sh [mkOp [1] 3 10; mkOp [2] 3 20] (fresh ex1_sh).
Definition ex1_l2 := run_ops ex1_sh [mkOp [] 7 1; mkOp [2] 3 21; mkOp [2] 4 20] (commit ex1_sh ex1_l1).
Definition ex1_l3 := run_ops ex1_sh [mkOp [3] 3 5] (commit ex1_sh ex1_l2).
Definition ex1_hist := [(1, ex1_l1); (3, ex1_l2); (6, ex1_l3)].

Example ex1_chain : chain ex1_sh (fresh ex1_sh) 0 ex1_hist.
Proof. vm_compute. tick_solve. Qed.

(* remove and re-add of a key in one cycle (the slot is resurrected with its child), nested
   dictionaries, a bundle whose set field ticks first, a list, a window, a signal *)
Definition ex2_sh := TSB [TSD (TSD TS); TSB [TSS; TS]; TSL 2 (TSW 2 1); SIGNAL].
Definition ex2_l1 := run_ops ex2_sh [mkOp [0; 1; 2] 1 5; mkOp [1; 0] 5 0; mkOp [1; 1] 1 7; mkOp [2; 0] 9 4; mkOp [3] 2 0] (fresh ex2_sh).
Definition ex2_l2 := run_ops ex2_sh [mkOp [0] 7 1; mkOp [0; 1; 3] 1 6; mkOp [2; 0] 9 5; mkOp [2; 1] 9 6] (commit ex2_sh ex2_l1).
Definition ex2_l3 := run_ops ex2_sh [mkOp [0; 1] 7 2; mkOp [1; 0] 3 9] (commit ex2_sh ex2_l2).
Definition ex2_hist := [(2, ex2_l1); (3, ex2_l2); (7, ex2_l3)].

Example ex2_chain : chain ex2_sh (fresh ex2_sh) 0 ex2_hist.
Proof. vm_compute. tick_solve. Qed.

(* under the repaired insert_key rule the old witness of finding D is an ordinary tick:
   child changed, key erased, key re-inserted in one cycle (also for a key that is new in the cycle) *)
Definition ex3_sh := TSD TSS.
Definition ex3_l1 := run_ops ex3_sh [mkOp [1] 3 10] (fresh ex3_sh).
Definition ex3_l2 := run_ops ex3_sh [mkOp [1] 3 12; mkOp [] 7 1; mkOp [] 8 1; mkOp [2] 3 20; mkOp [] 7 2; mkOp [2] 3 21] (commit ex3_sh ex3_l1).
Example ex3_chain : chain ex3_sh (fresh ex3_sh) 0 [(1, ex3_l1); (2, ex3_l2)].
Proof. vm_compute. tick_solve. Qed.
Example ex3_not_under_old_rule :
  capture ex3_sh (run_ops_old ex3_sh [mkOp [1] 3 12; mkOp [] 7 1; mkOp [] 8 1] (commit ex3_sh ex3_l1)) = DDict [] [].
Proof. vm_compute. reflexivity. Qed.

Example ex2_wf : wf_shape ex2_sh.
Proof. cbn. repeat split; lia. Qed.
