(* DeltaFacts.v — lemmas and proofs about the C20 model (Delta.v). *)
Require Import Base DeltaLib Delta.
From Coq Require Import ZifyBool.

Lemma placeholder_leaf : forall z, capture TS (apply TS (fresh TS) (DVal z)) = DVal z.
Proof. intros z. reflexivity. Qed.
