(* DeltaFacts.v — lemmas and proofs about the C20 model (Delta.v).

   Main results (restated in Props/C20.v):
     apply_capture / capture_apply : for every shape, every clean pre-state and every coherent,
       effective tick [live] of it, applying the captured delta to the pre-state re-creates
       the tick: same committed value, same delta when captured again, same validity/ticks.
     replay_record_id : recording any such tick history (with gaps) and replaying the buffer
       reproduces the same cycles, deltas and values.
     refuted statements: each side condition of [tick] is necessary (witnesses replayed on the
       implementation, see docs/notes-delta.md). *)
Require Import Base DeltaLib Delta.
From Coq Require Import ZifyBool.

(* ------------------------------------------------------------------ lists *)
Lemma fold_ins_mem l acc k : mem k (fold_left (fun s x => ins x s) l acc) = mem k l || mem k acc.
Proof.
  revert acc; induction l as [|x r IH]; intros acc; cbn [fold_left mem]; [reflexivity|].
  rewrite IH, mem_ins. destruct (k =? x), (mem k r), (mem k acc); reflexivity.
Qed.

Lemma fold_ins_sorted l acc : sorted acc -> sorted (fold_left (fun s x => ins x s) l acc).
Proof. revert acc; induction l as [|x r IH]; intros acc H; cbn [fold_left]; [exact H|]. apply IH, sorted_ins, H. Qed.

Lemma fold_ins_id l : sorted l -> fold_left (fun s x => ins x s) l [] = l.
Proof.
  intros H. apply sorted_ext; [apply fold_ins_sorted; exact I|exact H|].
  intros k. rewrite fold_ins_mem. cbn [mem]. apply orb_false_r.
Qed.

Lemma fold_del_sorted l acc : sorted acc -> sorted (fold_left (fun s x => del x s) l acc).
Proof. revert acc; induction l as [|x r IH]; intros acc H; cbn [fold_left]; [exact H|]. apply IH, sorted_del, H. Qed.

Lemma fold_del_mem l acc k : sorted acc -> mem k (fold_left (fun s x => del x s) l acc) = negb (mem k l) && mem k acc.
Proof.
  revert acc; induction l as [|x r IH]; intros acc H; cbn [fold_left mem]; [reflexivity|].
  rewrite IH by (apply sorted_del; exact H). rewrite mem_del by exact H.
  destruct (k =? x), (mem k r), (mem k acc); reflexivity.
Qed.

Lemma sorted_nodup_head x r : sorted (x :: r) -> mem x r = false.
Proof. intros H. destruct (sorted_cons_inv _ _ H) as [_ Hlb]. apply mem_lb_false with (x := x); [exact Hlb|lia]. Qed.

Lemma sorted_tail x r : sorted (x :: r) -> sorted r.
Proof. intros H; apply (sorted_cons_inv _ _ H). Qed.

(* ------------------------------------------------------------------ association lists *)
Section Assoc.
  Context {A : Type}.
  Implicit Types l : list (Z * A).

  Lemma ksorted_nil : ksorted (@nil (Z * A)).
  Proof. exact I. Qed.

  Lemma ksorted_cons_tail x v l : ksorted ((x, v) :: l) -> ksorted l.
  Proof. intros H; apply (ksorted_tail _ _ _ H). Qed.

  Lemma get_head_none x v l : ksorted ((x, v) :: l) -> get x l = None.
  Proof. intros H. destruct (ksorted_tail _ _ _ H) as [_ Hlb]. apply get_none_lb with (x := x); [exact Hlb|lia]. Qed.

  (* filter then map on the payload keeps an association list sorted, and [get] sees through *)
  Definition fm {B} (p : Z * A -> bool) (g : Z * A -> B) l : list (Z * B) :=
    map (fun kv => (fst kv, g kv)) (filter p l).

  Lemma mem_keys_filter p l y : mem y (keys (filter p l)) = true -> mem y (keys l) = true.
  Proof.
    induction l as [|[k v] r IH]; cbn [filter keys map fst mem]; [auto|].
    destruct (p (k, v)); cbn [keys map fst mem]; intros H.
    - apply orb_true_iff in H. apply orb_true_iff. destruct H as [H|H]; [left; exact H|right; apply IH, H].
    - apply orb_true_iff. right. apply IH, H.
  Qed.

  Lemma lb_filter_keys x p l : lb x (keys l) -> lb x (keys (filter p l)).
  Proof. intros H y Hy. apply H. apply mem_keys_filter with (p := p). exact Hy. Qed.

  Lemma ksorted_filter p l : ksorted l -> ksorted (filter p l).
  Proof.
    induction l as [|[k v] r IH]; intros H; cbn [filter]; [exact I|].
    destruct (ksorted_tail _ _ _ H) as [Hr Hlb].
    destruct (p (k, v)); [|apply IH; exact Hr].
    unfold ksorted; cbn [keys map fst]. apply sorted_cons; [apply IH; exact Hr|].
    apply lb_filter_keys; exact Hlb.
  Qed.

  Lemma keys_fm {B} p (g : Z * A -> B) l : keys (fm p g l) = keys (filter p l).
  Proof. unfold fm, keys. rewrite map_map. reflexivity. Qed.

  Lemma ksorted_fm {B} p (g : Z * A -> B) l : ksorted l -> ksorted (fm p g l).
  Proof. intros H. unfold ksorted. rewrite keys_fm. apply ksorted_filter; exact H. Qed.

  Lemma get_fm {B} p (g : Z * A -> B) l k : ksorted l ->
    get k (fm p g l) = match get k l with Some v => if p (k, v) then Some (g (k, v)) else None | None => None end.
  Proof.
    induction l as [|[x v] r IH]; intros H; [reflexivity|].
    destruct (ksorted_tail _ _ _ H) as [Hr Hlb].
    unfold fm in *. cbn [filter get].
    destruct (k =? x) eqn:E.
    - apply Z.eqb_eq in E; subst x.
      destruct (p (k, v)) eqn:Ep; cbn [map get fst]; [rewrite Z.eqb_refl; reflexivity|].
      rewrite IH by exact Hr. rewrite (get_none_lb k r k Hlb) by lia. reflexivity.
    - destruct (p (x, v)); cbn [map get fst]; [rewrite E|]; apply IH; exact Hr.
  Qed.

  Lemma Forall_get (P : Z * A -> Prop) l k v : Forall P l -> get k l = Some v -> P (k, v).
  Proof. intros HF Hg. apply get_In in Hg. rewrite Forall_forall in HF. apply HF, Hg. Qed.

  Lemma has_get_some k l : has k l = true -> exists v, get k l = Some v.
  Proof. unfold has. destruct (get k l) as [v|]; [eauto|discriminate]. Qed.

  Lemma In_keys_get k l : ksorted l -> In k (keys l) -> exists v, get k l = Some v.
  Proof.
    intros Hs Hin. apply mem_In in Hin. rewrite <- has_mem in Hin. apply has_get_some, Hin.
  Qed.
End Assoc.

(* two filtered/mapped views of two sorted association lists are equal when they agree pointwise *)
Lemma fm_ext {A A' B} (p : Z * A -> bool) (g : Z * A -> B) (p' : Z * A' -> bool) (g' : Z * A' -> B) l l' :
  ksorted l -> ksorted l' ->
  (forall k, match get k l with Some v => if p (k, v) then Some (g (k, v)) else None | None => None end =
             match get k l' with Some v => if p' (k, v) then Some (g' (k, v)) else None | None => None end) ->
  fm p g l = fm p' g' l'.
Proof.
  intros H H' He. apply ksorted_ext; [apply ksorted_fm, H|apply ksorted_fm, H'|].
  intros k. rewrite !get_fm by assumption. apply He.
Qed.

(* ------------------------------------------------------------------ induction on shapes *)
Lemma shape_ind' (P : shape -> Prop) :
  P TS -> P SIGNAL -> (forall p m, P (TSW p m)) -> P TSS ->
  (forall e, P e -> P (TSD e)) -> (forall n e, P e -> P (TSL n e)) ->
  (forall fs, Forall P fs -> P (TSB fs)) -> forall sh, P sh.
Proof.
  intros Hts Hsig Hw Hss Hd Hl Hb.
  fix IH 1. intros [| |p m| |e|n e|fs].
  - exact Hts.
  - exact Hsig.
  - apply Hw.
  - exact Hss.
  - apply Hd, IH.
  - apply Hl, IH.
  - apply Hb. induction fs as [|f r IHr]; constructor; [apply IH|exact IHr].
Qed.

(* ------------------------------------------------------------------ clean states and ticks *)
Definition clean_flags : sflags := mkF true false false false true.

(* [good sh n]: a committed state (between cycles) all of whose dictionary keys carry a valid,
   published child — what every replayable history maintains *)
Fixpoint good (sh : shape) (n : node) : Prop :=
  match sh, n with
  | TS, NLeaf m _ | SIGNAL, NLeaf m _ => m = false
  | TSW p _, NWin m _ => m = false /\ (1 <= p)%nat
  | TSS, NSet m _ el ad rm => m = false /\ sorted el /\ ad = [] /\ rm = []
  | TSD e, NDict m _ items =>
      m = false /\ ksorted items /\
      Forall (fun kv => fst (snd kv) = clean_flags /\ nvalid (snd (snd kv)) = true /\ good e (snd (snd kv))) items
  | TSL n e, NIdx m _ kids => m = false /\ length kids = n /\ Forall (good e) kids
  | TSB fs, NIdx m _ kids =>
      m = false /\
      (fix go (fs : list shape) (kids : list node) : Prop :=
         match fs, kids with
         | f :: fs', c :: kids' => good f c /\ go fs' kids'
         | [], [] => True
         | _, _ => False
         end) fs kids
  | _, _ => False
  end.

(* one slot of a ticking dictionary against the pre-tick dictionary *)
Definition slot_tick (tk : node -> node -> Prop) (fr : node) (o0 : option (sflags * node)) (f : sflags) (c : node) : Prop :=
  match o0 with
  | Some (_, c0) =>
      if f_live f then
        f_removed f = false /\ f_published f = true /\ (if f_modified f then tk c0 c else c = c0)
      else f_removed f = true
  | None =>
      if f_live f then f_removed f = false /\ f_modified f = true /\ f_published f = true /\ tk fr c
      else f_removed f = false
  end.

(* [tick sh pre live]: [live] is [pre] after one cycle of mutations, its delta surface
   (added/removed elements, removed keys, modified slots, modified flags) tells the truth about
   the change, and every ticking collection node either changed or became valid (no ineffective
   empty tick), and no bundle leaves a never-ticked set/dict field unset beside a ticking one *)
Fixpoint tick (sh : shape) (pre live : node) : Prop :=
  match sh, pre, live with
  | TS, NLeaf _ _, NLeaf m v => m = true /\ exists z, v = Some z
  | SIGNAL, NLeaf _ _, NLeaf m v => m = true /\ v = Some 1
  | TSW p _, NWin _ v0, NWin m v1 => m = true /\ exists z, v1 = lastn p (v0 ++ [z])
  | TSS, NSet _ v0 el0 _ _, NSet m v el ad rm =>
      m = true /\ v = true /\ sorted ad /\ sorted rm /\
      (forall k, mem k ad = true -> mem k el0 = false) /\
      (forall k, mem k rm = true -> mem k el0 = true) /\
      el = fold_left (fun s k => ins k s) ad (fold_left (fun s k => del k s) rm el0) /\
      (ad <> [] \/ rm <> [] \/ v0 = false)
  | TSD e, NDict _ v0 items0, NDict m v items =>
      m = true /\ v = true /\ ksorted items /\
      Forall (fun kv => slot_tick (tick e) (fresh e) (get (fst kv) items0) (fst (snd kv)) (snd (snd kv))) items /\
      Forall (fun kv => has (fst kv) items = true) items0 /\
      (Exists (fun kv => f_removed (fst (snd kv)) = true \/ (f_live (fst (snd kv)) = true /\ f_modified (fst (snd kv)) = true)) items
       \/ v0 = false)
  | TSL n e, NIdx _ _ kids0, NIdx m v kids =>
      m = true /\ v = true /\
      Forall2 (fun c0 c => (nmod c = true /\ tick e c0 c) \/ c = c0) kids0 kids /\
      Exists (fun c => nmod c = true) kids
  | TSB fs, NIdx _ _ kids0, NIdx m v kids =>
      m = true /\ v = true /\
      (fix go (fs : list shape) (kids0 kids : list node) : Prop :=
         match fs, kids0, kids with
         | f :: fs', c0 :: k0', c :: k' =>
             ((nmod c = true /\ tick f c0 c) \/ (c = c0 /\ has_effect f c0 (field_default f) = false)) /\ go fs' k0' k'
         | [], [], [] => True
         | _, _, _ => False
         end) fs kids0 kids /\
      Exists (fun c => nmod c = true) kids
  | _, _, _ => False
  end.

(* what "re-creates the tick" means *)
Definition recreates (sh : shape) (pre live : node) : Prop :=
  let out := apply sh pre (capture sh live) in
  nmod out = true /\ nvalid out = true /\ nmod live = true /\ nvalid live = true /\
  commit sh out = commit sh live /\
  capture sh out = capture sh live /\
  good sh (commit sh live).

(* ------------------------------------------------------------------ leaves, windows *)
Lemma recreates_ts pre live : good TS pre -> tick TS pre live -> recreates TS pre live.
Proof.
  destruct pre as [m0 v0| | | |]; try contradiction. destruct live as [m v| | | |]; try contradiction.
  intros _ [-> [z ->]]. unfold recreates. cbn. repeat split; reflexivity.
Qed.

Lemma recreates_signal pre live : good SIGNAL pre -> tick SIGNAL pre live -> recreates SIGNAL pre live.
Proof.
  destruct pre as [m0 v0| | | |]; try contradiction. destruct live as [m v| | | |]; try contradiction.
  intros _ [-> ->]. unfold recreates. cbn. repeat split; reflexivity.
Qed.

Lemma lastn_length k l : (length (lastn k l) <= length l)%nat.
Proof.
  induction l as [|x r IH]; cbn [lastn length]; [destruct (0 <=? k)%nat; cbn; lia|].
  destruct (S (length r) <=? k)%nat; cbn [length]; lia.
Qed.

Lemma last_opt_app l z : last_opt (l ++ [z]) = Some z.
Proof.
  induction l as [|x r IH]; [reflexivity|]. cbn [app last_opt].
  destruct (r ++ [z]) eqn:E; [destruct r; discriminate|]. exact IH.
Qed.

Lemma lastn_app_last k l z : (1 <= k)%nat -> exists l', lastn k (l ++ [z]) = l' ++ [z].
Proof.
  intros Hk. induction l as [|x r IH].
  - exists []. cbn. destruct k; [lia|reflexivity].
  - cbn [app lastn]. destruct (length (x :: r ++ [z]) <=? k)%nat.
    + exists (x :: r). reflexivity.
    + exact IH.
Qed.

Lemma recreates_tsw p mn pre live : good (TSW p mn) pre -> tick (TSW p mn) pre live -> recreates (TSW p mn) pre live.
Proof.
  destruct pre as [|m0 v0| | |]; try contradiction. destruct live as [|m v| | |]; try contradiction.
  intros [-> Hp] [-> [z ->]]. unfold recreates.
  destruct (lastn_app_last p v0 z Hp) as [l' Hl].
  assert (Hlast : last_opt (lastn p (v0 ++ [z])) = Some z) by (rewrite Hl; apply last_opt_app).
  assert (Hne : lastn p (v0 ++ [z]) <> []) by (rewrite Hl; destruct l'; discriminate).
  cbn [capture]. rewrite Hlast. cbn [apply has_effect win_push nmod nvalid commit capture].
  rewrite Hlast. destruct (lastn p (v0 ++ [z])) eqn:E; [congruence|].
  repeat split; try reflexivity. exact Hp.
Qed.

(* ------------------------------------------------------------------ sets *)
Lemma fold_set_remove rm : forall m v el ad rmacc,
  sorted el -> sorted rmacc ->
  (forall k, mem k rm = true -> mem k el = true) -> NoDup rm -> ad = [] ->
  rm <> [] ->
  fold_left (fun s k => set_remove k s) rm (NSet m v el ad rmacc) =
  NSet true true (fold_left (fun s k => del k s) rm el) [] (fold_left (fun s k => ins k s) rm rmacc).
Proof.
  induction rm as [|x r IH]; intros m v el ad rmacc Hel Hacc Hin Hnd -> Hne; [congruence|].
  cbn [fold_left]. unfold set_remove at 2.
  rewrite (Hin x) by (cbn [mem]; rewrite Z.eqb_refl; reflexivity). cbn [mem].
  inversion Hnd as [|? ? Hnotin Hnd']; subst.
  destruct r as [|y r'].
  - reflexivity.
  - apply IH; try assumption; try reflexivity; try discriminate.
    + apply sorted_del, Hel.
    + apply sorted_ins, Hacc.
    + intros k Hk. rewrite mem_del by exact Hel. rewrite (Hin k) by (cbn [mem] in *; rewrite Hk; apply orb_true_r).
      rewrite andb_true_r. apply negb_true_iff. apply Z.eqb_neq. intros ->.
      apply Hnotin. apply mem_In, Hk.
Qed.

Lemma sorted_NoDup l : sorted l -> NoDup l.
Proof.
  induction l as [|x r IH]; intros H; constructor.
  - intros Hin. apply mem_In in Hin. rewrite sorted_nodup_head in Hin by exact H. discriminate.
  - apply IH, (sorted_tail _ _ H).
Qed.

Lemma fold_set_add ad : forall m v el adacc rm,
  sorted el -> sorted adacc ->
  (forall k, mem k ad = true -> mem k el = false) -> (forall k, mem k ad = true -> mem k rm = false) -> NoDup ad ->
  ad <> [] ->
  fold_left (fun s k => set_add k s) ad (NSet m v el adacc rm) =
  NSet true true (fold_left (fun s k => ins k s) ad el) (fold_left (fun s k => ins k s) ad adacc) rm.
Proof.
  induction ad as [|x r IH]; intros m v el adacc rm Hel Hacc Hout Hrm Hnd Hne; [congruence|].
  cbn [fold_left]. unfold set_add at 2.
  rewrite (Hout x), (Hrm x) by (cbn [mem]; rewrite Z.eqb_refl; reflexivity).
  inversion Hnd as [|? ? Hnotin Hnd']; subst.
  destruct r as [|y r'].
  - reflexivity.
  - apply IH; try assumption; try discriminate.
    + apply sorted_ins, Hel.
    + apply sorted_ins, Hacc.
    + intros k Hk. rewrite mem_ins. rewrite (Hout k) by (cbn [mem] in *; rewrite Hk; apply orb_true_r).
      rewrite orb_false_r. apply Z.eqb_neq. intros ->. apply Hnotin. apply mem_In, Hk.
    + intros k Hk. apply Hrm. cbn [mem] in *. rewrite Hk. apply orb_true_r.
Qed.

Lemma recreates_tss pre live : good TSS pre -> tick TSS pre live -> recreates TSS pre live.
Proof.
  destruct pre as [| |m0 v0 el0 ad0 rm0| |]; try contradiction.
  destruct live as [| |m v el ad rm| |]; try contradiction.
  intros (-> & Hel0 & -> & ->) (-> & -> & Had & Hrm & Hadout & Hrmin & -> & Heff).
  unfold recreates. cbn [capture].
  assert (Heffb : has_effect TSS (NSet false v0 el0 [] []) (DSet ad rm) = true).
  { cbn [has_effect nvalid]. destruct Heff as [H|[H|H]].
    - destruct ad; [congruence|reflexivity].
    - destruct rm; [congruence|]. destruct ad; reflexivity.
    - subst v0. destruct ad, rm; reflexivity. }
  cbn [apply]. rewrite Heffb.
  (* the removals *)
  assert (Hrem : exists m1 v1, fold_left (fun s k => set_remove k s) rm (NSet false v0 el0 [] []) =
                 NSet m1 v1 (fold_left (fun s k => del k s) rm el0) [] rm).
  { destruct rm as [|x r] eqn:Er; [cbn; eauto|]. rewrite <- Er in *.
    exists true, true.
    assert (Hne : rm <> []) by (subst rm; discriminate).
    rewrite (fold_set_remove rm false v0 el0 [] [] Hel0 I Hrmin (sorted_NoDup _ Hrm) eq_refl Hne).
    rewrite fold_ins_id by exact Hrm. reflexivity. }
  destruct Hrem as (m1 & v1 & ->).
  assert (Hadd : exists m2 v2, fold_left (fun s k => set_add k s) ad
                   (NSet m1 v1 (fold_left (fun s k => del k s) rm el0) [] rm) =
                 NSet m2 v2 (fold_left (fun s k => ins k s) ad (fold_left (fun s k => del k s) rm el0)) ad rm).
  { destruct ad as [|x r] eqn:Ea; [cbn; eauto|]. rewrite <- Ea in *.
    exists true, true.
    assert (Hne : ad <> []) by (subst ad; discriminate).
    assert (H1 : forall k, mem k ad = true -> mem k (fold_left (fun s k0 => del k0 s) rm el0) = false).
    { intros k Hk. rewrite fold_del_mem by exact Hel0. rewrite (Hadout k Hk). apply andb_false_r. }
    assert (H2 : forall k, mem k ad = true -> mem k rm = false).
    { intros k Hk. destruct (mem k rm) eqn:E; [|reflexivity].
      pose proof (Hrmin k E) as Hx. rewrite (Hadout k Hk) in Hx. discriminate. }
    rewrite (fold_set_add ad m1 v1 _ [] rm (fold_del_sorted _ _ Hel0) I H1 H2 (sorted_NoDup _ Had) Hne).
    rewrite fold_ins_id by exact Had. reflexivity. }
  destruct Hadd as (m2 & v2 & ->).
  cbn [set_touch nmod nvalid commit capture good].
  repeat split; try reflexivity.
  apply fold_ins_sorted, fold_del_sorted, Hel0.
Qed.

(* ------------------------------------------------------------------ general facts *)
Fixpoint wf_shape (sh : shape) : Prop :=
  match sh with
  | TSW p _ => (1 <= p)%nat
  | TSD e => wf_shape e
  | TSL _ e => wf_shape e
  | TSB fs => (fix go (fs : list shape) : Prop := match fs with [] => True | f :: r => wf_shape f /\ go r end) fs
  | _ => True
  end.

Lemma wf_tsb_forall fs : wf_shape (TSB fs) -> Forall wf_shape fs.
Proof. induction fs as [|f r IH]; cbn; intros H; constructor; [apply H|apply IH, H]. Qed.

Lemma good_nmod sh n : good sh n -> nmod n = false.
Proof.
  destruct sh, n; cbn; try contradiction; try tauto; intros H; try exact H; try (destruct H as [H _]; exact H).
Qed.

Definition good_tsb := (fix go (fs : list shape) (kids : list node) : Prop :=
         match fs, kids with
         | f :: fs', c :: kids' => good f c /\ go fs' kids'
         | [], [] => True
         | _, _ => False
         end).

Lemma good_tsb_unfold fs m v kids : good (TSB fs) (NIdx m v kids) = (m = false /\ good_tsb fs kids).
Proof. reflexivity. Qed.

Lemma nvalid_commit sh n : nvalid (commit sh n) = nvalid n.
Proof. destruct sh, n; reflexivity. Qed.

Lemma good_fresh : forall sh, wf_shape sh -> good sh (fresh sh).
Proof.
  induction sh as [| |p m| |e IH|n e IH|fs IH] using shape_ind'; intros Hwf; cbn [good fresh].
  - reflexivity.
  - reflexivity.
  - split; [reflexivity|exact Hwf].
  - repeat split; exact I.
  - repeat split; try exact I; constructor.
  - repeat split; [apply repeat_length|]. apply Forall_forall. intros x Hx. apply repeat_spec in Hx. subst x. apply IH, Hwf.
  - split; [reflexivity|]. apply wf_tsb_forall in Hwf.
    induction fs as [|f r IHr]; cbn; [exact I|].
    inversion IH as [|? ? Hf Hr]; subst. inversion Hwf as [|? ? Wf Wr]; subst.
    split; [apply Hf, Wf|apply IHr; assumption].
Qed.

Lemma commit_good : forall sh n, good sh n -> commit sh n = n.
Proof.
  induction sh as [| |p m| |e IH|n e IH|fs IH] using shape_ind'; intros nd Hg; destruct nd; cbn [good] in Hg; try contradiction; cbn [commit].
  - subst; reflexivity.
  - subst; reflexivity.
  - destruct Hg as [-> _]; reflexivity.
  - destruct Hg as (-> & _ & -> & ->); reflexivity.
  - destruct Hg as (-> & Hs & HF). f_equal.
    induction items as [|[k [f c]] r IHr]; [reflexivity|].
    inversion HF as [|? ? [Hf [Hv Hgc]] HF']; subst. cbn in Hf, Hv, Hgc. subst f.
    cbn [filter slot_live fst snd clean_flags f_live map].
    rewrite IH by exact Hgc. unfold clear_flags; cbn. f_equal.
    apply IHr; [apply (ksorted_cons_tail _ _ _ Hs)|exact HF'].
  - destruct Hg as (-> & _ & HF). f_equal.
    induction kids as [|c r IHr]; [reflexivity|]. inversion HF; subst. cbn [map]. f_equal; auto.
  - destruct Hg as (-> & HG). f_equal. revert kids HG.
    induction fs as [|f r IHr]; intros kids HG; destruct kids as [|c kids']; cbn in HG; try contradiction; [reflexivity|].
    inversion IH; subst. cbn [zipw]. destruct HG as [Hc Hr]. f_equal; [auto|apply IHr; assumption].
Qed.

(* ------------------------------------------------------------------ unfolding equations *)
Lemma apply_eq sh out d : apply sh out d = if has_effect sh out d then
    match sh, d with
    | TS, DVal z => leaf_set z out
    | SIGNAL, DVal _ => leaf_set 1 out
    | TSW p _, DVal z => win_push p z out
    | TSS, DSet ad rm =>
        set_touch (fold_left (fun s k => set_add k s) ad (fold_left (fun s k => set_remove k s) rm out))
    | TSD e, DDict rm md =>
        dict_touch (fold_left (fun s kd => dict_child e (fst kd) (fun c => apply e c (snd kd)) s) md
                              (fold_left (fun s k => dict_erase k s) rm out))
    | TSL _ e, DList items =>
        fold_left (fun s kd => idx_child (Z.to_nat (fst kd)) (fun c => apply e c (snd kd)) s) items out
    | TSB fs, DBundle ds =>
        match out with
        | NIdx _ _ kids => idx_set_kids out (zipw3 apply fs kids ds)
        | _ => out
        end
    | _, _ => out
    end else out.
Proof. destruct sh; reflexivity. Qed.

Lemma apply_no_effect sh out d : has_effect sh out d = false -> apply sh out d = out.
Proof. intros H. rewrite apply_eq, H. reflexivity. Qed.

Definition tick_tsb := (fix go (fs : list shape) (kids0 kids : list node) : Prop :=
         match fs, kids0, kids with
         | f :: fs', c0 :: k0', c :: k' =>
             ((nmod c = true /\ tick f c0 c) \/ (c = c0 /\ has_effect f c0 (field_default f) = false)) /\ go fs' k0' k'
         | [], [], [] => True
         | _, _, _ => False
         end).

Definition cap_field (f : shape) (c : node) : delta := if nmod c && nvalid c then capture f c else field_default f.

Definition Recreates (f : shape) : Prop := forall pre live, good f pre -> tick f pre live -> recreates f pre live.

Lemma recreates_has_effect f c0 c : good f c0 -> recreates f c0 c -> has_effect f c0 (capture f c) = true.
Proof.
  intros Hg (Hm & _). destruct (has_effect f c0 (capture f c)) eqn:E; [reflexivity|].
  rewrite apply_no_effect in Hm by exact E. rewrite (good_nmod _ _ Hg) in Hm. discriminate.
Qed.

Lemma tsb_pointwise fs : Forall Recreates fs -> forall kids0 kids,
  good_tsb fs kids0 -> tick_tsb fs kids0 kids ->
  let ds := zipw cap_field fs kids in
  let outk := zipw3 apply fs kids0 ds in
  zipw commit fs outk = zipw commit fs kids /\
  zipw cap_field fs outk = ds /\
  existsb (fun b => b) (zipw3 has_effect fs kids0 ds) = existsb nmod kids /\
  existsb (fun b => b) (zipw newly kids0 outk) = existsb nmod kids /\
  good_tsb fs (zipw commit fs kids).
Proof.
  intros IHs. induction IHs as [|f r Hf Hr IH]; intros kids0 kids Hg Ht;
    destruct kids0 as [|c0 k0]; destruct kids as [|c k]; cbn in Hg, Ht; try contradiction.
  - cbn. repeat split; reflexivity.
  - destruct Hg as [Hgc Hgr]. destruct Ht as [Hc Htr].
    specialize (IH k0 k Hgr Htr). cbn zeta in IH. destruct IH as (I1 & I2 & I3 & I4 & I5).
    cbn [zipw zipw3 existsb]. cbn zeta.
    pose proof (good_nmod _ _ Hgc) as Hm0.
    destruct Hc as [[Hm Htk]|[-> Hne]].
    + pose proof (Hf c0 c Hgc Htk) as HR. pose proof (recreates_has_effect _ _ _ Hgc HR) as He.
      destruct HR as (Rm & Rv & _ & Rlv & Rc & Rcap & Rg).
      assert (Hcf : cap_field f c = capture f c) by (unfold cap_field; rewrite Hm, Rlv; reflexivity).
      rewrite !Hcf.
      assert (Hcf2 : cap_field f (apply f c0 (capture f c)) = capture f c)
        by (unfold cap_field; rewrite Rm, Rv; exact Rcap).
      rewrite Hcf2, He, Rc, I1, I2. unfold newly at 1. rewrite Hm0, Rm, Hm. cbn [negb andb orb].
      repeat split; try reflexivity; assumption.
    + assert (Hcf : cap_field f c0 = field_default f) by (unfold cap_field; rewrite Hm0; reflexivity).
      rewrite !Hcf. rewrite (apply_no_effect _ _ _ Hne), Hne, Hcf.
      rewrite I1, I2, I3. unfold newly at 1. rewrite Hm0. cbn [negb andb orb].
      rewrite I4. repeat split; try reflexivity; [rewrite (commit_good _ _ Hgc); exact Hgc|exact I5].
Qed.

Lemma Exists_existsb {A} (p : A -> bool) l : Exists (fun x => p x = true) l -> existsb p l = true.
Proof. intros H. apply existsb_exists. apply Exists_exists in H. exact H. Qed.

Lemma recreates_tsb fs : Forall Recreates fs -> Recreates (TSB fs).
Proof.
  intros IHs pre live Hg Ht.
  destruct pre as [| | | |m0 v0 kids0]; try contradiction. destruct live as [| | | |m v kids]; try contradiction.
  destruct Hg as [-> Hg]. destruct Ht as (-> & -> & Ht & Hex).
  destruct (tsb_pointwise fs IHs kids0 kids Hg Ht) as (P1 & P2 & P3 & P4 & P5).
  apply Exists_existsb in Hex.
  unfold recreates. change (capture (TSB fs) (NIdx true true kids)) with (DBundle (zipw cap_field fs kids)).
  rewrite apply_eq. cbn [has_effect]. rewrite P3, Hex.
  unfold idx_set_kids. rewrite P4, Hex.
  cbn [nmod nvalid]. change (commit (TSB fs) (NIdx true true ?k)) with (NIdx false true (zipw commit fs k)).
  change (capture (TSB fs) (NIdx true true ?k)) with (DBundle (zipw cap_field fs k)).
  rewrite P1, P2. repeat split; try reflexivity. exact P5.
Qed.

(* ------------------------------------------------------------------ fixed lists *)
Lemma set_nth_app {A} (pfx : list A) x y r : set_nth (length pfx) x (pfx ++ y :: r) = pfx ++ x :: r.
Proof. unfold set_nth. induction pfx as [|a p IH]; cbn; [reflexivity|]. f_equal. exact IH. Qed.

Lemma nth_error_app_len {A} (pfx : list A) y r : nth_error (pfx ++ y :: r) (length pfx) = Some y.
Proof. induction pfx as [|a p IH]; cbn; [reflexivity|exact IH]. Qed.

Definition tsl_items (e : shape) (o : Z) (kids : list node) : list (Z * delta) :=
  map (fun ic => (fst ic, capture e (snd ic))) (filter (fun ic => nmod (snd ic) && nvalid (snd ic)) (index_from o kids)).

Definition tsl_step (e : shape) := fun s (kd : Z * delta) => idx_child (Z.to_nat (fst kd)) (fun c => apply e c (snd kd)) s.

Definition tsl_out (e : shape) : list node -> list node -> list node :=
  zipw (fun c0 c => if nmod c then apply e c0 (capture e c) else c0).

Lemma tsl_fold e : Recreates e -> forall kids0 kids,
  Forall2 (fun c0 c => (nmod c = true /\ tick e c0 c) \/ c = c0) kids0 kids -> Forall (good e) kids0 ->
  forall pfx m v,
  fold_left (tsl_step e) (tsl_items e (Z.of_nat (length pfx)) kids) (NIdx m v (pfx ++ kids0)) =
    NIdx (m || existsb nmod kids) (v || existsb nmod kids) (pfx ++ tsl_out e kids0 kids) /\
  map (commit e) (tsl_out e kids0 kids) = map (commit e) kids /\
  tsl_items e (Z.of_nat (length pfx)) (tsl_out e kids0 kids) = tsl_items e (Z.of_nat (length pfx)) kids /\
  Forall (good e) (map (commit e) kids).
Proof.
  intros He kids0 kids HF. induction HF as [|c0 c k0 k Hc HF IH]; intros Hg pfx m v.
  - cbn. rewrite !orb_false_r. repeat split; constructor.
  - inversion Hg as [|? ? Hgc Hgr]; subst.
    pose proof (good_nmod _ _ Hgc) as Hm0.
    unfold tsl_items, tsl_out. cbn [index_from filter zipw snd fst map].
    assert (Hoff : Z.of_nat (length pfx) + 1 = Z.of_nat (length (pfx ++ [c0]))).
    { rewrite app_length. cbn [length]. lia. }
    destruct Hc as [[Hm Htk]|Heq].
    + pose proof (He c0 c Hgc Htk) as (Rm & Rv & _ & Rlv & Rc & Rcap & Rg).
      rewrite Hm, Rlv, Rm, Rv. cbn [andb map fold_left fst snd existsb orb].
      unfold tsl_step at 2. cbn [fst snd]. rewrite Nat2Z.id. unfold idx_child.
      rewrite nth_error_app_len. rewrite Hm0, Rm. cbn [negb andb].
      rewrite set_nth_app.
      assert (Hoff' : Z.of_nat (length pfx) + 1 = Z.of_nat (length (pfx ++ [apply e c0 (capture e c)]))).
      { rewrite app_length. cbn [length]. lia. }
      specialize (IH Hgr (pfx ++ [apply e c0 (capture e c)]) true true).
      rewrite <- Hoff' in IH. rewrite <- !app_assoc in IH. cbn [app] in IH.
      destruct IH as (I1 & I2 & I3 & I4).
      fold (tsl_items e (Z.of_nat (length pfx) + 1) k). fold (tsl_out e k0 k).
      fold (tsl_items e (Z.of_nat (length pfx) + 1) (tsl_out e k0 k)).
      rewrite I1, I2, I3, Rc, Rcap, Hm. cbn [orb]. rewrite !orb_true_r. repeat split; try reflexivity.
      constructor; assumption.
    + subst c. rewrite ?Hm0. cbn [andb map fold_left existsb orb]. rewrite ?Hm0. cbn [andb orb].
      specialize (IH Hgr (pfx ++ [c0]) m v).
      rewrite <- Hoff in IH. rewrite <- !app_assoc in IH. cbn [app] in IH.
      destruct IH as (I1 & I2 & I3 & I4).
      fold (tsl_items e (Z.of_nat (length pfx) + 1) k). fold (tsl_out e k0 k).
      fold (tsl_items e (Z.of_nat (length pfx) + 1) (tsl_out e k0 k)).
      rewrite I1, I2, I3. repeat split; try reflexivity.
      constructor; [rewrite (commit_good _ _ Hgc); exact Hgc|exact I4].
Qed.

Lemma tsl_items_nonempty e o kids : Forall (fun c => nmod c = true -> nvalid c = true) kids ->
  Exists (fun c => nmod c = true) kids -> tsl_items e o kids <> [].
Proof.
  intros Hv Hex. revert o. induction Hex as [c k Hm|c k Hex IH]; intros o; inversion Hv as [|? ? Hvc Hvr]; subst;
    unfold tsl_items; cbn [index_from filter snd].
  - rewrite Hm, (Hvc Hm). cbn. discriminate.
  - destruct (nmod c && nvalid c); cbn [map]; [discriminate|]. apply IH, Hvr.
Qed.

Lemma Forall2_len {A B} (R : A -> B -> Prop) l l' : Forall2 R l l' -> length l = length l'.
Proof. induction 1; cbn; congruence. Qed.

Lemma recreates_tsl n e : Recreates e -> Recreates (TSL n e).
Proof.
  intros He pre live Hg Ht.
  destruct pre as [| | | |m0 v0 kids0]; try contradiction. destruct live as [| | | |m v kids]; try contradiction.
  destruct Hg as (-> & Hlen & Hg). destruct Ht as (-> & -> & HF & Hex).
  destruct (tsl_fold e He kids0 kids HF Hg [] false v0) as (F1 & F2 & F3 & F4).
  cbn [length app Z.of_nat] in F1, F3.
  assert (Hvalid : Forall (fun c => nmod c = true -> nvalid c = true) kids).
  { clear - HF He Hg. induction HF as [|c0 c k0 k Hc HF IH]; constructor.
    - inversion Hg; subst. destruct Hc as [[Hm Htk]|Heq]; [|subst c].
      + intros _. apply (He c0 c); assumption.
      + intros Hm. rewrite (good_nmod e c0) in Hm by assumption. discriminate.
    - inversion Hg; subst. apply IH; assumption. }
  pose proof (tsl_items_nonempty e 0 kids Hvalid Hex) as Hne.
  apply Exists_existsb in Hex.
  unfold recreates. change (capture (TSL n e) (NIdx true true kids)) with (DList (tsl_items e 0 kids)).
  rewrite apply_eq. cbn [has_effect].
  destruct (tsl_items e 0 kids) as [|it its] eqn:Eit; [congruence|]. cbn [is_nil negb].
  rewrite <- Eit in *. fold (tsl_step e). rewrite F1, Hex, !orb_true_r.
  cbn [nmod nvalid]. change (commit (TSL n e) (NIdx true true ?k)) with (NIdx false true (map (commit e) k)).
  change (capture (TSL n e) (NIdx true true ?k)) with (DList (tsl_items e 0 k)).
  rewrite F2, F3. repeat split; try reflexivity.
  - rewrite map_length. apply Forall2_len in HF. lia.
  - exact F4.
Qed.
