(* MapEval.v — MIRROR of the value side of one map_ evaluation (map_node.cpp map_evaluate_impl), per slot:
     remove_entry_at_slot   : stop the child; erase the owned output element (a removal is published iff
                              the element was valid)
     create_entry_at_slot   : construct + start a child graph from the body's initial state, bound to the key
     the evaluation loop    : a started child that is in the evaluation set and has something due (an input
                              ticked, or its own schedule) is evaluated; its terminal writes the element
   The slot store itself (stable slots, slot reuse) is the key set's (property C05 family) and the choice
   of the evaluation set is MapSched's; here an entry is looked at in isolation.
   Executable definitions only; the (partial) refinement to MapSpec is in MapEvalFacts.v. *)
Require Import Base MapSpec.

Record sentry (S : Type) := mkSE {
  se_key : Z;            (* MapKeyEntry::key *)
  se_started : bool;     (* entry->graph.view().started() *)
  se_inst : S;           (* the child graph's state *)
  se_valid : bool }.     (* the owned output element is valid *)
Arguments mkSE {S}. Arguments se_key {S}. Arguments se_started {S}. Arguments se_inst {S}. Arguments se_valid {S}.

(* remove_entry_at_slot *)
Definition slot_remove {S} (e : sentry S) : sentry S * kev :=
  (mkSE (se_key e) false (se_inst e) false, mkEv false true (se_valid e) None false).

(* create_entry_at_slot for key [key]: a fresh child, whatever was in the slot *)
Definition slot_create {S} (B : body S) (key : Z) : sentry S := mkSE key true (b_init B) false.

(* one iteration of the evaluation loop for a started entry.  [in_set]: the slot is in the evaluation set
   (candidate and due by the map node's own bookkeeping); [first]: created in this evaluation.
   The child graph evaluates its nodes only if something in it is scheduled: an input ticked or a wake-up is due. *)
Definition slot_eval {S} (B : body S) (t : Z) (args : list (option Z * bool)) (first in_set : bool) (e : sentry S)
  : sentry S * kev :=
  if se_started e && in_set && (first || any_mod args || wake_due B (se_inst e) t) then
    let '(s', o) := b_step B (se_inst e) (mkBI t (se_key e) first args) in
    match o with
    | BOut v => (mkSE (se_key e) true s' true, mkEv first false false (Some v) false)
    | BNone => (mkSE (se_key e) true s' (se_valid e), mkEv first false false None false)
    | BErr => (mkSE (se_key e) true s' (se_valid e), mkEv first false false None true)
    end
  else (e, mkEv (se_started e && first) false false None false).

(* the abstraction: what an entry means for its key *)
Definition abs_entry {S} (vals : list (option Z)) (e : option (sentry S)) : kstate S :=
  match e with
  | Some e => if se_started e then mkK vals (Some (se_inst e)) (se_valid e) else mkK vals None false
  | None => mkK vals None false
  end.
