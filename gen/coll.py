"""Family `coll` (property C05): scripted mutation histories on the real collection time-series storage.

Case lines
  1 kind mode p1 p2        kind 1 TSS<int> | 2 TSD<int,TS<int>> | 3 tick TSW<int,period=p1,min_period=p2>
                           (kinds 1, 2, 4: p1 = 1 selects int32 keys / elements / values instead of int64 - the stable slot
                            store keeps the slot life cycle in bitmaps for keys aligned below a pointer and in tagged
                            pointers otherwise; the Coq model is key-type agnostic, the lines are the same)
                                4 TSD<int,TSS<int>> (nested; no Coq model, oracle only) | 7 TSB{a,b,c:TS<int>} | 8 TSL<TS<int>,3>
                                9 DURATION window TSW<int, time_range=p1, min_time_range=p2> (ops as TSW)
                           mode 0: stand-alone TSOutput, observed through TSOutputView
                           mode 1: the collection is the output of a scripted source node of a real graph run by the
                                   simulation executor; an ACTIVE probe node and a PASSIVE probe node (woken every smallest
                                   step by its own scheduler) are bound to it; the passive probe prints, through its
                                   TSInputView, the same lines at every scripted cycle time
  2 t (code a b)*          one engine cycle at time t and the mutations applied in it, in order
     TSS  1 add k | 2 remove k | 3 clear | 4 reserve c | 5 touch
     TSD  1 set k v | 2 erase k | 3 clear | 4 reserve c | 5 touch | 6 create k (at(k), child not written)
          7 write k v: a live key's element written through its OWN output view, no dictionary-level operation
     TSW  1 push v | 3 clear
     TSB/TSL 1 set i v
     nested  1 add e to the set at key k (creating it) | 2 remove e from the set at key k | 3 erase key k | 4 clear
Observation lines (per cycle, after the mutations)
  19 r*                    result of each mutation (add/remove/erase: changed; TSW: 2 = logic_error)
  20 t modified valid all_valid last_modified size capacity [TSW: full min has_removed removed cleared first_time]
  21 value (TSS/TSD: sorted live keys; TSW: contents oldest first)      22 added (sorted) [TSW: value times]
  23 removed (sorted)      31 TSD modified keys      32 TSD valid keys
  33 TSD items (k valid v lmt)*   34 TSD removed items (k v)*
  24 slot states (0 free 1 live 2 pending erase)   25 slot keys   26/27/35 raw added/removed/modified bits
  36 TSD key_set: modified valid last_modified
  28 value() surface       29 flag + delta added / modified map / pushed element       30 flag + delta removed
  37 ticked                the ACTIVE probe ran in this cycle (stand-alone mode: modified)
  38 (i v)*                TSB/TSL: child.delta_value() through the endpoint view (not compared with the model)
  40 k valid lmt modified n v* na a* nr r*     nested: child set of live key k, its added / removed
  41 k v*                  nested: readable value of removed key k
  18 code                  construction failed
"""
import random

NAME = "coll"
DRIVER_SRCS = ["coll_driver.cpp"]
MODEL_FAMILY = "coll"
MODE = "diff"
BUDGET = {"quick": 600, "thorough": 12000}

# oracle failure kinds that are violations of C05
PROP_KINDS = {"C05": {
    "step", "disjoint", "added_absent", "added_was_present", "removed_present", "removed_was_absent",
    "net_effect", "unmodified_delta", "delta_surface", "value_surface", "op_result",
    "tsd_step_value", "tsd_added_not_modified", "tsd_modified_not_live", "tsd_removed_value",
    "tsd_resurrect_lost_modified", "tsd_modified_exact",
    "win_lastn", "win_valid", "win_delta", "win_evicted", "win_size", "shape", "crash",
    "notify", "fixed_step", "fixed_delta", "nested_step", "nested_child_step", "nested_unmodified_changed",
    "win_cleared", "dwin_content",
},
 # C04 ("modified / valid / last-modified-time tell the truth"): only the kinds stating that a PER-TICK delta
 # (removed_value / cleared / added / removed / modified sets / delta_value) is readable only in the cycle that
 # produced it and tells the truth about that cycle - not the value-coherence kinds.
 "C04": {"win_evicted", "win_cleared", "win_delta", "unmodified_delta", "delta_surface", "fixed_delta", "tsd_modified_exact",
         "crash"},
}
# reported in the statistics only (suspected secondary findings, see docs/notes-coll.md):
#   tsl_child_delta_unmodified, nested_resurrect_stale


# ---------------------------------------------------------------- generator
def _keys(rng, tier):
    n = rng.choice([2, 3, 3, 4, 5, 6]) if rng.random() < 0.8 else rng.randint(8, 14)
    return list(range(1, n + 1))


def _gen_set_cycle(rng, keys, kind, big):
    nops = rng.choice([1, 1, 2, 2, 3, 3, 4, 5, 6]) if not big else rng.randint(3, 12)
    ops = []
    for _ in range(nops):
        r = rng.random()
        k = rng.choice(keys)
        if kind == 1:
            if r < 0.47:
                ops += [1, k, 0]
            elif r < 0.90:
                ops += [2, k, 0]
            elif r < 0.94:
                ops += [3, 0, 0]
            elif r < 0.97:
                ops += [5, 0, 0]
            else:
                ops += [4, rng.choice([0, 3, 8, 9, 12, 17, 20]), 0]
        else:
            if r < 0.50:
                ops += [1, k, rng.randint(1, 9)]
            elif r < 0.88:
                ops += [2, k, 0]
            elif r < 0.92:
                ops += [3, 0, 0]
            elif r < 0.95:
                ops += [5, 0, 0]
            elif r < 0.975:
                ops += [4, rng.choice([0, 3, 8, 9, 12, 17, 20]), 0]
            elif r < 0.988:
                ops += [6, k, 0]
            else:
                ops += [7, k, rng.randint(1, 9)]
    return ops


def _gen_pattern_cycle(rng, keys, kind):
    """the per-key alternations the proofs distinguish: add-remove, remove-add, and longer ones"""
    k = rng.choice(keys)
    n = rng.randint(2, 5)
    first = rng.choice([1, 2])
    ops = []
    for i in range(n):
        c = first if i % 2 == 0 else 3 - first
        if rng.random() < 0.2:
            k2 = rng.choice(keys)
            ops += [rng.choice([1, 2]), k2, rng.randint(1, 9) if kind == 2 else 0]
        ops += [c, k, (rng.randint(1, 9) if (kind == 2 and c == 1) else 0)]
    return ops


def _gen_fixed(rng, kind, mode, ncyc, t):
    case = [[1, kind, mode, 0, 0]]
    for _ in range(ncyc):
        ops = []
        for _ in range(rng.choice([0, 1, 1, 2, 2, 3, 4])):
            ops += [1, rng.randint(0, 2), rng.randint(1, 99)]
        case.append([2, t] + ops)
        t += rng.choice([1, 1, 1, 2, 3])
    return case


def _gen_nested(rng, mode, ncyc, t):
    keys = list(range(1, rng.choice([2, 3, 3, 4]) + 1))
    case = [[1, 4, mode, 1 if rng.random() < 0.5 else 0, 0]]
    for _ in range(ncyc):
        ops = []
        for _ in range(rng.choice([0, 1, 1, 2, 3, 4, 5])):
            r = rng.random()
            k = rng.choice(keys)
            if r < 0.50:
                ops += [1, k, rng.randint(1, 4)]
            elif r < 0.72:
                ops += [2, k, rng.randint(1, 4)]
            elif r < 0.95:
                ops += [3, k, 0]
            else:
                ops += [4, 0, 0]
        case.append([2, t] + ops)
        t += rng.choice([1, 1, 1, 2, 3])
    return case


def _gen_growth_remove(rng, kind, mode, i32, tier):
    """the slot table grows (8 -> 16 -> 32) in the SAME cycle in which elements are removed (and others re-added):
    removed elements must stay removed, live ones live, across the re-allocation of the slot-state tables."""
    t = rng.randint(1, 3)
    val = (lambda: rng.randint(1, 9)) if kind == 2 else (lambda: 0)
    case = [[1, kind, mode, i32, 0]]
    n0 = rng.randint(4, 8)
    case.append([2, t] + [x for k in range(1, n0 + 1) for x in (1, k, val())])
    t += rng.choice([1, 2])
    nxt = n0 + 1
    for target in ((16, 32) if rng.random() < 0.4 else (16,)):
        live = list(range(1, nxt))
        ops = []
        for k in rng.sample(live, rng.randint(1, min(4, len(live)))):
            ops += [2, k, 0]                                # removals BEFORE the growth of this cycle
        if rng.random() < 0.5:
            k = rng.choice(live)
            ops += [2, k, 0, 1, k, val()]                   # and a remove-then-add resurrection
        grow_by_reserve = rng.random() < 0.3
        if grow_by_reserve:
            ops += [4, target, 0]
        need = target // 2 + 1 + rng.randint(0, 2)
        while nxt <= need:
            ops += [1, nxt, val()]
            nxt += 1
        for k in rng.sample(live, rng.randint(0, 2)):
            ops += [2, k, 0]                                # and removals AFTER it
        case.append([2, t] + ops)
        t += rng.choice([1, 1, 2])
        case.append([2, t] + ([] if rng.random() < 0.5 else [1, rng.randint(1, nxt - 1), val()]))
        t += 1
    for _ in range(rng.randint(1, 4)):
        case.append([2, t] + _gen_set_cycle(rng, list(range(1, nxt)), kind, True))
        t += rng.choice([1, 2])
    return case


def _gen_child_writes(rng, mode, i32, tier):
    """TSD: cycles in which elements are written ONLY through their own output views (no dictionary-level operation),
    right after cycles that modified / added / removed several keys: the dictionary must roll its delta window from
    record_child_modified alone, and the delta of such a cycle is exactly the keys written in it."""
    keys = list(range(1, rng.randint(3, 6) + 1))
    t = rng.randint(1, 3)
    case = [[1, 2, mode, i32, 0]]
    case.append([2, t] + [x for k in keys for x in (1, k, rng.randint(1, 9))])
    live = set(keys)
    for _ in range(rng.randint(3, 10 if tier == "quick" else 24)):
        t += rng.choice([1, 1, 2, 3])
        r = rng.random()
        ops = []
        if r < 0.45 and live:
            # child-only cycle: 1-3 elements, mostly ones that were touched by the previous cycles too
            for k in rng.sample(sorted(live), rng.randint(1, min(3, len(live)))):
                ops += [7, k, rng.randint(1, 9)]
                if rng.random() < 0.25:
                    ops += [7, k, rng.randint(1, 9)]            # written twice in the cycle
            if rng.random() < 0.15:
                ops += [7, rng.choice(keys), 5]                  # possibly a key that is not live: ignored
        elif r < 0.55:
            ops = []                                             # gap
        elif r < 0.70 and live:
            # child write FIRST, dictionary-level operations after it
            k = rng.choice(sorted(live))
            ops += [7, k, rng.randint(1, 9)]
            ops += _gen_set_cycle(rng, keys, 2, False)
        else:
            # a multi-key dictionary-level cycle: several sets, an erase, possibly a re-creation
            for k in rng.sample(keys, rng.randint(2, len(keys))):
                if rng.random() < 0.75:
                    ops += [1, k, rng.randint(1, 9)]
                else:
                    ops += [2, k, 0]
            if rng.random() < 0.3:
                ops += [7, rng.choice(keys), rng.randint(1, 9)]
        for i in range(0, len(ops), 3):
            c, a = ops[i], ops[i + 1]
            if c in (1, 6):
                live.add(a)
            elif c == 2:
                live.discard(a)
            elif c == 3:
                live.clear()
        case.append([2, t] + ops)
    return case


def _gen_duration(rng, mode, tier):
    """duration windows: pushes at increasing times whose gaps make the expired prefix advance the head, the ring wrap,
    and then GROW (4 -> 8 -> 16) while it is wrapped; clears; rejected sequences."""
    R = rng.randint(2, 12)
    m = rng.choice([0, 0, 1, R // 2, R, R + 1])
    case = [[1, 9, mode, R, m]]
    t = rng.randint(1, 3)
    n = rng.randint(4, 16 if tier == "quick" else 48)
    v = 10

    def push(tt, extra=None):
        nonlocal v
        v += 1
        case.append([2, tt, 1, v, 0] + (extra or []))
    if R >= 4 and rng.random() < 0.5:
        # recipe: one old element, a cluster, a jump that expires exactly the old one (head advances, ring full and
        # wrapped), then pushes that expire nothing (growth while wrapped)
        d = rng.randint(2, R - 2)
        push(t); push(t + d); push(t + d + 1); push(t + d + 2)
        t5 = t + R + 1
        if t5 > t + d + 2:
            push(t5)
            t = t5
            for _ in range(rng.randint(1, 3)):
                t += 1
                push(t)
        else:
            t = t + d + 2
    for _ in range(n):
        r = rng.random()
        t += rng.choice([1, 1, 1, 2, 3, max(1, R - 1), R, R + 1, 2 * R + 1]) if rng.random() < 0.6 else 1
        if r < 0.78:
            push(t)
        elif r < 0.86:
            case.append([2, t])
        elif r < 0.90:
            case.append([2, t, 3, 0, 0])
        elif r < 0.95:
            v += 1
            case.append([2, t, 3, 0, 0, 1, v, 0])
        else:
            case.append([2, t] + rng.choice([[1, 5, 0, 1, 6, 0], [1, 5, 0, 3, 0, 0], [3, 0, 0, 3, 0, 0]]))
    return case


def gen(rng, tier, prop):
    r = rng.random()
    kind = 1 if r < 0.28 else (2 if r < 0.58 else (3 if r < 0.69 else (9 if r < 0.79 else (4 if r < 0.87 else (7 if r < 0.935 else 8)))))
    mode = 1 if rng.random() < 0.4 else 0
    if kind == 9:
        return _gen_duration(rng, mode, tier)
    ncyc = rng.randint(2, 14 if tier == "quick" else 40)
    t = rng.randint(1, 3)
    if kind in (7, 8):
        return _gen_fixed(rng, kind, mode, ncyc, t)
    if kind == 4:
        return _gen_nested(rng, mode, ncyc, t)
    if kind == 3:
        n = rng.randint(1, 5)
        m = rng.randint(0, n) if rng.random() < 0.9 else n + 1
        if rng.random() < 0.02:
            n = 0
        case = [[1, 3, mode, n, m]]
        for _ in range(ncyc + rng.randint(0, 8)):
            rr = rng.random()
            if rr < 0.72:
                case.append([2, t, 1, rng.randint(1, 99), 0])
            elif rr < 0.84:
                case.append([2, t])
            elif rr < 0.90:
                case.append([2, t, 3, 0, 0])
            elif rr < 0.95:
                case.append([2, t, 3, 0, 0, 1, rng.randint(1, 99), 0])
            else:   # rejected sequences: two pushes, push then clear, clear clear
                case.append([2, t] + rng.choice([[1, 5, 0, 1, 6, 0], [1, 5, 0, 3, 0, 0], [3, 0, 0, 3, 0, 0], [3, 0, 0, 1, 7, 0, 1, 8, 0]]))
            t += rng.choice([1, 1, 1, 2, 5])
        return case
    i32 = 1 if rng.random() < 0.5 else 0
    if kind == 2 and rng.random() < 0.22:
        return _gen_child_writes(rng, mode, i32, tier)
    if rng.random() < 0.15:
        return _gen_growth_remove(rng, kind, mode, i32, tier)
    keys = _keys(rng, tier)
    big = len(keys) > 7
    case = [[1, kind, mode, i32, 0]]
    for _ in range(ncyc):
        rr = rng.random()
        if rr < 0.12:
            case.append([2, t])                        # gap: a cycle with no mutation
        elif rr < 0.30:
            case.append([2, t] + _gen_pattern_cycle(rng, keys, kind))
        else:
            case.append([2, t] + _gen_set_cycle(rng, keys, kind, big))
        t += rng.choice([1, 1, 1, 2, 3])
    return case


def enumerate_cases(prop):
    """all per-cycle operation triples over two keys, after a warm-up cycle that makes key 1 present
    (TSS: add/remove; TSD: set/erase), followed by an empty cycle and a probe cycle."""
    out = []
    for kind in (1, 2):
        alphabet = [(1, 1), (2, 1), (1, 2), (2, 2)]
        for a in alphabet:
            for b in alphabet:
                for c in alphabet:
                    ops = []
                    for i, (code, k) in enumerate((a, b, c)):
                        ops += [code, k, (i + 3) if (kind == 2 and code == 1) else 0]
                    for mode in (0, 1):
                        i32 = (len(out) // 2) % 2
                        out.append([[1, kind, mode, i32, 0], [2, 1, 1, 1, 1 if kind == 2 else 0], [2, 2] + ops, [2, 3], [2, 4, 1, 2, 9 if kind == 2 else 0]])
    for n in range(1, 6):
        for m in range(0, n + 1):
            case = [[1, 3, 0, n, m]]
            for i in range(2 * n + 2):
                case.append([2, i + 1, 1, 10 + i, 0])
            out.append(case)
    return out


# ---------------------------------------------------------------- parsing
def parse_case(case):
    hdr = [1, 0, 0, 0]
    cycles = []
    for l in case:
        if l and l[0] == 1 and len(l) >= 5:
            hdr = l[1:5]
        elif l and l[0] == 2 and len(l) >= 2:
            ops = [tuple(l[i:i + 3]) for i in range(2, len(l) - 2, 3)]
            cycles.append((l[1], ops))
    return hdr, cycles


def split_obs(out):
    """group the implementation's lines per cycle: list of dict tag -> payload"""
    blocks = []
    cur = None
    for l in out:
        if not l:
            continue
        if l[0] == 19:
            cur = {19: l[1:]}
            blocks.append(cur)
        elif cur is not None:
            if l[0] == 40:
                cur.setdefault("rows40", []).append(l[1:])
            elif l[0] == 41:
                cur.setdefault("rows41", []).append(l[1:])
            else:
                cur[l[0]] = l[1:]
    return blocks


def pairs(l, n=2):
    return [tuple(l[i:i + n]) for i in range(0, len(l) - n + 1, n)]


# ---------------------------------------------------------------- the property, evaluated on the implementation's output
def oracle(prop, case, out):
    if not isinstance(out, list):
        return [("crash", str(out)[:300])]
    hdr, cycles = parse_case(case)
    kind = hdr[0]
    if out and out[0] and out[0][0] == 18:
        if kind == 3 and hdr[2] <= 0:
            return []
        return [("crash", "construction failed: %s" % out[0])]
    blocks = split_obs(out)
    fails = []
    if len(blocks) != len(cycles):
        return [("shape", "%d cycles scripted, %d observed" % (len(cycles), len(blocks)))]
    if kind == 1:
        return _oracle_tss(cycles, blocks) + _oracle_notify(blocks)
    if kind == 2:
        return _oracle_tsd(cycles, blocks) + _oracle_notify(blocks)
    if kind == 3:
        return _oracle_tsw(hdr[2], hdr[3], cycles, blocks) + _oracle_notify(blocks)
    if kind == 9:
        return _oracle_dwin(hdr[2], hdr[3], cycles, blocks) + _oracle_notify(blocks)
    if kind in (7, 8):
        return _oracle_fixed(cycles, blocks) + _oracle_notify(blocks)
    if kind == 4:
        return _oracle_nested(cycles, blocks) + _oracle_notify(blocks)
    return fails


def _oracle_tss(cycles, blocks):
    fails = []
    prev = set()                 # value at the previous tick; starts empty
    for (t, ops), b in zip(cycles, blocks):
        try:
            modified = b[20][1]
            val, add, rem = b[21], b[22], b[23]
        except (KeyError, IndexError):
            return fails + [("shape", "cycle %d: missing lines" % t)]
        V, A, R = set(val), set(add), set(rem)
        if len(V) != len(val) or len(A) != len(add) or len(R) != len(rem):
            fails.append(("step", "t=%d duplicate element in value/added/removed %s %s %s" % (t, val, add, rem)))
        # value_t = (value_{t-1} \ removed) U added, from empty
        if V != (prev - R) | A:
            fails.append(("step", "t=%d value %s != (prev %s - removed %s) + added %s" % (t, sorted(V), sorted(prev), sorted(R), sorted(A))))
        if A & R:
            fails.append(("disjoint", "t=%d added and removed share %s" % (t, sorted(A & R))))
        if A - V:
            fails.append(("added_absent", "t=%d added %s not present afterwards" % (t, sorted(A - V))))
        if A & prev:
            fails.append(("added_was_present", "t=%d added %s was already present before" % (t, sorted(A & prev))))
        if R & V:
            fails.append(("removed_present", "t=%d removed %s still present" % (t, sorted(R & V))))
        if R - prev:
            fails.append(("removed_was_absent", "t=%d removed %s was not present before" % (t, sorted(R - prev))))
        # net effect computed from the script alone: mutations that cancel leave no trace
        spec = set(prev)
        results = []
        for (c, a, _b) in ops:
            if c == 1:
                results.append(int(a not in spec)); spec.add(a)
            elif c == 2:
                results.append(int(a in spec)); spec.discard(a)
            elif c == 3:
                results.append(0); spec.clear()
            else:
                results.append(0 if c in (4, 5) else -1)
        if V != spec:
            fails.append(("net_effect", "t=%d value %s but the script yields %s" % (t, sorted(V), sorted(spec))))
        if A != spec - prev or R != prev - spec:
            fails.append(("net_effect", "t=%d delta +%s -%s but the net effect of the cycle is +%s -%s"
                          % (t, sorted(A), sorted(R), sorted(spec - prev), sorted(prev - spec))))
        if results != b[19]:
            fails.append(("op_result", "t=%d mutation results %s expected %s" % (t, b[19], results)))
        touched = any(c in (1, 2, 3, 5) for (c, _a, _b) in ops)
        if bool(modified) != touched:
            fails.append(("unmodified_delta", "t=%d modified=%d but mutations applied=%s" % (t, modified, touched)))
        if not modified and (A or R):
            fails.append(("unmodified_delta", "t=%d not modified but delta +%s -%s" % (t, sorted(A), sorted(R))))
        # the Value-layer surfaces agree with the view
        if set(b.get(28, [])) != V:
            fails.append(("value_surface", "t=%d value() %s vs values %s" % (t, b.get(28), val)))
        da, dr = b.get(29, [0]), b.get(30, [0])
        if da[0] != modified or (modified and (set(da[1:]) != A or set(dr[1:]) != R)):
            fails.append(("delta_surface", "t=%d delta_value +%s -%s vs view +%s -%s" % (t, da, dr, add, rem)))
        # removed elements stay readable for the cycle: their keys are printed from the slots
        prev = V
    return fails


def _oracle_tsd(cycles, blocks):
    fails = []
    prev = {}                    # valid items at the previous tick
    ghost = set()
    for (t, ops), b in zip(cycles, blocks):
        try:
            modified = b[20][1]
            keys, add, rem, modk, validk = b[21], b[22], b[23], b[31], b[32]
            items = {k: (valid, v, lmt) for (k, valid, v, lmt) in pairs(b[33], 4)}
            remitems = dict(pairs(b[34], 2))
        except (KeyError, IndexError, ValueError):
            return fails + [("shape", "cycle %d: missing lines" % t)]
        cur = {k: v for k, (valid, v, _l) in items.items() if valid}
        K, A, R, M = set(cur), set(add), set(rem), set(modk)
        P = set(prev)
        if set(validk) != K:
            fails.append(("value_surface", "t=%d valid_keys %s vs valid items %s" % (t, validk, sorted(K))))
        if K != (P - R) | A:
            fails.append(("step", "t=%d keys %s != (prev %s - removed %s) + added %s" % (t, sorted(K), sorted(P), sorted(R), sorted(A))))
        if A & R:
            fails.append(("disjoint", "t=%d added and removed share %s" % (t, sorted(A & R))))
        if A - K:
            fails.append(("added_absent", "t=%d added %s not present afterwards" % (t, sorted(A - K))))
        if A & P:
            fails.append(("added_was_present", "t=%d added %s was already present" % (t, sorted(A & P))))
        if R & K:
            fails.append(("removed_present", "t=%d removed %s still present" % (t, sorted(R & K))))
        if R - P:
            fails.append(("removed_was_absent", "t=%d removed %s was not present before" % (t, sorted(R - P))))
        if M - set(keys):
            fails.append(("tsd_modified_not_live", "t=%d modified keys %s not live" % (t, sorted(M - set(keys)))))
        # script semantics (reference dictionary).  ghost: keys that are live but whose child was never
        # written (created with at(k) only) - they are in no value and in no delta.  limbo: keys erased in
        # this cycle; their slot and child survive until the next cycle, so re-creating one restores it.
        spec = dict(prev)
        limbo = {}
        state = {}                 # key -> 'w' written this cycle | 'we' written then erased this cycle
        pattern = False            # a key written, erased and made live again within this cycle
        touched = False
        results = []

        def erase(k):
            if k in spec:
                limbo[k] = spec.pop(k)
            elif k in ghost:
                ghost.discard(k)
                limbo[k] = None
            else:
                return 0
            if state.get(k) == "w":
                state[k] = "we"
            return 1
        for (c, a, v) in ops:
            if c == 1:
                if state.get(a) == "we":
                    pattern = True
                spec[a] = v
                ghost.discard(a)
                limbo.pop(a, None)
                state[a] = "w"
                touched = True
                results.append(0)
            elif c == 2:
                results.append(erase(a))
                touched = True
            elif c == 3:
                for k in list(spec) + list(ghost):
                    erase(k)
                touched = True
                results.append(0)
            elif c == 5:
                touched = True
                results.append(0)
            elif c == 7:
                if a in spec or a in ghost:
                    spec[a] = v
                    ghost.discard(a)
                    state[a] = "w"
                    touched = True
                    results.append(0)
                else:
                    results.append(-2)
            elif c == 6:
                results.append(None)
                if a in spec or a in ghost:
                    continue
                touched = True
                if a in limbo:
                    old = limbo.pop(a)
                    if old is None:
                        ghost.add(a)
                    else:
                        spec[a] = old
                        if state.get(a) == "we":
                            pattern = True
                            state[a] = "w"
                else:
                    ghost.add(a)
            else:
                results.append(0 if c == 4 else -1)
        if len(results) != len(b[19]) or any(r is not None and r != x for r, x in zip(results, b[19])):
            fails.append(("op_result", "t=%d mutation results %s expected %s" % (t, b[19], results)))
        if set(keys) != set(spec) | ghost:
            fails.append(("net_effect", "t=%d live keys %s but the script yields %s" % (t, sorted(keys), sorted(set(spec) | ghost))))
        if cur != spec:
            fails.append(("net_effect", "t=%d valid items %s but the script yields %s" % (t, sorted(cur.items()), sorted(spec.items()))))
        if A != set(spec) - P or R != P - set(spec):
            fails.append(("net_effect", "t=%d delta +%s -%s but the net effect of the cycle is +%s -%s"
                          % (t, sorted(A), sorted(R), sorted(set(spec) - P), sorted(P - set(spec)))))
        # value_t = apply(delta_t, value_{t-1}) with delta = removed keys + modified items
        dflag = b.get(29, [0])[0]
        dmod = dict(pairs(b.get(29, [0])[1:], 2))
        drem = set(b.get(30, [0])[1:])
        applied = {k: v for k, v in prev.items() if k not in drem}
        applied.update(dmod)
        kind_v = "tsd_resurrect_lost_modified" if pattern else "tsd_step_value"
        if applied != cur:
            fails.append((kind_v, "t=%d previous %s with delta {removed %s, modified %s} gives %s, observed %s"
                          % (t, sorted(prev.items()), sorted(drem), sorted(dmod.items()), sorted(applied.items()), sorted(cur.items()))))
        # the delta is EXACTLY this cycle's: modified keys = the keys written in this cycle that are live at its end
        written = {k for k, st in state.items() if st == "w" and k in spec}
        if M != written:
            fails.append(("tsd_resurrect_lost_modified" if (pattern and written - M) else "tsd_modified_exact",
                          "t=%d modified keys %s but the keys written in this cycle (and live) are %s" % (t, sorted(M), sorted(written))))
        if A - M:
            fails.append(("tsd_resurrect_lost_modified" if pattern else "tsd_added_not_modified",
                          "t=%d added keys %s are not in modified keys %s" % (t, sorted(A - M), sorted(M))))
        if modified and (set(dmod) != {k for k in M} or any(cur.get(k) != v for k, v in dmod.items() if k in cur)):
            fails.append(("delta_surface", "t=%d delta modified map %s vs modified keys %s / items %s" % (t, sorted(dmod.items()), sorted(M), sorted(cur.items()))))
        if dflag != modified or (modified and drem != R):
            fails.append(("delta_surface", "t=%d delta removed %s vs removed keys %s (flag %d, modified %d)" % (t, sorted(drem), sorted(R), dflag, modified)))
        # removed values stay readable for the cycle
        for k in R:
            if k not in remitems:
                fails.append(("tsd_removed_value", "t=%d removed key %d has no readable item" % (t, k)))
        if bool(modified) != touched:
            fails.append(("unmodified_delta", "t=%d modified=%d but mutations applied=%s" % (t, modified, touched)))
        if not modified and (A or R or M):
            fails.append(("unmodified_delta", "t=%d not modified but delta +%s -%s ~%s" % (t, sorted(A), sorted(R), sorted(M))))
        prev = cur
    return fails


def _oracle_tsw(n, m, cycles, blocks):
    fails = []
    pushed = []                  # values pushed since the last clear
    ever = False
    for (t, ops), b in zip(cycles, blocks):
        try:
            h = b[20]
            modified, valid, all_valid, size, cap, full, minp, has_rem, remv, cleared = h[1], h[2], h[3], h[5], h[6], h[7], h[8], h[9], h[10], h[11]
            vals = b[21]
        except (KeyError, IndexError):
            return fails + [("shape", "cycle %d: missing lines" % t)]
        # reference: one tick per cycle (a clear may be followed by one push); anything else is rejected
        ticked = False
        clearedc = False
        res = []
        evicted = None
        pushed_now = None
        for (c, a, _b) in ops:
            if c == 1:
                if ticked and not clearedc:
                    res.append(2)
                else:
                    if len(pushed) >= n:
                        evicted = pushed[len(pushed) - n]
                    pushed.append(a); pushed_now = a
                    ticked = True; clearedc = False; res.append(0)
            elif c == 3:
                if ticked:
                    res.append(2)
                else:
                    pushed = []; ticked = True; clearedc = True; evicted = None; pushed_now = None; res.append(0)
            else:
                res.append(-1)
        ever = ever or ticked
        exp = pushed[-n:]
        if vals != exp:
            fails.append(("win_lastn", "t=%d window %s but the last %d pushed are %s" % (t, vals, n, exp)))
        if size != len(exp) or cap != n or full != int(len(exp) == n):
            fails.append(("win_size", "t=%d size/cap/full %s expected %d/%d/%d" % (t, [size, cap, full], len(exp), n, int(len(exp) == n))))
        want_valid = int(ever and len(exp) >= m)
        if all_valid != want_valid:
            fails.append(("win_valid", "t=%d all_valid=%d with %d of min %d elements (ticked before: %s)" % (t, all_valid, len(exp), m, ever)))
        if res != b[19]:
            fails.append(("op_result", "t=%d results %s expected %s" % (t, b[19], res)))
        if bool(modified) != ticked:
            fails.append(("unmodified_delta", "t=%d modified=%d ticked=%s" % (t, modified, ticked)))
        d = b.get(29, [0])
        if ticked and pushed_now is not None:
            if d != [1, pushed_now]:
                fails.append(("win_delta", "t=%d delta %s but %d was pushed" % (t, d, pushed_now)))
        elif d != [0]:
            fails.append(("win_delta", "t=%d delta %s on a cycle without a push" % (t, d)))
        if (has_rem, remv) != ((1, evicted) if evicted is not None else (0, 0)):
            fails.append(("win_evicted", "t=%d removed value %s expected %s" % (t, (has_rem, remv), evicted)))
        if cleared != int(any(c == 3 and r == 0 for (c, _a, _b), r in zip(ops, res))):
            fails.append(("win_cleared", "t=%d cleared=%d but the accepted operations of this cycle are %s" % (t, cleared, [(o[0], r) for o, r in zip(ops, res)])))
        if b.get(28, []) != vals:
            fails.append(("value_surface", "t=%d value() %s vs values %s" % (t, b.get(28), vals)))
    return fails


def _oracle_dwin(R, m, cycles, blocks):
    """duration window: the contents are the (time, value) pairs pushed since the last clear whose time is not older
    than (now - R) at the moment of the last push, in push order; removed_value is the LAST element that expired in
    this tick; valid (all_valid) once the span of the contents reaches the minimum range."""
    fails = []
    content = []                 # (time, value)
    ever = False
    for (t, ops), b in zip(cycles, blocks):
        try:
            h = b[20]
            modified, valid, all_valid, size, has_rem, remv, cleared, first = h[1], h[2], h[3], h[5], h[9], h[10], h[11], h[12]
            vals, tms = b[21], b[22]
        except (KeyError, IndexError):
            return fails + [("shape", "cycle %d: missing lines" % t)]
        ticked = False
        clearedc = False
        res = []
        evicted = None
        pushed_now = None
        for (c, a, _b) in ops:
            if c == 1:
                if ticked and not clearedc:
                    res.append(2)
                else:
                    expired = [p for p in content if p[0] < t - R]
                    if expired:
                        evicted = expired[-1][1]
                    content = [p for p in content if p[0] >= t - R] + [(t, a)]
                    pushed_now = a
                    ticked = True; clearedc = False; res.append(0)
            elif c == 3:
                if ticked:
                    res.append(2)
                else:
                    content = []; ticked = True; clearedc = True; evicted = None; pushed_now = None; res.append(0)
            else:
                res.append(-1)
        ever = ever or ticked
        if vals != [p[1] for p in content] or tms != [p[0] for p in content]:
            fails.append(("dwin_content", "t=%d window values %s times %s but the unexpired pushes are %s" % (t, vals, tms, content)))
        if size != len(content) or first != (content[0][0] if content else 0):
            fails.append(("win_size", "t=%d size/first time %s expected %s" % (t, [size, first], [len(content), content[0][0] if content else 0])))
        want_valid = int(ever and bool(content) and (m <= 0 or content[-1][0] - content[0][0] >= m))
        if all_valid != want_valid or valid != int(ever):
            fails.append(("win_valid", "t=%d valid/all_valid=%d/%d with contents spanning %s, min range %d" % (t, valid, all_valid, [p[0] for p in content], m)))
        if res != b[19]:
            fails.append(("op_result", "t=%d results %s expected %s" % (t, b[19], res)))
        if bool(modified) != ticked:
            fails.append(("unmodified_delta", "t=%d modified=%d ticked=%s" % (t, modified, ticked)))
        d = b.get(29, [0])
        if ticked and pushed_now is not None:
            if d != [1, pushed_now]:
                fails.append(("win_delta", "t=%d delta %s but %d was pushed" % (t, d, pushed_now)))
        elif d != [0]:
            fails.append(("win_delta", "t=%d delta %s on a cycle without a push" % (t, d)))
        if (has_rem, remv) != ((1, evicted) if evicted is not None else (0, 0)):
            fails.append(("win_evicted", "t=%d removed value %s expected %s" % (t, (has_rem, remv), evicted)))
        if cleared != int(any(c == 3 and r == 0 for (c, _a, _b), r in zip(ops, res)) and evicted is None):
            fails.append(("win_cleared", "t=%d cleared=%d, accepted operations %s" % (t, cleared, [(o[0], r) for o, r in zip(ops, res)])))
        if b.get(28, []) != vals:
            fails.append(("value_surface", "t=%d value() %s vs values %s" % (t, b.get(28), vals)))
    return fails


def _oracle_notify(blocks):
    """an active consumer is woken in exactly the cycles in which the collection ticked"""
    fails = []
    for b in blocks:
        if 37 in b and 20 in b and b[37][:1] != [b[20][1]]:
            fails.append(("notify", "t=%d active consumer ran=%s but modified=%d" % (b[20][0], b[37], b[20][1])))
    return fails


def _oracle_fixed(cycles, blocks):
    fails = []
    prev = {}
    for (t, ops), b in zip(cycles, blocks):
        try:
            modified = b[20][1]
            items = {i: (valid, v, lmt) for (i, valid, v, lmt) in pairs(b[33], 4)}
            delta = dict(pairs(b[29][1:], 2))
            dflag = b[29][0]
            modidx = b[31][1:]
        except (KeyError, IndexError, ValueError):
            return fails + [("shape", "cycle %d: missing lines" % t)]
        cur = {i: v for i, (valid, v, _l) in items.items() if valid}
        applied = dict(prev)
        applied.update(delta)
        if applied != cur:
            fails.append(("fixed_step", "t=%d previous %s with delta %s gives %s, observed %s" % (t, prev, delta, applied, cur)))
        spec = dict(prev)
        written = set()
        for (c, a, v) in ops:
            if c == 1 and 0 <= a < 3:
                spec[a] = v
                written.add(a)
        if cur != spec:
            fails.append(("net_effect", "t=%d children %s but the script yields %s" % (t, cur, spec)))
        if set(delta) != written or sorted(modidx) != sorted(written) or b[31][0] != len(written):
            fails.append(("fixed_delta", "t=%d delta %s / modified children %s but the script wrote %s" % (t, delta, b[31], sorted(written))))
        if dflag != modified or bool(modified) != bool(written):
            fails.append(("unmodified_delta", "t=%d modified=%d delta flag=%d written=%s" % (t, modified, dflag, sorted(written))))
        vd = dict(pairs(b.get(38, []), 2))
        if set(vd) - written:
            fails.append(("tsl_child_delta_unmodified", "t=%d child.delta_value() has a value for unmodified children %s (written %s)"
                          % (t, sorted(set(vd) - written), sorted(written))))
        prev = cur
    return fails


def _rows40(b):
    """nested rows are repeated lines with the same tag: they were collected as a list under tag 40 / 41"""
    return b.get(40, []), b.get(41, [])


def _oracle_nested(cycles, blocks):
    fails = []
    prev = {}                       # key -> frozenset (valid keys only)
    ghost = set()
    for (t, ops), b in zip(cycles, blocks):
        try:
            modified = b[20][1]
            keys, add, rem, modk, validk = b[21], b[22], b[23], b[31], b[32]
        except (KeyError, IndexError):
            return fails + [("shape", "cycle %d: missing lines" % t)]
        rows = {}
        for row in b.get("rows40", []):
            k, valid, lmt, cmod = row[0:4]
            p = 4
            n = row[p]; vals = row[p + 1:p + 1 + n]; p += 1 + n
            na = row[p]; cadd = row[p + 1:p + 1 + na]; p += 1 + na
            nr = row[p]; crem = row[p + 1:p + 1 + nr]
            rows[k] = (valid, lmt, cmod, set(vals), set(cadd), set(crem))
        cur = {k: frozenset(r[3]) for k, r in rows.items() if r[0]}
        K, A, R, M, P = set(cur), set(add), set(rem), set(modk), set(prev)
        if set(validk) != K:
            fails.append(("value_surface", "t=%d valid_keys %s vs valid children %s" % (t, validk, sorted(K))))
        if K != (P - R) | A or A & R or A - K or A & P or R & K or R - P:
            fails.append(("nested_step", "t=%d keys %s prev %s added %s removed %s" % (t, sorted(K), sorted(P), sorted(A), sorted(R))))
        if M - set(keys):
            fails.append(("tsd_modified_not_live", "t=%d modified keys %s not live" % (t, sorted(M - set(keys)))))
        # script semantics
        spec = {k: set(v) for k, v in prev.items()}
        gh = set(ghost)
        resurrect = False
        erased_now = set()
        for (c, a, e) in ops:
            if c == 1:
                if a in erased_now and a not in spec and a not in gh:
                    resurrect = True
                if a not in spec:
                    spec[a] = set()
                gh.discard(a)
                spec[a].add(e)
            elif c == 2:
                if a in spec:
                    spec[a].discard(e)
                elif a in gh:
                    gh.discard(a); spec[a] = set()        # an (empty) tick validates the child set
            elif c == 3:
                if a in spec or a in gh:
                    erased_now.add(a)
                spec.pop(a, None); gh.discard(a)
            elif c == 4:
                erased_now |= set(spec) | gh
                spec.clear(); gh.clear()
        speccur = {k: frozenset(v) for k, v in spec.items()}
        if cur != speccur:
            fails.append(("nested_resurrect_stale" if resurrect else "net_effect",
                          "t=%d children %s but the script yields %s" % (t, {k: sorted(v) for k, v in cur.items()}, {k: sorted(v) for k, v in speccur.items()})))
        # child coherence: for a modified key, child value = (previous child value - child removed) + child added
        for k in K:
            valid, lmt, cmod, vals, cadd, crem = rows[k]
            before = set(prev.get(k, frozenset())) if k not in A else set()
            if k in M:
                if vals != (before - crem) | cadd or cadd & crem or cadd - vals or crem & vals:
                    fails.append(("nested_resurrect_stale" if resurrect else "nested_child_step",
                                  "t=%d key %d: child %s != (prev %s - removed %s) + added %s" % (t, k, sorted(vals), sorted(before), sorted(crem), sorted(cadd))))
            elif k in P and vals != set(prev[k]):
                fails.append(("nested_resurrect_stale" if resurrect else "nested_unmodified_changed",
                              "t=%d key %d not modified but its set changed %s -> %s" % (t, k, sorted(prev[k]), sorted(vals))))
        if not modified and (A or R or M):
            fails.append(("unmodified_delta", "t=%d not modified but delta +%s -%s ~%s" % (t, sorted(A), sorted(R), sorted(M))))
        prev = cur
        ghost = set(keys) - K
    return fails


# ---------------------------------------------------------------- evidence helpers
def _events(case):
    hdr, cycles = parse_case(case)
    kind = hdr[0]
    ev = {"cancel_add_remove": 0, "cancel_remove_add": 0, "long_alternation": 0, "reinsert_later_cycle": 0,
          "gap_cycles": 0, "growth": 0, "clear": 0, "set_erase_set": 0, "window_wrap": 0, "window_below_min": 0}
    if kind in (1, 2):
        present = set()
        ever_removed = set()
        nkeys = set()
        for t, ops in cycles:
            if not ops:
                ev["gap_cycles"] += 1
            if kind == 2 and ops and all(c == 7 for (c, _a, _v) in ops):
                ev["child_only_cycles"] = ev.get("child_only_cycles", 0) + 1
            if kind == 2 and ops and ops[0][0] == 7:
                ev["child_write_first"] = ev.get("child_write_first", 0) + 1
            seq = {}
            for (c, a, _v) in ops:
                if c in (1, 2):
                    seq.setdefault(a, []).append(c)
                    nkeys.add(a)
                if c == 3:
                    ev["clear"] += 1
                    for k in present:
                        seq.setdefault(k, []).append(2)
                    ever_removed |= present
                    present = set()
                if c == 1:
                    if a in ever_removed and a not in present:
                        ev["reinsert_later_cycle"] += 1
                    present.add(a)
                if c == 2 and a in present:
                    present.discard(a); ever_removed.add(a)
                if c == 4 and a > 8:
                    ev["growth"] += 1
            for k, s in seq.items():
                alt = [s[0]] + [y for x, y in zip(s, s[1:]) if x != y]
                if len(alt) >= 2 and alt[0] == 1:
                    ev["cancel_add_remove"] += 1
                if len(alt) >= 2 and alt[0] == 2:
                    ev["cancel_remove_add"] += 1
                if len(alt) >= 3:
                    ev["long_alternation"] += 1
                if kind == 2 and any(alt[i:i + 3] == [1, 2, 1] for i in range(len(alt))):
                    ev["set_erase_set"] += 1
        if len(nkeys) > 8:
            ev["growth"] += 1
    elif kind == 9:
        R = hdr[2]
        content = []
        cap = 0
        head = 0
        for t, ops in cycles:
            ticked = clr = False
            for (c, a, _v) in ops:
                if c == 3 and not ticked:
                    content = []; head = 0; ticked = clr = True; ev["clear"] += 1
                elif c == 1 and (not ticked or clr):
                    ticked, clr = True, False
                    n0 = len(content)
                    content = [x for x in content if x >= t - R]
                    if cap:
                        head = (head + n0 - len(content)) % cap
                    if not content:
                        head = 0
                    if n0 != len(content):
                        ev["dwin_expiry"] = ev.get("dwin_expiry", 0) + 1
                    if len(content) + 1 > cap:
                        if head != 0:
                            ev["dwin_growth_while_wrapped"] = ev.get("dwin_growth_while_wrapped", 0) + 1
                        cap = max(len(content) + 1, 4) if cap == 0 else max(len(content) + 1, 2 * cap)
                        head = 0
                    content.append(t)
    elif kind in (4, 7, 8):
        for t, ops in cycles:
            if not ops:
                ev["gap_cycles"] += 1
            if kind == 4:
                ks = [a for (c, a, _v) in ops if c == 3]
                if any(c == 1 and a in ks for (c, a, _v) in ops):
                    ev["set_erase_set"] += 1
    else:
        n, m = hdr[2], hdr[3]
        cnt = 0
        for t, ops in cycles:
            for (c, a, _v) in ops:
                if c == 1:
                    cnt += 1
                if c == 3:
                    cnt = 0
                    ev["clear"] += 1
            if cnt > n:
                ev["window_wrap"] += 1
            if 0 < cnt < m:
                ev["window_below_min"] += 1
    return kind, ev


def _growth_removal(kind, cycles):
    """cycles in which the number of constructed slots crosses a capacity boundary (8, 16) while the same cycle removes"""
    if kind not in (1, 2):
        return 0
    n = 0
    live = set()
    for _t, ops in cycles:
        before = len(live)
        removed = set()
        for (c, a, _v) in ops:
            if c == 1:
                live.add(a); removed.discard(a)
            elif c == 2 and a in live:
                live.discard(a); removed.add(a)
            elif c == 3:
                removed |= live; live = set()
        after = len(live) + len(removed)
        if removed and any(before <= b < after for b in (8, 16)):
            n += 1
    return n


def nontrivial(case, out):
    if not isinstance(out, list):
        return False
    kind, ev = _events(case)
    if kind == 3:
        return ev["window_wrap"] > 0 or ev["window_below_min"] > 0
    if kind == 9:
        return ev.get("dwin_expiry", 0) > 0
    if kind in (4, 7, 8):
        return sum(1 for l in case if l and l[0] == 2 and len(l) > 2) >= 2
    return ev["cancel_add_remove"] + ev["cancel_remove_add"] + ev["reinsert_later_cycle"] > 0


def stats(case, out):
    hdr, cycles = parse_case(case)
    kind, ev = _events(case)
    d = {"cases_tss": int(kind == 1), "cases_tsd": int(kind == 2), "cases_tsw": int(kind == 3), "cases_nested_tsd_tss": int(kind == 4),
         "cases_tsb": int(kind == 7), "cases_tsl": int(kind == 8), "cases_duration_tsw": int(kind == 9), "cases_graph_mode": int(hdr[1] == 1),
         "cases_int32_keys": int(kind in (1, 2, 4) and hdr[2] == 1), "growth_with_removal_cycles": _growth_removal(kind, cycles),
         "cycles": len(cycles), "mutations": sum(len(o) for _, o in cycles)}
    d.update(ev)
    if isinstance(out, list):
        info = [k for k, _d in oracle("C05", case, out) if k in ("tsl_child_delta_unmodified", "nested_resurrect_stale")]
        d["info_tsl_child_delta_unmodified"] = int("tsl_child_delta_unmodified" in info)
        d["info_nested_resurrect_stale"] = int("nested_resurrect_stale" in info)
        d["max_capacity_ge_16"] = int(any(l and l[0] == 20 and len(l) == 8 and l[7] >= 16 for l in out))
    return d


def agree(case, impl_out, model_out):
    """exact equality with the proved model, except: line 38 (view-level child deltas, oracle only) is not part of
    the model's output; the nested family (kind 4) has no Coq model and is judged by the oracle alone."""
    if not isinstance(impl_out, list) or not isinstance(model_out, list):
        return False
    hdr, _ = parse_case(case)
    if hdr[0] == 4:
        return True
    return [l for l in impl_out if l and l[0] != 38] == model_out


def shrink(case):
    hdr = [l for l in case if l and l[0] == 1]
    cyc = [l for l in case if l and l[0] == 2]
    # drop a cycle
    for i in range(len(cyc)):
        yield hdr + cyc[:i] + cyc[i + 1:]
    # drop one mutation of a cycle
    for i, l in enumerate(cyc):
        nops = (len(l) - 2) // 3
        for j in range(nops):
            nl = l[:2 + 3 * j] + l[5 + 3 * j:]
            yield hdr + cyc[:i] + [nl] + cyc[i + 1:]
    # compress times
    ts = [l[1] for l in cyc]
    if ts != list(range(1, len(ts) + 1)):
        yield hdr + [[2, i + 1] + l[2:] for i, l in enumerate(cyc)]
