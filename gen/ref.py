"""Family `ref` (property C13): reading a time-series through a reference.

The driver (cxx/ref_driver.cpp) wires, with the tree's standard operators,

    selector source --+
    target A source --+--> if_then_else / if_cmp --(REF)--> consumers 0..3, reference watcher
    target B source --+
   (target C source)  each target also feeds a direct reader

and runs it under the simulation executor.  Case lines

  1 start end shape op [prod [wrap]]  wrap = 1..4 (ops 0, 1, 6, 7, 8): the consumers sit in their OWN nested graph and the
                              dereferenced value reaches them through a nested pass-through: nested_<Below>(nested_<PassThrough>(sel));
                              pass-through depth 1 (wrap 1, 3) / 2 (2, 4), consumer depth 1 (1, 2) / 2 (3, 4).
                              prod = 1: the targets A, B, C are the three fields of ONE producer node's bundle output,
                              selected individually through getattr_ (identity of a target = (node, path));
                              0 / absent: outputs of separate source nodes.
                              shape 0 TS<Int>, 1 TSS<Int>, 2 TSD<Int,TS<Int>>;  op 0 if_then_else, 1 if_cmp,
                              3 if_then_else with the consumers INSIDE a nested graph (nested_<>): the dereferenced value
                                crosses the boundary inwards; the nested graph evaluates all its nodes in its first cycle,
                              5 as 3 but the REFERENCE itself crosses the boundary (Port<REF<S>>) and is dereferenced inside:
                                target ticks reach the inner consumers through the child graph's own scheduling
                                (graph.cpp nested_schedule_node_impl); every evaluation of the nested node also runs the
                                active consumers inside (finding KF-C13-nested-ref-param-spurious-eval),
                              6 CHAINED: if_then_else(c2, if_then_else(c1, A, B), C)   (c1 = source 0, c2 = source 4),
                              7 CHAINED: if_cmp(cmp2, if_then_else(c1, A, B), C, C)    (cmp2 = source 4: <=0 LT picks the
                                inner selection, 1 EQ and >=2 GT both pick C),
                              8 list[key]: ONE producer node with a TSL<S,3> output and stdlib getitem_ with a TICKING key
                                (source 0: <=0 -> element 0, 1 -> 1, >=2 -> 2); the targets are elements of one output,
                              4 if_then_else INSIDE a nested graph whose dereferenced result is exported: ORACLE-ONLY
                                (not mirrored by the model, see agree(); finding KF-C13-nested-export-lag)
  2 k t payload...            source k ticks at t.  k=0 selector (one integer: if_then_else true iff != 0;
                              if_cmp <=0 LT, 1 EQ, >=2 GT), k=1..3 targets A,B,C, k=4 the OUTER selector of the chained ops, k=7 poke (wakes consumers 1,2)
                              TS payload: v;  TSS: +key add / -key remove;  TSD: pairs key value (value -1 erases)

Observation lines (every shape rendered as a key->value map; scalar = key 0, set members map to 0)

  20 cid t valid modified lmt  nv (k v)*  nu (k v)*  nr k*    consumer cid evaluated at t, what it read through the reference
  21 k   t valid modified lmt  nv (k v)*  nu (k v)*  nr k*    direct reader of target k evaluated at t
  22 t                                                         the reference output ticked at t

Consumers: 0 active; 1 active + poke; 2 PASSIVE on the reference + poke; 3 active and requires a valid input.
"""
import itertools
import random

NAME = "ref"
DRIVER_SRCS = ["ref_driver.cpp"]
MODEL_FAMILY = "ref"
MODE = "diff"
BUDGET = {"quick": 400, "thorough": 4000}

A, B, C = 1, 2, 3


# ---------------------------------------------------------------- payloads
class Payloads:
    """Deterministic-but-varied payloads for the targets of one case (tracks contents so that
    most operations are effective, some deliberately are not)."""

    def __init__(self, shape, rng=None):
        self.shape = shape
        self.rng = rng
        self.n = {A: 0, B: 0, C: 0}
        self.cur = {A: {}, B: {}, C: {}}

    def next(self, k):
        self.n[k] += 1
        i = self.n[k]
        rng = self.rng
        cur = self.cur[k]
        if self.shape == 0:
            return [100 * k + i]
        if self.shape == 1:
            if rng is None:
                # fixed scheme: A walks over {1,2,3,4}, B over {2,3,4,5}, C over {3,4,5,6}; overlapping on purpose
                base = k
                if i == 1:
                    ops = [base, base + 1]
                else:
                    ops = [base + (i % 4)] if (base + (i % 4)) not in cur else [-(base + (i % 4))]
                    if i % 3 == 0 and cur:
                        victim = sorted(cur)[0]
                        if victim not in (abs(o) for o in ops):
                            ops.append(-victim)
            else:
                keys = list(range(1, 7))
                rng.shuffle(keys)
                ops = []
                for key in keys[:rng.choice([1, 1, 2, 2, 3])]:
                    present = key in cur
                    r = rng.random()
                    if r < 0.12:
                        ops.append(key if present else -key)       # ineffective on purpose
                    else:
                        ops.append(-key if present and rng.random() < 0.5 else key)
            for o in ops:
                if o > 0:
                    cur[o] = 0
                else:
                    cur.pop(-o, None)
            return ops
        # dictionary
        if rng is None:
            base = k
            key = base + (i % 3)
            ops = [key, 1000 * k + 10 * i]
            if i % 3 == 0 and cur:
                victim = sorted(cur)[0]
                if victim != key:
                    ops += [victim, -1]
        else:
            keys = list(range(1, 6))
            rng.shuffle(keys)
            ops = []
            for j, key in enumerate(keys[:rng.choice([1, 1, 2, 2, 3])]):
                present = key in cur
                r = rng.random()
                if r < 0.1 and not present:
                    ops += [key, -1]                               # erase of an absent key
                elif present and r < 0.45:
                    ops += [key, -1]
                else:
                    ops += [key, 1000 * k + 10 * i + j]
        for j in range(0, len(ops), 2):
            if ops[j + 1] < 0:
                cur.pop(ops[j], None)
            else:
                cur[ops[j]] = ops[j + 1]
        return ops


def build_case(shape, op, cycles, start=1, rng=None, gap=None):
    """cycles: list of dicts {sel: value or None, ticks: set of targets, poke: bool}; one cycle per
    consecutive time unless gap(i) gives the distance."""
    pl = Payloads(shape, rng)
    t = start
    lines = []
    for i, c in enumerate(cycles):
        if c.get("sel") is not None:
            lines.append([2, 0, t, c["sel"]])
        if c.get("sel2") is not None:
            lines.append([2, 4, t, c["sel2"]])
        for k in sorted(c.get("ticks", ())):
            lines.append([2, k, t] + pl.next(k))
        if c.get("poke"):
            lines.append([2, 7, t, 1])
        t += gap(i) if gap else 1
    return [[1, start, t + 1, shape, op]] + lines


# ---------------------------------------------------------------- named timing patterns
def scenarios(shape, op):
    T = 1 if op not in (1, 8) else 0      # selector value designating A
    F = 0 if op not in (1, 8) else 1      # ... B
    G = 2                        # ... C (if_cmp only)
    S = []
    cy = lambda sel=None, ticks=(), poke=False: {"sel": sel, "ticks": set(ticks), "poke": poke}
    # retarget AFTER a target tick (target ticked earlier, not in the retarget cycle)
    S.append([cy(T, [A]), cy(ticks=[B]), cy(F), cy(poke=True), cy(ticks=[B])])
    # retarget WITH a target tick (same cycle)
    S.append([cy(T, [A]), cy(F, [B]), cy(poke=True)])
    # retarget BEFORE the target ever ticks (invalid target), which then ticks later
    S.append([cy(T, [A]), cy(F), cy(poke=True), cy(ticks=[A]), cy(ticks=[B]), cy(ticks=[B])])
    # retarget WITHOUT any tick of the new target afterwards; old target keeps ticking
    S.append([cy(T, [A, B]), cy(F), cy(ticks=[A]), cy(ticks=[A]), cy(poke=True)])
    # back and forth
    S.append([cy(T, [A, B]), cy(F), cy(T), cy(F), cy(T), cy(ticks=[A, B])])
    # re-selection of the same target; condition ticking with the same value
    S.append([cy(T, [A, B]), cy(T), cy(T, [A]), cy(T, [B]), cy(F), cy(F), cy(F, [A])])
    # selector first, targets later
    S.append([cy(F), cy(ticks=[A]), cy(ticks=[B]), cy(T), cy(poke=True)])
    # old target ticks in the very cycle of the retarget away from it
    S.append([cy(T, [A]), cy(F, [A]), cy(ticks=[B]), cy(T, [B])])
    S.append([cy(T, [A, B]), cy(F, [A]), cy(T, [A, B]), cy(F, [A, B])])
    # targets tick before any selection
    S.append([cy(ticks=[A]), cy(ticks=[B]), cy(poke=True), cy(T), cy(F)])
    if op in (1, 8):
        S.append([cy(T, [A, B, C]), cy(G), cy(F), cy(G, [A]), cy(G, [C]), cy(T)])
        S.append([cy(G), cy(ticks=[A, B]), cy(F), cy(ticks=[C]), cy(G)])
    return S


def chained_scenarios(op):
    """timing patterns of the chained selection: I = outer selector value picking the inner branch, O = picking C"""
    I = 1 if op == 6 else 0
    O = 0 if op == 6 else 1
    O2 = 0 if op == 6 else 2          # if_cmp: GT also picks C (same reference as EQ)
    cy = lambda sel=None, sel2=None, ticks=(), poke=False: {"sel": sel, "sel2": sel2, "ticks": set(ticks), "poke": poke}
    S = []
    # the seeded shape: outer quiet on the inner branch, inner flips (to a valid, non-ticking target), then ticks of old/new
    S.append([cy(ticks=[A, B, C]), cy(sel2=I), cy(sel=1), cy(sel=0), cy(ticks=[A]), cy(ticks=[B]), cy(sel=1), cy(ticks=[B]), cy(ticks=[A])])
    # inner flips while the outer designates C: nothing may reach; then the outer comes back and finds the new inner target
    S.append([cy(sel=1, sel2=O, ticks=[A, B, C]), cy(sel=0), cy(ticks=[B]), cy(sel2=I), cy(ticks=[A]), cy(ticks=[B]), cy(sel2=O2), cy(sel2=O)])
    # outer selects the inner branch before the inner selector ever ticked (keeps nothing / keeps C), inner arrives later
    S.append([cy(ticks=[A, C]), cy(sel2=I), cy(poke=True), cy(sel=1), cy(sel=1), cy(sel2=I), cy(sel=0), cy(ticks=[B])])
    S.append([cy(sel2=O, ticks=[C]), cy(sel2=I), cy(ticks=[C]), cy(sel=0), cy(ticks=[B, C]), cy(sel=1), cy(ticks=[A])])
    # both selectors in one cycle
    S.append([cy(sel=1, sel2=I, ticks=[A, B, C]), cy(sel=0, sel2=I), cy(sel=1, sel2=O), cy(sel=0, sel2=I), cy(sel=0, sel2=O2), cy(sel=1, sel2=O)])
    # inner flip together with ticks of old / new target
    S.append([cy(sel=1, sel2=I, ticks=[A, B]), cy(sel=0, ticks=[A]), cy(sel=1, ticks=[A]), cy(sel=0, ticks=[A, B]), cy(poke=True)])
    return S


# ---------------------------------------------------------------- random generation
def gen_chained(rng, tier, shape, op):
    if rng.random() < 0.15:
        sc = rng.choice(chained_scenarios(op))
        return build_case(shape, op, sc, start=rng.randint(1, 3), rng=rng if rng.random() < 0.5 else None,
                          gap=(lambda i: rng.choice([1, 1, 2, 3])))
    n = rng.randint(4, 10 if tier == "quick" else 15)
    p_in = rng.choice([0.25, 0.4, 0.6])
    p_out = rng.choice([0.1, 0.2, 0.4])
    p_tick = rng.choice([0.2, 0.35, 0.5])
    p_poke = rng.choice([0.0, 0.15, 0.3])
    inner_vals = [0, 1]
    outer_vals = [0, 1] if op == 6 else [0, 0, 1, 2]
    late_inner = rng.random() < 0.2     # the inner selector stays silent for a while
    cycles = []
    last_in = last_out = None
    first_outer_inner = rng.random() < 0.6
    for i in range(n):
        sel = sel2 = None
        if rng.random() < p_in and not (late_inner and i < n // 3):
            sel = last_in if (last_in is not None and rng.random() < 0.25) else rng.choice(inner_vals)
            last_in = sel
        if rng.random() < p_out or (i == 0 and first_outer_inner):
            if i == 0 and first_outer_inner:
                sel2 = 1 if op == 6 else 0
            else:
                sel2 = last_out if (last_out is not None and rng.random() < 0.25) else rng.choice(outer_vals)
            last_out = sel2
        tk = set(k for k in (A, B, C) if rng.random() < p_tick)
        cycles.append({"sel": sel, "sel2": sel2, "ticks": tk, "poke": rng.random() < p_poke})
    return build_case(shape, op, cycles, start=rng.randint(1, 3), rng=rng, gap=(lambda i: rng.choice([1, 1, 1, 2, 4])))


def gen(rng, tier, prop):
    """every selection shape, with the targets either outputs of separate source nodes or (sixth header field 1,
    ~45 %) the fields of ONE producer node's bundle output; op 8 (list[key]) always has sibling targets"""
    case = _gen(rng, tier, prop)
    if rng.random() < 0.45:
        case[0] = case[0][:5] + [1]
    if case[0][4] in (0, 1, 6, 7, 8) and rng.random() < 0.3:
        # consumers in their own nested graph behind a nested pass-through; mostly depth-1 pass-through (modelled)
        case = with_wrap(case, rng.choice([1, 1, 1, 3, 3, 3, 2, 4]))
    return case


def with_prod(case):
    return [case[0][:5] + [1]] + case[1:]


def _gen(rng, tier, prop):
    shape = rng.choice([0, 0, 1, 1, 2, 2])
    op = rng.choice([0] * 8 + [1] * 3 + [3] * 3 + [5] * 2 + [6] * 3 + [7] * 2 + [8] * 3 + [4])
    if op in (6, 7):
        return gen_chained(rng, tier, shape, op)
    r = rng.random()
    if r < 0.12:
        sc = rng.choice(scenarios(shape, op))
        return build_case(shape, op, sc, start=rng.randint(1, 3), rng=rng if rng.random() < 0.5 else None,
                          gap=(lambda i: rng.choice([1, 1, 2, 3])))
    n = rng.randint(3, 9 if tier == "quick" else 14)
    targets = [A, B] if op not in (1, 8) else [A, B, C]
    sel_vals = [0, 1] if op not in (1, 8) else [0, 1, 2]
    p_sel = rng.choice([0.25, 0.4, 0.6])
    p_tick = rng.choice([0.2, 0.35, 0.5])
    p_poke = rng.choice([0.0, 0.15, 0.3])
    late = rng.random() < 0.25          # one target stays silent (invalid) for the first half
    late_t = rng.choice(targets)
    cycles = []
    last = None
    for i in range(n):
        sel = None
        if rng.random() < p_sel:
            if last is not None and rng.random() < 0.3:
                sel = last                                      # same value again
            else:
                sel = rng.choice(sel_vals)
            if op not in (1, 8) and sel == 1 and rng.random() < 0.1:
                sel = rng.choice([2, -1, 7])                    # any non-zero is true
            if op in (1, 8) and rng.random() < 0.08:
                sel = rng.choice([-3, 5])                       # <=0 LT, >=2 GT
            last = sel
        tk = set(k for k in targets if rng.random() < p_tick and not (late and k == late_t and i < n // 2))
        cycles.append({"sel": sel, "ticks": tk, "poke": rng.random() < p_poke})
    case = build_case(shape, op, cycles, start=rng.randint(1, 3), rng=rng,
                      gap=(lambda i: rng.choice([1, 1, 1, 2, 4])))
    if rng.random() < 0.06:
        # malformed / out-of-window stream: events before start, at or after end, unused sources, duplicates
        hdr = case[0]
        extra = [[2, rng.choice([0, 1, 2, 7]), hdr[1] - 1, 1], [2, rng.choice([1, 2]), hdr[2], 1, 5],
                 [2, 5, hdr[1] + 1, 1], [2, 3, hdr[1] + 1, 3, 9]]
        rng.shuffle(extra)
        case = [hdr] + case[1:] + extra[:rng.randint(1, 4)]
        if len(case) > 2 and rng.random() < 0.5:
            dup = list(rng.choice(case[1:]))
            case.append(dup)
    return case


# ---------------------------------------------------------------- exhaustive small space
def _patterns(max_events):
    """Every sequence of cycles over {selector=T, selector=F, A ticks, B ticks} with at most
    max_events events in total; a cycle holds a non-empty subset with at most one selector value."""
    opts = []
    for sel in (None, 1, 0):
        for a in (0, 1):
            for b in (0, 1):
                size = (sel is not None) + a + b
                if size:
                    opts.append((size, {"sel": sel, "ticks": set(([A] if a else []) + ([B] if b else [])), "poke": False}))

    def rec(budget):
        yield []
        for size, c in opts:
            if size <= budget:
                for rest in rec(budget - size):
                    yield [c] + rest
    return rec(max_events)


def _chained_patterns(max_events):
    opts = []
    for sel in (None, 1, 0):
        for sel2 in (None, 1, 0):
            for a in (0, 1):
                for b in (0, 1):
                    size = (sel is not None) + (sel2 is not None) + a + b
                    if size:
                        opts.append((size, {"sel": sel, "sel2": sel2, "ticks": set(([A] if a else []) + ([B] if b else [])), "poke": False}))

    def rec(budget):
        yield []
        for size, c in opts:
            if size <= budget:
                for rest in rec(budget - size):
                    yield [c] + rest
    return (p for p in rec(max_events) if p)


def enumerate_cases(prop):
    """EVERY timing pattern with at most 6 events over two targets and one selector for TS<Int>
    targets (17166 cases), at most 5 events for TSS / TSD targets (3389 each); if_then_else."""
    for pat in _patterns(6):
        if pat:
            yield build_case(0, 0, pat)
    for shape in (1, 2):
        for pat in _patterns(5):
            if pat:
                yield build_case(shape, 0, pat)
    for shape in (0, 1, 2):
        for op in (0, 1, 3, 5):
            for sc in scenarios(shape, op):
                yield build_case(shape, op, sc)
                yield build_case(shape, op, sc, start=2, gap=lambda i: 2)
    # targets that are SUB-OUTPUTS OF ONE NODE (fields of one bundle output): every pattern of <= 5 events (TS),
    # <= 4 (TSS, TSD); all scenarios of every selection shape; list[key] (op 8): every pattern of <= 5 (TS), <= 4 (TSS)
    for pat in _patterns(5):
        if pat:
            yield with_prod(build_case(0, 0, pat))
            yield build_case(0, 8, pat)
    for shape in (1, 2):
        for pat in _patterns(4):
            if pat:
                yield with_prod(build_case(shape, 0, pat))
                if shape == 1:
                    yield build_case(shape, 8, pat)
    for shape in (0, 1, 2):
        for op in (0, 1, 3, 5, 8):
            for sc in scenarios(shape, op):
                yield with_prod(build_case(shape, op, sc))
        for op in (6, 7):
            for sc in chained_scenarios(op):
                yield with_prod(build_case(shape, op, sc))
    for pat in _chained_patterns(3):
        yield with_prod(build_case(0, 6, [{"ticks": {A, B, C}}] + pat))
    # consumers in their OWN nested graph behind a nested pass-through (wrap 1..4): every pattern of <= 5 events (TS,
    # pass-through depth 1, consumer depth 1 and 2), <= 4 (TSS); all scenarios of every selection kind and all four depths
    for pat in _patterns(5):
        if pat:
            yield with_wrap(build_case(0, 0, pat), 1)
            yield with_wrap(build_case(0, 0, pat), 3)
    for pat in _patterns(4):
        if pat:
            yield with_wrap(build_case(1, 0, pat), 1)
            yield with_wrap(build_case(0, 8, pat), 3)
            yield with_wrap(with_prod(build_case(0, 0, pat)), 1)
    for shape in (0, 1, 2):
        for wr in (1, 2, 3, 4):
            for op in (0, 1, 8):
                for sc in scenarios(shape, op):
                    yield with_wrap(build_case(shape, op, sc), wr)
            for op in (6, 7):
                for sc in chained_scenarios(op):
                    yield with_wrap(build_case(shape, op, sc), wr)
    # chained selection: all scenarios, and EVERY pattern of <= 4 events over {c1=T, c1=F, c2=inner, c2=C, A ticks, B ticks}
    # after a fixed prefix that makes all three targets valid
    for shape in (0, 1, 2):
        for op in (6, 7):
            for sc in chained_scenarios(op):
                yield build_case(shape, op, sc)
    for shape in (0, 1):
        for pat in _chained_patterns(4):
            yield build_case(shape, 6, [{"ticks": {A, B, C}}] + pat)
    for pat in _chained_patterns(3):
        yield build_case(0, 7, [{"ticks": {A, B, C}}] + pat)
    # consumers inside a nested graph: every pattern of <= 4 events
    for shape in (0, 1, 2):
        for pat in _patterns(4):
            if pat:
                yield build_case(shape, 3, pat, start=1 + (len(pat) % 2), gap=lambda i: 1)


# ---------------------------------------------------------------- parsing
def parse_case(case):
    start, end, shape, op = 1, 10, 0, 0
    for l in case:
        if l and l[0] == 1 and len(l) >= 3:
            start, end = l[1], l[2]
            shape = l[3] if len(l) > 3 else 0
            op = l[4] if len(l) > 4 else 0
    if shape not in (1, 2):
        shape = 0
    op = op if op in (1, 3, 4, 5, 6, 7, 8) else 0
    wired = {0, 1, 2, 7} | ({3} if op in (1, 6, 7, 8) else set()) | ({4} if op in (6, 7) else set())
    script = {}
    for l in case:
        if l and l[0] == 2 and len(l) >= 4 and 0 <= l[1] < 8:
            if l[1] in wired and start <= l[2] < end:
                script.setdefault(l[2], {})[l[1]] = l[3:]
    # (up to /repo 7c2072e the first cycle of a nested graph evaluated all its nodes; fixed by ed827a0)        # first cycle of the nested graph (the sources are scheduled on start)
    return start, end, shape, op, script


def sel_of(op, v):
    if op in (1, 8):
        return A if v <= 0 else (B if v == 1 else C)
    return A if v != 0 else B


class Designation:
    """Which target the selection designates, from the script alone.
    plain ops: the target picked by the latest selector value.
    chained ops (6, 7): the outer selector picks either C or "whatever the inner selection designates"; while the
    picked branch designates nothing yet (inner selector never ticked) the previous designation stays."""

    def __init__(self, op):
        self.op = op
        self.cur = None
        self.inner = None
        self.c2 = None

    def step(self, ev):
        if self.op in (6, 7):
            if 0 in ev:
                self.inner = A if ev[0][0] != 0 else B
            if 4 in ev:
                self.c2 = ev[4][0]
            if self.c2 is not None:
                picks_inner = (self.c2 <= 0) if self.op == 7 else (self.c2 != 0)
                want = self.inner if picks_inner else C
                if want is not None:
                    self.cur = want
        elif 0 in ev:
            self.cur = sel_of(self.op, ev[0][0])
        return self.cur


def apply_payload(shape, cur, p):
    """contents (dict key->value) after the tick"""
    new = dict(cur)
    if shape == 0:
        return {0: p[0]}
    if shape == 1:
        for x in p:
            if x > 0:
                new[x] = 0
            elif x < 0:
                new.pop(-x, None)
        return new
    for j in range(0, len(p) - 1, 2):
        if p[j + 1] < 0:
            new.pop(p[j], None)
        else:
            new[p[j]] = p[j + 1]
    return new


def parse_reading(l):
    """line 20/21 -> dict"""
    try:
        code, ident, t, valid, mod, lmt = l[:6]
        i = 6
        nv = l[i]; i += 1
        vals = {l[i + 2 * j]: l[i + 2 * j + 1] for j in range(nv)}; i += 2 * nv
        nu = l[i]; i += 1
        upd = {l[i + 2 * j]: l[i + 2 * j + 1] for j in range(nu)}; i += 2 * nu
        nr = l[i]; i += 1
        rem = set(l[i:i + nr]); i += nr
        if i != len(l) or len(vals) != nv or len(upd) != nu or len(rem) != nr:
            return None
        return dict(code=code, id=ident, t=t, valid=valid, mod=mod, lmt=lmt, vals=vals, upd=upd, rem=rem)
    except (IndexError, ValueError):
        return None


# ---------------------------------------------------------------- the property, evaluated on the implementation's output
def oracle(prop, case, out):
    """see _oracle.  Cases with op 4 (selection inside a nested graph, result exported) violate the property
    on the unchanged tree in almost every history (finding KF-C13-nested-export-lag): every failure on such a
    case is reported under the single kind `nested_export_lag`, its detail naming the specific failure."""
    fl = _oracle(prop, case, out)
    if parse_case(case)[3] == 4 or wrap_of(case) in (2, 4):
        return [("crash", d) if k == "crash" else ("nested_export_lag", "[%s] %s" % (k, d)) for k, d in fl]
    return fl


def wrap_of(case):
    """seventh header field: 1..4 = the consumers sit in their OWN nested graph and the dereferenced value reaches
    them through a nested pass-through: pass-through depth 1 (wrap 1, 3) / 2 (wrap 2, 4), consumer depth 1 (wrap
    1, 2) / 2 (wrap 3, 4).  Only for ops 0, 1, 6, 7, 8."""
    hdr = [l for l in case if l and l[0] == 1 and len(l) >= 3]
    if not hdr or len(hdr[-1]) <= 6 or hdr[-1][6] not in (1, 2, 3, 4):
        return 0
    op = hdr[-1][4] if len(hdr[-1]) > 4 else 0
    return hdr[-1][6] if op not in (3, 4, 5) else 0


def with_wrap(case, k):
    h = case[0][:5] + [case[0][5] if len(case[0]) > 5 else 0, k]
    return [h] + case[1:]


def _invalid_retarget_in(case):
    """does the script retarget to a target that has never ticked (the window of KF-C13-passthrough-keeps-old-target)?"""
    start, end, shape, op, script = parse_case(case)
    des = Designation(op)
    valid = set()
    cur = None
    for t in sorted(script):
        ev = script[t]
        valid |= {k for k in (A, B, C) if k in ev}
        prev, cur = cur, des.step(ev)
        if cur != prev and cur not in valid:
            return True
    return False


def _canon_cycle_order(out):
    """lines of one cycle in a fixed order (the reference watcher sits in the root graph, wrapped consumers deeper)"""
    def key(l):
        t = l[2] if l[0] in (20, 21) else l[1]
        return (t, {21: 0, 20: 1, 22: 2}.get(l[0], 9), l[1] if l[0] in (20, 21) else 0)
    return sorted(out, key=key)


def agree(case, impl_out, model_out):
    """exact equality, except op 4: the export path of a nested graph is NOT mirrored by the model (it is
    defective, see the finding); those cases are checked by the oracle only."""
    if parse_case(case)[3] == 4:
        return isinstance(impl_out, list)
    wrap = wrap_of(case)
    if wrap:
        # the nested pass-through is an EXPORT (forwarding link): depth 2 lags (KF-C13-nested-export-lag), keyed
        # retargets lose their removals (KF-C13-nested-export-keyed-diff), a retarget to a never-ticked target keeps
        # the old one (KF-C13-passthrough-keeps-old-target).  The model (plain contract + the clamp of the nested
        # schedule request) is compared where none of these applies: scalar targets, pass-through depth 1, no
        # retarget to a never-ticked target; modulo the order of the lines of one cycle.
        if not isinstance(impl_out, list):
            return False
        if wrap in (2, 4) or parse_case(case)[2] != 0 or _invalid_retarget_in(case):
            return True
        return isinstance(model_out, list) and _canon_cycle_order(impl_out) == _canon_cycle_order(model_out)
    return isinstance(impl_out, list) and isinstance(model_out, list) and impl_out == model_out


def _oracle(prop, case, out):
    """C13 stated directly on the observations (no use of the Coq model):
       the only script-derived notions are: which target the selector designates, the contents of
       each target (fold of its payloads), whether it ticked in a cycle."""
    if not isinstance(out, list):
        return [("crash", str(out)[:300])]
    fails = []
    start, end, shape, op, script = parse_case(case)
    cons, direct, reft = {}, {}, set()
    for l in out:
        if not l:
            continue
        if l[0] in (20, 21):
            r = parse_reading(l)
            if r is None:
                fails.append(("trace_shape", "unparsable line %s" % l))
                continue
            d = cons if l[0] == 20 else direct
            if (r["id"], r["t"]) in d:
                fails.append(("evaluated_twice", "%s %d evaluated twice at %d" % ("consumer" if l[0] == 20 else "direct reader", r["id"], r["t"])))
            d[(r["id"], r["t"])] = r
        elif l[0] == 22:
            if l[1] in reft:
                fails.append(("evaluated_twice", "reference ticked twice at %d" % l[1]))
            reft.add(l[1])
        elif l[0] in (28, 29):
            fails.append(("crash", "driver error line %s" % l))
    times = sorted(script)
    for key in list(cons) + list(direct):
        if key[1] not in script:
            fails.append(("spurious_cycle", "evaluation at %d where the script has no event" % key[1]))
    for t in reft:
        if t not in script:
            fails.append(("spurious_cycle", "reference tick at %d where the script has no event" % t))

    contents = {A: {}, B: {}, C: {}}
    valid = {A: False, B: False, C: False}
    last_removed = {A: set(), B: set(), C: set()}   # keys removed by the target's most recent tick
    last_tick = {A: 0, B: 0, C: 0}
    cur = None                                  # currently designated target
    des = Designation(op)
    wrap = wrap_of(case)
    fw = None                                   # wrapped scalar: the target the pass-through's export is bound to
    for t in times:
        ev = script[t]
        cycle_start = len(fails)
        before = {k: dict(v) for k, v in contents.items()}
        stale_before = {k: (set(last_removed[k]) if last_tick[k] < t else set()) for k in (A, B, C)}
        ticked = set()
        for k in (A, B, C):
            if k in ev:
                contents[k] = apply_payload(shape, contents[k], ev[k])
                last_removed[k] = set(before[k]) - set(contents[k])
                last_tick[k] = t
                valid[k] = True
                ticked.add(k)
        prev_sel = cur
        cur = des.step(ev)
        retarget = cur != prev_sel
        poke = 7 in ev
        force = False and op in (3, 5) and t == start      # the nested graph holding the consumers evaluates them all in its first cycle
        at = {cid: cons.get((cid, t)) for cid in (0, 1, 2, 3)}
        where = "t=%d (designated %s -> %s, ticked %s)" % (t, prev_sel, cur, sorted(ticked))

        # ---- the reference output ticks exactly when the designated target changes
        if op == 4:
            pass                                # the reference is inside the nested graph: no watcher
        elif retarget and t not in reft:
            fails.append(("ref_tick_missing", "selection changed but the reference did not tick, " + where))
        elif not retarget and t in reft:
            fails.append(("spurious_ref_tick", "an unchanged reference was republished (reference ticked), " + where))

        # ---- deref_reads_target: value at EVERY evaluation = the designated target's current value
        for cid, r in at.items():
            if r is None:
                continue
            exp_valid = int(cur is not None and valid[cur])
            exp_vals = contents[cur] if exp_valid else {}
            if r["valid"] != exp_valid or r["vals"] != exp_vals:
                fails.append(("deref_value", "consumer %d reads valid=%d %s, designated target holds valid=%d %s, %s"
                              % (cid, r["valid"], r["vals"], exp_valid, exp_vals, where)))
            if cid == 3 and not r["valid"]:
                fails.append(("ran_not_valid", "consumer 3 (requires a valid input) ran on an invalid input, " + where))

        cur_ticked = cur is not None and cur in ticked
        if not retarget:
            if cur_ticked:
                # ---- wakes_on_target_tick, and the delta is the target's own delta (as its direct reader saw it)
                dr = direct.get((cur, t))
                if dr is None:
                    fails.append(("trace_shape", "no direct reading of target %d at %d" % (cur, t)))
                for cid in (0, 1, 3):
                    r = at[cid]
                    if r is None:
                        fails.append(("missed_wake", "consumer %d not evaluated though its target ticked, %s" % (cid, where)))
                        continue
                    if not r["mod"]:
                        fails.append(("missed_wake", "consumer %d evaluated but sees modified=0 though its target ticked, %s" % (cid, where)))
                    if dr is not None and (r["upd"], r["rem"]) != (dr["upd"], dr["rem"]):
                        fails.append(("deref_delta", "consumer %d delta +%s -%s differs from the target's own delta +%s -%s, %s"
                                      % (cid, r["upd"], sorted(r["rem"]), dr["upd"], sorted(dr["rem"]), where)))
                    if r["lmt"] != t:
                        fails.append(("deref_lmt", "consumer %d last_modified_time %d in a cycle where its target ticked, %s" % (cid, r["lmt"], where)))
            else:
                # ---- same_reference_no_tick / unselected_never_reaches: nothing may reach the consumers
                for cid in (0, 3):
                    if at[cid] is not None and not force and op == 5 and poke:
                        # KNOWN FINDING: a node inside a nested graph that takes the REFERENCE as a parameter is run
                        # whenever the nested node is evaluated (here: by the unrelated poke input)
                        fails.append(("nested_ref_param_spurious_eval",
                                      "consumer %d (not connected to poke) evaluated by the poke of its nested node, %s" % (cid, where)))
                    elif at[cid] is not None and not force:
                        kind = "unselected_leak" if ticked else ("spurious_ref_tick" if (0 in ev or 4 in ev) else "spurious_eval")
                        fails.append((kind, "consumer %d evaluated though neither its target ticked nor the reference changed, %s" % (cid, where)))
                for cid in (0, 3):
                    r = at[cid]
                    if r is not None and (r["mod"] or r["upd"] or r["rem"]):
                        fails.append(("unselected_leak" if ticked else "spurious_modified",
                                      "consumer %d sees modified=%d delta +%s -%s in a cycle where nothing it references changed, %s"
                                      % (cid, r["mod"], r["upd"], sorted(r["rem"]), where)))
                for cid in (1, 2):
                    r = at[cid]
                    if r is not None and not poke and not force:
                        kind = "unselected_leak" if ticked else ("spurious_ref_tick" if (0 in ev or 4 in ev) else "spurious_eval")
                        fails.append((kind, "consumer %d evaluated without poke though neither its target ticked nor the reference changed, %s" % (cid, where)))
                    if r is not None and (r["mod"] or r["upd"] or r["rem"]):
                        fails.append(("unselected_leak" if ticked else "spurious_modified",
                                      "consumer %d sees modified=%d delta +%s -%s in a cycle where nothing it references changed, %s"
                                      % (cid, r["mod"], r["upd"], sorted(r["rem"]), where)))
        else:
            if valid[cur]:
                # ---- retarget_ticks_same_cycle: evaluated in that cycle, modified, value sampled
                old = before[prev_sel] if prev_sel is not None else {}
                new = contents[cur]
                for cid in (0, 1, 3):
                    r = at[cid]
                    if r is None:
                        fails.append(("retarget_no_eval", "consumer %d not evaluated in the cycle of a retarget to a valid target, %s" % (cid, where)))
                        continue
                    if not r["mod"] or r["lmt"] != t:
                        fails.append(("retarget_not_modified", "consumer %d sees modified=%d lmt=%d in the cycle of a retarget to a valid target, %s"
                                      % (cid, r["mod"], r["lmt"], where)))
                    if shape == 0:
                        if r["upd"] != new or r["rem"]:
                            fails.append(("retarget_delta", "consumer %d delta %s is not the new target's current value %s, %s"
                                          % (cid, r["upd"], new, where)))
                    else:
                        # ---- keyed_retarget_is_diff
                        exp_rem = set(old) - set(new)
                        exp_upd = {k: v for k, v in new.items() if k not in old} if shape == 1 else dict(new)
                        stale = (stale_before[prev_sel] - set(new)) if prev_sel is not None and prev_sel not in ticked else set()
                        if r["upd"] == exp_upd and r["rem"] != exp_rem and exp_rem <= r["rem"] and r["rem"] - exp_rem <= stale:
                            # KNOWN FINDING C13-stale-removed: keys that the OLD target removed in its last tick (an
                            # earlier cycle, already reported then) are reported removed a second time
                            fails.append(("keyed_diff_stale_removed",
                                          "consumer %d delta -%s repeats removals %s of the old target's last tick (t=%d); old contents %s, new %s, %s"
                                          % (cid, sorted(r["rem"]), sorted(r["rem"] - exp_rem), last_tick.get(prev_sel, 0),
                                             old, new, where)))
                        elif r["upd"] != exp_upd or r["rem"] != exp_rem:
                            fails.append(("keyed_diff", "consumer %d delta +%s -%s, difference between old contents %s and new contents %s is +%s -%s, %s"
                                          % (cid, r["upd"], sorted(r["rem"]), old, new, exp_upd, sorted(exp_rem), where)))
        # ---- the passive consumer is evaluated exactly by its poke; the poked active one at least then
        if (at[2] is not None) != (poke or force):
            fails.append(("passive_woken" if at[2] is not None else "poke_missed",
                          "consumer 2 (passive on the reference) evaluated=%d poke=%d first-nested-cycle=%d, %s"
                          % (at[2] is not None, poke, force, where)))
        if force and (at[0] is None or at[1] is None):
            fails.append(("nested_first_cycle", "consumers 0/1 inside the nested graph not evaluated in its first cycle, " + where))
        if poke and at[1] is None:
            fails.append(("poke_missed", "consumer 1 not evaluated on poke, " + where))
        if wrap in (1, 3):
            # KNOWN FINDINGS of the nested pass-through (an export / forwarding link), depth 1:
            fw_before = fw
            if cur is not None and valid[cur]:
                fw = cur
            elif shape != 0 and retarget and prev_sel is not None and valid[prev_sel]:
                fw = cur                        # a keyed retarget away from a valid target notifies even if the new one is not
            if fw_before != prev_sel or fw != cur:
                # a SILENT retarget (to a never-ticked target; keyed: from one too) left the export on the OLD target;
                # until the new target first ticks the consumers keep reading the old one and receiving its ticks
                fails[cycle_start:] = [(k if k in ("crash", "trace_shape") else "passthrough_keeps_old_target", "[%s] %s" % (k, d))
                                       for k, d in fails[cycle_start:]]
            if shape != 0 and retarget:
                new = contents[cur] if (cur is not None and valid[cur]) else {}
                rel = []
                for k, d in fails[cycle_start:]:
                    # the delta of a keyed retarget seen through the export is unreliable: all new contents as added
                    # without removals, or only the new target's own tick delta, or (consumer depth 2) nothing at all
                    ok = k == "keyed_diff"
                    rel.append(("nested_export_keyed_diff", "[%s] %s" % (k, d)) if ok else (k, d))
                fails[cycle_start:] = rel
        # ---- direct readers: each target's own reader sees exactly its ticks (the reference machinery does not disturb them)
        for k in (A, B, C):
            dr = direct.get((k, t))
            if (dr is not None) != (k in ticked):
                fails.append(("direct_reader", "direct reader of target %d evaluated=%d ticked=%d at %d" % (k, dr is not None, k in ticked, t)))
            elif dr is not None and (dr["vals"] != contents[k] or not dr["mod"] or not dr["valid"]):
                fails.append(("direct_reader", "direct reader of target %d reads %s, contents %s at %d" % (k, dr["vals"], contents[k], t)))
    return fails


PROP_KINDS = {
    "C13": {"deref_value", "deref_delta", "deref_lmt", "missed_wake", "retarget_no_eval", "retarget_not_modified", "retarget_delta",
            "keyed_diff", "keyed_diff_stale_removed", "spurious_ref_tick", "ref_tick_missing", "unselected_leak", "spurious_eval", "spurious_modified",
            "spurious_cycle", "passive_woken", "poke_missed", "evaluated_twice", "ran_not_valid", "direct_reader", "trace_shape",
            "nested_export_lag", "nested_first_cycle", "nested_ref_param_spurious_eval",
            "passthrough_keeps_old_target", "nested_export_keyed_diff"},
}


# ---------------------------------------------------------------- evidence helpers
def _events(case):
    """per-cycle classification used by stats / nontrivial"""
    start, end, shape, op, script = parse_case(case)
    valid = {A: False, B: False, C: False}
    lmt = {A: 0, B: 0, C: 0}
    cur = None
    res = dict(cycles=0, retargets=0, retarget_valid_no_tick=0, retarget_with_tick=0, retarget_invalid=0,
               retarget_old_ticks=0, same_selection=0, unselected_ticks=0, selected_ticks=0, pokes=0,
               retarget_back=0, chained_inner_flip_retargets=0)
    des = Designation(op)
    seen = []
    for t in sorted(script):
        ev = script[t]
        res["cycles"] += 1
        ticked = {k for k in (A, B, C) if k in ev}
        for k in ticked:
            valid[k] = True
            lmt[k] = t
        prev = cur
        cur = des.step(ev)
        if (0 in ev or 4 in ev) and cur == prev:
            res["same_selection"] += 1
        if op in (6, 7) and 0 in ev and 4 not in ev and cur != prev:
            res["chained_inner_flip_retargets"] += 1
        if cur != prev:
            res["retargets"] += 1
            if cur in seen:
                res["retarget_back"] += 1
            seen.append(cur)
            if not valid[cur]:
                res["retarget_invalid"] += 1
            elif cur in ticked:
                res["retarget_with_tick"] += 1
            else:
                res["retarget_valid_no_tick"] += 1
            if prev in ticked:
                res["retarget_old_ticks"] += 1
        else:
            if cur in ticked:
                res["selected_ticks"] += 1
        if ticked - {cur}:
            res["unselected_ticks"] += 1
        if 7 in ev:
            res["pokes"] += 1
    hdr = [l for l in case if l and l[0] == 1 and len(l) >= 3]
    if op == 8 or (hdr and len(hdr[-1]) > 5 and hdr[-1][5] == 1):
        res["sibling_targets"] = 1
        res["sibling_retargets"] = res["retargets"]
    w = wrap_of(case)
    if w:
        res["wrap_%d" % w] = 1
    res["shape_%d" % shape] = 1
    res["op_%d" % op] = 1
    return res


def stats(case, out):
    s = _events(case)
    if isinstance(out, list):
        s["consumer_evals"] = sum(1 for l in out if l and l[0] == 20)
        s["ref_ticks"] = sum(1 for l in out if l and l[0] == 22)
        s["keyed_diff_nonempty"] = 0
        s["sampled_without_tick_seen"] = 0
        ticks = {(l[1], l[2]) for l in out if l and l[0] == 21}
        reft = {l[1] for l in out if l and l[0] == 22}
        for l in out:
            if l and l[0] == 20 and l[1] == 0 and l[2] in reft and l[3] and l[4]:
                r = parse_reading(l)
                if r and r["rem"]:
                    s["keyed_diff_nonempty"] += 1
        s["crash"] = 0
    else:
        s["crash"] = 1
    return s


def nontrivial(case, out):
    """the interesting event occurred: a retarget to a valid target that did NOT tick in that
    cycle was observed by a consumer, and at least one unselected tick or same-value selector tick"""
    if not isinstance(out, list):
        return False
    e = _events(case)
    return e["retarget_valid_no_tick"] >= 1 and (e["unselected_ticks"] + e["same_selection"]) >= 1 and \
        any(l and l[0] == 20 for l in out)


def shrink(case):
    hdr = [l for l in case if l and l[0] == 1]
    rest = [l for l in case if not (l and l[0] == 1)]
    for i in range(len(rest)):
        yield hdr + rest[:i] + rest[i + 1:]
    # shorten payloads of keyed targets
    for i, l in enumerate(rest):
        if l[0] == 2 and l[1] in (1, 2, 3) and len(l) > 5:
            step = 2 if any(h[3:4] == [2] for h in hdr) else 1
            yield hdr + rest[:i] + [l[:-step]] + rest[i + 1:]
    for h in hdr:
        if h[2] - h[1] > 2:
            yield [[1, h[1], h[2] - 1] + h[3:]] + rest
