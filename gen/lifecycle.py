"""Family `lifecycle` (property C14): trees of graphs (plain native nodes, single_nested_graph_node
children to depth 3) whose start / evaluate / stop hooks throw according to a fault plan, run by
the real simulation executor with a LifecycleObserver; cleanup_on_error on/off; request_stop.

Case lines
  1 start end cleanup_on_error
  2 period                 plain node (evaluates every `period` us from start; 0 = never)
  3                        open a nested node (its child graph's nodes follow)
  4                        close it
  5 phase k len path... [flavour]   fault: the k-th invocation (0-based) of the hook of node `path` throws
                           phase 0 start, 1 evaluate, 2 stop; the fault's id is its rank among the 5-lines;
                           flavour 0 std::runtime_error (default), 1 a plain struct, 2 an int (not std::exception)
  11 k0 k1 ..              key source node: emits k_i in its i-th evaluation (one per microsecond)
  8 src                    open a switch_ node keyed by node `src` of the same graph; 9 opens its next branch
                           (branch b has key b; its nodes are addressed <switch path> ++ [100*(b+1)+index]); 4 closes it.
                           Cases with a switch_ are judged by the oracle only (no Coq model of switch_).
  12 variant               a map_ / reduce_ scenario (cxx/lifecycle_dyn.cpp; oracle only): root = replay source -> map_;
                           (4 = reduce_(TSD, zero) with a static-node combiner: one child graph per tree position)
                           1 map_sink_(TSD) child{solo}, 2 map_sink_(TSD) child{head -> tail}, 3 map_(dynamic TSL) child{head}
  13 c k v / 14 c k        in replay cycle c set key (TSL: index) k to v / remove key k
                           faults of map_ children: path = [1, 500+pos], k = the k-th invocation of that hook over ALL
                           children; hook lines carry a last field inst (ordinal of the instance's start call)
  15 kind n                the lifecycle OBSERVER throws in its n-th notification of that kind (oracle only)
  6 k len path...          node `path` calls request_stop in its k-th evaluation
Observation lines
  kind t len path...       observer notification  1 BSG 2 ASG 3 SGF (start graph before/after/failed)
                           4 BSN 5 ASN 6 SNF (start node)  7 BGE 8 AGE (graph evaluation) 9 BEN 10 AEN (node evaluation)
                           11 BPN 12 APN 13 PNF (stop node)  14 BPG 15 APG 16 PGF (stop graph)
  20|21|22 t len path... k user start|evaluate|stop hook of a plain node entered for the k-th time
  40 idx phase id          run() threw; message names root node idx, phase word, original fault id (-1 = absent)
  41                       run() returned normally
  32 started len path...   graph flag / 31 node flag at the return of run (pre-order)
  42                       (then the executor is released; notifications seen during release follow)
  43                       released
  30 starts evals stops len path...   the plain nodes' own counters
The model is fed case ++ [-1] ++ implementation output and appends
  90 wf closed closed_model   the acceptor's verdict on the implementation's log
"""
import itertools

NAME = "lifecycle"
DRIVER_SRCS = ["lifecycle_driver.cpp", "lifecycle_dyn.cpp"]
MODEL_FAMILY = "lifecycle"
PIPE = True
BUDGET = {"quick": 1500, "thorough": 6000}

BSG, ASG, SGF, BSN, ASN, SNF, BGE, AGE, BEN, AEN, BPN, APN, PNF, BPG, APG, PGF = range(1, 17)
HS, HE, HP = 20, 21, 22
GRAPH_KINDS = {BSG, ASG, SGF, BGE, AGE, BPG, APG, PGF}
NODE_KINDS = {BSN, ASN, SNF, BEN, AEN, BPN, APN, PNF}


# ---------------------------------------------------------------- trees
# a tree is a list of nodes; a node is ("p", period) or ("n", [children])
# also ("k", [keys]) a key source and ("s", src, [branch trees]) a switch_ node
def tree_lines(tree):
    out = []
    for n in tree:
        if n[0] == "p":
            out.append([2, n[1]])
        elif n[0] == "k":
            out.append([11] + list(n[1]))
        elif n[0] == "s":
            out.append([8, n[1]])
            for b in n[2]:
                out.append([9])
                out += tree_lines(b)
            out.append([4])
        else:
            out.append([3])
            out += tree_lines(n[1])
            out.append([4])
    return out


def plain_paths(tree, prefix=(), offset=0):
    """(static path, period) of every node with user hooks"""
    out = []
    for i, n in enumerate(tree):
        q = prefix + (offset + i,)
        if n[0] == "p":
            out.append((q, n[1]))
        elif n[0] == "k":
            out.append((q, 1))
        elif n[0] == "s":
            for b, br in enumerate(n[2]):
                out += plain_paths(br, q, 100 * (b + 1))
        else:
            out += plain_paths(n[1], q)
    return out


def all_paths(tree, prefix=(), offset=0):
    out = []
    for i, n in enumerate(tree):
        q = prefix + (offset + i,)
        out.append(q)
        if n[0] == "n":
            out += all_paths(n[1], q)
        elif n[0] == "s":
            for b, br in enumerate(n[2]):
                out += all_paths(br, q, 100 * (b + 1))
    return out


def has_switch(case):
    return any(l and l[0] == 8 for l in case)


def is_map_case(case):
    return any(l and l[0] == 12 for l in case)


def has_observer_fault(case):
    return any(l and l[0] == 15 for l in case)


def oracle_only(case):
    return has_switch(case) or is_map_case(case) or has_observer_fault(case)


def gen_tree(rng, depth, max_nodes):
    n = rng.randint(1, max_nodes)
    tree = []
    for _ in range(n):
        if depth > 0 and rng.random() < 0.3:
            tree.append(("n", gen_tree(rng, depth - 1, max(1, max_nodes - 1))))
        else:
            tree.append(("p", rng.choice([0, 1, 1, 1, 2, 3])))
    return tree


def make_case(tree, start, end, cleanup, faults, stops):
    case = [[1, start, end, cleanup]] + tree_lines(tree)
    for f in faults:
        ph, k, p = f[0], f[1], f[2]
        case.append([5, ph, k, len(p)] + list(p) + ([f[3]] if len(f) > 3 and f[3] else []))
    for (k, p) in stops:
        case.append([6, k, len(p)] + list(p))
    return case


def gen_switch(rng, tier):
    """a switch_ node in the root graph (sometimes inside a nested node): key changes, faults in the
    outgoing / incoming branch.  Judged by the oracle only."""
    nb = rng.randint(2, 3)
    branches = [[("p", rng.choice([0, 1, 1, 2])) for _ in range(rng.randint(1, 3))] for _ in range(nb)]
    keys = [rng.randrange(nb) for _ in range(rng.randint(1, 4))]
    if len(keys) > 1 and rng.random() < 0.7:
        keys[1] = (keys[0] + 1) % nb                                # make sure the key changes
    inner = [("k", keys), ("s", 0, branches)] + [("p", 1)] * rng.randint(0, 1)
    tree = inner if rng.random() < 0.75 else [("p", 1), ("n", inner)]
    start = rng.randint(1, 2)
    end = start + rng.randint(2, 6)
    pp = [p for p, _ in plain_paths(tree)]
    faults = []
    for _ in range(rng.choice([0, 1, 1, 1, 2, 2, 3])):
        ph = rng.choice([0, 1, 2, 2, 2])
        faults.append((ph, rng.choice([0, 0, 0, 1]), rng.choice(pp), rng.choice([0, 0, 0, 1, 2])))
    return make_case(tree, start, end, rng.choice([0, 1, 1]), faults, [])


def gen_map(rng, tier):
    """map_ children created mid-run: several keys per cycle, start faults in the k-th child of a cycle,
    evaluate and stop faults, removals; sampled at the return of run() and at the release."""
    variant = rng.choice([1, 2, 2, 3, 4, 4])     # 4: reduce_ with a sub-graph combiner
    start = rng.randint(1, 2)
    ncycles = rng.randint(1, 4)
    end = start + ncycles + rng.randint(1, 3)
    case = [[1, start, end, rng.choice([0, 1, 1, 1])], [12, variant]]
    live = set()
    nstarts = 0
    for cy in range(ncycles):
        if variant == 3:
            grow = rng.randint(1 if cy == 0 else 0, 3)
            for k in range(len(live), len(live) + grow):
                case.append([13, cy, k, rng.randint(0, 9)])
                live.add(k)
                nstarts += 1
            for k in list(live)[:1]:
                if rng.random() < 0.3:
                    case.append([13, cy, k, rng.randint(0, 9)])
        else:
            # reduce_ needs >= 3 live keys for two combiner graphs: start wide, remove rarely
            lo = (3 if variant == 4 else 2) if cy == 0 and rng.random() < 0.8 else 0
            for k in rng.sample(range(1, 7), rng.randint(lo, 5 if variant == 4 and cy == 0 else 3)):
                if k in live and rng.random() < (0.25 if variant == 4 else 0.5):
                    case.append([14, cy, k])
                    live.discard(k)
                else:
                    if k not in live:
                        nstarts += 1
                    case.append([13, cy, k, rng.randint(0, 9)])
                    live.add(k)
    npos = 2 if variant == 2 else 1
    shape = rng.random()
    faults = []
    if shape < 0.45:      # a start fault in the k-th child started (k >= 1 mostly: not the first one of the cycle)
        faults.append((0, rng.choice([0, 1, 1, 2, 2, 3]), (1, 500 + rng.randrange(npos))))
        if rng.random() < 0.3:
            faults.append((2, rng.choice([0, 1]), (1, 500 + rng.randrange(npos))))
    elif shape < 0.65:
        faults.append((2, rng.choice([0, 0, 1, 2]), (1, 500 + rng.randrange(npos))))
    elif shape < 0.85:
        faults.append((1, rng.choice([0, 1, 2, 3]), (1, 500 + rng.randrange(npos))))
        if rng.random() < 0.5:
            faults.append((2, rng.choice([0, 1]), (1, 500 + rng.randrange(npos))))
    for (ph, k, p) in faults:
        fl = rng.choice([0, 0, 0, 1, 2])
        case.append([5, ph, k, len(p)] + list(p) + ([fl] if fl else []))
    return case


def gen_observer(rng, tier):
    """a lifecycle observer that throws from one of its notifications"""
    tree = gen_tree(rng, rng.choice([0, 0, 1]), 3)
    start = rng.randint(1, 2)
    case = make_case(tree, start, start + rng.randint(1, 4), rng.choice([0, 1]), [], [])
    case.append([15, 11, rng.choice([0, 0, 1, 2])])     # before stop node
    return case


def gen(rng, tier, prop):
    r0 = rng.random()
    if r0 < 0.12:
        return gen_switch(rng, tier)
    if r0 < 0.24:
        return gen_map(rng, tier)
    if r0 < 0.26:
        return gen_observer(rng, tier)
    r = rng.random()
    depth = rng.choice([0, 0, 1, 1, 2, 3])
    tree = gen_tree(rng, depth, 4 if tier == "quick" else 5)
    start = rng.randint(1, 3)
    end = start + rng.randint(1, 6)
    cleanup = rng.choice([0, 1])
    pp = plain_paths(tree)
    faults, stops = [], []
    if r < 0.04:
        # malformed stream: bad times, unbalanced brackets, faults on paths that do not exist / nested nodes
        case = make_case(tree, start, rng.choice([start, start - 1, end]), cleanup, [], [])
        if rng.random() < 0.5:
            case.insert(rng.randint(1, len(case)), [rng.choice([3, 4])])
        for _ in range(rng.randint(0, 3)):
            p = tuple(rng.randint(0, 3) for _ in range(rng.randint(0, 3)))
            case.append([5, rng.randint(0, 2), rng.randint(0, 1), len(p)] + list(p))
        return case
    if pp:
        shape = rng.random()
        pick = lambda: rng.choice(pp)[0]
        if shape < 0.10:
            pass                                                   # no fault
        elif shape < 0.40:
            ph = rng.choice([0, 1, 2])
            faults.append((ph, 0 if ph != 1 else rng.choice([0, 0, 1, 2]), pick()))
        elif shape < 0.55:                                         # evaluate fault then stop fault(s)
            faults.append((1, rng.choice([0, 0, 1, 2]), pick()))
            for _ in range(rng.randint(1, 2)):
                faults.append((2, 0, pick()))
        elif shape < 0.70:                                         # start fault and stop fault(s): rollback under fire
            faults.append((0, 0, pick()))
            for _ in range(rng.randint(1, 2)):
                faults.append((2, 0, pick()))
        elif shape < 0.80:                                         # several stop faults
            for _ in range(rng.randint(2, 3)):
                faults.append((2, 0, pick()))
        else:
            for _ in range(rng.randint(2, 4)):
                ph = rng.choice([0, 1, 1, 2, 2])
                faults.append((ph, 0 if ph != 1 else rng.choice([0, 1, 2]), pick()))
        if rng.random() < 0.3:
            stops.append((rng.choice([0, 0, 1, 2]), pick()))
        # exception flavour: most faults throw std::runtime_error, some throw objects that are not std::exception
        faults = [f + (rng.choice([0, 0, 0, 1, 2]),) for f in faults]
    return make_case(tree, start, end, cleanup, faults, stops)


# ---------------------------------------------------------------- exhaustive enumeration (thorough tier)
def _p(per=1):
    return ("p", per)


ENUM_TREES = [
    # flat
    [_p()], [_p(), _p()], [_p(), _p(), _p()], [_p(), _p(2), _p(), _p(3)], [_p(0), _p()], [_p(2), _p(0), _p()],
    [_p(), _p(), _p(), _p(), _p()],
    # one nested level
    [("n", [_p()])], [("n", [_p(), _p()])], [_p(), ("n", [_p()])], [("n", [_p()]), _p()],
    [_p(), ("n", [_p(), _p()]), _p()], [("n", [_p()]), ("n", [_p()])], [_p(), ("n", [_p(2), _p()])],
    [("n", [_p(), _p(), _p()])], [_p(2), ("n", [_p()]), ("n", [_p(), _p()])], [("n", [_p(0)]), _p()],
    [("n", []), _p()], [_p(), ("n", [_p()]), _p(), ("n", [_p()])],
    # depth 2
    [("n", [("n", [_p()])])], [_p(), ("n", [_p(), ("n", [_p()])])], [("n", [("n", [_p(), _p()]), _p()])],
    [("n", [_p(), ("n", [_p()]), _p()])], [_p(), ("n", [("n", [_p()]), ("n", [_p()])])],
    [("n", [("n", [_p()])]), _p()], [("n", [_p()]), ("n", [("n", [_p()])])],
    [_p(), ("n", [("n", [_p(2)]), _p()]), _p()],
    # depth 3
    [("n", [("n", [("n", [_p()])])])], [_p(), ("n", [("n", [("n", [_p()])])])],
    [("n", [_p(), ("n", [_p(), ("n", [_p()])])])], [("n", [("n", [("n", [_p(), _p()])]), _p()]), _p()],
    [("n", [("n", [_p(), ("n", [_p()])])])], [_p(), ("n", [_p(), ("n", [("n", [_p()]), _p()])])],
    [("n", [("n", [("n", [_p()]), _p()]), _p()])], [("n", [("n", [("n", [_p()])])]), ("n", [_p()])],
    [("n", [_p(), ("n", [("n", [_p()])])]), _p()], [("n", [("n", [_p()]), ("n", [("n", [_p()])])])],
    [_p(), ("n", [("n", [("n", [_p(2)]), _p()])]), _p()], [("n", [("n", [("n", [_p()]), ("n", [_p()])])])],
    [("n", [_p(3), ("n", [_p(2), ("n", [_p(1)])])])],
]


def enumerate_cases(prop):
    """For each of the ~40 small trees: EVERY fault point (plain node x phase x occurrence <= 3) and every
    ordered pair evaluate-fault -> stop-fault and start-fault -> stop-fault, both cleanup settings; plus
    request_stop at every node's first evaluation.  Exhaustive for these trees."""
    out = []
    start, end = 1, 5
    for tree in ENUM_TREES:
        pp = [p for p, _ in plain_paths(tree)]
        for cleanup in (0, 1):
            out.append(make_case(tree, start, end, cleanup, [], []))
            for p in pp:
                for ph in (0, 1, 2):
                    for k in range(3 if ph == 1 else 2):
                        out.append(make_case(tree, start, end, cleanup, [(ph, k, p)], []))
                out.append(make_case(tree, start, end, cleanup, [], [(0, p)]))
            for p in pp:
                for q in pp:
                    for k in (0, 1):
                        out.append(make_case(tree, start, end, cleanup, [(1, k, p), (2, 0, q)], []))
                    out.append(make_case(tree, start, end, cleanup, [(0, 0, p), (2, 0, q)], []))
                    if p < q:
                        out.append(make_case(tree, start, end, cleanup, [(2, 0, p), (2, 0, q)], []))
            # every single fault point again with an exception that is not a std::exception
            for p in pp:
                for ph in (0, 1, 2):
                    out.append(make_case(tree, start, end, cleanup, [(ph, 0, p, 1)], []))
                for q in pp:
                    out.append(make_case(tree, start, end, cleanup, [(1, 0, p, 2), (2, 0, q, 1)], []))
    # map_: keys arriving together in the first cycle / in a later cycle; every start, evaluate and stop
    # fault point of the first four hook invocations; both clean-up settings
    for variant in (1, 2, 3, 4):
        npos = 2 if variant == 2 else 1
        scripts = ([[13, 0, 1, 1], [13, 0, 2, 2]], [[13, 0, 1, 1], [13, 0, 2, 2], [13, 0, 3, 3]],
                   [[13, 0, 1, 1], [13, 1, 2, 2], [13, 1, 3, 3]], [[13, 0, 1, 1], [13, 0, 2, 2], [14, 1, 1], [13, 2, 4, 4]])
        if variant == 3:
            scripts = ([[13, 0, 0, 1], [13, 0, 1, 2]], [[13, 0, 0, 1], [13, 0, 1, 2], [13, 0, 2, 3]], [[13, 0, 0, 1], [13, 1, 1, 2], [13, 1, 2, 3]])
        for sc in scripts:
            for cleanup in (0, 1):
                base = [[1, 1, 7, cleanup], [12, variant]] + [list(x) for x in sc]
                out.append(base)
                for pos in range(npos):
                    for ph in (0, 1, 2):
                        for k in range(4):
                            out.append(base + [[5, ph, k, 2, 1, 500 + pos]])
    # switch_: two/three branches, every key change pattern of length <= 3, every single fault point
    for branches in ([[_p()], [_p()]], [[_p(), _p()], [_p(), _p()]], [[_p()], [_p(), _p()], [_p()]]):
        nb = len(branches)
        for keys in itertools.chain(itertools.product(range(nb), repeat=2), itertools.product(range(nb), repeat=3)):
            tree = [("k", list(keys)), ("s", 0, branches)]
            pp = [p for p, _ in plain_paths(tree)]
            for cleanup in (0, 1):
                out.append(make_case(tree, start, end + 1, cleanup, [], []))
                for p in pp:
                    for ph in (0, 1, 2):
                        for k in (0, 1):
                            out.append(make_case(tree, start, end + 1, cleanup, [(ph, k, p)], []))
    return out


# ---------------------------------------------------------------- parsing
def parse_case(case):
    start, end, cleanup = 1, 5, 1
    root = []
    stack = [root]
    kinds = [0]
    faults, stops, flavours = [], [], []
    for l in case:
        if l[0] == 1 and len(l) >= 4:
            start, end, cleanup = l[1], l[2], l[3]
        elif l[0] == 2 and len(l) >= 2 and kinds[-1] != 3:
            stack[-1].append(("p", l[1]))
        elif l[0] == 11 and kinds[-1] != 3:
            stack[-1].append(("k", list(l[1:])))
        elif l[0] == 3 and kinds[-1] != 3:
            ch = []
            stack[-1].append(("n", ch))
            stack.append(ch)
            kinds.append(1)
        elif l[0] == 8 and len(l) >= 2 and kinds[-1] != 3:
            brs = []
            stack[-1].append(("s", l[1], brs))
            stack.append(brs)
            kinds.append(3)
        elif l[0] == 9:
            if kinds[-1] == 4:
                stack.pop()
                kinds.pop()
            if kinds[-1] == 3:
                b = []
                stack[-1].append(b)
                stack.append(b)
                kinds.append(4)
        elif l[0] == 4:
            if kinds[-1] == 4:
                stack.pop()
                kinds.pop()
            if len(stack) > 1:
                stack.pop()
                kinds.pop()
        elif l[0] == 5 and len(l) >= 4:
            faults.append((l[1], l[2], tuple(l[4:4 + max(0, l[3])])))
            flavours.append(l[4 + max(0, l[3])] if len(l) > 4 + max(0, l[3]) else 0)
        elif l[0] == 6 and len(l) >= 3:
            stops.append((l[1], tuple(l[3:3 + max(0, l[2])])))
    return dict(start=start, end=end, cleanup=cleanup, tree=root, faults=faults, stops=stops, flavours=flavours)


def parse_out(out):
    """-> (events before the return of run, result line, flags, events during release, counters)"""
    ev_run, ev_rel, flags, counters = [], [], [], []
    result = None
    stage = 0
    for l in out:
        k = l[0]
        if k in GRAPH_KINDS or k in NODE_KINDS or k in (HS, HE, HP):
            n = l[2]
            e = (k, l[1], tuple(l[3:3 + n]), l[3 + n] if k in (HS, HE, HP) and len(l) > 3 + n else 0)
            (ev_run if stage == 0 else ev_rel).append(e)
        elif k in (40, 41):
            result = l
        elif k in (31, 32):
            flags.append((k, l[1], tuple(l[3:3 + l[2]])))
        elif k == 42:
            stage = 1
        elif k == 43:
            stage = 2
        elif k == 30:
            counters.append((tuple(l[5:5 + l[4]]), l[1], l[2], l[3]))
    return ev_run, result, flags, ev_rel, counters


def owner(e):
    return e[2] if e[0] in GRAPH_KINDS else e[2][:-1]


# ---------------------------------------------------------------- the property, on the implementation's own output
def oracle(prop, case, out):
    if not isinstance(out, list):
        if isinstance(out, dict) and (out.get("crash") == 97 or "hgv-terminate" in str(out.get("stderr", ""))):
            return [("terminate_on_foreign_exception",
                     "std::terminate inside run(): an exception escaped a noexcept clean-up region; nothing after it is stopped")]
        return [("crash", str(out)[:300])]
    if any(l and l[0] == 48 for l in out):
        return [("build_error", "the driver could not build the graph")]
    if is_map_case(case):
        return oracle_map(case, out)
    if has_switch(case) or has_observer_fault(case):
        fl = oracle_switch(case, out)
        if has_observer_fault(case) and any(l and l[0] == 25 for l in out):
            # known weakness: an observer that throws from "before stop node" makes the engine skip the node's stop
            leak = [d for k, d in fl if k in ("not_stopped", "left_started", "late_stop")]
            fl = [(k, d) for k, d in fl if k not in ("not_stopped", "left_started", "late_stop", "wrong_error")]
            if leak:
                fl.append(("observer_throw_skips_stop", leak[0]))
        return fl
    c = parse_case(case)
    ev_run, result, flags, ev_rel, counters = parse_out(out)
    fails = []
    if result is None:
        return [("trace_shape", "no result line")]
    threw = result[0] == 40
    log = ev_run + ev_rel
    fault_set = {(ph, k, p): i for i, (ph, k, p) in reversed(list(enumerate(c["faults"])))}
    hook_phase = {HS: 0, HE: 1, HP: 2}

    # which faults fired, in order
    fired = [(fault_set[(hook_phase[e[0]], e[3], e[2])], e) for e in log
             if e[0] in hook_phase and (hook_phase[e[0]], e[3], e[2]) in fault_set]

    graphs = {}
    for idx, e in enumerate(log):
        graphs.setdefault(owner(e), []).append((idx, e))

    # a graph whose start rollback met a failing stop: the implementation gives up the rollback there
    # (graph.cpp start_impl: the whole loop sits in one UnwindCleanupGuard) - classified separately
    def rollback_stop_failed(gp):
        evs = graphs.get(gp, [])
        seen_snf = False
        for _, e in evs:
            if e[0] == SNF:
                seen_snf = True
            if seen_snf and e[0] == PNF:
                return True
        return False

    def leak_explained(p):
        # p (or an ancestor) sits in a graph whose rollback was cut short by a failing stop
        for d in range(len(p)):
            if rollback_stop_failed(p[:d]):
                return True
        return False

    for gp, evs in graphs.items():
        starts = [e[2][-1] for _, e in evs if e[0] == ASN]
        stops = [e[2][-1] for _, e in evs if e[0] == BPN]
        # nodes start in evaluation order
        if starts != list(range(len(starts))):
            fails.append(("start_order", "graph %s: start completions %s are not 0..m-1 in order" % (list(gp), starts)))
        # and stop in the reverse order
        if any(a <= b for a, b in zip(stops, stops[1:])):
            fails.append(("stop_order", "graph %s: stop order %s is not strictly decreasing" % (list(gp), stops)))
        # a failed start stops exactly the nodes already started (in reverse)
        snf = [(i, e) for i, (_, e) in enumerate(evs) if e[0] == SNF]
        if snf:
            i0 = snf[0][0]
            m = len(starts)
            rb = [e[2][-1] for _, e in evs[i0:] if e[0] == BPN]
            if rb != list(range(m - 1, -1, -1)):
                kind = "leak_rollback_abort" if rollback_stop_failed(gp) and rb == list(range(m - 1, m - 1 - len(rb), -1)) else "rollback_wrong"
                fails.append((kind, "graph %s: start of node %d failed with %d nodes started; rollback stopped %s"
                              % (list(gp), snf[0][1][2][-1], m, rb)))
            if any(e[0] == BPN for _, e in evs[:i0]):
                fails.append(("rollback_wrong", "graph %s: a node was stopped before the start failure" % (list(gp),)))
        # a failing stop does not prevent the remaining nodes from stopping
        bpg = [i for i, (_, e) in enumerate(evs) if e[0] == BPG]
        for b in bpg:
            apg = next((i for i in range(b, len(evs)) if evs[i][1][0] == APG), len(evs))
            seq = [e[2][-1] for _, e in evs[b:apg] if e[0] == BPN]
            m = len(starts)
            if seq != list(range(m - 1, -1, -1)):
                fails.append(("stop_blocked", "graph %s: stop pass over %d started nodes attempted %s" % (list(gp), m, seq)))
        if len(bpg) > 1:
            fails.append(("stopped_twice", "graph %s stopped %d times" % (list(gp), len(bpg))))

    # every node whose start completed is stopped exactly once, in time
    # an evaluate fault escaped (decided from the hook log, not from the error text)
    eval_in_flight = bool(fired) and first_fired_in_cycle(log, fired[0][1])
    must_be_done_at_return = bool(c["cleanup"]) or not eval_in_flight
    nodes = {e[2] for e in log if e[0] in NODE_KINDS}
    nrun = len(ev_run)
    for p in sorted(nodes):
        a = [i for i, e in enumerate(log) if e[0] == ASN and e[2] == p]
        s = [i for i, e in enumerate(log) if e[0] == BPN and e[2] == p]
        if len(a) > 1:
            fails.append(("started_twice", "node %s started %d times" % (list(p), len(a))))
        if len(s) > len(a):
            fails.append(("stopped_twice", "node %s: %d stops for %d completed starts" % (list(p), len(s), len(a))))
        elif len(s) < len(a):
            kind = "leak_rollback_abort" if leak_explained(p) else "not_stopped"
            fails.append((kind, "node %s: start completed but it was never stopped" % (list(p),)))
        elif a and s:
            if s[0] < a[0]:
                fails.append(("stop_order", "node %s stopped before its start completed" % (list(p),)))
            if must_be_done_at_return and s[0] >= nrun:
                fails.append(("leak_rollback_abort" if leak_explained(p) else "late_stop", "node %s stopped only at the release of the executor" % (list(p),)))
    # the nodes' own counters: user stop hook ran exactly once per completed user start hook
    for (p, cs, ce, cp) in counters:
        hs = [e for e in log if e[0] == HS and e[2] == p]
        he = [e for e in log if e[0] == HE and e[2] == p]
        hp = [e for e in log if e[0] == HP and e[2] == p]
        if (cs, ce, cp) != (len(hs), len(he), len(hp)):
            fails.append(("counter_mismatch", "node %s counters %s but hook lines %s" % (list(p), (cs, ce, cp), (len(hs), len(he), len(hp)))))
        ok_starts = sum(1 for e in hs if (0, e[3], p) not in fault_set)
        if cp != ok_starts:
            kind = "leak_rollback_abort" if (cp < ok_starts and leak_explained(p)) else ("not_stopped" if cp < ok_starts else "stopped_twice")
            fails.append((kind, "node %s: %d successful user starts, %d user stops" % (list(p), ok_starts, cp)))
    # flags at the return of run
    if must_be_done_at_return:
        for (k, v, p) in flags:
            if v:
                kind = "leak_rollback_abort" if (k == 31 and leak_explained(p)) or (k == 32 and leak_explained(p + (0,))) else "left_started"
                fails.append((kind, "%s %s still started at the return of run" % ("node" if k == 31 else "graph", list(p))))
    # no node is evaluated before its start or after its stop
    started = set()
    for e in log:
        if e[0] == ASN:
            started.add(e[2])
        elif e[0] == BPN:
            started.discard(e[2])
        elif e[0] in (BEN, HE) and e[2] not in started:
            fails.append(("eval_outside_lifetime", "node %s evaluated while not started" % (list(e[2]),)))
    ustarted = set()
    for e in log:
        if e[0] == HS and (0, e[3], e[2]) not in fault_set:
            ustarted.add(e[2])
        elif e[0] == HP:
            if e[2] not in ustarted:
                fails.append(("stopped_twice", "user stop hook of %s ran while not started" % (list(e[2]),)))
            ustarted.discard(e[2])
        elif e[0] == HE and e[2] not in ustarted:
            fails.append(("eval_outside_lifetime", "user evaluate of %s ran outside start..stop" % (list(e[2]),)))
    # the original error reaches the caller naming the failing node
    if c["end"] > c["start"]:
        if fired:
            fid, fe = fired[0]
            want = [40, fe[2][0], 1 if first_fired_in_cycle(log, fe) else hook_phase[fe[0]], fid]
            if result != want:
                fails.append(("wrong_error", "first fault %d fired in %s of node %s; run reported %s, expected %s"
                              % (fid, ["start", "evaluate", "stop"][hook_phase[fe[0]]], list(fe[2]), result, want)))
        elif threw:
            fails.append(("wrong_error", "run threw %s but no fault fired" % (result,)))
    # observer events balanced: every before has its after or failed, properly nested
    stack = []
    closes = {ASN: BSN, SNF: BSN, AEN: BEN, APN: BPN, ASG: BSG, SGF: BSG, AGE: BGE, APG: BPG}
    for e in log:
        if e[0] in (BSN, BEN, BPN, BSG, BGE, BPG):
            stack.append(e)
        elif e[0] in closes:
            if not stack or stack[-1][0] != closes[e[0]] or stack[-1][2] != e[2]:
                fails.append(("unbalanced", "%s for %s does not close the open bracket %s" % (e[0], list(e[2]), stack[-1][:3] if stack else None)))
                break
            stack.pop()
        elif e[0] in (PNF, PGF):
            opener = BPN if e[0] == PNF else BPG
            if not any(s[0] == opener and s[2] == e[2] for s in stack):
                fails.append(("unbalanced", "failed notification %s for %s outside its bracket" % (e[0], list(e[2]))))
    else:
        if stack:
            fails.append(("unbalanced", "before without after/failed: %s" % ([s[:3] for s in stack],)))
    # PNF exactly when the hook of a plain node threw / a nested node's child stop reported; SNF instead of ASN
    return fails


def first_fired_in_cycle(log, fe):
    """did the hook event fe run inside a root evaluation cycle (between the root's BGE and AGE)?"""
    inside = False
    for e in log:
        if e is fe:
            return inside
        if e[0] == BGE and e[2] == ():
            inside = True
        elif e[0] == AGE and e[2] == ():
            inside = False
    return False


def oracle_map(case, out):
    """map_ scenarios (no Coq model): the property on the user hooks of the map_ children, matched per instance
    (inst = ordinal of its start call): a completed start is followed by exactly one stop, evaluations in
    between, the tail of a child stops before its head, every instance is stopped by the return of run (or by
    the release when clean-up is off and an error escaped an evaluation), the first fault that fired is reported."""
    c = parse_case(case)
    variant = next((l[1] for l in case if l[0] == 12 and len(l) > 1), 2)
    fspec = {}
    for i, (ph, k, p) in reversed(list(enumerate(c["faults"]))):
        if len(p) == 2 and p[0] == 1 and p[1] in (500, 501):
            fspec[(ph, k, p[1] - 500)] = i
    fails = []
    result = None
    stage = 0
    in_cycle = False
    hooks = []           # (phase, pos, n, inst, stage, in_cycle)
    for l in out:
        if l[0] in (20, 21, 22) and len(l) >= 7:
            hooks.append((l[0] - 20, l[4] - 500, l[5], l[6], stage, in_cycle))
        elif l[0] == 7:
            in_cycle = True
        elif l[0] == 8:
            in_cycle = False
        elif l[0] in (40, 41):
            result = l
        elif l[0] == 42:
            stage = 1
    if result is None:
        return [("trace_shape", "no result line")]
    fired = [(fspec[(h[0], h[2], h[1])], h) for h in hooks if (h[0], h[2], h[1]) in fspec]
    eval_in_flight = bool(fired) and fired[0][1][5]
    must_be_done_at_return = bool(c["cleanup"]) or not eval_in_flight
    stop_fault_in_run = any(h[0] == 2 and h[4] == 0 for _, h in fired)
    started, stopped_at = {}, {}
    for idx, h in enumerate(hooks):
        ph, pos, n, inst, stg, _ = h
        if ph == 0:
            if inst in started:
                fails.append(("started_twice", "instance %d started twice" % inst))
            if (0, n, pos) not in fspec:
                started[inst] = pos
        elif ph == 1:
            if inst not in started or inst in stopped_at:
                fails.append(("eval_outside_lifetime", "instance %d (pos %d) evaluated outside start..stop" % (inst, pos)))
        else:
            if inst not in started or inst in stopped_at:
                fails.append(("stopped_twice", "stop hook of instance %d ran while it was not started" % inst))
            stopped_at[inst] = (idx, stg)
            if variant == 2 and pos == 0 and started.get(inst + 1) == 1 and inst + 1 not in stopped_at:
                fails.append(("stop_order", "head instance %d stopped before its tail %d" % (inst, inst + 1)))
    for inst in sorted(started):
        if inst not in stopped_at:
            fails.append(("not_stopped", "map_ child instance %d: start completed, never stopped" % inst))
        elif stopped_at[inst][1] == 1 and must_be_done_at_return:
            kind = "map_stop_abort" if (stop_fault_in_run and variant != 3) else "late_stop"
            fails.append((kind, "map_ child instance %d was still started at the return of run(); stopped only at the release" % inst))
    if c["end"] > c["start"]:
        if fired:
            fid, h = fired[0]
            want_phase = 1 if h[5] else h[0]
            if result[0] != 40 or result[3] != fid or result[2] != want_phase or result[1] < 0:
                swallowed = variant == 3 and h[0] == 2 and not h[5] and result == [41]
                # reduce_: a combiner retired while the tree shrinks/rebalances inside an evaluation is stopped through
                # stop_combiner_noexcept: its stop fault is swallowed and the run goes on
                shrink = variant == 4 and h[0] == 2 and h[5] and (result == [41] or (result[0] == 40 and result[3] != fid))
                fails.append(("tsl_map_stop_fault_swallowed" if swallowed else
                              "reduce_retired_combiner_stop_fault_swallowed" if shrink else "wrong_error",
                              "first fault %d fired in phase %d (in a cycle: %s); run reported %s" % (fid, h[0], h[5], result)))
        elif result[0] == 40:
            fails.append(("wrong_error", "run threw %s but no fault fired" % (result,)))
    return fails


def oracle_switch(case, out):
    """Cases with a switch_ node: no Coq model; the property on the user hooks alone (each node below a
    switch_ has its own static address): a completed start is followed by exactly one stop, evaluations
    lie in between, everything is stopped by the return of run (or the release when clean-up is off and an
    error escaped an evaluation), the first fault that fired is what run reports."""
    c = parse_case(case)
    ev_run, result, flags, ev_rel, counters = parse_out(out)
    if result is None:
        return [("trace_shape", "no result line")]
    fails = []
    log = ev_run + ev_rel
    nrun = len(ev_run)
    hook_phase = {HS: 0, HE: 1, HP: 2}
    fault_set = {(ph, k, p): i for i, (ph, k, p) in reversed(list(enumerate(c["faults"])))}
    fired = [(fault_set[(hook_phase[e[0]], e[3], e[2])], e) for e in log
             if e[0] in hook_phase and (hook_phase[e[0]], e[3], e[2]) in fault_set]
    eval_in_flight = bool(fired) and first_fired_in_cycle(log, fired[0][1])
    must_be_done_at_return = bool(c["cleanup"]) or not eval_in_flight
    state = {}
    for idx, e in enumerate(log):
        if e[0] not in hook_phase:
            continue
        p = e[2]
        st = state.get(p, 0)
        if e[0] == HS:
            if st:
                fails.append(("started_twice", "node %s started while started" % (list(p),)))
            if (0, e[3], p) not in fault_set:
                state[p] = 1
        elif e[0] == HE:
            if not st:
                fails.append(("eval_outside_lifetime", "user evaluate of %s ran outside start..stop" % (list(p),)))
        else:
            if not st:
                fails.append(("stopped_twice", "user stop hook of %s ran while not started" % (list(p),)))
            state[p] = 0
            if idx >= nrun and must_be_done_at_return:
                fails.append(("late_stop", "node %s stopped only at the release of the executor" % (list(p),)))
        if idx == nrun - 1 or (nrun == 0 and idx == 0):
            pass
    def rollback_cut_short(p):
        # known finding 1 inside this graph: a later sibling's start failed and, in the rollback, the stop
        # of a sibling between them failed too
        sib = lambda q: len(q) == len(p) and q[:-1] == p[:-1] and q[-1] // 100 == p[-1] // 100
        for i, (_, fs) in enumerate(fired):
            if fs[0] == HS and sib(fs[2]) and fs[2][-1] > p[-1]:
                if any(fp[0] == HP and sib(fp[2]) and p[-1] < fp[2][-1] < fs[2][-1] for _, fp in fired[i + 1:]):
                    return True
        return False

    for p, st in sorted(state.items()):
        if st:
            fails.append(("leak_rollback_abort" if rollback_cut_short(p) else "not_stopped",
                          "node %s: start completed but it was never stopped" % (list(p),)))
    if must_be_done_at_return:
        for (k, v, p) in flags:
            if v:
                fails.append(("left_started", "%s %s still started at the return of run" % ("node" if k == 31 else "graph", list(p))))
    for (p, cs, ce, cp) in counters:
        n = [sum(1 for e in log if e[0] == h and e[2] == p) for h in (HS, HE, HP)]
        if [cs, ce, cp] != n:
            fails.append(("counter_mismatch", "node %s counters %s but hook lines %s" % (list(p), (cs, ce, cp), n)))
    if c["end"] > c["start"]:
        if fired:
            fid, fe = fired[0]
            want = [40, fe[2][0], 1 if first_fired_in_cycle(log, fe) else hook_phase[fe[0]], fid]
            if result != want:
                fails.append(("wrong_error", "first fault %d fired in node %s; run reported %s, expected %s" % (fid, list(fe[2]), result, want)))
        elif result[0] == 40:
            fails.append(("wrong_error", "run threw %s but no fault fired" % (result,)))
    return fails


PROP_KINDS = {
    "C14": {"start_order", "stop_order", "rollback_wrong", "leak_rollback_abort", "stop_blocked", "stopped_twice", "started_twice",
            "not_stopped", "late_stop", "counter_mismatch", "left_started", "eval_outside_lifetime", "wrong_error",
            "unbalanced", "trace_shape", "build_error", "terminate_on_foreign_exception",
            "map_stop_abort", "tsl_map_stop_fault_swallowed", "reduce_retired_combiner_stop_fault_swallowed"},
    # "observer_throw_skips_stop" is deliberately NOT listed: an exception thrown by a LifecycleObserver callback is
    # outside C14's quantifier (exceptions thrown from a node's start/evaluate/stop); the kind is computed, reported nowhere

}


def agree(case, io, mo):
    if oracle_only(case):
        return isinstance(io, list)      # no model of switch_ / map_ / throwing observers: the oracle alone judges these cases
    if not isinstance(io, list) or not isinstance(mo, list) or not mo:
        return False
    v = mo[-1]
    if len(v) != 4 or v[0] != 90:
        return False
    # exact equality of the two logs, and the acceptor accepts the implementation's log
    # (closedness may fail only where the model's own log is not closed either)
    return mo[:-1] == io and v[1] == 1 and v[2] == v[3]


def nontrivial(case, out):
    if not isinstance(out, list):
        return False
    c = parse_case(case)
    fs = {(ph, k, p) for ph, k, p in c["faults"]}
    hook_phase = {HS: 0, HE: 1, HP: 2}
    for l in out:
        if l and l[0] in hook_phase:
            n = l[2]
            if (hook_phase[l[0]], l[3 + n], tuple(l[3:3 + n])) in fs:
                return True
        if l and l[0] == 25:
            return True
    return False


def stats(case, out):
    c = parse_case(case)
    st = {"nodes": len(all_paths(c["tree"])), "plain": len(plain_paths(c["tree"])),
          "nested": len(all_paths(c["tree"])) - len(plain_paths(c["tree"])),
          "faults_planned": len(c["faults"]), "cleanup_off": int(not c["cleanup"]), "stop_requests": len(c["stops"]),
          "switch_cases": int(has_switch(case)), "map_cases": int(is_map_case(case)), "observer_fault_cases": int(has_observer_fault(case)),
          "foreign_exception_faults": sum(1 for f in c["flavours"] if f)}
    if not isinstance(out, list):
        st["crash"] = 1
        return st
    ev_run, result, flags, ev_rel, counters = parse_out(out)
    log = ev_run + ev_rel
    st["events"] = len(log)
    st["cycles"] = sum(1 for e in log if e[0] == BGE and e[2] == ())
    st["run_threw"] = int(bool(result) and result[0] == 40)
    st["start_failed"] = sum(1 for e in log if e[0] == SNF)
    st["stop_failed"] = sum(1 for e in log if e[0] == PNF)
    st["eval_error"] = int(bool(result) and result[0] == 40 and result[2] == 1)
    st["stopped_at_release"] = int(any(e[0] == BPG for e in ev_rel))
    st["rollbacks"] = sum(1 for e in log if e[0] == SGF)
    st["rollback_with_stop_failure"] = int(any(k == "leak_rollback_abort" for k, _ in oracle("C14", case, out)))
    st["depth"] = max([len(p) for p in all_paths(c["tree"])] or [0])
    return st


def shrink(case):
    head = [l for l in case if l[0] == 1]
    body = [l for l in case if l[0] in (2, 3, 4)]
    extra = [l for l in case if l[0] in (5, 6)]
    for i in range(len(extra)):
        yield head + body + extra[:i] + extra[i + 1:]
    # drop one plain node that no fault/stop line mentions or lies beyond
    c = parse_case(case)

    def rebuild(tree):
        return make_case(tree, c["start"], c["end"], c["cleanup"], c["faults"], c["stops"])

    def variants(tree):
        for i, n in enumerate(tree):
            if i == len(tree) - 1:
                yield tree[:i]
            if n[0] == "n":
                for v in variants(n[1]):
                    yield tree[:i] + [("n", v)] + tree[i + 1:]
    for v in variants(c["tree"]):
        if v:
            yield rebuild(v)
    if c["end"] - c["start"] > 1:
        yield make_case(c["tree"], c["start"], c["end"] - 1, c["cleanup"], c["faults"], c["stops"])
