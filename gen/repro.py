"""Family `repro` (property C07): simulation runs are reproducible and isolated from each other.

A case = ONE main program + 1..3 noise programs (sections separated by a line `8 j`) + a plan.
Programs are core-style (gen/core.py: lines 1/2/3) extended with

  4 i mode key val     GlobalState op of node i, performed at EVERY user-code run, directly after line 12:
                          0 set key := val + t      1 read key      2 key := (key or 0) + val      3 erase key
  5 i add              node i has a State (int, starts 0): each run  state += add + t
  6 key val            the builder's seed GlobalState holds key = val
  7 bias (off val)*    (main only) companion graph: source emitting val at start+off -> nested child
                       (stateful: acc += x + bias) -> sink counting in GlobalState key 900, plus the standard
                       dense in-memory recorder of the nested node's output under "rec"
  10 spec              a parametrised schema the driver requests from the type registry (main: as given; noise sections:
                       variants differing from a main spec in exactly ONE component).  spec := 0 s (TS) | 1 s (TSS) |
                       2 s spec (TSD) | 3 n spec (TSL) | 4 s period min_period (TSW) | 5 nf (name spec)* (TSB) | 6 spec (REF);
                       scalars 0 int64 1 double 2 bool.  Flag 2 of the plan: noise variants are requested first.
  11 k sparse          (main, with a companion) k chained companion runs: run j+1's builder GlobalState is a copy of run
                       j's FINAL GlobalState (copy-back flow); recorder layout sparse (time, delta) or dense
  12 n builds seed     (main) a WIRING-built program (Wiring::finish ranks it): n rank-independent sources each feeding its own
                       sink, built and run `builds` times with heap perturbation (seed) and other wirings built in between
  13 variant           (main) GlobalContext phase: thread A selects a GlobalContext {700: 7, 701: 70}, builds the main program
                       inside it and is parked in its first user-code evaluation while thread B builds and runs the same
                       program with no context (variant 0) or inside its own context {710: 8} (variant 1)
  14 key*              (main) chain of three runs inside ONE GlobalContext {700: 7, 701: 70}: main program, a graph erasing the
                       listed keys, main program again; after every run the selected state receives the run's final state
  15 polls ivl burn    (main) a static-node interval poller asking for a WALL-CLOCK alarm under the simulation executor, run
                       three times from one builder with 0 / burn / 0 microseconds of busy host time per evaluation
  9 R F T sleep flags  plan: R repetitions from ONE builder, F from fresh builders, T threads, seed of the
                       pseudo-random sleeps in node code (0 = none); flags  1 noise runs between repetitions,
                       2 all reuse executors built before any runs, 4 threads build their own executors,
                       8 further types interned between repetitions, 16 the thread phase comes first (before the
                       reuse / fresh / companion phases: first use of the shared builders' types is concurrent)

Observation = the runs in print order, each introduced by a header
  40 rep phase          a run of the main program (phase 0 alone, 1 reused builder, 2 fresh builder, 3 thread)
  41 idx n              a run of noise program idx (n-th noise run of the case)
  42 rep phase          a run of the companion graph
followed by the core observation lines (10..15, 19) with, woven in after each line 12,
  23 i t state                       node State after the update
  20 i t key v | 21 i t key present v | 22 i t key removed      GlobalState ops
and after the run   24 key v (sorted; key -1 = a key that is not one of ours, e.g. "rec")   25 number-of-keys.
Companion runs print  30 t x acc (child node)  31 t v count (sink)  32 idx 1 v (recorded)  33 recorded-length.
  43 section 0          schema requests of that section:  50 section <spec the returned schema describes>   52 same pointer
                        on a second request   51 cycle size period min_period valid all_valid (contents)* (run-time probe of
                        a top-level TSW[int64])
  44 k sparse           chained companion run k:  30 / 31 lines,  32 idx 1 v (dense) | 34 cycle v (sparse),  33 entries
  45 b 0                build b of the wiring program:  60 ids in evaluation (= compiled node) order   61 node_count sum
  46 who variant        GlobalContext phase, thread who (0 = A, 1 = B): the run's lines, then  47 who  and the context's
                        GlobalState after everything (24 / 25 lines)
  48 j kind             run j of the one-context chain (kind 1 = the erasing graph): the run's lines incl. its final GlobalState,
                        then  47 j  and the SELECTED state after the copy-back
  49 r burn             run r of the wall-clock-alarm program:  53 offset value (sink)   54 rejected(1)/ran(0)
  (in 44 units)         35 cycle v / 36 entries: the continuation recording (sparse_record_impl, appends across chained runs)
The Coq model does not cover sections 43 / 44 / 45 / 46 / 48 / 49 (`agree` strips them); the oracle states them from a Python reference.
Other:  99 a callback ran inside a run of another program;  18 build / thread error.
"""
import random

from . import core

NAME = "repro"
DRIVER_SRCS = ["repro_driver.cpp"]
MODEL_FAMILY = "repro"
MODE = "diff"
BUDGET = {"quick": 140, "thorough": 12000}

MAIN_KEYS = [0, 1, 2, 3, 4, 5]
NOISE_KEYS = [100, 101, 102, 103]


def _extras(rng, prog, keys, other_keys):
    """GlobalState ops, node State and seed lines for one core-style program."""
    nodes = [l for l in prog if l[0] == 2]
    out = []
    for l in nodes:
        i = l[1]
        if rng.random() < 0.55:
            for _ in range(rng.randint(1, 3)):
                r = rng.random()
                mode = 2 if r < 0.4 else 0 if r < 0.6 else 1 if r < 0.9 else 3
                pool = keys if rng.random() < 0.85 else other_keys
                out.append([4, i, mode, rng.choice(pool), rng.randint(1, 9)])
        if rng.random() < 0.45:
            out.append([5, i, rng.randint(-3, 9)])
    for _ in range(rng.choice([0, 0, 1, 2, 3])):
        out.append([6, rng.choice(keys), rng.randint(10, 99)])
    return out


def _rand_spec(rng, depth=0):
    r = rng.random()
    if depth >= 2 or r < 0.15:
        return [0, rng.choice([0, 1, 2])]
    if r < 0.50:
        period = rng.choice([2, 3, 3, 4])
        return [4, rng.choice([0, 0, 0, 1]), period, rng.randint(1, period)]
    if r < 0.65:
        return [3, rng.randint(1, 3)] + _rand_spec(rng, depth + 1)
    if r < 0.80:
        names = rng.sample([1, 2, 3, 4], rng.randint(1, 3))
        out = [5, len(names)]
        for nm in names:
            out += [nm] + _rand_spec(rng, depth + 1)
        return out
    if r < 0.90:
        return [2, rng.choice([0, 2])] + _rand_spec(rng, depth + 1)
    if r < 0.95:
        return [1, rng.choice([0, 2])]
    inner = _rand_spec(rng, depth + 1)
    return inner if inner[0] == 6 else [6] + inner


def _spec_slots(spec, pos=0, out=None):
    """Positions of the mutable components of a spec with their admissible values; returns (end, slots)."""
    out = [] if out is None else out
    k = spec[pos]
    if k == 0:
        out.append((pos + 1, [0, 1, 2])); return pos + 2, out
    if k == 1:
        out.append((pos + 1, [0, 2])); return pos + 2, out
    if k == 2:
        out.append((pos + 1, [0, 2])); return _spec_slots(spec, pos + 2, out)
    if k == 3:
        out.append((pos + 1, [1, 2, 3, 4])); return _spec_slots(spec, pos + 2, out)
    if k == 4:
        out.append((pos + 1, [0, 1]))
        out.append((pos + 2, [v for v in (2, 3, 4, 5) if v >= spec[pos + 3]]))
        out.append((pos + 3, list(range(1, spec[pos + 2] + 1))))
        return pos + 4, out
    if k == 5:
        q = pos + 2
        for _ in range(spec[pos + 1]):
            used = set()
            out.append((q, [1, 2, 3, 4, 5, 6])); q, _o = _spec_slots(spec, q + 1, out)
        return q, out
    if k == 6:
        return _spec_slots(spec, pos + 1, out)
    raise ValueError(spec)


def _variant(rng, spec):
    """The same spec with exactly one component changed (field names stay distinct)."""
    for _ in range(20):
        _, slots = _spec_slots(spec)
        pos, vals = rng.choice(slots)
        vals = [v for v in vals if v != spec[pos]]
        if not vals:
            continue
        v2 = list(spec)
        v2[pos] = rng.choice(vals)
        if _valid_spec(v2):
            return v2
    return list(spec)


def _valid_spec(spec):
    try:
        end, _ = _spec_slots(spec)
        if end != len(spec):
            return False
    except Exception:
        return False
    # distinct field names inside each TSB
    def walk(pos):
        k = spec[pos]
        if k in (0, 1):
            return pos + 2
        if k in (2, 3):
            return walk(pos + 2)
        if k == 4:
            return pos + 4 if 1 <= spec[pos + 3] <= spec[pos + 2] else None
        if k == 5:
            q, names = pos + 2, []
            for _ in range(spec[pos + 1]):
                names.append(spec[q]); q = walk(q + 1)
                if q is None:
                    return None
            return q if len(set(names)) == len(names) else None
        if k == 6:
            # REF is idempotent by design (TypeRegistry::ref returns a REF argument unchanged): never REF[REF[..]]
            return None if spec[pos + 1] == 6 else walk(pos + 1)
    return walk(0) == len(spec)


def _small_core(rng, tier, prop):
    c = core.no_lists(core.no_refusal(core.gen(rng, "quick", prop)))
    # keep noise programs short
    for l in c:
        if l[0] == 1:
            l[2] = min(l[2], l[1] + 8)
    return c


def gen(rng, tier, prop):
    quick = tier == "quick"
    main = core.no_lists(core.no_refusal(core.gen(rng, "quick" if quick or rng.random() < 0.7 else "thorough", "C07")))
    main += _extras(rng, main, MAIN_KEYS, NOISE_KEYS)
    if rng.random() < (0.4 if quick else 0.5):
        start, end = main[0][1], main[0][2]
        offs, o = [], rng.choice([0, 0, 1, 2])
        for _ in range(rng.randint(1, 5)):
            offs += [o, rng.randint(-5, 20)]
            o += rng.randint(1, 4)
        main.append([7, rng.randint(-2, 5)] + offs)
    R = rng.randint(2, 3) if quick else rng.randint(2, 5)
    F = rng.randint(1, 2)
    r = rng.random()
    if quick:
        T = 0 if r < 0.45 else rng.randint(2, 4) if r < 0.9 else rng.randint(5, 8)
    else:
        T = 0 if r < 0.3 else rng.randint(2, 8)
    sleep = 0 if rng.random() < 0.4 else rng.randint(1, 10 ** 6)
    flags = rng.randint(0, 31)
    if rng.random() < 0.5:
        flags |= 1
    has_comp = any(l[0] == 7 for l in main)
    if has_comp and rng.random() < 0.8:
        main.append([11, rng.randint(2, 3), 1 if rng.random() < 0.7 else 0])
    if rng.random() < 0.5:
        main.append([12, rng.randint(8, 16), rng.randint(3, 5), rng.randint(1, 10 ** 6)])
    if rng.random() < 0.4:
        main.append([13, rng.choice([0, 0, 1])])
    if rng.random() < 0.4:
        written = sorted({l[3] for l in main if l[0] == 4 and l[2] in (0, 2)} | {l[1] for l in main if l[0] == 6})
        ks = [701] + ([rng.choice(written)] if written else []) + ([700] if rng.random() < 0.3 else [])
        main.append([14] + ks)
    if rng.random() < 0.35:
        main.append([15, rng.randint(2, 4), rng.choice([20, 50, 100]), rng.choice([150, 300, 500])])
    specs = [_rand_spec(rng) for _ in range(rng.choice([0, 1, 2, 2, 3]))]
    for sp in specs:
        main.append([10] + sp)
    case = [[9, R, F, T, sleep, flags]] + main
    for j in range(1, rng.randint(1, 3) + 1):
        nz = _small_core(rng, tier, "C07")
        nz += _extras(rng, nz, NOISE_KEYS, MAIN_KEYS)
        for sp in specs:
            if rng.random() < 0.7:
                nz.append([10] + _variant(rng, sp))
        case.append([8, j])
        case += nz
    return case


# ---------------------------------------------------------------- helpers
def sections(case):
    secs, cur = [], []
    for l in case:
        if l and l[0] == 8:
            secs.append(cur)
            cur = []
        else:
            cur.append(l)
    secs.append(cur)
    return secs


def plan_of(case):
    p = [2, 1, 0, 0, 0]
    for l in case:
        if l and l[0] == 9 and len(l) >= 6:
            p = l[1:6]
    return dict(R=p[0], F=p[1], T=p[2], sleep=p[3], flags=p[4])


def expected_headers(case):
    """The order of runs the plan prescribes (a reference spec of the plan, independent of the Coq model)."""
    secs = sections(case)
    m = len(secs) - 1
    pl = plan_of(case)
    comp = any(l and l[0] == 7 and len(l) >= 2 for l in secs[0])
    def nz(j):
        return [("N", 1 + j % m)] if (pl["flags"] & 1) and m > 0 else []
    seq = []
    for r in range(max(0, pl["R"])):
        seq += [("M", 1)] + nz(r)
    for f in range(max(0, pl["F"])):
        seq += [("M", 2)] + nz(pl["R"] + f)
    if comp:
        seq += [("C", 1)] + nz(0) + [("C", 1)] + nz(1) + [("C", 2)]
    thr = []
    for j in range(max(0, pl["T"])):
        kind = "MNCMDNMC"[j % 8]
        if kind == "D":
            kind = "C" if comp else "N"
        if kind == "C" and not comp:
            kind = "M"
        if kind == "N" and m == 0:
            kind = "M"
        thr.append(("N", 1 + (j // 2) % m) if kind == "N" else ("C", 3) if kind == "C" else ("M", 3))
    evs = [("M", 0)] + (thr + seq if pl["flags"] & 16 else seq + thr)
    chain = next(([l[1], l[2]] for l in secs[0] if l[0] == 11 and len(l) >= 3), None)
    tail = []
    if comp and chain and chain[0] > 0:
        tail += [[44, k, int(chain[1] != 0)] for k in range(chain[0])]
    order = list(range(len(secs)))
    if pl["flags"] & 2:
        order.reverse()
    tail += [[43, sct, 0] for sct in order if any(l[0] == 10 and len(l) >= 3 for l in secs[sct])]
    wl = next((l for l in secs[0] if l[0] == 12 and len(l) >= 4), None)
    if wl and wl[1] > 0 and wl[2] > 0:
        tail += [[45, b, 0] for b in range(wl[2])]
    cv = next((l[1] for l in secs[0] if l[0] == 13 and len(l) >= 2), -1)
    if cv >= 0:
        tail += [[46, 0, cv], [46, 1, cv]]
    if any(l[0] == 14 for l in secs[0]):
        tail += [[48, 0, 0], [48, 1, 1], [48, 2, 0]]
    al = next((l for l in secs[0] if l[0] == 15 and len(l) >= 4), None)
    if al and al[1] > 0:
        tail += [[49, 0, 0], [49, 1, al[3]], [49, 2, 0]]
    hdr, rep, n, crep = [], 0, 0, 0
    for k, a in evs:
        if k == "M":
            hdr.append([40, rep, a]); rep += 1
        elif k == "N":
            hdr.append([41, a, n]); n += 1
        else:
            hdr.append([42, crep, a]); crep += 1
    return hdr + tail


def units(out):
    """Split an observation into runs: [(header, lines)]."""
    us = []
    for l in out:
        if l and l[0] in (40, 41, 42, 43, 44, 45, 46, 48, 49) and len(l) == 3:
            us.append((l, []))
        elif us:
            us[-1][1].append(l)
        else:
            us.append(([0, 0, 0], [l]))
    return us


def _first_diff(a, b):
    for i, (x, y) in enumerate(zip(a, b)):
        if x != y:
            return "line %d: %s vs %s" % (i, x, y)
    return "length %d vs %d" % (len(a), len(b))


def _prog_info(sec):
    seeds = {}
    gsops = {}
    state = {}
    for l in sec:
        if l[0] == 6 and len(l) >= 3:
            seeds[l[1]] = l[2]
        elif l[0] == 4 and len(l) >= 5:
            gsops.setdefault(l[1], []).append((l[2], l[3], l[4]))
        elif l[0] == 5 and len(l) >= 3:
            state[l[1]] = l[2]
    return seeds, gsops, state


# ---------------------------------------------------------------- property oracle
def _check_run(tag, sec, lines, fails, base_seed=None):
    """Isolation of ONE run, judged on its own lines: everything it reads is what the builder's seed held or
    what this run itself wrote; its final GlobalState is seed + own writes - own erasures; node State starts at 0."""
    seeds, gsops, state = _prog_info(sec)
    if base_seed is not None:
        merged = dict(base_seed)
        merged.update(seeds)
        seeds = merged
    gs = dict(seeds)
    own = set(seeds)
    nstate = {}
    for l in lines:
        c = l[0]
        if c == 99:
            fails.append(("callback_cross_run", "%s: a node callback ran inside a run of another program" % tag))
        elif c == 18:
            fails.append(("build_error", "%s: build / thread error" % tag))
        elif c == 19 and l[1] not in (2, 3):
            fails.append(("unexpected_error", "%s: the run ended with an unexpected exception (code %d)" % (tag, l[1])))
        elif c == 23:
            i, t, v = l[1], l[2], l[3]
            exp = nstate.get(i, 0) + state.get(i, 0) + t
            if v != exp:
                fails.append(("state_leak", "%s: node %d State is %d at %d; its own history (start 0) implies %d" % (tag, i, v, t, exp)))
            nstate[i] = v
        elif c == 20:
            i, t, k, v = l[1], l[2], l[3], l[4]
            # either a plain set (val + t) or a counter (previous + val): one of this node's ops on k must explain it
            ok = False
            for (mode, key, val) in gsops.get(i, []):
                if key == k and ((mode == 0 and v == val + t) or (mode == 2 and v == gs.get(k, 0) + val)):
                    ok = True
            if not ok:
                fails.append(("gs_counter", "%s: node %d wrote key %d = %d at %d; seed + this run's own writes hold %s"
                              % (tag, i, k, v, t, gs.get(k))))
            gs[k] = v
            own.add(k)
        elif c == 21:
            i, t, k, present, v = l[1], l[2], l[3], l[4], l[5]
            exp = [1, gs[k]] if k in gs else [0, 0]
            if [present, v] != exp:
                fails.append(("gs_foreign_read", "%s: node %d read key %d -> %s at %d; seed + this run's own writes imply %s"
                              % (tag, i, k, [present, v], t, exp)))
        elif c == 22:
            i, t, k, removed = l[1], l[2], l[3], l[4]
            if removed != int(k in gs):
                fails.append(("gs_foreign_read", "%s: erase of key %d removed=%d at %d; own history implies %d" % (tag, k, removed, t, int(k in gs))))
            gs.pop(k, None)
    dump = [(l[1], l[2]) for l in lines if l[0] == 24]
    size = [l[1] for l in lines if l[0] == 25]
    if dump != sorted(gs.items()):
        foreign = [k for k, _ in dump if k not in own]
        kind = "gs_foreign_key" if foreign else "gs_keys"
        fails.append((kind, "%s: GlobalState after the run is %s; seed + this run's own writes imply %s" % (tag, dump, sorted(gs.items()))))
    if size != [len(dump)]:
        fails.append(("gs_keys", "%s: GlobalState size %s but %d keys listed" % (tag, size, len(dump))))


def _check_comp(tag, sec, lines, fails):
    seeds, _, _ = _prog_info(sec)
    bias = 0
    for l in sec:
        if l[0] == 7 and len(l) >= 2:
            bias = l[1]
    acc, cnt, rec = 0, 0, {}
    for l in lines:
        if l[0] in (18, 19, 99):
            fails.append(("unexpected_error", "%s: companion run failed (%s)" % (tag, l)))
        elif l[0] == 30:
            t, x, a = l[1], l[2], l[3]
            if a != acc + x + bias:
                fails.append(("child_state_leak", "%s: nested child State %d at %d; its own history (start 0) implies %d" % (tag, a, t, acc + x + bias)))
            acc = a
            rec[t - 1] = a
        elif l[0] == 31:
            cnt += 1
            if l[3] != cnt:
                fails.append(("gs_counter", "%s: sink counter %d at %d; own history implies %d" % (tag, l[3], l[1], cnt)))
    got = {l[1]: l[3] for l in lines if l[0] == 32}
    if got != rec:
        fails.append(("record_leak", "%s: recorded buffer %s; this run ticked %s" % (tag, sorted(got.items()), sorted(rec.items()))))
    size = [l[1] for l in lines if l[0] == 33]
    if size != [max(rec) + 1 if rec else 0]:
        fails.append(("record_leak", "%s: recorded buffer length %s; this run implies %d" % (tag, size, max(rec) + 1 if rec else 0)))
    exp = dict(seeds)
    if cnt:
        exp[900] = cnt
        exp[-1] = 0
    dump = [(l[1], l[2]) for l in lines if l[0] == 24]
    if dump != sorted(exp.items()):
        fails.append(("gs_foreign_key" if any(k not in exp for k, _ in dump) else "gs_keys",
                      "%s: GlobalState after the run is %s; seed + own writes imply %s" % (tag, dump, sorted(exp.items()))))


def _check_chain(tag, sec, lines, sparse, carried, fails, cont):
    """A chained companion run: seeded from the previous run's final GlobalState, so the sink counter carries on -
    but the nested child's State and the RECORDING must be this run's own."""
    bias = next((l[1] for l in sec if l[0] == 7 and len(l) >= 2), 0)
    acc, rec = 0, []
    cnt = carried
    for l in lines:
        if l[0] in (18, 19, 99):
            fails.append(("unexpected_error", "%s: chained companion run failed (%s)" % (tag, l)))
        elif l[0] == 30:
            t, x, a = l[1], l[2], l[3]
            if a != acc + x + bias:
                fails.append(("child_state_leak", "%s: nested child State %d at %d; its own history (start 0) implies %d" % (tag, a, t, acc + x + bias)))
            acc = a
            rec.append((t - 1, a))
        elif l[0] == 31:
            cnt += 1
            if l[3] != cnt:
                fails.append(("gs_counter", "%s: sink counter %d at %d; the seed it was given + own history imply %d" % (tag, l[3], l[1], cnt)))
    if sparse:
        got = [(l[1], l[2]) for l in lines if l[0] == 34]
        n = len(rec)
    else:
        got = [(l[1], l[3]) for l in lines if l[0] == 32]
        n = rec[-1][0] + 1 if rec else 0
    if got != rec:
        fails.append(("record_leak", "%s: recording read back %s; this run ticked %s (entries of an earlier run are visible)" % (tag, got, rec)
                      if len(got) > len(rec) else "%s: recording read back %s; this run ticked %s" % (tag, got, rec)))
    size = [l[1] for l in lines if l[0] == 33]
    if size != [n]:
        fails.append(("record_leak", "%s: recording length %s; this run implies %d" % (tag, size, n)))
    # the continuation recording (shared key on purpose) holds every chained run's ticks so far, in order
    cont.extend(rec)
    got_c = [(l[1], l[2]) for l in lines if l[0] == 35]
    n_c = [l[1] for l in lines if l[0] == 36]
    if got_c != cont or n_c != [len(cont)]:
        fails.append(("record_continuation_lost", "%s: the continuation recording reads back %s (%s entries); the chained runs so far ticked %s"
                      % (tag, got_c, n_c, cont)))
    return cnt


def _check_schemas(tag, sct, sec, lines, fails):
    """Every schema handed out by the registry is the one requested, whatever was interned before; the tick-window
    probe behaves as a window of the requested period / min_period."""
    specs = [l[1:] for l in sec if l[0] == 10 and len(l) >= 3]
    pos = 0
    for sp in specs:
        exp = [50, sct] + sp
        got = lines[pos] if pos < len(lines) else None
        if got != exp:
            fails.append(("schema_confused", "%s: requested %s, the registry handed out a schema describing itself as %s"
                          % (tag, sp, got[2:] if got and got[0] == 50 else got)))
        pos += 1
        got = lines[pos] if pos < len(lines) else None
        if got != [52, 1]:
            fails.append(("schema_confused", "%s: a second request of %s did not return the same schema (%s)" % (tag, sp, got)))
        pos += 1
        if sp[0] == 4 and sp[1] == 0:
            period, minp = sp[2], sp[3]
            for c in range(period + 2):
                size = min(c + 1, period)
                exp = [51, c, size, period, minp, 1, int(size >= minp)] + list(range(c + 2 - size, c + 2))
                got = lines[pos] if pos < len(lines) else None
                if got != exp:
                    fails.append(("window_trace", "%s: window probe of TSW[int,%d,%d] printed %s, a window with these parameters gives %s"
                                  % (tag, period, minp, got, exp)))
                pos += 1
    if pos != len(lines):
        fails.append(("plan_shape", "%s: %d lines, expected %d" % (tag, len(lines), pos)))


CTX_KEYS = {0: {700: 7, 701: 70}, 1: {710: 8}}


def _check_wiring(tag, sec, lines, ref, fails):
    wl = next((l for l in sec if l[0] == 12 and len(l) >= 4), None)
    n = wl[1] if wl else 0
    if any(l[0] in (18, 19, 99) for l in lines):
        fails.append(("unexpected_error", "%s failed (%s)" % (tag, lines[:2])))
        return
    order = next((l[1:] for l in lines if l[0] == 60), None)
    tot = next((l[1:] for l in lines if l[0] == 61), None)
    ids = sorted(list(range(1, n + 1)) + [100 + i for i in range(1, n + 1)])
    if order is None or sorted(order) != ids or tot != [2 * n, n * (n + 1) // 2]:
        fails.append(("wiring_run_wrong", "%s: evaluation order %s, totals %s; expected a permutation of %d sources and their sinks, totals %s"
                      % (tag, order, tot, n, [2 * n, n * (n + 1) // 2])))
    elif any(order.index(100 + i) < order.index(i) for i in range(1, n + 1)):
        fails.append(("wiring_run_wrong", "%s: a sink is ranked before its source: %s" % (tag, order)))
    if ref is not None and lines != ref:
        fails.append(("build_order_varies", "%s: compiled node / evaluation order %s differs from the first build of the SAME wiring %s"
                      % (tag, order, next((l[1:] for l in ref if l[0] == 60), None))))


def _check_context(tag, who, variant, lines, rep0, fails):
    """A run made while ANOTHER thread holds a GlobalContext: its trace is the solo trace, its GlobalState the solo one plus the
    keys of the context selected on ITS OWN thread (none for B in variant 0); the contexts keep exactly their own keys."""
    cut = next((i for i, l in enumerate(lines) if l[0] == 47 and len(l) == 2), len(lines))
    run, after = lines[:cut], lines[cut + 1:]
    own = dict(CTX_KEYS[0]) if who == 0 else (dict(CTX_KEYS[1]) if variant == 1 else {})
    other = CTX_KEYS[1] if who == 0 else CTX_KEYS[0]
    if any(l[0] == 18 for l in run):
        fails.append(("foreign_state_visible", "%s: build / run failed (a GlobalContext selected on another thread got in the way?)" % tag))
        return
    if rep0 is None:
        return
    body = [l for l in run if l[0] not in (24, 25)]
    body0 = [l for l in rep0 if l[0] not in (24, 25)]
    if body != body0:
        fails.append(("rep_differs", "%s differs from the solo run of the same program: %s" % (tag, _first_diff(body0, body))))
    exp = dict((l[1], l[2]) for l in rep0 if l[0] == 24)
    exp.update(own)
    dump = [(l[1], l[2]) for l in run if l[0] == 24]
    if dump != sorted(exp.items()):
        kind = "foreign_state_visible" if any(k in other for k, _ in dump) else "gs_keys"
        fails.append((kind, "%s: GlobalState after the run is %s; the solo run + the context selected on this thread imply %s"
                      % (tag, dump, sorted(exp.items()))))
    exp_after = CTX_KEYS[0] if who == 0 else CTX_KEYS[1]
    got_after = [(l[1], l[2]) for l in after if l[0] == 24]
    if got_after != sorted(exp_after.items()):
        fails.append(("foreign_state_visible", "%s: the context's own GlobalState holds %s afterwards; it was given %s"
                      % (tag, got_after, sorted(exp_after.items()))))


def _check_ctx_chain(tag, j, sec, lines, selected, fails):
    """One run of the chain inside ONE GlobalContext: built from the selected state, and afterwards the selected state IS the
    run's final state (copy-back replaces; keys the run erased are gone).  Returns the selected state the next run starts from."""
    cut = next((i for i, l in enumerate(lines) if l[0] == 47 and len(l) == 2), len(lines))
    run, after = lines[:cut], lines[cut + 1:]
    if any(l[0] == 18 for l in run):
        fails.append(("unexpected_error", "%s: build / run failed" % tag))
        return selected
    final = [(l[1], l[2]) for l in run if l[0] == 24]
    if j == 1:
        exp = dict(selected)
        for l in run:
            if l[0] == 22:
                if l[4] != int(l[3] in exp):
                    fails.append(("gs_foreign_read", "%s: erase of key %d removed=%d; the state it was seeded with implies %d"
                                  % (tag, l[3], l[4], int(l[3] in exp))))
                exp.pop(l[3], None)
        if final != sorted(exp.items()):
            fails.append(("gs_keys", "%s: final GlobalState %s; seed minus erased keys is %s" % (tag, final, sorted(exp.items()))))
    else:
        _check_run(tag, sec, run, fails, base_seed=selected)
    got = [(l[1], l[2]) for l in after if l[0] == 24]
    if got != final:
        stale = [k for k, _ in got if k not in dict(final)]
        fails.append(("stale_key_after_copy_back", "%s: after the copy-back the selected state is %s, the finished run's final state is %s%s"
                      % (tag, got, final, " (keys %s were erased by the run and survived)" % stale if stale else "")))
    return dict(final)


def strip_unmodelled(out):
    """The observation without the sections the Coq model does not cover (43 schema probes, 44 chained runs)."""
    res, keep = [], True
    for l in out:
        if l and len(l) == 3 and l[0] in (40, 41, 42, 43, 44, 45, 46, 48, 49):
            keep = l[0] not in (43, 44, 45, 46, 48, 49)
        if keep:
            res.append(l)
    return res


def agree(case, impl_out, model_out):
    return isinstance(impl_out, list) and isinstance(model_out, list) and strip_unmodelled(impl_out) == model_out


def oracle(prop, case, out):
    """C07 stated on the implementation's output alone: (1) every repetition of a program is identical to its
    first run, whatever happened in the process before / at the same time / however slow the wall clock;
    (2) each run, judged on its own lines, saw and left only the seed plus what it wrote itself."""
    if not isinstance(out, list):
        return [("crash", str(out))]
    fails = []
    secs = sections(case)
    us = units(out)
    hdr = [u[0] for u in us]
    exp = expected_headers(case)
    if hdr != exp:
        fails.append(("plan_shape", "runs printed %s; the plan prescribes %s" % (hdr[:12], exp[:12])))
    first = {}
    carried = 0
    cont = []
    selected = {700: 7, 701: 70}
    for h, lines in us:
        if h[0] == 43:
            if 0 <= h[1] < len(secs):
                _check_schemas("schema requests of section %d" % h[1], h[1], secs[h[1]], lines, fails)
            continue
        if h[0] == 48:
            selected = _check_ctx_chain("run %d of the one-context chain" % h[1], h[1], secs[0], lines, selected, fails)
            continue
        if h[0] == 49:
            what = "wall-clock-alarm program, run %d with %d us of host time per evaluation" % (h[1], h[2])
            if any(l[0] == 18 for l in lines):
                fails.append(("unexpected_error", "%s: could not be built" % what))
            if ("A",) in first and lines != first[("A",)]:
                fails.append(("speed_dependent", "%s: outcome %s differs from the first run of the same builder %s"
                              % (what, lines[:8], first[("A",)][:8])))
            first.setdefault(("A",), lines)
            continue
        if h[0] == 45:
            _check_wiring("wiring program build %d" % h[1], secs[0], lines, first.get(("W",)), fails)
            first.setdefault(("W",), lines)
            continue
        if h[0] == 46:
            _check_context("run on thread %s while another thread holds a GlobalContext (variant %d)" % ("AB"[h[1] & 1], h[2]),
                           h[1], h[2], lines, first.get(("M",)), fails)
            continue
        if h[0] == 44:
            carried = _check_chain("chained companion run %d (%s)" % (h[1], "sparse" if h[2] else "dense"), secs[0], lines, h[2], carried, fails, cont)
            continue
        if h[0] == 40:
            key, what = ("M",), "main program repetition %d (phase %d)" % (h[1], h[2])
        elif h[0] == 41:
            key, what = ("N", h[1]), "noise program %d run %d" % (h[1], h[2])
        elif h[0] == 42:
            key, what = ("C",), "companion repetition %d (phase %d)" % (h[1], h[2])
        else:
            fails.append(("plan_shape", "lines before the first header: %s" % lines[:2]))
            continue
        if key not in first:
            first[key] = lines
        elif lines != first[key]:
            kind = {"M": "rep_differs", "N": "noise_rep_differs", "C": "comp_rep_differs"}[key[0]]
            fails.append((kind, "%s differs from the first run of the same program: %s" % (what, _first_diff(first[key], lines))))
        if h[0] == 40 and secs:
            _check_run(what, secs[0], lines, fails)
        elif h[0] == 41 and 1 <= h[1] < len(secs):
            _check_run(what, secs[h[1]], lines, fails)
        elif h[0] == 42 and secs:
            _check_comp(what, secs[0], lines, fails)
    # de-duplicate by kind, keep the first detail of each
    seen, res = set(), []
    for k, d in fails:
        if k not in seen:
            seen.add(k)
            res.append((k, d))
    return res


PROP_KINDS = {
    "C07": {"rep_differs", "noise_rep_differs", "comp_rep_differs", "plan_shape", "callback_cross_run", "build_error",
            "unexpected_error", "state_leak", "child_state_leak", "gs_counter", "gs_foreign_read", "gs_foreign_key",
            "gs_keys", "record_leak", "schema_confused", "window_trace",
            "build_order_varies", "wiring_run_wrong", "foreign_state_visible",
            "stale_key_after_copy_back", "speed_dependent", "record_continuation_lost"},
}


def nontrivial(case, out):
    if not isinstance(out, list):
        return False
    us = units(out)
    mains = [u for u in us if u[0][0] == 40]
    if len(mains) < 3:
        return False
    l0 = mains[0][1]
    return sum(1 for l in l0 if l[0] == 10) >= 2 and sum(1 for l in l0 if l[0] == 12) >= 2


def stats(case, out):
    pl = plan_of(case)
    secs = sections(case)
    st = {"noise_programs": len(secs) - 1, "threads": max(0, pl["T"]), "threaded_cases": int(pl["T"] > 0),
          "sleeping_cases": int(pl["sleep"] != 0), "flag_noise": pl["flags"] & 1, "flag_overlap": (pl["flags"] >> 1) & 1,
          "flag_thread_build": (pl["flags"] >> 2) & 1, "flag_intern": (pl["flags"] >> 3) & 1,
          "flag_threads_first": (pl["flags"] >> 4) & 1,
          "companion_cases": int(any(l[0] == 7 for l in secs[0])),
          "seed_keys": sum(1 for l in secs[0] if l[0] == 6), "gs_ops_declared": sum(1 for l in secs[0] if l[0] == 4),
          "state_nodes": sum(1 for l in secs[0] if l[0] == 5),
          "ctx_chain_cases": int(any(l[0] == 14 for l in secs[0])), "alarm_cases": int(any(l[0] == 15 for l in secs[0])),
          "wiring_cases": int(any(l[0] == 12 for l in secs[0])), "context_cases": int(any(l[0] == 13 for l in secs[0])),
          "schema_requests": sum(1 for sec in secs for l in sec if l[0] == 10),
          "tsw_specs": sum(1 for sec in secs for l in sec if l[0] == 10 and len(l) > 1 and l[1] == 4),
          "chained_cases_sparse": int(any(l[0] == 11 and l[2] for l in secs[0]) and any(l[0] == 7 for l in secs[0])),
          "chained_cases_dense": int(any(l[0] == 11 and not l[2] for l in secs[0]) and any(l[0] == 7 for l in secs[0]))}
    if isinstance(out, list):
        us = units(out)
        st["main_runs"] = sum(1 for u in us if u[0][0] == 40)
        st["noise_runs"] = sum(1 for u in us if u[0][0] == 41)
        st["companion_runs"] = sum(1 for u in us if u[0][0] == 42)
        st["thread_runs"] = sum(1 for u in us if u[0][0] in (40, 42) and u[0][2] == 3)
        m0 = next((u[1] for u in us if u[0][0] == 40), [])
        st["cycles_rep0"] = sum(1 for l in m0 if l[0] == 10)
        st["gs_writes_rep0"] = sum(1 for l in m0 if l[0] == 20)
        st["gs_reads_rep0"] = sum(1 for l in m0 if l[0] == 21)
        st["gs_erases_rep0"] = sum(1 for l in m0 if l[0] == 22)
        st["state_updates_rep0"] = sum(1 for l in m0 if l[0] == 23)
        st["error_runs_rep0"] = sum(1 for l in m0 if l[0] == 19)
        st["ctx_chain_erases"] = sum(1 for u in us if u[0][0] == 48 for l in u[1] if l[0] == 22 and l[4] == 1)
        st["alarm_runs_rejected"] = sum(1 for u in us if u[0][0] == 49 for l in u[1] if l == [54, 1])
        st["alarm_runs_ran"] = sum(1 for u in us if u[0][0] == 49 for l in u[1] if l == [54, 0])
        st["continuation_entries"] = sum(1 for u in us if u[0][0] == 44 for l in u[1] if l[0] == 35)
        st["wiring_builds"] = sum(1 for u in us if u[0][0] == 45)
        st["context_runs"] = sum(1 for u in us if u[0][0] == 46)
        st["chained_runs"] = sum(1 for u in us if u[0][0] == 44)
        st["window_probe_cycles"] = sum(1 for u in us if u[0][0] == 43 for l in u[1] if l[0] == 51)
        st["recorded_ticks"] = sum(1 for u in us[:] if u[0][0] == 42 for l in u[1] if l[0] == 32)
    return st


def shrink(case):
    secs = sections(case)
    pl = plan_of(case)
    plan_line = [9, pl["R"], pl["F"], pl["T"], pl["sleep"], pl["flags"]]

    def build(main, noises, plan):
        c = [plan] + [l for l in main if l[0] != 9]
        for j, nz in enumerate(noises, 1):
            c.append([8, j])
            c += [l for l in nz if l[0] != 9]
        return c
    main, noises = secs[0], secs[1:]
    # fewer noise programs
    for j in range(len(noises)):
        if len(noises) > 1:
            yield build(main, noises[:j] + noises[j + 1:], plan_line)
    # smaller plan
    for idx, lo in ((3, 0), (1, 1), (2, 0)):
        if plan_line[idx] > lo:
            p2 = list(plan_line)
            p2[idx] = lo if idx == 3 and plan_line[idx] <= 2 else plan_line[idx] - 1
            yield build(main, noises, p2)
    if plan_line[4] != 0:
        p2 = list(plan_line); p2[4] = 0
        yield build(main, noises, p2)
    for bit in (1, 2, 4, 8, 16):
        if plan_line[5] & bit:
            p2 = list(plan_line); p2[5] &= ~bit
            yield build(main, noises, p2)
    # drop extension lines / companion of the main program, then of the noise programs
    for k, l in enumerate(main):
        if l[0] in (4, 5, 6, 7, 10, 11, 12, 13, 14, 15):
            yield build(main[:k] + main[k + 1:], noises, plan_line)
    for j, nz in enumerate(noises):
        for k, l in enumerate(nz):
            if l[0] in (4, 5, 6, 10):
                yield build(main, noises[:j] + [nz[:k] + nz[k + 1:]] + noises[j + 1:], plan_line)
    # core shrinking of the main program (scripts, last node, window) keeping the extension lines that stay valid
    core_part = [l for l in main if l[0] in (1, 2, 3)]
    ext = [l for l in main if l[0] in (4, 5, 6, 7, 10, 11, 12, 13, 14, 15)]
    for c2 in core.shrink(core_part):
        nn = sum(1 for l in c2 if l[0] == 2)
        yield build(c2 + [l for l in ext if l[0] in (6, 7, 10, 11, 12, 13, 14, 15) or l[1] < nn], noises, plan_line)
    for j, nz in enumerate(noises):
        core_part = [l for l in nz if l[0] in (1, 2, 3)]
        ext = [l for l in nz if l[0] in (4, 5, 6, 10)]
        for c2 in core.shrink(core_part):
            nn = sum(1 for l in c2 if l[0] == 2)
            yield build(main, noises[:j] + [c2 + [l for l in ext if l[0] in (6, 10) or l[1] < nn]] + noises[j + 1:], plan_line)
